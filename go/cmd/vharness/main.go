// vharness: runs generated cases on the implementation (built from the repository's current
// tree with -tags verif) and prints, per case, "<case> | <implementation observation>".
// It also hosts the run-time translators T1/T3/T4 (gen ...).
package main

import (
	"bufio"
	"flag"
	"fmt"
	"os"
	"sort"
	"strconv"

	"k8s.io/klog/v2"
)

type runner func(env *Env)

var runners = map[string]runner{}

func register(name string, r runner) { runners[name] = r }

// Env carries the PRNG, tier and output sinks of one run.
type Env struct {
	Rng    *Rng
	Tier   string
	Seed   uint64
	out    *bufio.Writer
	stats  map[string]int
	NCases int
	Replay []string // when non-empty: run exactly these case lines
	GenOnly bool    // -genonly: emit the case lines without running them (crash isolation by bin/check)
}

func (e *Env) Thorough() bool { return e.Tier == "thorough" }

// Emit writes one "<case> | <obs>" line.
func (e *Env) Emit(c string, obs string) {
	fmt.Fprintf(e.out, "%s | %s\n", c, obs)
	e.NCases++
}

// Count increments a distribution counter reported in the evidence.
func (e *Env) Count(k string) { e.stats[k]++ }

func main() {
	klog.InitFlags(nil)
	flag.Set("logtostderr", "false")
	flag.Set("alsologtostderr", "false")
	flag.Set("stderrthreshold", "FATAL")
	klog.SetOutput(discard{})
	klog.SetOutputBySeverity("ERROR", errCounter{})
	if len(os.Args) < 2 {
		fmt.Fprintln(os.Stderr, "usage: vharness <PROP|gen> ...")
		os.Exit(2)
	}
	cmd := os.Args[1]
	if cmd == "gen" {
		gen(os.Args[2:])
		return
	}
	r, ok := runners[cmd]
	if !ok {
		fmt.Fprintln(os.Stderr, "unknown property", cmd)
		os.Exit(2)
	}
	fs := flag.NewFlagSet(cmd, flag.ExitOnError)
	seed := fs.Uint64("seed", 1, "PRNG seed")
	tier := fs.String("tier", "quick", "quick|thorough")
	outp := fs.String("out", "", "output file (default stdout)")
	statp := fs.String("stats", "", "distribution counters file")
	replay := fs.String("replay", "", "file with case lines to run instead of generating")
	genonly := fs.Bool("genonly", false, "emit generated case lines without running them")
	fs.Parse(os.Args[2:])
	w := os.Stdout
	if *outp != "" {
		f, err := os.Create(*outp)
		if err != nil {
			panic(err)
		}
		defer f.Close()
		w = f
	}
	env := &Env{Rng: NewRng(*seed), Tier: *tier, Seed: *seed, out: bufio.NewWriterSize(w, 1<<20), stats: map[string]int{}, GenOnly: *genonly}
	if *replay != "" {
		f, err := os.Open(*replay)
		if err != nil {
			panic(err)
		}
		sc := bufio.NewScanner(f)
		sc.Buffer(make([]byte, 1<<20), 1<<26)
		for sc.Scan() {
			if len(sc.Text()) > 0 {
				env.Replay = append(env.Replay, sc.Text())
			}
		}
		f.Close()
	}
	r(env)
	env.out.Flush()
	if *statp != "" {
		f, _ := os.Create(*statp)
		keys := make([]string, 0, len(env.stats))
		for k := range env.stats {
			keys = append(keys, k)
		}
		sort.Strings(keys)
		for _, k := range keys {
			fmt.Fprintf(f, "%s %s\n", k, strconv.Itoa(env.stats[k]))
		}
		f.Close()
	}
}

type discard struct{}

func (discard) Write(p []byte) (int, error) { return len(p), nil }
