package main

import (
	"fmt"
	"math"
	"net"
	"strings"
	"sync/atomic"

	"github.com/vmware/go-ipfix/pkg/entities"
)

// errCount counts klog ERROR lines (the only trace of swallowed encode errors).
var errCount atomic.Int64

type errCounter struct{}

func (errCounter) Write(p []byte) (int, error) { errCount.Add(1); return len(p), nil }


// IESpec is an element as it appears in case lines: <id> <dtcode> <ent> <len>.
type IESpec struct {
	ID  uint16
	DT  uint8
	Ent uint32
	Len uint16
}

func (s IESpec) String() string { return fmt.Sprintf("%d %d %d %d", s.ID, s.DT, s.Ent, s.Len) }
func (s IESpec) IE(name string) *entities.InfoElement {
	return entities.NewInfoElement(name, s.ID, entities.IEDataType(s.DT), s.Ent, s.Len)
}
func parseIESpec(t []string) (IESpec, []string) {
	return IESpec{uint16(atou(t[0])), uint8(atou(t[1])), uint32(atou(t[2])), uint16(atou(t[3]))}, t[4:]
}

// parseObytes: "nil" | bytes-arg
func parseObytes(t []string) ([]byte, []string) {
	if t[0] == "nil" {
		return nil, t[1:]
	}
	return ParseBytesArg(t)
}

// MkElem builds the concrete element kind named in the case with the given value.
func MkElem(ie *entities.InfoElement, t []string) (entities.InfoElementWithValue, []string) {
	kind := t[0]
	t = t[1:]
	switch kind {
	case "oct":
		b, r := parseObytes(t)
		return entities.NewOctetArrayInfoElement(ie, b), r
	case "mac":
		b, r := parseObytes(t)
		return entities.NewMacAddressInfoElement(ie, net.HardwareAddr(b)), r
	case "ip":
		b, r := parseObytes(t)
		return entities.NewIPAddressInfoElement(ie, net.IP(b)), r
	case "str":
		b, r := ParseBytesArg(t)
		return entities.NewStringInfoElement(ie, string(b)), r
	case "u8":
		return entities.NewUnsigned8InfoElement(ie, uint8(atou(t[0]))), t[1:]
	case "u16":
		return entities.NewUnsigned16InfoElement(ie, uint16(atou(t[0]))), t[1:]
	case "u32":
		return entities.NewUnsigned32InfoElement(ie, uint32(atou(t[0]))), t[1:]
	case "u64":
		return entities.NewUnsigned64InfoElement(ie, atou(t[0])), t[1:]
	case "i8":
		return entities.NewSigned8InfoElement(ie, int8(atoz(t[0]))), t[1:]
	case "i16":
		return entities.NewSigned16InfoElement(ie, int16(atoz(t[0]))), t[1:]
	case "i32":
		return entities.NewSigned32InfoElement(ie, int32(atoz(t[0]))), t[1:]
	case "i64":
		return entities.NewSigned64InfoElement(ie, atoz(t[0])), t[1:]
	case "f32":
		return entities.NewFloat32InfoElement(ie, math.Float32frombits(uint32(atou(t[0])))), t[1:]
	case "f64":
		return entities.NewFloat64InfoElement(ie, math.Float64frombits(atou(t[0]))), t[1:]
	case "dts":
		return entities.NewDateTimeSecondsInfoElement(ie, uint32(atou(t[0]))), t[1:]
	case "dtms":
		return entities.NewDateTimeMillisecondsInfoElement(ie, atou(t[0])), t[1:]
	case "bool":
		return entities.NewBoolInfoElement(ie, t[0] == "T"), t[1:]
	}
	panic("bad kind " + kind)
}

// ShowElem renders a (decoded) element by its data type, as coq/Driver/Show.v show_value.
func ShowElem(e entities.InfoElementWithValue) (s string) {
	defer func() {
		if r := recover(); r != nil {
			s = "getter-panic"
		}
	}()
	switch e.GetDataType() {
	case entities.OctetArray:
		return "oct " + ShowBytes(e.GetOctetArrayValue())
	case entities.Unsigned8:
		return fmt.Sprintf("u8 %d", e.GetUnsigned8Value())
	case entities.Unsigned16:
		return fmt.Sprintf("u16 %d", e.GetUnsigned16Value())
	case entities.Unsigned32:
		return fmt.Sprintf("u32 %d", e.GetUnsigned32Value())
	case entities.Unsigned64:
		return fmt.Sprintf("u64 %d", e.GetUnsigned64Value())
	case entities.Signed8:
		return fmt.Sprintf("i8 %d", e.GetSigned8Value())
	case entities.Signed16:
		return fmt.Sprintf("i16 %d", e.GetSigned16Value())
	case entities.Signed32:
		return fmt.Sprintf("i32 %d", e.GetSigned32Value())
	case entities.Signed64:
		return fmt.Sprintf("i64 %d", e.GetSigned64Value())
	case entities.Float32:
		return fmt.Sprintf("f32 %d", math.Float32bits(e.GetFloat32Value()))
	case entities.Float64:
		return fmt.Sprintf("f64 %d", math.Float64bits(e.GetFloat64Value()))
	case entities.Boolean:
		return "bool " + ShowBool(e.GetBooleanValue())
	case entities.MacAddress:
		return "mac " + ShowBytes(e.GetMacAddressValue())
	case entities.String:
		return "str " + ShowBytes([]byte(e.GetStringValue()))
	case entities.DateTimeSeconds:
		return fmt.Sprintf("dts %d", e.GetUnsigned32Value())
	case entities.DateTimeMilliseconds:
		return fmt.Sprintf("dtms %d", e.GetUnsigned64Value())
	case entities.Ipv4Address, entities.Ipv6Address:
		return "ip " + ShowBytes(e.GetIPAddressValue())
	}
	return "unsupported"
}

// ShowRecords renders decoded records as coq/Driver/C15drv.v show_records.
func ShowRecords(recs []entities.Record) string {
	var sb strings.Builder
	fmt.Fprintf(&sb, "n=%d", len(recs))
	for _, r := range recs {
		sb.WriteString(" ;")
		for _, e := range r.GetOrderedElementList() {
			sb.WriteString(" ")
			sb.WriteString(ShowElem(e))
		}
	}
	return sb.String()
}

// errClass maps an error message of the library to the model's error enum (never compared as text
// beyond this classification).
func errClass(err error) string {
	m := err.Error()
	switch {
	case strings.Contains(m, "zero-length records"):
		return "zerolen"
	case strings.Contains(m, "truncated"), strings.Contains(m, "cannot read length"), strings.Contains(m, "error in decoding data"):
		return "short"
	case strings.Contains(m, "invalid version"):
		return "version"
	case strings.Contains(m, "does not exist"):
		return "notemplate"
	case strings.Contains(m, "cannot be found"), strings.Contains(m, "is not supported."):
		return "unknownie"
	case strings.Contains(m, "micro and nano"), strings.Contains(m, "supports only valid information elements"):
		return "unsupported"
	case strings.Contains(m, "sanity check"):
		return "sanity"
	case strings.Contains(m, "exceeds max socket"):
		return "toobig"
	case strings.Contains(m, "set type"):
		return "settype"
	case strings.Contains(m, "non-empty value"):
		return "value"
	}
	return "other"
}
