package main

// C04: histories of template / bad-template / data messages over several (observation domain,
// template id) keys through one collecting process; per message the outcome and the
// VerifTemplates() snapshot. Every history ends with probes (data sets shaped for both
// templates) for every key, so that the table is also visible through decoding outcomes.

import (
	"encoding/binary"
	"strings"

	"github.com/vmware/go-ipfix/pkg/entities"
	"github.com/vmware/go-ipfix/pkg/registry"
)

func init() { register("C04", runC04) }

type c04Alphabet struct {
	fsA, fsB           []fieldSpec
	r                  *Rng
	idReadableCountNot int
}

const (
	c04TplA = iota
	c04TplB
	c04BadAfter
	c04BadBefore
	c04DataA
	c04DataB
	c04Kinds
)

var c04KindName = []string{"tplA", "tplB", "bad-after-hdr", "bad-before-hdr", "dataA", "dataB"}

func (a *c04Alphabet) packet(kind int, dom uint32, tid uint16) []byte {
	r := a.r
	switch kind {
	case c04TplA:
		return templatePkt(dom, tid, a.fsA)
	case c04TplB:
		return templatePkt(dom, tid, a.fsB)
	case c04BadAfter:
		// the 4-byte record header is readable, the field specifiers are not acceptable
		switch r.Intn(5) {
		case 0: // field specifiers cut short
			p := templatePkt(dom, tid, a.fsA)
			cut := 24 + r.Intn(len(p)-24+1)
			if cut == len(p) {
				cut = 24
			}
			return p[:cut]
		case 1: // count larger than the specifiers present
			p := templatePkt(dom, tid, a.fsB)
			binary.BigEndian.PutUint16(p[22:], uint16(len(a.fsB)+1+r.Intn(3)))
			return p
		case 2: // an element of a type the library cannot decode (dateTimeMicroseconds)
			return templatePkt(dom, tid, append(append([]fieldSpec{}, a.fsA...), fieldSpec{ID: 154, Len: 8}))
		case 3: // element id 0 ("Unassigned", invalid data type)
			return templatePkt(dom, tid, []fieldSpec{{ID: 0, Len: 0}})
		default: // enterprise specifier without its enterprise number
			p := templatePkt(dom, tid, []fieldSpec{{ID: 7, Len: 2}})
			p[24] |= 0x80
			return p
		}
	case c04BadBefore:
		p := templatePkt(dom, tid, a.fsA)
		k := r.Intn(4) // 0..3 bytes of the record header
		if k >= 2 {
			a.idReadableCountNot++ // the id itself is on the wire, the count is not: NoEffect by the code's placement of the deletion
		}
		return p[:20+k]
	case c04DataA:
		return msgBytes(10, dom, 7, tid, dataBody(r, a.fsA, 1+r.Intn(2), 0))
	case c04DataB:
		return msgBytes(10, dom, 8, tid, dataBody(r, a.fsB, 1+r.Intn(2), 0))
	}
	panic("kind")
}

func c04Template(r *Rng, avoidUnknown bool) []fieldSpec {
	for {
		fs := randomTemplate(r, 4)
		if len(fs) == 0 || minRecLen(fs) == 0 {
			continue
		}
		if avoidUnknown {
			ok := true
			for _, f := range fs {
				if !f.Known {
					ok = false
				}
			}
			if !ok {
				continue
			}
		}
		return fs
	}
}

func runC04(env *Env) {
	registry.LoadRegistry()
	pool := &DecPool{}
	defer pool.Close()
	if len(env.Replay) > 0 {
		for _, l := range env.Replay {
			c := strings.Join(caseTokens(l), " ")
			env.Emit("C04 "+c, pool.Run("C04 "+c))
		}
		return
	}
	r := env.Rng
	doms := []uint32{0, 1, 4294967295}
	tids := []uint16{256, 257, 65535}
	modes := []string{"S", "K", "D"}
	probes := func(a *c04Alphabet) []string {
		out := []string{}
		for _, d := range doms {
			for _, t := range tids {
				out = append(out, pktArg(a.packet(c04DataA, d, t)), pktArg(a.packet(c04DataB, d, t)))
			}
		}
		return out
	}
	emit := func(mode string, class string, pkts []string) {
		if pool.Tripped() {
			return
		}
		c := mode + " " + strings.Join(pkts, " ")
		env.Count(class)
		env.Emit("C04 "+c, pool.Run("C04 "+c))
	}
	// twin: a template with pairwise the same element ids and wire lengths as fs but other
	// enterprise numbers: the reverse element (29305) where the registry has one, else (lenient
	// modes only) an enterprise the registry does not know. Replacing a template by its twin
	// changes which elements the data belongs to and nothing else about its shape.
	twin := func(fs []fieldSpec, mode string) []fieldSpec {
		out := []fieldSpec{}
		changed := false
		for _, f := range fs {
			g := f
			if f.Known && f.Ent == registry.IANAEnterpriseID && r.Intn(4) != 0 {
				if ie, err := registry.GetInfoElementFromID(f.ID, registry.IANAReversedEnterpriseID); err == nil {
					if _, err := entities.DecodeAndCreateInfoElementWithValue(ie, nil); err == nil && entities.InfoElementLength[ie.DataType] == f.effLen() {
						g = fieldSpec{ID: ie.ElementId, Ent: ie.EnterpriseId, Len: f.Len, DT: ie.DataType, Known: true}
						changed = true
					}
				}
			}
			if g.Ent == f.Ent && mode != "S" && f.effLen() != entities.VariableLength && r.Bool() {
				for _, ent := range []uint32{12345, 4294967295, 77} {
					if ent != f.Ent && !isKnown(f.ID, ent) {
						g = fieldSpec{ID: f.ID, Ent: ent, Len: f.effLen(), DT: entities.OctetArray}
						changed = true
						break
					}
				}
			}
			out = append(out, g)
		}
		if !changed {
			return nil
		}
		return out
	}
	newAlphabet := func(mode string) *c04Alphabet {
		if r.Intn(10) == 0 {
			// B is the degenerate template without fields (accepted by the collector, it defines
			// zero-length records): it REPLACES A like any other template
			env.Count("alphabet/B-has-no-fields")
			return &c04Alphabet{fsA: c04Template(r, true), fsB: nil, r: r}
		}
		if r.Intn(4) == 0 {
			for try := 0; try < 20; try++ {
				a := c04Template(r, true)
				if b := twin(a, mode); b != nil {
					env.Count("alphabet/B-is-enterprise-twin-of-A")
					return &c04Alphabet{fsA: a, fsB: b, r: r}
				}
			}
		}
		// template A is always acceptable in the mode; B may contain unknown elements (then it
		// is a bad-after-header message in strict mode)
		return &c04Alphabet{fsA: c04Template(r, true), fsB: c04Template(r, mode == "S" && r.Bool()), r: r}
	}
	type sym struct {
		kind int
		d    uint32
		t    uint16
	}
	var all []sym
	for k := 0; k < c04Kinds; k++ {
		for _, d := range doms {
			for _, t := range tids {
				all = append(all, sym{k, d, t})
			}
		}
	}
	// --- exhaustive small histories: all of length <= 2 (quick) / <= 3 (thorough) over
	//     6 kinds x 3 domains x 3 ids, each followed by the probes ---
	maxLen := 2
	if env.Thorough() {
		maxLen = 3
	}
	var rec func(prefix []sym)
	rec = func(prefix []sym) {
		if len(prefix) > 0 {
			mode := modes[r.Intn(3)]
			a := newAlphabet(mode)
			pk := []string{}
			for _, s := range prefix {
				pk = append(pk, pktArg(a.packet(s.kind, s.d, s.t)))
				env.Count("msg/" + c04KindName[s.kind])
			}
			emit(mode, "exhaustive/len"+string(rune('0'+len(prefix))), append(pk, probes(a)...))
			for k := 0; k < a.idReadableCountNot; k++ {
				env.Count("msg/bad-before-hdr/id-readable-count-not")
			}
		}
		if len(prefix) == maxLen {
			return
		}
		for _, s := range all {
			rec(append(append([]sym{}, prefix...), s))
		}
	}
	rec(nil)
	// --- random long histories ---
	n := 700
	if env.Thorough() {
		n = 40000
	}
	for it := 0; it < n; it++ {
		mode := modes[r.Intn(3)]
		a := newAlphabet(mode)
		l := 3 + r.Intn(58)
		pk := []string{}
		for j := 0; j < l; j++ {
			s := all[r.Intn(len(all))]
			if r.Intn(3) == 0 { // concentrate on one or two keys so that replacement happens
				s.d, s.t = doms[r.Intn(2)], tids[0]
			}
			pk = append(pk, pktArg(a.packet(s.kind, s.d, s.t)))
			env.Count("msg/" + c04KindName[s.kind])
			if r.Intn(12) == 0 { // noise: not IPFIX, or a message header cut short
				x := a.packet(c04TplA, s.d, s.t)
				if r.Bool() {
					binary.BigEndian.PutUint16(x[0:], 9)
				} else {
					x = x[:r.Intn(20)]
				}
				pk = append(pk, pktArg(x))
				env.Count("msg/noise")
			}
		}
		emit(mode, "random", append(pk, probes(a)...))
		for k := 0; k < a.idReadableCountNot; k++ {
			env.Count("msg/bad-before-hdr/id-readable-count-not")
		}
	}
	_ = entities.VariableLength
}
