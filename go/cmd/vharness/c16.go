package main

// C16: set and record builders. A case is a sequence of builder operations on one real
// entities.Set (NewSet(false); with the prefix DEC: NewSet(true), see c16Dec); every "O" takes a snapshot: GetSetType/GetSetLength/
// GetHeaderBuffer, every record's GetTemplateID/GetFieldCount/GetRecordLength/GetBuffer/
// GetMinDataRecordLen, exporter.CreateIPFIXMsg's output, whether a fresh set replaying the
// operations since the last ResetSet looks the same (F) and whether the same sequence with all
// adds forced to AddRecord / AddRecordWithExtraElements(3) / AddRecordV2 looks the same (V).

import (
	"fmt"
	"strings"

	"github.com/vmware/go-ipfix/pkg/entities"
	"github.com/vmware/go-ipfix/pkg/registry"
)

func init() { register("C16", runC16) }

// c16Dec runs a case on the decoding variant of the builder (NewSet(true), as the collector
// uses it): per op its result, per "O" the same snapshot plus V (the three add forms agree).
func c16Dec(toks []string) string {
	ops, _ := parseSetOps(toks)
	s := entities.NewSet(true)
	var out []string
	for i, o := range ops {
		switch o.kind {
		case 'O':
			snap := snapshotSet(s, true, o.obs)
			v := true
			for _, form := range []string{"1", "X", "2"} {
				alt := entities.NewSet(true)
				for _, p := range ops[:i] {
					if p.kind != 'O' {
						applyOp(alt, p, form)
					}
				}
				if snapshotSet(alt, true, o.obs) != snap {
					v = false
				}
			}
			out = append(out, snap+" V "+ShowBool(v))
		default:
			out = append(out, applyOp(s, o, ""))
		}
	}
	return strings.Join(out, " ")
}

func c16One(toks []string) string {
	if len(toks) > 0 && toks[0] == "DEC" {
		return c16Dec(toks[1:])
	}
	ops, _ := parseSetOps(toks)
	s := entities.NewSet(false)
	var out []string
	lastReset := 0
	prepared := false
	for i, o := range ops {
		switch o.kind {
		case 'O':
			snap := snapshotSet(s, true, o.obs)
			// fresh set replaying the suffix since the last reset
			fresh := entities.NewSet(false)
			for _, p := range ops[lastReset:i] {
				if p.kind != 'O' {
					applyOp(fresh, p, "")
				}
			}
			f := snapshotSet(fresh, prepared, o.obs) == snapshotSet(s, prepared, o.obs)
			// the three add forms
			v := true
			for _, form := range []string{"1", "X", "2"} {
				alt := entities.NewSet(false)
				for _, p := range ops[:i] {
					if p.kind != 'O' {
						applyOp(alt, p, form)
					}
				}
				if snapshotSet(alt, true, o.obs) != snap {
					v = false
				}
			}
			out = append(out, snap+" F "+ShowBool(f)+" V "+ShowBool(v))
		default:
			res := applyOp(s, o, "")
			out = append(out, res)
			if o.kind == 'R' {
				lastReset, prepared = i+1, false
			}
			if o.kind == 'P' && res == "ok" {
				prepared = true
			}
		}
	}
	return strings.Join(out, " ")
}

// genAdd renders one add op for a set of type ty ("T"/"D"/"U"): the form, a template id
// and the elements.
func genAdd(env *Env, ty string, id int) string {
	r := env.Rng
	form := []string{"1", "2", "X0", "X1", "X5"}[r.Intn(5)]
	if r.Intn(60) == 0 {
		form = "X-1"
		env.Count("add/negative-extra")
	}
	n := r.Intn(6)
	if r.Intn(10) == 0 {
		n = 6 + r.Intn(30)
	}
	var els []string
	for i := 0; i < n; i++ {
		switch {
		case ty == "T" && r.Intn(12) != 0:
			els = append(els, zeroElem(r))
		case ty != "T" && r.Intn(10) == 0:
			e, cl := illElem(r)
			env.Count("elem/ill-" + cl)
			els = append(els, e)
		case r.Intn(12) == 0:
			// an element whose declared length disagrees with how its kind reports its length: a
			// string element declared with a fixed length (user-registered). The bookkeeping of
			// the three add forms must still agree.
			sp := genSpec(r, entities.String, 1+r.Intn(40))
			env.Count("elem/odd-declared-length")
			if ty == "T" {
				els = append(els, sp.String()+" "+zeroValue(entities.IEDataType(sp.DT)))
			} else {
				els = append(els, sp.String()+" "+wfValue(r, sp))
			}
		default:
			els = append(els, wfElem(r))
		}
	}
	s := fmt.Sprintf("A %s %d %d", form, id, n)
	if len(els) > 0 {
		s += " " + strings.Join(els, " ")
	}
	if r.Intn(15) == 0 {
		s = fmt.Sprintf("N %d ", 2+r.Intn(5)) + s
	}
	return s
}

func obsTok(r *Rng) string {
	return fmt.Sprintf("O %d %d %d", r.U64()&0xffffffff, r.U64()&0xffffffff, r.U64()&0xffffffff)
}

func genC16Seq(env *Env, maxOps int) string {
	r := env.Rng
	var ops []string
	ty := "T" // a new set's type is the zero value Template
	wild := r.Intn(6) == 0 // sometimes ignore the well-formed order
	prepared := false
	n := 3 + r.Intn(maxOps)
	for i := 0; i < n; i++ {
		k := r.Intn(20)
		switch {
		case !prepared && !wild && k < 16:
			k = 0
		}
		switch {
		case k < 3:
			t := []string{"T", "D", "D", "U"}[r.Intn(4)]
			if r.Intn(4) != 0 && prepared && !wild {
				continue // usually one prepare per cycle
			}
			id := 256 + r.Intn(400)
			if r.Intn(8) == 0 {
				id = []int{0, 2, 255, 65535}[r.Intn(4)]
			}
			ops = append(ops, fmt.Sprintf("P %s %d", t, id))
			if t != "U" {
				ty, prepared = t, true
			}
		case k < 13:
			ops = append(ops, genAdd(env, ty, 256+r.Intn(400)))
		case k < 15:
			ops = append(ops, "L")
		case k < 17:
			ops = append(ops, obsTok(r))
		default:
			ops = append(ops, obsTok(r), "R")
			ty, prepared = "U", false
		}
	}
	ops = append(ops, obsTok(r))
	if wild {
		env.Count("seq/any-order")
	} else {
		env.Count("seq/well-formed-order")
	}
	return strings.Join(ops, " ")
}

func runC16(env *Env) {
	registry.LoadRegistry()
	if len(env.Replay) > 0 {
		for _, l := range env.Replay {
			t := strings.Fields(l)
			c := t[1:]
			for i, x := range c {
				if x == "|" {
					c = c[:i]
					break
				}
			}
			env.Emit("C16 "+strings.Join(c, " "), c16One(c))
		}
		return
	}
	emit := func(c string) { env.Emit("C16 "+c, c16One(strings.Fields(c))) }
	r := env.Rng
	// fixed shapes: empty sets, reset of a fresh set, observe at every stage
	for _, c := range []string{
		"O 1 2 3",
		"L O 1 2 3",
		"R O 1 2 3",
		"P T 256 O 1 2 3 L O 1 2 3",
		"P D 300 O 1 2 3 A 1 300 0 O 1 2 3 L O 1 2 3 R O 4 5 6 P T 0 A 2 256 0 L O 7 8 9",
		"P U 5 O 1 2 3 A 1 256 1 7 1 0 1 u8 9 O 1 2 3",
		"A 1 256 1 7 1 0 1 u8 0 O 1 2 3 R A 1 256 1 7 1 0 1 u8 0 O 1 2 3",
		"P T 256 A 1 256 1 7 1 0 1 u8 9 A 2 256 1 7 1 0 1 u8 9 O 1 2 3",
		"P D 256 A 1 999 1 7 1 0 1 u8 9 P T 1 A 2 5 1 8 2 29305 2 u16 0 P D 7 L O 1 2 3",
	} {
		env.Count("shape/fixed")
		emit(c)
	}
	// sets whose message length straddles MaxSocketMsgSize: one string of c bytes -> msg = c + 23
	for ml := 65525; ml <= 65542; ml++ {
		env.Count("shape/size-boundary")
		emit(fmt.Sprintf("P D 256 A %s 256 1 5 13 0 65535 str pat %d %d L O 9 8 7 R P D 256 O 1 1 1", []string{"1", "2", "X2"}[ml%3], ml-23, r.Intn(1000)))
	}
	// many small records, uint16 wrap of the set length field (set length 65536+ is still built)
	for _, cnt := range []int{1, 255, 256, 4095, 16380, 16383, 16384} {
		env.Count("shape/many-records")
		emit(fmt.Sprintf("P D 256 N %d A 2 256 1 9 3 0 4 u32 %d L O 1 2 3", cnt, cnt))
	}
	// the decoding variant: fixed shapes (new set, data set with the three add forms, template
	// set, stale length after a reset) and random sequences
	for _, c := range []string{
		"DEC O 1 2 3",
		"DEC L R O 1 2 3",
		"DEC P D 300 A 1 300 1 7 1 0 1 u8 9 A 2 300 1 7 1 0 1 u8 9 A X2 300 2 7 1 0 1 u8 9 5 13 0 65535 str hex 4142 L O 1 2 3",
		"DEC P T 256 A 1 256 2 7 1 0 1 u8 0 8 2 29305 2 u16 0 O 1 2 3 R O 4 5 6 P D 256 A 2 256 1 7 1 0 1 u8 1 O 7 8 9",
		"DEC A 2 256 1 7 1 0 1 u8 0 O 1 2 3 P U 9 O 1 2 3",
		"DEC P D 256 A X-1 256 1 7 1 0 1 u8 1 A 1 256 1 4 18 0 4 ip hex 20010db8000000000000000000000001 O 1 2 3",
	} {
		env.Count("shape/decoding-fixed")
		emit(c)
	}
	nd := 250
	if env.Thorough() {
		nd = 6000
	}
	for i := 0; i < nd; i++ {
		env.Count("seq/decoding")
		emit("DEC " + genC16Seq(env, 20))
	}
	n := 1500
	maxOps := 30
	if env.Thorough() {
		n, maxOps = 40000, 300
	}
	for i := 0; i < n; i++ {
		emit(genC16Seq(env, maxOps))
	}
}
