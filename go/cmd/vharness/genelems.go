package main

// Random element (spec + value) tokens for set-builder / exporter cases.

import (
	"fmt"

	"github.com/vmware/go-ipfix/pkg/entities"
)

var genEnts = []uint32{0, 0, 0, 29305, 56506, 12345, 4294967295}

func genSpec(r *Rng, dt entities.IEDataType, ln int) IESpec {
	l := entities.InfoElementLength[dt]
	if ln >= 0 {
		l = uint16(ln)
	}
	return IESpec{uint16(1 + r.Intn(32767)), uint8(dt), genEnts[r.Intn(len(genEnts))], l}
}

var genTypes = []entities.IEDataType{
	entities.OctetArray, entities.Unsigned8, entities.Unsigned16, entities.Unsigned32, entities.Unsigned64,
	entities.Signed8, entities.Signed16, entities.Signed32, entities.Signed64, entities.Float32, entities.Float64,
	entities.Boolean, entities.MacAddress, entities.String, entities.DateTimeSeconds, entities.DateTimeMilliseconds,
	entities.Ipv4Address, entities.Ipv6Address,
}

func randU(r *Rng, bits uint) uint64 {
	max := ^uint64(0)
	if bits < 64 {
		max = uint64(1)<<bits - 1
	}
	switch r.Intn(5) {
	case 0:
		return 0
	case 1:
		return max
	case 2:
		return (max >> 1) + uint64(r.Intn(2))
	}
	return r.U64() & max
}

// zeroValue renders the empty value of a data type (what a template record accepts).
func zeroValue(dt entities.IEDataType) string {
	switch dt {
	case entities.OctetArray:
		return "oct nil"
	case entities.Unsigned8:
		return "u8 0"
	case entities.Unsigned16:
		return "u16 0"
	case entities.Unsigned32:
		return "u32 0"
	case entities.Unsigned64:
		return "u64 0"
	case entities.Signed8:
		return "i8 0"
	case entities.Signed16:
		return "i16 0"
	case entities.Signed32:
		return "i32 0"
	case entities.Signed64:
		return "i64 0"
	case entities.Float32:
		return "f32 0"
	case entities.Float64:
		return "f64 0"
	case entities.Boolean:
		return "bool F"
	case entities.MacAddress:
		return "mac nil"
	case entities.String:
		return "str -"
	case entities.DateTimeSeconds:
		return "dts 0"
	case entities.DateTimeMilliseconds:
		return "dtms 0"
	}
	return "ip nil"
}

func patArg(r *Rng, n int) string {
	if n == 0 {
		return "-"
	}
	if n <= 24 {
		return BytesArg(r.Bytes(n))
	}
	return fmt.Sprintf("pat %d %d", n, r.Intn(1<<30))
}

func smallLen(r *Rng) int {
	switch r.Intn(12) {
	case 0:
		return 0
	case 1:
		return []int{254, 255, 256, 300}[r.Intn(4)]
	}
	return r.Intn(20)
}

// wfValue renders a well-typed value for spec (fixed-length octet arrays get exactly Len bytes).
func wfValue(r *Rng, s IESpec) string {
	switch entities.IEDataType(s.DT) {
	case entities.OctetArray:
		if s.Len < 65535 {
			return "oct " + patArg(r, int(s.Len))
		}
		return "oct " + patArg(r, smallLen(r))
	case entities.Unsigned8:
		return fmt.Sprintf("u8 %d", randU(r, 8))
	case entities.Unsigned16:
		return fmt.Sprintf("u16 %d", randU(r, 16))
	case entities.Unsigned32:
		return fmt.Sprintf("u32 %d", randU(r, 32))
	case entities.Unsigned64:
		return fmt.Sprintf("u64 %d", randU(r, 64))
	case entities.Signed8:
		return fmt.Sprintf("i8 %d", int8(randU(r, 8)))
	case entities.Signed16:
		return fmt.Sprintf("i16 %d", int16(randU(r, 16)))
	case entities.Signed32:
		return fmt.Sprintf("i32 %d", int32(randU(r, 32)))
	case entities.Signed64:
		return fmt.Sprintf("i64 %d", int64(randU(r, 64)))
	case entities.Float32:
		return fmt.Sprintf("f32 %d", randU(r, 32))
	case entities.Float64:
		return fmt.Sprintf("f64 %d", randU(r, 64))
	case entities.Boolean:
		return "bool " + ShowBool(r.Bool())
	case entities.MacAddress:
		return "mac " + BytesArg(r.Bytes(6))
	case entities.String:
		return "str " + patArg(r, smallLen(r))
	case entities.DateTimeSeconds:
		return fmt.Sprintf("dts %d", randU(r, 32))
	case entities.DateTimeMilliseconds:
		return fmt.Sprintf("dtms %d", randU(r, 64))
	case entities.Ipv4Address:
		v4 := r.Bytes(4)
		if r.Intn(4) == 0 {
			return "ip " + BytesArg(append([]byte{0, 0, 0, 0, 0, 0, 0, 0, 0, 0, 0xff, 0xff}, v4...))
		}
		return "ip " + BytesArg(v4)
	case entities.Ipv6Address:
		if r.Intn(5) == 0 {
			return "ip " + BytesArg(r.Bytes(4))
		}
		return "ip " + BytesArg(r.Bytes(16))
	}
	panic("wfValue")
}

// illElem renders an element whose value cannot be encoded faithfully (no panic involved):
// wrong address family / length, nil address, MAC of the wrong length, fixed octet array of the
// wrong length. Returns tokens and a class name.
func illElem(r *Rng) (string, string) {
	switch r.Intn(8) {
	case 0:
		n := []int{0, 1, 5, 7, 8}[r.Intn(5)]
		return genSpec(r, entities.MacAddress, -1).String() + " mac " + patArg(r, n), "mac-len"
	case 1:
		return genSpec(r, entities.MacAddress, -1).String() + " mac nil", "mac-nil"
	case 2:
		return genSpec(r, entities.Ipv4Address, -1).String() + " ip " + BytesArg(r.Bytes(16)), "v6-in-v4"
	case 3:
		return genSpec(r, entities.Ipv4Address, -1).String() + " ip nil", "ip-nil"
	case 4:
		return genSpec(r, entities.Ipv6Address, -1).String() + " ip nil", "ip-nil"
	case 5:
		return genSpec(r, entities.Ipv6Address, -1).String() + " ip " + BytesArg(r.Bytes(15)), "ip-len"
	case 6:
		return genSpec(r, entities.Ipv4Address, -1).String() + " ip " + BytesArg(r.Bytes(5)), "ip-len"
	}
	l := 1 + r.Intn(9)
	d := l + 1
	if r.Bool() {
		d = l - 1
	}
	return genSpec(r, entities.OctetArray, l).String() + " oct " + patArg(r, d), "oct-fixed-len"
}

// randSpec picks an element spec: any supported type, sometimes a fixed-length octet array.
func randSpec(r *Rng) IESpec {
	dt := genTypes[r.Intn(len(genTypes))]
	if dt == entities.OctetArray && r.Bool() {
		return genSpec(r, dt, r.Intn(12))
	}
	return genSpec(r, dt, -1)
}

// wfElem: spec + well-typed value; zeroElem: spec + empty value.
func wfElem(r *Rng) string {
	s := randSpec(r)
	return s.String() + " " + wfValue(r, s)
}
func zeroElem(r *Rng) string {
	s := randSpec(r)
	return s.String() + " " + zeroValue(entities.IEDataType(s.DT))
}
