package main

// C07 (inter-node correlation): generator only; the engine is aggRunCase in c06.go.

import (
	"fmt"
	"strings"

	"github.com/vmware/go-ipfix/pkg/intermediate"
	"github.com/vmware/go-ipfix/pkg/registry"
)

func init() { register("C07", runC07) }

func runC07(env *Env) {
	registry.LoadRegistry()
	if aggReplay(env, "C07") {
		return
	}
	// util.go seeds by adding seed*gamma to a Weyl sequence, so the streams of nearby seeds are
	// shifts of each other and data-dependent generators re-synchronise; start from a scrambled state
	r := NewRng(env.Rng.U64() ^ 0xC07)
	liveMR := intermediate.MaxRetries
	liveME := int64(intermediate.MinExpiryTime)
	emit := func(class, c string) {
		env.Count(class)
		env.Emit("C07 "+c, aggRunCase(strings.Fields(c)))
	}
	A, I := int64(4), int64(6)
	// 1. every arrival order and multiplicity up to 4 records of an inter-node flow, the peer
	//    arriving after 0..MaxRetries+1 due scans, for several MaxRetries values
	mrs := []int{liveMR, 0, 1, 3}
	for _, MR := range mrs {
		for n := 1; n <= 4; n++ {
			for bits := 0; bits < 1<<n; bits++ {
				for rounds := 0; rounds <= MR+2; rounds++ {
					if !env.Thorough() && n == 4 && rounds > 1 && MR != liveMR {
						continue
					}
					T, CF := aggFullT, aggFullCF
					if r.Intn(3) == 0 {
						T, CF = aggRandTemplate(r)
					}
					ops := []string{}
					for i := 0; i < n; i++ {
						kind := 2
						if bits>>i&1 == 1 {
							kind = 3
						}
						kw := "rec"
						if kind == 3 && r.Intn(3) == 0 {
							kw = "recr" // the destination node lists the same elements in another order
						}
						ops = append(ops, fmt.Sprintf("%s 0 %s", kw, aggRecVals(r, T, kind)))
						if i == 0 {
							// due scans before the next record arrives: retry rounds
							for j := 0; j < rounds; j++ {
								ops = append(ops, fmt.Sprintf("adv %d", A), "scan 0")
							}
						}
					}
					ops = append(ops, fmt.Sprintf("adv %d", A), "scan 0", fmt.Sprintf("adv %d", I+1), "scan 0", "exp")
					emit(fmt.Sprintf("orders/MR%d", MR), aggHeader(A, I, MR, liveME, T, CF)+" "+strings.Join(ops, " "))
				}
			}
		}
	}
	// 2. flows that need no correlation, and ingress-drop (which does): ready at once or not
	for kind := 0; kind <= 9; kind++ {
		if kind == 8 {
			continue
		}
		reps := 6
		if kind == 9 {
			reps = 64 // all 16 action combinations x side, several times over
		}
		for rep := 0; rep < reps; rep++ {
			T, CF := aggRandTemplate(r)
			other := []int{2, 3}[r.Intn(2)]
			ops := []string{fmt.Sprintf("rec 1 %s", aggRecVals(r, T, kind)), "scan 0",
				fmt.Sprintf("rec 1 %s", aggRecVals(r, T, kind)),
				fmt.Sprintf("adv %d", A), "scan 0",
				fmt.Sprintf("rec 1 %s", aggRecVals(r, T, other)),
				fmt.Sprintf("adv %d", I), "scan 0", "exp"}
			emit(fmt.Sprintf("kinds/%d", kind), aggHeader(A, I, liveMR, liveME, T, CF)+" "+strings.Join(ops, " "))
		}
	}
	// 3. random histories biased to inter-node flows on few keys, with scans at due times
	n := 700
	if env.Thorough() {
		n = 25000
	}
	for i := 0; i < n; i++ {
		A, I := int64(2+r.Intn(5)), int64(2+r.Intn(7))
		MR := liveMR
		if r.Intn(3) == 0 {
			MR = r.Intn(4)
		}
		T, CF := aggRandTemplate(r)
		nk := 1 + r.Intn(3)
		ds := aggDeltas(A, I)
		ops := []string{}
		fam := make([]int, nk)
		for k := range fam {
			fam[k] = []int{2, 2, 2, 0, 1, 4, 6, 9}[r.Intn(8)]
		}
		for j, m := 0, 3+r.Intn(14); j < m; j++ {
			switch x := r.Intn(10); {
			case x < 5:
				k := r.Intn(nk)
				// each key has a family: inter-node needing correlation (records from either
				// node), or one fixed kind that needs none; 1 in 12 records breaks the family
				kind := []int{2, 3, 2, 3, 7}[r.Intn(5)]
				if fam[k] != 2 {
					kind = fam[k]
				}
				if r.Intn(12) == 0 {
					kind = []int{0, 1, 2, 3, 4, 5, 6, 7, 8}[r.Intn(9)]
				}
				kw := "rec"
				if r.Intn(5) == 0 {
					kw = "msg"
				}
				if r.Intn(6) == 0 {
					kw += "r"
				}
				ops = append(ops, fmt.Sprintf("%s %d %s", kw, k, aggRecVals(r, T, kind)))
			case x < 7:
				d := ds[r.Intn(len(ds))]
				if d < 0 {
					d = 0
				}
				ops = append(ops, fmt.Sprintf("adv %d", d))
			default:
				fails := []int{}
				if r.Intn(5) == 0 {
					fails = append(fails, r.Intn(nk))
				}
				ops = append(ops, "scan "+aggInts(fails))
			}
		}
		emit("random", aggHeader(A, I, MR, liveME, T, CF)+" "+strings.Join(ops, " "))
	}
}
