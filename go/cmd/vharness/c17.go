package main

// C17: the same wire bytes through three collectors (strict / keep / drop).
// case: C17 <packet> ; <packet> ; ...    obs: strict outcomes / keep outcomes / drop outcomes.

import (
	"strings"

	"github.com/vmware/go-ipfix/pkg/entities"
	"github.com/vmware/go-ipfix/pkg/registry"
)

func init() { register("C17", runC17) }

func runC17(env *Env) {
	registry.LoadRegistry()
	pool := &DecPool{}
	defer pool.Close()
	if len(env.Replay) > 0 {
		for _, l := range env.Replay {
			c := strings.Join(caseTokens(l), " ")
			env.Emit("C17 "+c, pool.Run("C17 "+c))
		}
		return
	}
	r := env.Rng
	kp := knownPool()
	emit := func(class string, pkts ...string) {
		if pool.Tripped() {
			return
		}
		c := strings.Join(pkts, " ")
		env.Count(class)
		env.Emit("C17 "+c, pool.Run("C17 "+c))
	}
	unknownOf := func(kind int) fieldSpec {
		switch kind {
		case 0:
			return unknownSpec(r, uint16(1+r.Intn(9)))
		case 1:
			return unknownSpec(r, entities.VariableLength)
		case 2:
			return unknownSpec(r, 0)
		default:
			return unknownSpec(r, uint16([]int{1, 2, 4, 8, 16, 64, 300}[r.Intn(7)]))
		}
	}
	reps := 8
	maxN := 6
	if env.Thorough() {
		reps = 60
	}
	// every placement of unknown elements in templates of 1..6 elements
	for n := 1; n <= maxN; n++ {
		for mask := 1; mask < 1<<uint(n); mask++ {
			for rep := 0; rep < reps; rep++ {
				fs := make([]fieldSpec, n)
				for i := 0; i < n; i++ {
					if mask&(1<<uint(i)) != 0 {
						fs[i] = unknownOf((rep + i) % 4)
					} else if r.Intn(4) == 0 {
						for {
							f := kp[r.Intn(len(kp))]
							if f.Len == entities.VariableLength {
								fs[i] = f
								break
							}
						}
					} else {
						fs[i] = kp[r.Intn(len(kp))]
					}
				}
				obs := uint32(r.Intn(3))
				tid := uint16(256 + r.Intn(3))
				tp := pktArg(templatePkt(obs, tid, fs))
				body := dataBody(r, fs, 1+r.Intn(3), 0)
				good := msgBytes(10, obs, 1, tid, body)
				emit("unknown/valid", tp, pktArg(good))
				switch rep % 3 {
				case 0: // padding / truncation of the data
					if len(body) > 0 {
						emit("unknown/truncated", tp, pktArg(good[:20+r.Intn(len(body))]))
					}
					if m := minRecLen(fs); m > 1 {
						emit("unknown/padded", tp, pktArg(append(append([]byte{}, good...), make([]byte, 1+r.Intn(m-1))...)))
					}
				case 1: // a known-only template replaces it, then the same data
					known := []fieldSpec{}
					for _, f := range fs {
						if f.Known {
							known = append(known, f)
						}
					}
					emit("unknown/then-known-only", tp, pktArg(good), pktArg(templatePkt(obs, tid, known)), pktArg(good),
						pktArg(msgBytes(10, obs, 2, tid, dataBody(r, known, 2, 0))))
				case 2: // a known-only template first, then the one with unknown elements (strict must forget the old one)
					known := []fieldSpec{kp[r.Intn(len(kp))]}
					emit("unknown/after-known-only", pktArg(templatePkt(obs, tid, known)), tp, pktArg(good),
						pktArg(msgBytes(10, obs, 2, tid, dataBody(r, known, 2, 0))))
				}
			}
		}
	}
	// the same unknown element (id, enterprise number) announced with different lengths by two
	// templates of one collector (other id, other domain, or a redefinition): each template's own
	// length must be used
	nsame := 60
	if env.Thorough() {
		nsame = 1500
	}
	for it := 0; it < nsame; it++ {
		u1 := unknownOf(it % 4)
		u2 := u1
		for u2.Len == u1.Len {
			u2.Len = []uint16{1, 2, 3, 4, 8, 9, 16, entities.VariableLength}[r.Intn(8)]
		}
		k1, k2 := kp[r.Intn(len(kp))], kp[r.Intn(len(kp))]
		fs1 := []fieldSpec{k1, u1, k2}
		fs2 := []fieldSpec{k2, u2, k1}
		obs1, tid1 := uint32(r.Intn(2)), uint16(256+r.Intn(2))
		obs2, tid2 := obs1, tid1
		switch it % 3 {
		case 0:
			tid2 = tid1 + 7
		case 1:
			obs2 = obs1 + 5
		}
		d1 := pktArg(msgBytes(10, obs1, 1, tid1, dataBody(r, fs1, 1+r.Intn(2), 0)))
		d2 := pktArg(msgBytes(10, obs2, 2, tid2, dataBody(r, fs2, 1+r.Intn(2), 0)))
		if it%3 == 2 { // redefinition of the same key: only the second layout is valid afterwards
			emit("unknown/same-id-other-length/redefine", pktArg(templatePkt(obs1, tid1, fs1)), d1, pktArg(templatePkt(obs2, tid2, fs2)), d2)
		} else {
			emit("unknown/same-id-other-length", pktArg(templatePkt(obs1, tid1, fs1)), pktArg(templatePkt(obs2, tid2, fs2)), d2, d1)
		}
	}
	// control: templates without unknown elements behave alike in the three modes
	nc := 150
	if env.Thorough() {
		nc = 5000
	}
	for it := 0; it < nc; it++ {
		n := 1 + r.Intn(6)
		fs := make([]fieldSpec, n)
		for i := range fs {
			fs[i] = kp[r.Intn(len(kp))]
		}
		emit("known-only", pktArg(templatePkt(1, 300, fs)), pktArg(msgBytes(10, 1, 1, 300, dataBody(r, fs, 1+r.Intn(3), 0))))
	}
	// long unknown variable-length values around the 255 boundary
	for _, l := range []int{0, 1, 254, 255, 256, 1000} {
		fs := []fieldSpec{kp[r.Intn(len(kp))], unknownSpec(r, entities.VariableLength), kp[r.Intn(len(kp))]}
		v := r.Bytes(l)
		var enc []byte
		if l < 255 {
			enc = append([]byte{byte(l)}, v...)
		} else {
			enc = append([]byte{255, byte(l >> 8), byte(l)}, v...)
		}
		body := append(append(fieldBytes(r, fs[0]), enc...), fieldBytes(r, fs[2])...)
		emit("unknown/var-boundary", pktArg(templatePkt(0, 400, fs)), pktArg(msgBytes(10, 0, 1, 400, body)))
	}
}
