package main

import (
	"fmt"
	"net"
	"strings"
	"sync"
	"time"

	"github.com/vmware/go-ipfix/pkg/collector"
	"github.com/vmware/go-ipfix/pkg/entities"
	"github.com/vmware/go-ipfix/pkg/exporter"
	"github.com/vmware/go-ipfix/pkg/registry"
)

func init() { register("C01", runC01) }

// supported data types for end-to-end exchange (the registry has no element of the other supported ones)
var c01Types = map[entities.IEDataType]bool{
	entities.OctetArray: true, entities.Unsigned8: true, entities.Unsigned16: true, entities.Unsigned32: true,
	entities.Unsigned64: true, entities.Signed8: true, entities.Signed16: true, entities.Signed32: true,
	entities.Signed64: true, entities.Float32: true, entities.Float64: true, entities.Boolean: true,
	entities.MacAddress: true, entities.String: true, entities.DateTimeSeconds: true,
	entities.DateTimeMilliseconds: true, entities.Ipv4Address: true, entities.Ipv6Address: true,
}

func registryPool() []*entities.InfoElement {
	out := []*entities.InfoElement{}
	for _, ent := range []uint32{registry.IANAEnterpriseID, registry.IANAReversedEnterpriseID, registry.AntreaEnterpriseID} {
		for id := 0; id < 32768; id++ {
			ie, err := registry.GetInfoElementFromID(uint16(id), ent)
			if err == nil && c01Types[ie.DataType] && ie.Name != "" {
				out = append(out, ie)
			}
		}
	}
	return out
}

// randValue renders a random well-typed value of the element's type in case syntax.
func randValue(r *Rng, ie *entities.InfoElement, maxVar int) string {
	pick := func(bits uint) uint64 {
		max := ^uint64(0)
		if bits < 64 {
			max = uint64(1)<<bits - 1
		}
		switch r.Intn(6) {
		case 0:
			return 0
		case 1:
			return max
		case 2:
			return uint64(1) << (bits - 1)
		case 3:
			return uint64(1)<<(bits-1) - 1
		}
		return r.U64() & max
	}
	varLen := func() int {
		switch r.Intn(12) {
		case 0:
			return 0
		case 1:
			return 254
		case 2:
			return 255
		case 3:
			return 256
		}
		if maxVar <= 0 {
			return 0
		}
		return r.Intn(minInt(maxVar, 40) + 1)
	}
	bytesArg := func(n int) string {
		if n == 0 {
			return "-"
		}
		if n <= 24 {
			return BytesArg(r.Bytes(n))
		}
		return fmt.Sprintf("pat %d %d", n, r.Intn(1<<30))
	}
	switch ie.DataType {
	case entities.OctetArray:
		if ie.Len < entities.VariableLength {
			return "oct " + bytesArg(int(ie.Len))
		}
		return "oct " + bytesArg(varLen())
	case entities.String:
		// printable payloads are not required: strings are byte strings on the wire
		return "str " + bytesArg(varLen())
	case entities.Unsigned8:
		return fmt.Sprintf("u8 %d", pick(8))
	case entities.Unsigned16:
		return fmt.Sprintf("u16 %d", pick(16))
	case entities.Unsigned32:
		return fmt.Sprintf("u32 %d", pick(32))
	case entities.Unsigned64:
		return fmt.Sprintf("u64 %d", pick(64))
	case entities.Signed8:
		return fmt.Sprintf("i8 %d", int8(pick(8)))
	case entities.Signed16:
		return fmt.Sprintf("i16 %d", int16(pick(16)))
	case entities.Signed32:
		return fmt.Sprintf("i32 %d", int32(pick(32)))
	case entities.Signed64:
		return fmt.Sprintf("i64 %d", int64(pick(64)))
	case entities.Float32:
		return fmt.Sprintf("f32 %d", []uint64{0x7fc00000, 0x7f800000, 0x80000000, 1, pick(32), pick(32)}[r.Intn(6)])
	case entities.Float64:
		return fmt.Sprintf("f64 %d", []uint64{0x7ff8000000000001, 0xfff0000000000000, 0x8000000000000000, 1, pick(64), pick(64)}[r.Intn(6)])
	case entities.Boolean:
		return "bool " + ShowBool(r.Bool())
	case entities.MacAddress:
		return "mac " + BytesArg(r.Bytes(6))
	case entities.DateTimeSeconds:
		return fmt.Sprintf("dts %d", pick(32))
	case entities.DateTimeMilliseconds:
		return fmt.Sprintf("dtms %d", pick(64))
	case entities.Ipv4Address:
		// net.IP holds an IPv4 address in 4 or in 16 bytes (IPv4-mapped): both are the same value
		v4 := r.Bytes(4)
		if r.Intn(4) == 0 {
			return "ip " + BytesArg(append([]byte{0, 0, 0, 0, 0, 0, 0, 0, 0, 0, 0xff, 0xff}, v4...))
		}
		return "ip " + BytesArg(v4)
	case entities.Ipv6Address:
		// ... and an ipv6Address element may be given an address of ::ffff:0:0/96, or a 4-byte
		// net.IP (which To16 widens to that form)
		switch r.Intn(6) {
		case 0:
			return "ip " + BytesArg(append([]byte{0, 0, 0, 0, 0, 0, 0, 0, 0, 0, 0xff, 0xff}, r.Bytes(4)...))
		case 1:
			return "ip " + BytesArg(r.Bytes(4))
		}
		return "ip " + BytesArg(r.Bytes(16))
	}
	panic("type")
}

func minInt(a, b int) int {
	if a < b {
		return a
	}
	return b
}

// ---- one collector per (transport, ip version); DTLS needs a fresh one per exchange ----
type c01Peer struct {
	transport, ipver string
	cp               *collector.CollectingProcess
	d                *delivered
	stop             func()
	ca, srv          *certPair
}

func c01Start(transport, ipver string, ca, srv *certPair) *c01Peer {
	host := "127.0.0.1"
	if ipver == "v6" {
		host = "[::1]"
	}
	in := collector.CollectorInput{Address: host + ":0", MaxBufferSize: 65535, IsIPv6: ipver == "v6",
		DecodingMode: collector.DecodingModeStrict}
	switch transport {
	case "tcp", "tls":
		in.Protocol = "tcp"
	default:
		in.Protocol = "udp"
	}
	if transport == "tls" || transport == "dtls" {
		in.IsEncrypted = true
		in.ServerCert, in.ServerKey = srv.CertPEM, srv.KeyPEM
	}
	cp, err := collector.InitCollectingProcess(in)
	if err != nil {
		panic(err)
	}
	d := &delivered{}
	done := make(chan struct{})
	go func() {
		for m := range cp.GetMsgChan() {
			d.mu.Lock()
			d.msgs = append(d.msgs, m)
			d.mu.Unlock()
		}
		close(done)
	}()
	go cp.Start()
	for i := 0; cp.GetAddress() == nil; i++ {
		time.Sleep(time.Millisecond)
		if i > 5000 {
			panic("collector did not start: " + transport)
		}
	}
	return &c01Peer{transport, ipver, cp, d, func() { cp.Stop(); cp.CloseMsgChan(); <-done }, ca, srv}
}

func showTemplateMsg(m *entities.Message) string {
	var sb strings.Builder
	set := m.GetSet()
	recs := set.GetRecords()
	fmt.Fprintf(&sb, "T:%d:%d", m.GetObsDomainID(), len(recs))
	for _, rec := range recs {
		fmt.Fprintf(&sb, " tid=%d f=%d", rec.GetTemplateID(), len(rec.GetOrderedElementList()))
		for _, e := range rec.GetOrderedElementList() {
			ie := e.GetInfoElement()
			fmt.Fprintf(&sb, " %d/%d/%d/%d/%s", ie.ElementId, ie.EnterpriseId, ie.DataType, ie.Len, ie.Name)
		}
	}
	return sb.String()
}

func showDataMsg(m *entities.Message) string {
	set := m.GetSet()
	tid := 0
	if len(set.GetRecords()) > 0 {
		tid = int(set.GetRecords()[0].GetTemplateID())
	}
	var sb strings.Builder
	fmt.Fprintf(&sb, "D:%d:%d %s E", m.GetObsDomainID(), tid, ShowRecords(set.GetRecords()))
	if recs := set.GetRecords(); len(recs) > 0 {
		for _, e := range recs[0].GetOrderedElementList() {
			ie := e.GetInfoElement()
			fmt.Fprintf(&sb, " %d/%d/%s", ie.ElementId, ie.EnterpriseId, ie.Name)
		}
	}
	return sb.String()
}

// c01One runs one exchange. toks: <obs> <tid> <ntpl> <dsel> <nf> specs.. <nrec> values..
// ntpl > 1 repeats the template record under ids tid, tid+1, .. in ONE template set; the data
// set then uses template id tid+dsel.
func c01One(p *c01Peer, toks []string) (obs string) {
	defer func() {
		if r := recover(); r != nil {
			obs = fmt.Sprintf("harness-panic %v", r)
		}
	}()
	od := uint32(atou(toks[0]))
	tid := uint16(atou(toks[1]))
	ntpl := atoi(toks[2])
	dsel := uint16(atoi(toks[3]))
	nf := atoi(toks[4])
	t := toks[5:]
	ies := make([]*entities.InfoElement, nf)
	for i := 0; i < nf; i++ {
		var spec IESpec
		spec, t = parseIESpec(t)
		ie, err := registry.GetInfoElementFromID(spec.ID, spec.Ent)
		if err != nil {
			ie = spec.IE("user")
		}
		ies[i] = ie
	}
	nrec := atoi(t[0])
	t = t[1:]
	recs := make([][]entities.InfoElementWithValue, nrec)
	for k := 0; k < nrec; k++ {
		recs[k] = make([]entities.InfoElementWithValue, nf)
		for i := 0; i < nf; i++ {
			recs[k][i], t = MkElem(ies[i], t)
		}
	}
	in := exporter.ExporterInput{CollectorAddress: p.cp.GetAddress().String(), ObservationDomainID: od, IsIPv6: p.ipver == "v6"}
	switch p.transport {
	case "tcp", "tls":
		in.CollectorProtocol = "tcp"
	default:
		in.CollectorProtocol = "udp"
	}
	if p.transport == "tls" || p.transport == "dtls" {
		in.TLSClientConfig = &exporter.ExporterTLSClientConfig{CAData: p.ca.CertPEM, ServerName: "collector.test"}
	}
	ep, err := exporter.InitExportingProcess(in)
	if err != nil {
		return "init-error"
	}
	defer ep.CloseConnToCollector()
	before := func() int { p.d.mu.Lock(); defer p.d.mu.Unlock(); return len(p.d.msgs) }()
	tset := entities.NewSet(false)
	tset.PrepareSet(entities.Template, tid)
	for j := 0; j < ntpl; j++ {
		els := make([]entities.InfoElementWithValue, nf)
		for i, ie := range ies {
			els[i], err = entities.DecodeAndCreateInfoElementWithValue(ie, nil)
			if err != nil {
				return "tpl-elem-error " + errClass(err)
			}
		}
		if err := tset.AddRecord(els, tid+uint16(j)); err != nil {
			return "tpl-add-error " + errClass(err)
		}
	}
	n1, err := ep.SendSet(tset)
	if err != nil {
		return "tpl-send-error " + errClass(err)
	}
	dset := entities.NewSet(false)
	dset.PrepareSet(entities.Data, tid+dsel)
	for _, rec := range recs {
		if err := dset.AddRecord(rec, tid+dsel); err != nil {
			return "data-add-error " + errClass(err)
		}
	}
	n2, err := ep.SendSet(dset)
	if err != nil {
		return fmt.Sprintf("sent=%d data-send-error %s", n1, errClass(err))
	}
	// wait for the two deliveries (or for the collector to drop the connection)
	deadline := time.Now().Add(3 * time.Second * slowFactor())
	var got []*entities.Message
	for {
		p.d.mu.Lock()
		got = append([]*entities.Message{}, p.d.msgs[before:]...)
		p.d.mu.Unlock()
		if len(got) >= 2 || time.Now().After(deadline) {
			break
		}
		time.Sleep(200 * time.Microsecond)
	}
	var sb strings.Builder
	fmt.Fprintf(&sb, "sent=%d,%d n=%d", n1, n2, len(got))
	for _, m := range got {
		if m.GetSet().GetSetType() == entities.Template {
			sb.WriteString(" " + showTemplateMsg(m))
		} else {
			sb.WriteString(" " + showDataMsg(m))
		}
	}
	return sb.String()
}

// c01Chain runs a history of exchanges against one collector (a fresh exporting process per
// exchange); toks: <nex> { <obs> <tid> <nf> specs.. <ndata> { <nrec> values.. }*ndata }*nex.
// Everything delivered is rendered only after the last exchange.
func c01Chain(p *c01Peer, toks []string) (obs string) {
	defer func() {
		if r := recover(); r != nil {
			obs = fmt.Sprintf("harness-panic %v", r)
		}
	}()
	nex := atoi(toks[0])
	t := toks[1:]
	type result struct {
		sent  []string
		first int
		want  int
	}
	results := []result{}
	for x := 0; x < nex; x++ {
		od := uint32(atou(t[0]))
		tid := uint16(atou(t[1]))
		nf := atoi(t[2])
		t = t[3:]
		ies := make([]*entities.InfoElement, nf)
		for i := 0; i < nf; i++ {
			var spec IESpec
			spec, t = parseIESpec(t)
			ie, err := registry.GetInfoElementFromID(spec.ID, spec.Ent)
			if err != nil {
				ie = spec.IE("user")
			}
			ies[i] = ie
		}
		ndata := atoi(t[0])
		t = t[1:]
		sets := make([][][]entities.InfoElementWithValue, ndata)
		for d := 0; d < ndata; d++ {
			nrec := atoi(t[0])
			t = t[1:]
			sets[d] = make([][]entities.InfoElementWithValue, nrec)
			for k := 0; k < nrec; k++ {
				sets[d][k] = make([]entities.InfoElementWithValue, nf)
				for i := 0; i < nf; i++ {
					sets[d][k][i], t = MkElem(ies[i], t)
				}
			}
		}
		res := result{}
		res.first = func() int { p.d.mu.Lock(); defer p.d.mu.Unlock(); return len(p.d.msgs) }()
		in := exporter.ExporterInput{CollectorAddress: p.cp.GetAddress().String(), ObservationDomainID: od, IsIPv6: p.ipver == "v6"}
		switch p.transport {
		case "tcp", "tls":
			in.CollectorProtocol = "tcp"
		default:
			in.CollectorProtocol = "udp"
		}
		if p.transport == "tls" {
			in.TLSClientConfig = &exporter.ExporterTLSClientConfig{CAData: p.ca.CertPEM, ServerName: "collector.test"}
		}
		ep, err := exporter.InitExportingProcess(in)
		if err != nil {
			return "init-error"
		}
		send := func(set entities.Set) bool {
			n, err := ep.SendSet(set)
			if err != nil {
				res.sent = append(res.sent, "err:"+errClass(err))
				return false
			}
			res.sent = append(res.sent, fmt.Sprint(n))
			res.want++
			return true
		}
		tset := entities.NewSet(false)
		tset.PrepareSet(entities.Template, tid)
		els := make([]entities.InfoElementWithValue, nf)
		for i, ie := range ies {
			els[i], _ = entities.DecodeAndCreateInfoElementWithValue(ie, nil)
		}
		tset.AddRecord(els, tid)
		send(tset)
		for _, recs := range sets {
			dset := entities.NewSet(false)
			dset.PrepareSet(entities.Data, tid)
			for _, rec := range recs {
				dset.AddRecord(rec, tid)
			}
			send(dset)
		}
		deadline := time.Now().Add(3 * time.Second * slowFactor())
		for {
			p.d.mu.Lock()
			got := len(p.d.msgs) - res.first
			p.d.mu.Unlock()
			if got >= res.want || time.Now().After(deadline) {
				break
			}
			time.Sleep(200 * time.Microsecond)
		}
		ep.CloseConnToCollector()
		if in.CollectorProtocol == "tcp" {
			waitConns(p.cp, 0, 5*time.Second)
		}
		results = append(results, res)
	}
	p.d.mu.Lock()
	all := append([]*entities.Message{}, p.d.msgs...)
	p.d.mu.Unlock()
	var sb strings.Builder
	for i, res := range results {
		end := len(all)
		if i+1 < len(results) {
			end = results[i+1].first
		}
		got := all[res.first:end]
		fmt.Fprintf(&sb, "x sent=%s n=%d", strings.Join(res.sent, ","), len(got))
		for _, m := range got {
			if m.GetSet().GetSetType() == entities.Template {
				sb.WriteString(" " + showTemplateMsg(m))
			} else {
				sb.WriteString(" " + showDataMsg(m))
			}
		}
		if i+1 < len(results) {
			sb.WriteString(" ")
		}
	}
	return sb.String()
}

func runC01(env *Env) {
	registry.LoadRegistry()
	pool := registryPool()
	r := env.Rng
	ca := mintCA("verif-ca")
	srv := mintLeaf(ca, "collector.test", []string{"collector.test"}, []net.IP{net.ParseIP("127.0.0.1"), net.ParseIP("::1")},
		time.Now().Add(-time.Hour), time.Now().Add(12*time.Hour), false)
	type cfg struct{ transport, ipver string }
	cfgs := []cfg{}
	for _, tr := range []string{"tcp", "udp", "tls", "dtls"} {
		for _, v := range []string{"v4", "v6"} {
			cfgs = append(cfgs, cfg{tr, v})
		}
	}
	per := 45
	if env.Thorough() {
		per = 1500
	}
	// generate the cases first (single PRNG), then run each configuration in its own goroutine
	type kase struct {
		line  string
		class string
	}
	cases := make([][]kase, len(cfgs))
	domain := uint32(1000)
	var genCase func(c cfg, k int) kase
	genCase = func(c cfg, k int) kase {
		domain++
		nf := 1 + r.Intn(12)
		if k%9 == 0 {
			nf = 20 + r.Intn(21)
		}
		ies := make([]*entities.InfoElement, nf)
		minLen, fixed := 0, 0
		for i := range ies {
			ies[i] = pool[r.Intn(len(pool))]
			if ies[i].Len == entities.VariableLength {
				minLen += 1
			} else {
				minLen += int(ies[i].Len)
				fixed += int(ies[i].Len)
			}
		}
		class0 := ""
		limit := 65535
		if c.transport == "udp" {
			limit = 65507 // the largest UDP payload (IPv4); on IPv6 loopback 65527 would fit
		}
		if c.transport == "dtls" {
			limit = 8000 // pion/dtls receives into an 8192-byte buffer: see the dtls-big class
			if k%13 == 5 {
				limit = 9000 + r.Intn(4000)
				class0 = "dtls-big"
			}
		}
		class := "small"
		nrec := 1 + r.Intn(4)
		maxVar := 40
		switch k % 7 {
		case 3: // as many records as fit one message (values kept minimal so the count is exact)
			class = "fit"
			maxVar = 0
		case 5:
			class = "var-boundaries"
		}
		if class0 != "" {
			class = "fit"
			maxVar = 0
		}
		tid := uint16(256 + r.Intn(60000))
		var sb strings.Builder
		ntpl, dsel := 1, 0
		if k%11 == 7 { // several template records in one template set (allowed by Set / SendSet)
			ntpl = 2 + r.Intn(2)
			dsel = r.Intn(ntpl)
			class = "multi-template"
		}
		trTok := c.transport
		if class0 == "dtls-big" {
			trTok = "dtlsbig" // same transport; marks messages beyond pion/dtls's 8192-byte receive buffer
		}
		fmt.Fprintf(&sb, "%s %s %d %d %d %d %d", trTok, c.ipver, domain, tid, ntpl, dsel, nf)
		for _, ie := range ies {
			fmt.Fprintf(&sb, " %d %d %d %d", ie.ElementId, ie.DataType, ie.EnterpriseId, ie.Len)
		}
		vals := []string{}
		total := 20
		count := 0
		for {
			recLen := 0
			rv := []string{}
			for _, ie := range ies {
				v := randValue(r, ie, maxVar)
				if class == "fit" && ie.Len == entities.VariableLength {
					v = strings.Fields(v)[0] + " -"
				}
				rv = append(rv, v)
				recLen += valueWireLen(ie, v)
			}
			if total+recLen > limit {
				break
			}
			total += recLen
			vals = append(vals, rv...)
			count++
			if class != "fit" && count >= nrec {
				break
			}
		}
		if count == 0 {
			return genCase(c, k+1)
		}
		fmt.Fprintf(&sb, " %d %s", count, strings.Join(vals, " "))
		if class0 != "" {
			class = class0
		}
		return kase{sb.String(), c.transport + "/" + class}
	}
	// histories: several exchanges against one collector
	// reversible IANA elements and their reverse counterparts (same id, type and length, other enterprise)
	type pair struct{ a, b *entities.InfoElement }
	pairs := []pair{}
	for _, e := range pool {
		if e.EnterpriseId == registry.IANAEnterpriseID {
			if rv, err := registry.GetInfoElementFromID(e.ElementId, registry.IANAReversedEnterpriseID); err == nil && c01Types[rv.DataType] {
				pairs = append(pairs, pair{e, rv})
			}
		}
	}
	octs := []*entities.InfoElement{}
	for _, e := range pool {
		if e.DataType == entities.OctetArray || e.DataType == entities.String {
			octs = append(octs, e)
		}
	}
	specOf := func(ie *entities.InfoElement) string {
		return fmt.Sprintf("%d %d %d %d", ie.ElementId, ie.DataType, ie.EnterpriseId, ie.Len)
	}
	exchange := func(obs uint32, tid uint16, ies []*entities.InfoElement, ndata int) string {
		var sb strings.Builder
		fmt.Fprintf(&sb, "%d %d %d", obs, tid, len(ies))
		for _, ie := range ies {
			sb.WriteString(" " + specOf(ie))
		}
		fmt.Fprintf(&sb, " %d", ndata)
		for d := 0; d < ndata; d++ {
			nrec := 1 + r.Intn(3)
			fmt.Fprintf(&sb, " %d", nrec)
			for k := 0; k < nrec; k++ {
				for _, ie := range ies {
					sb.WriteString(" " + randValue(r, ie, 12))
				}
			}
		}
		return sb.String()
	}
	genChain := func(c cfg, k int) kase {
		domain++
		tid := uint16(256 + r.Intn(60000))
		n := 1 + r.Intn(5)
		switch k % 4 {
		case 0: // the same (domain, id) redefined with the reverse elements: same ids and lengths, other enterprise
			a, b := make([]*entities.InfoElement, n), make([]*entities.InfoElement, n)
			for i := range a {
				p := pairs[r.Intn(len(pairs))]
				a[i], b[i] = p.a, p.b
				if r.Bool() {
					a[i], b[i] = p.b, p.a
				}
			}
			return kase{fmt.Sprintf("chain %s %s 3 %s %s %s", c.transport, c.ipver, exchange(domain, tid, a, 1), exchange(domain, tid, b, 1), exchange(domain, tid, a, 1)),
				c.transport + "/chain-redefine-other-enterprise"}
		case 1: // several data messages on one connection, variable-length byte fields present
			ies := make([]*entities.InfoElement, n+1)
			for i := range ies {
				ies[i] = pool[r.Intn(len(pool))]
			}
			ies[r.Intn(len(ies))] = octs[r.Intn(len(octs))]
			return kase{fmt.Sprintf("chain %s %s 1 %s", c.transport, c.ipver, exchange(domain, tid, ies, 2+r.Intn(3))), c.transport + "/chain-multi-data"}
		case 2: // another domain with the same template id, then the first domain again
			a, b := make([]*entities.InfoElement, n), make([]*entities.InfoElement, 1+r.Intn(5))
			for i := range a {
				a[i] = pool[r.Intn(len(pool))]
			}
			for i := range b {
				b[i] = pool[r.Intn(len(pool))]
			}
			domain++
			return kase{fmt.Sprintf("chain %s %s 3 %s %s %s", c.transport, c.ipver, exchange(domain-1, tid, a, 1), exchange(domain, tid, b, 1), exchange(domain-1, tid, a, 2)),
				c.transport + "/chain-other-domain"}
		default: // redefinition with an unrelated template
			a, b := make([]*entities.InfoElement, n), make([]*entities.InfoElement, 1+r.Intn(5))
			for i := range a {
				a[i] = pool[r.Intn(len(pool))]
			}
			for i := range b {
				b[i] = pool[r.Intn(len(pool))]
			}
			return kase{fmt.Sprintf("chain %s %s 2 %s %s", c.transport, c.ipver, exchange(domain, tid, a, 1), exchange(domain, tid, b, 2)), c.transport + "/chain-redefine"}
		}
	}
	nchain := 16
	if env.Thorough() {
		nchain = 400
	}
	for i, c := range cfgs {
		for k := 0; k < per; k++ {
			cases[i] = append(cases[i], genCase(c, k))
		}
		if c.transport != "dtls" { // a DTLS collector of this library serves one connection only
			for k := 0; k < nchain; k++ {
				cases[i] = append(cases[i], genChain(c, k))
			}
		}
	}
	if len(env.Replay) > 0 {
		cases = make([][]kase, len(cfgs))
		for _, l := range env.Replay {
			t := strings.Fields(l)
			for i, x := range t {
				if x == "|" {
					t = t[:i]
					break
				}
			}
			tr, iv := t[1], t[2]
			if t[1] == "chain" {
				tr, iv = t[2], t[3]
			}
			for i, c := range cfgs {
				if (c.transport == tr || (c.transport == "dtls" && tr == "dtlsbig")) && c.ipver == iv {
					cases[i] = append(cases[i], kase{strings.Join(t[1:], " "), "replay"})
				}
			}
		}
	}
	results := make([][]string, len(cfgs))
	var wg sync.WaitGroup
	for i, c := range cfgs {
		wg.Add(1)
		go func(i int, c cfg) {
			defer wg.Done()
			results[i] = make([]string, len(cases[i]))
			var p *c01Peer
			for k, ks := range cases[i] {
				if env.GenOnly {
					results[i][k] = "-"
					continue
				}
				f := strings.Fields(ks.line)
				if f[0] == "chain" {
					// a history starts from an empty template table: its own collector
					cp := c01Start(c.transport, c.ipver, ca, srv)
					results[i][k] = c01Chain(cp, f[3:])
					cp.stop()
					continue
				}
				if p == nil || c.transport == "dtls" {
					if p != nil {
						p.stop()
					}
					p = c01Start(c.transport, c.ipver, ca, srv)
				}
				results[i][k] = c01One(p, f[2:])
			}
			if p != nil {
				p.stop()
			}
		}(i, c)
	}
	wg.Wait()
	for i := range cfgs {
		for k, ks := range cases[i] {
			env.Count(ks.class)
			env.Emit("C01 "+ks.line, results[i][k])
		}
	}
}

// valueWireLen: encoded length of a value written in case syntax (harness-side arithmetic for sizing only)
func valueWireLen(ie *entities.InfoElement, v string) int {
	if ie.Len != entities.VariableLength {
		return int(ie.Len)
	}
	f := strings.Fields(v)
	n := 0
	switch f[1] {
	case "-", "nil":
		n = 0
	case "hex":
		n = len(f[2]) / 2
	case "pat":
		n = atoi(f[2])
	}
	if n < 255 {
		return n + 1
	}
	return n + 3
}
