package main

import (
	"bytes"
	"encoding/binary"
	"fmt"
	"strings"

	"github.com/vmware/go-ipfix/pkg/collector"
	"github.com/vmware/go-ipfix/pkg/entities"
	"github.com/vmware/go-ipfix/pkg/registry"
)

func init() { register("C15", runC15) }

// dataMsg assembles an IPFIX message around a data-set body (harness-side, independent of the exporter).
func dataMsg(obs uint32, setID uint16, body []byte) []byte {
	n := 20 + len(body)
	b := make([]byte, n)
	binary.BigEndian.PutUint16(b[0:], 10)
	binary.BigEndian.PutUint16(b[2:], uint16(n))
	binary.BigEndian.PutUint32(b[4:], 1000)
	binary.BigEndian.PutUint32(b[8:], 0)
	binary.BigEndian.PutUint32(b[12:], obs)
	binary.BigEndian.PutUint16(b[16:], setID)
	binary.BigEndian.PutUint16(b[18:], uint16(4+len(body)))
	copy(b[20:], body)
	return b
}

func newCollector(mode collector.DecodingMode, proto string) *collector.CollectingProcess {
	cp, err := collector.VerifInitCollectingProcess(collector.CollectorInput{
		Address: "127.0.0.1:0", Protocol: proto, MaxBufferSize: 65535, DecodingMode: mode,
	}, nil)
	if err != nil {
		panic(err)
	}
	return cp
}

// c15One runs one case on the implementation.
func c15One(caseToks []string) string {
	spec, rest := parseIESpec(caseToks)
	ie := spec.IE("x")
	var sb strings.Builder
	// reported length and buffer through the public builders
	var rec entities.Record
	var buf []byte
	stage := func() (st string) {
		defer func() {
			if r := recover(); r != nil {
				st = "panic"
			}
		}()
		elem, _ := MkElem(ie, rest)
		set := entities.NewSet(false)
		if err := set.PrepareSet(entities.Data, 256); err != nil {
			return "err"
		}
		if err := set.AddRecord([]entities.InfoElementWithValue{elem}, 256); err != nil {
			return "err"
		}
		rec = set.GetRecords()[0]
		recLen := rec.GetRecordLength()
		fmt.Fprintf(&sb, "len=%d ", recLen)
		before := errCount.Load()
		buf = rec.GetBuffer()
		errs := errCount.Load() - before
		// the same element through the other public builder (AddRecordV2 ->
		// NewDataRecordFromElements): length accounting and encoding must not depend on the path
		v2 := func() (v string) {
			defer func() {
				if r := recover(); r != nil {
					v = "!v2=panic"
				}
			}()
			elem2, _ := MkElem(ie, rest)
			set2 := entities.NewSet(false)
			set2.PrepareSet(entities.Data, 256)
			if err := set2.AddRecordV2([]entities.InfoElementWithValue{elem2}, 256); err != nil {
				return "!v2=err"
			}
			rec2 := set2.GetRecords()[0]
			if rec2.GetRecordLength() != recLen {
				return fmt.Sprintf("!v2=%d", rec2.GetRecordLength())
			}
			if set2.GetSetLength() != set.GetSetLength() {
				return fmt.Sprintf("!v2set=%d", set2.GetSetLength())
			}
			if !bytes.Equal(buf, rec2.GetBuffer()) {
				return "!v2=other-bytes"
			}
			return ""
		}()
		fmt.Fprintf(&sb, "buf=ok %s errs=%d%s ", ShowBytes(buf), errs, v2)
		return "ok"
	}()
	if stage != "ok" {
		if rec != nil {
			return sb.String() + "buf=" + stage
		}
		return "len=? buf=" + stage
	}
	// decode through the collector with that one-element template in force
	dec := func() (s string) {
		defer func() {
			if r := recover(); r != nil {
				s = "dec=panic"
			}
		}()
		cp := newCollector(collector.DecodingModeLenientKeepUnknown, "tcp")
		if err := cp.VerifAddTemplate(1, 256, []*entities.InfoElement{ie}); err != nil {
			return "dec=err " + errClass(err)
		}
		msg, err := cp.VerifDecodePacket(dataMsg(1, 256, buf), "127.0.0.1:1")
		if err != nil {
			return "dec=err " + errClass(err)
		}
		return "dec=ok " + ShowRecords(msg.GetSet().GetRecords())
	}()
	// the same field behind an unknown variable-length element, decoded by a collector that
	// drops unknown elements: the dropped field must be skipped by ITS encoded length and the
	// element under test must decode exactly as it does alone
	if strings.HasPrefix(dec, "dec=ok ") && len(buf) > 0 && strings.Contains(sb.String(), " errs=0 ") {
		dec2 := func() (s string) {
			defer func() {
				if r := recover(); r != nil {
					s = "dec=panic"
				}
			}()
			cp := newCollector(collector.DecodingModeLenientDropUnknown, "tcp")
			unk := entities.NewInfoElement("", 31000, entities.OctetArray, 54321, entities.VariableLength)
			if err := cp.VerifAddTemplate(1, 256, []*entities.InfoElement{unk, ie}); err != nil {
				return "dec=err " + errClass(err)
			}
			pre := []byte{5, 1, 2, 3, 4, 5}
			if len(buf)%2 == 1 {
				pre = append(append([]byte{255, 1, 4}, make([]byte, 260)...))
			}
			msg, err := cp.VerifDecodePacket(dataMsg(1, 256, append(append([]byte{}, pre...), buf...)), "127.0.0.1:1")
			if err != nil {
				return "dec=err " + errClass(err)
			}
			return "dec=ok " + ShowRecords(msg.GetSet().GetRecords())
		}()
		if dec2 != dec {
			dec += " !behind-a-dropped-field: " + dec2
		}
	}
	return sb.String() + dec
}

func runC15(env *Env) {
	registry.LoadRegistry()
	if len(env.Replay) > 0 {
		for _, l := range env.Replay {
			t := strings.Fields(l)
			c := t[1:]
			for i, x := range c {
				if x == "|" {
					c = c[:i]
					break
				}
			}
			env.Emit("C15 "+strings.Join(c, " "), c15One(c))
		}
		return
	}
	emit := func(spec IESpec, val string, class string) {
		c := spec.String() + " " + val
		env.Count(class)
		env.Emit("C15 "+c, c15One(strings.Fields(c)))
	}
	r := env.Rng
	dl := func(dt entities.IEDataType) uint16 { return entities.InfoElementLength[dt] }
	sp := func(dt entities.IEDataType) IESpec {
		ent := uint32(0)
		if r.Intn(3) == 0 {
			ent = []uint32{29305, 56506, 12345}[r.Intn(3)]
		}
		return IESpec{uint16(1 + r.Intn(32000)), uint8(dt), ent, dl(dt)}
	}
	// 8-bit types and booleans: exhaustive
	for n := 0; n < 256; n++ {
		emit(sp(entities.Unsigned8), fmt.Sprintf("u8 %d", n), "wf/u8")
		emit(sp(entities.Signed8), fmt.Sprintf("i8 %d", n-128), "wf/i8")
	}
	emit(sp(entities.Boolean), "bool T", "wf/bool")
	emit(sp(entities.Boolean), "bool F", "wf/bool")
	// 16-bit types: exhaustive in thorough, every 2^k boundary +-1, a stride and random otherwise
	if env.Thorough() {
		for n := 0; n < 65536; n++ {
			emit(sp(entities.Unsigned16), fmt.Sprintf("u16 %d", n), "wf/u16")
			emit(sp(entities.Signed16), fmt.Sprintf("i16 %d", n-32768), "wf/i16")
		}
	} else {
		seen := map[int]bool{}
		add := func(n int) {
			if n >= 0 && n < 65536 && !seen[n] {
				seen[n] = true
				emit(sp(entities.Unsigned16), fmt.Sprintf("u16 %d", n), "wf/u16")
				emit(sp(entities.Signed16), fmt.Sprintf("i16 %d", n-32768), "wf/i16")
			}
		}
		for k := 0; k <= 16; k++ {
			add(1<<k - 1)
			add(1 << k)
			add(1<<k + 1)
		}
		for n := 0; n < 65536; n += 97 {
			add(n)
		}
		for i := 0; i < 300; i++ {
			add(r.Intn(65536))
		}
	}
	// wider integers, floats, timestamps: boundaries + random
	wide := func(bits uint) []uint64 {
		out := []uint64{0, 1, 2}
		for k := uint(1); k < bits; k++ {
			out = append(out, 1<<k-1, 1<<k, 1<<k+1)
		}
		max := uint64(1)<<bits - 1
		if bits == 64 {
			max = ^uint64(0)
		}
		out = append(out, max, max-1)
		nr := 200
		if env.Thorough() {
			nr = 20000
		}
		for i := 0; i < nr; i++ {
			out = append(out, r.U64()&max)
		}
		return out
	}
	for _, n := range wide(32) {
		emit(sp(entities.Unsigned32), fmt.Sprintf("u32 %d", n), "wf/u32")
		emit(sp(entities.Signed32), fmt.Sprintf("i32 %d", int32(uint32(n))), "wf/i32")
		emit(sp(entities.DateTimeSeconds), fmt.Sprintf("dts %d", n), "wf/dts")
		emit(sp(entities.Float32), fmt.Sprintf("f32 %d", n), "wf/f32")
	}
	for _, n := range wide(64) {
		emit(sp(entities.Unsigned64), fmt.Sprintf("u64 %d", n), "wf/u64")
		emit(sp(entities.Signed64), fmt.Sprintf("i64 %d", int64(n)), "wf/i64")
		emit(sp(entities.DateTimeMilliseconds), fmt.Sprintf("dtms %d", n), "wf/dtms")
		emit(sp(entities.Float64), fmt.Sprintf("f64 %d", n), "wf/f64")
	}
	for _, n := range []uint64{0x7f800000, 0xff800000, 0x7fc00000, 0x7fa00001, 0x80000000, 0x00000001, 0x007fffff, 0x7f7fffff} {
		emit(sp(entities.Float32), fmt.Sprintf("f32 %d", n), "wf/f32-special")
	}
	for _, n := range []uint64{0x7ff0000000000000, 0xfff0000000000000, 0x7ff8000000000000, 0x7ff4000000000001, 0x8000000000000000, 1, 0x000fffffffffffff, 0x7fefffffffffffff} {
		emit(sp(entities.Float64), fmt.Sprintf("f64 %d", n), "wf/f64-special")
	}
	// variable-length strings and octet arrays: every length 0..300, the top of the range, random
	lens := []int{}
	for n := 0; n <= 300; n++ {
		lens = append(lens, n)
	}
	top := 65500
	if env.Thorough() {
		top = 65200
	}
	for n := top; n <= 65535; n++ {
		lens = append(lens, n)
	}
	nr := 40
	if env.Thorough() {
		nr = 2000
	}
	for i := 0; i < nr; i++ {
		lens = append(lens, 301+r.Intn(65200))
	}
	for _, n := range lens {
		seed := r.Intn(1 << 30)
		v := "-"
		if n > 0 {
			v = fmt.Sprintf("pat %d %d", n, seed)
		}
		emit(sp(entities.String), "str "+v, "wf/str")
		emit(sp(entities.OctetArray), "oct "+v, "wf/oct-var")
	}
	emit(sp(entities.OctetArray), "oct nil", "wf/oct-var")
	// special contents: NUL / 0xff runs at either end, all-NUL, all-0xff (content must never matter)
	for _, n := range []int{1, 2, 5, 17, 254, 255, 256, 300} {
		for _, fill := range []byte{0x00, 0xff, 0x20} {
			all := make([]byte, n)
			for i := range all {
				all[i] = fill
			}
			mid := r.Bytes(n)
			mid[0], mid[n-1] = fill, fill
			tail := r.Bytes(n)
			tail[n-1] = fill
			for _, b := range [][]byte{all, mid, tail} {
				emit(sp(entities.String), "str "+BytesArg(b), "wf/str-special")
				emit(sp(entities.OctetArray), "oct "+BytesArg(b), "wf/oct-special")
			}
		}
	}
	for _, b := range [][]byte{{0, 0, 0, 0, 0, 0}, {0xff, 0xff, 0xff, 0xff, 0xff, 0xff}, {1, 2, 3, 4, 5, 0}} {
		emit(sp(entities.MacAddress), "mac "+BytesArg(b), "wf/mac-special")
	}
	// fixed-length octet arrays
	for _, n := range []int{0, 1, 2, 3, 7, 8, 16, 40, 254, 255, 256, 300, 1000, 65534} {
		s := IESpec{uint16(1 + r.Intn(32000)), uint8(entities.OctetArray), 0, uint16(n)}
		v := "-"
		if n > 0 {
			v = fmt.Sprintf("pat %d %d", n, r.Intn(1<<30))
		}
		emit(s, "oct "+v, "wf/oct-fixed")
	}
	// addresses
	for i := 0; i < 60; i++ {
		emit(sp(entities.MacAddress), "mac "+BytesArg(r.Bytes(6)), "wf/mac")
		v4 := r.Bytes(4)
		emit(sp(entities.Ipv4Address), "ip "+BytesArg(v4), "wf/ip4")
		mapped := append([]byte{0, 0, 0, 0, 0, 0, 0, 0, 0, 0, 0xff, 0xff}, v4...)
		emit(sp(entities.Ipv4Address), "ip "+BytesArg(mapped), "wf/ip4-mapped")
		emit(sp(entities.Ipv6Address), "ip "+BytesArg(r.Bytes(16)), "wf/ip6")
		emit(sp(entities.Ipv6Address), "ip "+BytesArg(v4), "wf/ip6-from4")
	}
	for _, b := range [][]byte{{0, 0, 0, 0}, {255, 255, 255, 255}, make([]byte, 16)} {
		emit(sp(entities.Ipv4Address), "ip "+BytesArg(b[:4]), "wf/ip4")
		emit(sp(entities.Ipv6Address), "ip "+BytesArg(b), "wf/ip6")
	}
	// --- separate ill-typed stream (correspondence only; outside the theorem's hypotheses) ---
	for n := 0; n <= 9; n++ {
		if n != 6 {
			emit(sp(entities.MacAddress), "mac "+BytesArg(r.Bytes(n)), "ill/mac-len")
		}
	}
	emit(sp(entities.MacAddress), "mac nil", "ill/nil")
	emit(sp(entities.Ipv4Address), "ip nil", "ill/nil")
	emit(sp(entities.Ipv6Address), "ip nil", "ill/nil")
	emit(sp(entities.Ipv4Address), "ip "+BytesArg(r.Bytes(16)), "ill/ip-family")
	emit(sp(entities.Ipv4Address), "ip "+BytesArg(r.Bytes(5)), "ill/ip-len")
	emit(sp(entities.Ipv6Address), "ip "+BytesArg(r.Bytes(15)), "ill/ip-len")
	for _, d := range [][2]int{{5, 4}, {5, 6}, {0, 3}, {300, 299}} {
		s := IESpec{77, uint8(entities.OctetArray), 0, uint16(d[0])}
		emit(s, "oct "+BytesArg(r.Bytes(d[1])), "ill/oct-fixed-len")
	}
	emit(sp(entities.String), "str pat 65536 5", "ill/too-long")
	emit(sp(entities.OctetArray), "oct pat 65536 5", "ill/too-long")
	emit(sp(entities.Unsigned16), "u8 7", "ill/kind")
	emit(sp(entities.Unsigned8), "u16 7", "ill/kind")
	emit(sp(entities.String), "oct hex 0102", "ill/kind")
	emit(sp(entities.Unsigned32), "dts 9", "ill/kind-compatible")
	emit(sp(entities.DateTimeMilliseconds), "u64 9", "ill/kind-compatible")
	emit(IESpec{9, uint8(entities.Unsigned16), 0, 1}, "u16 513", "ill/ie-len")
	emit(IESpec{9, uint8(entities.Unsigned32), 0, 8}, "u32 513", "ill/ie-len")
	emit(IESpec{9, uint8(entities.Unsigned64), 0, 0}, "u64 513", "ill/ie-len")
	emit(IESpec{9, uint8(entities.Unsigned8), 0, 0}, "u8 5", "ill/ie-len")
	emit(sp(entities.DateTimeMicroseconds), "u64 9", "ill/unsupported")
	emit(sp(entities.BasicList), "oct hex 01", "ill/unsupported")
}
