package main

// C09: histories mixing valid sends with unknown template ids, wrong field counts, sets sized
// around the 65535 limit, undefined set type, ill-typed values, a set id differing from the
// records' template id, and templates whose own send failed. Observed: SendSet's return and
// the bytes at the peer socket.

import (
	"fmt"
	"strings"

	"github.com/vmware/go-ipfix/pkg/entities"
	"github.com/vmware/go-ipfix/pkg/registry"
)

func init() { register("C09", runC09) }

// bigTemplate: a template set with n four-byte specifiers: message = 16 + 4 + 4 + 4n bytes.
func bigTemplate(r *Rng, id, n int) string {
	var sb strings.Builder
	fmt.Fprintf(&sb, "S P T %d A %s %d %d", id, randForm(r), id, n)
	for i := 0; i < n; i++ {
		fmt.Fprintf(&sb, " %d 1 0 1 u8 0", 1+i%30000)
	}
	sb.WriteString(" ;")
	return sb.String()
}

func genC09(env *Env) string {
	r := env.Rng
	big := false
	var parts []string
	var tpls []tplG
	strT := oneFieldTpl(300+r.Intn(50), entities.String, 1+r.Intn(300))
	nextID := 400
	n := 3 + r.Intn(12)
	for i := 0; i < n; i++ {
		k := r.Intn(23)
		if len(tpls) == 0 {
			k = 0
		}
		switch {
		case k < 2:
			t := genTpl(r, nextID, 1+r.Intn(6))
			nextID++
			// make sure ill-typed values are possible for some templates
			if r.Bool() {
				t.specs = append(t.specs, genSpec(r, []entities.IEDataType{entities.MacAddress, entities.Ipv4Address, entities.Ipv6Address}[r.Intn(3)], -1))
			}
			if r.Intn(5) == 0 {
				t.specs = append(t.specs, genSpec(r, entities.OctetArray, 1+r.Intn(8)))
			}
			tpls = append(tpls, t)
			parts = append(parts, t.tplSet(r))
			env.Count("send/template")
		case k < 6:
			t := tpls[r.Intn(len(tpls))]
			parts = append(parts, t.dataSet(r, 1+r.Intn(3)))
			env.Count("send/data-valid")
		case k < 8:
			t := tpls[r.Intn(len(tpls))]
			u := t
			u.id = 5000 + r.Intn(1000)
			parts = append(parts, u.dataSet(r, 1+r.Intn(2)))
			env.Count("send/data-unknown-template")
		case k < 10:
			t := tpls[r.Intn(len(tpls))]
			u := t
			if r.Bool() || len(t.specs) == 1 {
				u.specs = append(append([]IESpec{}, t.specs...), randSpec(r))
			} else {
				u.specs = t.specs[:len(t.specs)-1]
			}
			// a good record first, then the bad one
			parts = append(parts, fmt.Sprintf("S P D %d %s %s ;", t.id, t.dataAdd(r, t.id, nil), u.dataAdd(r, t.id, nil)))
			env.Count("send/data-wrong-field-count")
		case k < 13:
			// ill-typed value in one field (if the template has a candidate)
			var cands []tplG
			for _, t := range tpls {
				for _, s := range t.specs {
					if illable(s) {
						cands = append(cands, t)
						break
					}
				}
			}
			if len(cands) == 0 {
				continue
			}
			t := cands[r.Intn(len(cands))]
			done := false
			rec := t.dataAdd(r, t.id, func(i int, s IESpec) string {
				if !done && illable(s) {
					if v := illValue(r, s); v != "" {
						done = true
						return v
					}
				}
				return ""
			})
			pre := ""
			if r.Bool() {
				pre = t.dataAdd(r, t.id, nil) + " "
			}
			parts = append(parts, fmt.Sprintf("S P D %d %s%s ;", t.id, pre, rec))
			env.Count("send/data-ill-typed-value")
		case k < 15:
			// set header id differs from the records' template id (both known, or header unknown)
			t := tpls[r.Intn(len(tpls))]
			hdr := 9000 + r.Intn(100)
			if r.Bool() {
				hdr = tpls[r.Intn(len(tpls))].id
			}
			if r.Bool() && len(tpls) > 1 {
				// the first record(s) belong to the set's template; a later one is a conforming
				// record of ANOTHER registered template, added under that other id
				a := tpls[r.Intn(len(tpls))]
				pre := a.dataAdd(r, a.id, nil)
				if r.Intn(3) == 0 {
					pre += " " + a.dataAdd(r, a.id, nil)
				}
				post := ""
				if r.Intn(3) == 0 {
					post = " " + a.dataAdd(r, a.id, nil)
				}
				parts = append(parts, fmt.Sprintf("S P D %d %s %s%s ;", a.id, pre, t.dataAdd(r, t.id, nil), post))
				env.Count("send/data-later-record-of-other-template")
				break
			}
			parts = append(parts, fmt.Sprintf("S P D %d %s ;", hdr, t.dataAdd(r, t.id, nil)))
			env.Count("send/data-set-id-vs-record-id")
		case k < 17:
			// size boundary data
			if !hasTpl(tpls, strT.id) {
				tpls = append(tpls, strT)
				parts = append(parts, strT.tplSet(r))
			}
			ml := 65519 + r.Intn(22)
			parts = append(parts, sizedData(r, strT, ml))
			big = true
			env.Count("send/data-size-boundary")
		case k < 18 && r.Intn(12) == 0:
			// template set around the limit, then data for that id
			nspec := 16375 + r.Intn(6) // 16377 -> 65532, 16378 -> 65536
			id := nextID
			nextID++
			parts = append(parts, bigTemplate(r, id, nspec))
			parts = append(parts, fmt.Sprintf("S P D %d N %d A 2 %d 0 ;", id, 1+r.Intn(3), id))
			big = true
			env.Count("send/template-size-boundary-then-data")
		case k < 19:
			// undefined set type: a reset set that was never prepared
			parts = append(parts, "S R A 1 256 1 7 1 0 1 u8 3 L ;")
			env.Count("send/undefined-type")
		case k < 20:
			// template id sent again with a different field count, then data of either shape
			t := tpls[r.Intn(len(tpls))]
			u := t
			u.specs = append(append([]IESpec{}, t.specs...), randSpec(r))
			parts = append(parts, u.tplSet(r), u.dataSet(r, 1), t.dataSet(r, 1))
			env.Count("send/template-redefined")
		case k < 21:
			t := tpls[r.Intn(len(tpls))]
			parts = append(parts, t.tplSet(r))
			env.Count("send/template-again")
		default:
			// empty data set / data set before any template
			parts = append(parts, fmt.Sprintf("S P D %d ;", 256+r.Intn(1000)))
			env.Count("send/data-empty")
		}
	}
	mode := "full"
	if big {
		mode = "dig"
	}
	return histHead(r, mode, uint64(r.Intn(100))) + " " + strings.Join(parts, " ")
}

func hasTpl(ts []tplG, id int) bool {
	for _, t := range ts {
		if t.id == id {
			return true
		}
	}
	return false
}

func runC09(env *Env) {
	registry.LoadRegistry()
	if replayHist(env, "C09") {
		return
	}
	r := env.Rng
	emit := func(c string) { env.Emit("C09 "+c, runHist(strings.Fields(c))) }
	// other exporting processes of the same program keep sending during every session (noise.go)
	stopNoise := startNoise(2)
	defer func() {
		stopNoise()
		env.Count(fmt.Sprintf("noise/other-exporters-sends>=%d", (noiseSends/1000)*1000))
	}()
	strT := oneFieldTpl(300, entities.String, 5)
	// every message size 65519..65540 exactly, on both transports, followed by a valid send
	for _, proto := range []string{"tcp", "udp"} {
		var parts []string
		for ml := 65519; ml <= 65540; ml++ {
			parts = append(parts, sizedData(r, strT, ml))
		}
		emit(fmt.Sprintf("%s 1 0 dig %s %s %s", proto, strT.tplSet(r), strings.Join(parts, " "), sizedData(r, strT, 400)))
		env.Count("shape/every-size-65519..65540")
		// UDP datagram limit
		emit(fmt.Sprintf("%s 1 0 dig %s %s %s %s %s", proto, strT.tplSet(r), sizedData(r, strT, 65506), sizedData(r, strT, 65507), sizedData(r, strT, 65508), sizedData(r, strT, 300)))
		env.Count("shape/datagram-limit")
		// template sets of every size around the limit, then data for the id, then a valid exchange
		for n := 16374; n <= 16380; n++ {
			emit(fmt.Sprintf("%s 1 0 dig %s S P D 700 A 1 700 0 ; %s %s", proto, bigTemplate(r, 700, n), strT.tplSet(r), sizedData(r, strT, 300)))
			env.Count("shape/template-size-boundary")
		}
	}
	n := 300
	if env.Thorough() {
		n = 20000
	}
	for i := 0; i < n; i++ {
		emit(genC09(env))
	}
}
