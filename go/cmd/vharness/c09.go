package main

// C09: histories mixing valid sends with unknown template ids, wrong field counts, sets sized
// around the 65535 limit, undefined set type, ill-typed values, a set id differing from the
// records' template id, and templates whose own send failed. Observed: SendSet's return and
// the bytes at the peer socket.

import (
	"fmt"
	"strings"

	"github.com/vmware/go-ipfix/pkg/entities"
	"github.com/vmware/go-ipfix/pkg/registry"
)

func init() { register("C09", runC09) }

// bigTemplate: a template set with n four-byte specifiers: message = 16 + 4 + 4 + 4n bytes.
func bigTemplate(r *Rng, id, n int) string {
	var sb strings.Builder
	fmt.Fprintf(&sb, "S P T %d A %s %d %d", id, randForm(r), id, n)
	for i := 0; i < n; i++ {
		fmt.Fprintf(&sb, " %d 1 0 1 u8 0", 1+i%30000)
	}
	sb.WriteString(" ;")
	return sb.String()
}

func genC09(env *Env) string {
	r := env.Rng
	big := false
	var parts []string
	var tpls []tplG
	strT := oneFieldTpl(300+r.Intn(50), entities.String, 1+r.Intn(300))
	nextID := 400
	n := 3 + r.Intn(12)
	for i := 0; i < n; i++ {
		k := r.Intn(23)
		if len(tpls) == 0 {
			k = 0
		}
		switch {
		case k < 2:
			t := genTpl(r, nextID, 1+r.Intn(6))
			nextID++
			// make sure ill-typed values are possible for some templates
			if r.Bool() {
				t.specs = append(t.specs, genSpec(r, []entities.IEDataType{entities.MacAddress, entities.Ipv4Address, entities.Ipv6Address}[r.Intn(3)], -1))
			}
			if r.Intn(5) == 0 {
				t.specs = append(t.specs, genSpec(r, entities.OctetArray, 1+r.Intn(8)))
			}
			tpls = append(tpls, t)
			parts = append(parts, t.tplSet(r))
			env.Count("send/template")
		case k < 6:
			t := tpls[r.Intn(len(tpls))]
			parts = append(parts, t.dataSet(r, 1+r.Intn(3)))
			env.Count("send/data-valid")
		case k < 8:
			t := tpls[r.Intn(len(tpls))]
			u := t
			u.id = 5000 + r.Intn(1000)
			parts = append(parts, u.dataSet(r, 1+r.Intn(2)))
			env.Count("send/data-unknown-template")
		case k < 10:
			t := tpls[r.Intn(len(tpls))]
			u := t
			if r.Bool() || len(t.specs) == 1 {
				u.specs = append(append([]IESpec{}, t.specs...), randSpec(r))
			} else {
				u.specs = t.specs[:len(t.specs)-1]
			}
			// a good record first, then the bad one
			parts = append(parts, fmt.Sprintf("S P D %d %s %s ;", t.id, t.dataAdd(r, t.id, nil), u.dataAdd(r, t.id, nil)))
			env.Count("send/data-wrong-field-count")
		case k < 13:
			// ill-typed value in one field (if the template has a candidate)
			var cands []tplG
			for _, t := range tpls {
				for _, s := range t.specs {
					if illable(s) {
						cands = append(cands, t)
						break
					}
				}
			}
			if len(cands) == 0 {
				continue
			}
			t := cands[r.Intn(len(cands))]
			done := false
			rec := t.dataAdd(r, t.id, func(i int, s IESpec) string {
				if !done && illable(s) {
					if v := illValue(r, s); v != "" {
						done = true
						return v
					}
				}
				return ""
			})
			pre := ""
			if r.Bool() {
				pre = t.dataAdd(r, t.id, nil) + " "
			}
			parts = append(parts, fmt.Sprintf("S P D %d %s%s ;", t.id, pre, rec))
			env.Count("send/data-ill-typed-value")
		case k < 15:
			// set header id differs from the records' template id (both known, or header unknown)
			t := tpls[r.Intn(len(tpls))]
			hdr := 9000 + r.Intn(100)
			if r.Bool() {
				hdr = tpls[r.Intn(len(tpls))].id
			}
			if r.Bool() && len(tpls) > 1 {
				// the first record(s) belong to the set's template; a later one is a conforming
				// record of ANOTHER registered template, added under that other id
				a := tpls[r.Intn(len(tpls))]
				pre := a.dataAdd(r, a.id, nil)
				if r.Intn(3) == 0 {
					pre += " " + a.dataAdd(r, a.id, nil)
				}
				post := ""
				if r.Intn(3) == 0 {
					post = " " + a.dataAdd(r, a.id, nil)
				}
				parts = append(parts, fmt.Sprintf("S P D %d %s %s%s ;", a.id, pre, t.dataAdd(r, t.id, nil), post))
				env.Count("send/data-later-record-of-other-template")
				break
			}
			parts = append(parts, fmt.Sprintf("S P D %d %s ;", hdr, t.dataAdd(r, t.id, nil)))
			env.Count("send/data-set-id-vs-record-id")
		case k < 17:
			// size boundary data
			if !hasTpl(tpls, strT.id) {
				tpls = append(tpls, strT)
				parts = append(parts, strT.tplSet(r))
			}
			ml := 65519 + r.Intn(22)
			parts = append(parts, sizedData(r, strT, ml))
			big = true
			env.Count("send/data-size-boundary")
		case k < 18 && r.Intn(12) == 0:
			// template set around the limit, then data for that id
			nspec := 16375 + r.Intn(6) // 16377 -> 65532, 16378 -> 65536
			id := nextID
			nextID++
			parts = append(parts, bigTemplate(r, id, nspec))
			parts = append(parts, fmt.Sprintf("S P D %d N %d A 2 %d 0 ;", id, 1+r.Intn(3), id))
			big = true
			env.Count("send/template-size-boundary-then-data")
		case k < 19:
			// undefined set type: a reset set that was never prepared
			parts = append(parts, "S R A 1 256 1 7 1 0 1 u8 3 L ;")
			env.Count("send/undefined-type")
		case k < 20:
			// template id sent again with a different field count, then data of either shape
			t := tpls[r.Intn(len(tpls))]
			u := t
			u.specs = append(append([]IESpec{}, t.specs...), randSpec(r))
			parts = append(parts, u.tplSet(r), u.dataSet(r, 1), t.dataSet(r, 1))
			env.Count("send/template-redefined")
		case k < 21:
			t := tpls[r.Intn(len(tpls))]
			parts = append(parts, t.tplSet(r))
			env.Count("send/template-again")
		default:
			// empty data set / data set before any template
			parts = append(parts, fmt.Sprintf("S P D %d ;", 256+r.Intn(1000)))
			env.Count("send/data-empty")
		}
	}
	mode := "full"
	if big {
		mode = "dig"
	}
	return histHead(r, mode, uint64(r.Intn(100))) + " " + strings.Join(parts, " ")
}

// genC09Retry: the same set object given to SendSet more than once - a retry after a refused
// call (ill-typed value, unknown template that is sent in between, oversize), a second send of
// an accepted set - and records whose GetBuffer() the application called before SendSet. A
// refused set must be refused again (nothing written); what was encoded once stays what it was.
func genC09Retry(env *Env) string {
	r := env.Rng
	var parts []string
	nS := 0
	t := genTpl(r, 400+r.Intn(100), 1+r.Intn(4))
	t.specs = append(t.specs, genSpec(r, []entities.IEDataType{entities.MacAddress, entities.Ipv4Address, entities.Ipv6Address}[r.Intn(3)], -1))
	if r.Intn(4) == 0 {
		t.specs = append(t.specs, genSpec(r, entities.OctetArray, 1+r.Intn(8)))
	}
	illRec := func() string {
		done := false
		return t.dataAdd(r, t.id, func(i int, s IESpec) string {
			if !done && illable(s) {
				if v := illValue(r, s); v != "" {
					done = true
					return v
				}
			}
			return ""
		})
	}
	good := func() string { return t.dataAdd(r, t.id, nil) }
	parts = append(parts, t.tplSet(r))
	nS++
	rounds := 1 + r.Intn(3)
	for i := 0; i < rounds; i++ {
		k := nS
		gb := ""
		if r.Intn(3) == 0 {
			gb = " G"
			env.Count("retry/getbuffer-first")
		}
		switch r.Intn(7) {
		case 0, 1: // ill-typed value: refused, retried (refused again), once more
			recs := illRec()
			switch r.Intn(3) {
			case 0:
				recs = good() + " " + recs
			case 1:
				recs = recs + " " + good()
			}
			parts = append(parts, fmt.Sprintf("S P D %d %s%s ;", t.id, recs, gb), fmt.Sprintf("C %d ;", k))
			if r.Bool() {
				parts = append(parts, fmt.Sprintf("C %d G ;", k))
			}
			env.Count("retry/ill-typed")
		case 2: // accepted, sent again as it is, extended
			parts = append(parts, fmt.Sprintf("S P D %d %s%s ;", t.id, good(), gb), fmt.Sprintf("C %d ;", k))
			if r.Bool() {
				parts = append(parts, fmt.Sprintf("C %d %s ;", k, good()))
			}
			env.Count("retry/well-typed-again")
		case 3: // a good set gets an ill-typed record added after it went out once
			parts = append(parts, fmt.Sprintf("S P D %d %s%s ;", t.id, good(), gb), fmt.Sprintf("C %d %s ;", k, illRec()), fmt.Sprintf("C %d ;", k))
			env.Count("retry/ill-typed-appended")
		case 4: // unknown template: refused; the template is sent; the retry goes out
			u := genTpl(r, 600+nS, 1+r.Intn(3))
			parts = append(parts, fmt.Sprintf("S P D %d %s%s ;", u.id, u.dataAdd(r, u.id, nil), gb), fmt.Sprintf("C %d ;", k), u.tplSet(r))
			nS++
			parts = append(parts, fmt.Sprintf("C %d ;", k))
			env.Count("retry/unknown-template-then-known")
		case 5: // the refused set is reset and used for a good record
			parts = append(parts, fmt.Sprintf("S P D %d %s%s ;", t.id, illRec(), gb), fmt.Sprintf("C %d R P D %d %s ;", k, t.id, good()), fmt.Sprintf("C %d ;", k))
			env.Count("retry/reset-after-refusal")
		default: // template set object sent twice
			parts = append(parts, "C 0 ;", fmt.Sprintf("S P D %d %s%s ;", t.id, good(), gb))
			env.Count("retry/template-again")
		}
		nS++
	}
	return histHead(r, "full", uint64(r.Intn(100))) + " " + strings.Join(parts, " ")
}

// genC09ZeroWidth: templates made of fixed-length-0 octet arrays only (records of length zero)
// or containing one; data records give those elements the empty value (fine) or a value of
// 1..3 bytes (cannot be encoded: must be refused - a record of length 0 used to skip the encoder).
func genC09ZeroWidth(env *Env) string {
	r := env.Rng
	id := 400 + r.Intn(100)
	t := tplG{id: id}
	n := 1 + r.Intn(3)
	for i := 0; i < n; i++ {
		t.specs = append(t.specs, genSpec(r, entities.OctetArray, 0))
	}
	onlyZero := r.Intn(3) != 0
	if !onlyZero {
		t.specs = append(t.specs, randSpec(r))
	}
	parts := []string{t.tplSet(r)}
	k := 1
	for i := 1 + r.Intn(3); i > 0; i-- {
		ill := r.Intn(3) != 0
		bad := r.Intn(n)
		rec := t.dataAdd(r, t.id, func(j int, s IESpec) string {
			if ill && j == bad {
				return "oct " + BytesArg(r.Bytes(1+r.Intn(3)))
			}
			if j < n {
				return []string{"oct -", "oct nil"}[r.Intn(2)]
			}
			return ""
		})
		if r.Intn(3) == 0 {
			rec = t.dataAdd(r, t.id, func(j int, s IESpec) string {
				if j < n {
					return "oct -"
				}
				return ""
			}) + " " + rec
		}
		parts = append(parts, fmt.Sprintf("S P D %d %s ;", t.id, rec))
		if r.Intn(3) == 0 {
			parts = append(parts, fmt.Sprintf("C %d ;", k))
		}
		k++
		if ill {
			env.Count("zero-width/ill-sized-value")
		} else {
			env.Count("zero-width/empty-value")
		}
	}
	return histHead(r, "full", uint64(r.Intn(100))) + " " + strings.Join(parts, " ")
}

func hasTpl(ts []tplG, id int) bool {
	for _, t := range ts {
		if t.id == id {
			return true
		}
	}
	return false
}

func runC09(env *Env) {
	registry.LoadRegistry()
	if replayHist(env, "C09") {
		return
	}
	r := env.Rng
	emit := func(c string) { env.Emit("C09 "+c, runHist(strings.Fields(c))) }
	// other exporting processes of the same program keep sending during every session (noise.go)
	stopNoise := startNoise(2)
	defer func() {
		stopNoise()
		env.Count(fmt.Sprintf("noise/other-exporters-sends>=%d", (noiseSends/1000)*1000))
	}()
	strT := oneFieldTpl(300, entities.String, 5)
	// every message size 65519..65540 exactly, on both transports, followed by a valid send
	for _, proto := range []string{"tcp", "udp"} {
		var parts []string
		for ml := 65519; ml <= 65540; ml++ {
			parts = append(parts, sizedData(r, strT, ml))
		}
		emit(fmt.Sprintf("%s 1 0 dig %s %s %s", proto, strT.tplSet(r), strings.Join(parts, " "), sizedData(r, strT, 400)))
		env.Count("shape/every-size-65519..65540")
		// UDP datagram limit
		emit(fmt.Sprintf("%s 1 0 dig %s %s %s %s %s", proto, strT.tplSet(r), sizedData(r, strT, 65506), sizedData(r, strT, 65507), sizedData(r, strT, 65508), sizedData(r, strT, 300)))
		env.Count("shape/datagram-limit")
		// template sets of every size around the limit, then data for the id, then a valid exchange
		for n := 16374; n <= 16380; n++ {
			emit(fmt.Sprintf("%s 1 0 dig %s S P D 700 A 1 700 0 ; %s %s", proto, bigTemplate(r, 700, n), strT.tplSet(r), sizedData(r, strT, 300)))
			env.Count("shape/template-size-boundary")
		}
	}
	n := 300
	if env.Thorough() {
		n = 20000
	}
	for i := 0; i < n; i++ {
		emit(genC09(env))
	}
	// the same set object sent again (retry after a refusal), GetBuffer called before SendSet
	emit("tcp 1 0 full S P T 300 A 1 300 2 7 6 0 2 i16 0 8 18 0 4 ip nil ; S P D 300 A 1 300 2 7 6 0 2 i16 5 8 18 0 4 ip hex 20010db8000000000000000000000001 ; C 1 ; C 1 G ; C 1 R P D 300 A 1 300 2 7 6 0 2 i16 5 8 18 0 4 ip hex 0a000001 ;")
	emit("udp 1 0 full S P T 300 A 1 300 2 7 6 0 2 i16 0 8 18 0 4 ip nil ; S P D 300 A 1 300 2 7 6 0 2 i16 5 8 18 0 4 ip nil G ; C 1 ; S P D 300 A 2 300 2 7 6 0 2 i16 6 8 18 0 4 ip hex 0a000002 G ; C 2 ;")
	emit("tcp 1 0 full S P T 300 A 1 300 2 7 6 0 2 i16 0 8 18 0 4 ip nil ; S P D 300 A 1 300 2 7 6 0 2 i16 5 8 18 0 4 ip hex 0a000001 ; X - C 1 ; C 0 ; C 1 ;")
	env.Count("shape/retry-fixed")
	for i := 0; i < n/2; i++ {
		emit(genC09Retry(env))
	}
	for i := 0; i < 8+n/20; i++ {
		emit(genC09ZeroWidth(env))
	}
}
