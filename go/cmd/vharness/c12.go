package main

// C12 — collector under many clients. One case = one real CollectingProcess on 127.0.0.1:0 with
// 1..32 real exporters (raw sockets writing hand-built IPFIX messages) over tcp / tls / udp.
// Every message carries (client id = observation domain, sequence number = header sequence
// number); the consumer records the order in which it received them. The observation is that
// delivery trace plus GetNumConnToCollector after the clients are gone, the outcome of Stop, the
// goroutines of pkg/collector left afterwards, the state of the listening port,
// GetNumConnToCollector and GetNumRecordsReceived after Stop, and the number of deliveries whose
// CONTENT is not what that (client, seq) sent (every data record carries (id<<32|seq, index)).
// UDP exporters send in bursts (window 1..8 datagrams in flight per client, several clients at
// once), data sets have 1..32 records.
//
// Completion criteria are logical (expected number of deliveries reached, counter reached its
// expected value, no goroutine of the package left) under generous watchdogs; a watchdog that
// fires shows up as a wrong observation, never as a timing assertion.

import (
	"crypto/ecdsa"
	"crypto/elliptic"
	"crypto/rand"
	"crypto/tls"
	"crypto/x509"
	"crypto/x509/pkix"
	"encoding/binary"
	"encoding/pem"
	"fmt"
	"math/big"
	"net"
	"os"
	"runtime"
	"strings"
	"sync"
	"sync/atomic"
	"time"

	"github.com/vmware/go-ipfix/pkg/collector"
	"github.com/vmware/go-ipfix/pkg/entities"
	"github.com/vmware/go-ipfix/pkg/registry"
)

func init() { register("C12", runC12) }

type c12Client struct {
	end  string // close | cut | hold
	msgs string // over t d x
}

type c12Case struct {
	proto   string // tcp | tls | udp
	mode    string // quiet | traffic
	clients []c12Client
}

func (c c12Case) String() string {
	var sb strings.Builder
	fmt.Fprintf(&sb, "%s %s %d", c.proto, c.mode, len(c.clients))
	for _, cl := range c.clients {
		m := cl.msgs
		if m == "" {
			m = "-"
		}
		fmt.Fprintf(&sb, " %s:%s", cl.end, m)
	}
	return sb.String()
}

func parseC12(toks []string) c12Case {
	c := c12Case{proto: toks[0], mode: toks[1]}
	n := atoi(toks[2])
	for _, t := range toks[3 : 3+n] {
		p := strings.SplitN(t, ":", 2)
		m := p[1]
		if m == "-" {
			m = ""
		}
		c.clients = append(c.clients, c12Client{p[0], m})
	}
	return c
}

// what a client's stream must deliver (harness-side copy, used only to know when to stop waiting)
func c12Expected(proto string, msgs string) []int {
	out := []int{}
	tpl := false
	for i, k := range msgs {
		ok := k == 't' || (k == 'd' && tpl)
		if k == 't' {
			tpl = true
		}
		if ok {
			out = append(out, i)
		} else if proto != "udp" {
			break
		}
	}
	return out
}

func c12Clean(msgs string) bool { return len(c12Expected("tcp", msgs)) == len(msgs) }

// c12Msg builds message number seq of client id.
func c12Msg(id int, seq int, kind byte, variant int) []byte {
	var body []byte
	setID := uint16(256)
	version := uint16(10)
	switch kind {
	case 't':
		setID = 2
		body = make([]byte, 12)
		binary.BigEndian.PutUint16(body[0:], 256) // template id
		binary.BigEndian.PutUint16(body[2:], 2)   // two fields
		binary.BigEndian.PutUint16(body[4:], 1)   // octetDeltaCount
		binary.BigEndian.PutUint16(body[6:], 8)
		binary.BigEndian.PutUint16(body[8:], 2) // packetDeltaCount
		binary.BigEndian.PutUint16(body[10:], 8)
	case 'd':
		nrec := 1 + variant%3
		if variant >= 6 { // long data sets: decoding takes longer (bursts must not overwrite them)
			nrec = 8 * (variant - 5)
		}
		body = make([]byte, 16*nrec)
		for r := 0; r < nrec; r++ {
			binary.BigEndian.PutUint64(body[16*r:], uint64(id)<<32|uint64(seq))
			binary.BigEndian.PutUint64(body[16*r+8:], uint64(r))
		}
	default: // 'x': wrong version, or a data set for a template nobody announced
		body = make([]byte, 16)
		if variant%2 == 0 {
			version = 9
		} else {
			setID = 999
		}
	}
	n := 20 + len(body)
	b := make([]byte, n)
	binary.BigEndian.PutUint16(b[0:], version)
	binary.BigEndian.PutUint16(b[2:], uint16(n))
	binary.BigEndian.PutUint32(b[4:], 1000)
	binary.BigEndian.PutUint32(b[8:], uint32(seq))
	binary.BigEndian.PutUint32(b[12:], uint32(id))
	binary.BigEndian.PutUint16(b[16:], setID)
	binary.BigEndian.PutUint16(b[18:], uint16(4+len(body)))
	copy(b[20:], body)
	return b
}

var c12Cert struct {
	once     sync.Once
	cert     []byte
	key      []byte
	rootPool *x509.CertPool
}

// certificates are minted at run time: the repository's static test certificates are expired
func c12MintCert() {
	c12Cert.once.Do(func() {
		priv, err := ecdsa.GenerateKey(elliptic.P256(), rand.Reader)
		if err != nil {
			panic(err)
		}
		tmpl := &x509.Certificate{
			SerialNumber: big.NewInt(time.Now().UnixNano()),
			Subject:      pkix.Name{CommonName: "c12-collector"},
			NotBefore:    time.Now().Add(-time.Hour),
			NotAfter:     time.Now().Add(24 * time.Hour),
			KeyUsage:     x509.KeyUsageDigitalSignature | x509.KeyUsageCertSign,
			ExtKeyUsage:  []x509.ExtKeyUsage{x509.ExtKeyUsageServerAuth},
			IsCA:         true, BasicConstraintsValid: true,
			IPAddresses: []net.IP{net.ParseIP("127.0.0.1")},
			DNSNames:    []string{"localhost"},
		}
		der, err := x509.CreateCertificate(rand.Reader, tmpl, tmpl, &priv.PublicKey, priv)
		if err != nil {
			panic(err)
		}
		kb, err := x509.MarshalECPrivateKey(priv)
		if err != nil {
			panic(err)
		}
		c12Cert.cert = pem.EncodeToMemory(&pem.Block{Type: "CERTIFICATE", Bytes: der})
		c12Cert.key = pem.EncodeToMemory(&pem.Block{Type: "EC PRIVATE KEY", Bytes: kb})
		c12Cert.rootPool = x509.NewCertPool()
		c12Cert.rootPool.AppendCertsFromPEM(c12Cert.cert)
	})
}

// perturb yields / sleeps a little, driven by the goroutine's own PRNG stream
func perturb(r *Rng, level int) {
	switch x := r.Intn(16); {
	case x < 6:
	case x < 12:
		runtime.Gosched()
	case x < 15:
		for i := 0; i < 1+r.Intn(4); i++ {
			runtime.Gosched()
		}
	default:
		if level > 0 {
			time.Sleep(time.Duration(1+r.Intn(200*level)) * time.Microsecond)
		} else {
			runtime.Gosched()
		}
	}
}

// watchdogs are generous, but once a few have expired in this run (something is already wrong and
// will be reported) the remaining cases use short ones so that the run still ends in time
var c12Expired atomic.Int32

// waitUntil polls cond (yielding, then sleeping) until it holds or the watchdog expires.
func waitUntil(d time.Duration, cond func() bool) bool {
	if c12Expired.Load() >= 3 && d > 200*time.Millisecond {
		d = 200 * time.Millisecond
	}
	defer func() {
		if d >= 200*time.Millisecond && !cond() {
			c12Expired.Add(1)
		}
	}()
	deadline := time.Now().Add(d)
	for i := 0; ; i++ {
		if cond() {
			return true
		}
		if time.Now().After(deadline) {
			return false
		}
		if i < 50 {
			runtime.Gosched()
		} else {
			time.Sleep(200 * time.Microsecond)
		}
	}
}

func collectorGoroutines() int {
	buf := make([]byte, 1<<22)
	n := runtime.Stack(buf, true)
	cnt := 0
	for _, g := range strings.Split(string(buf[:n]), "\n\n") {
		if strings.Contains(g, "go-ipfix/pkg/collector.") {
			cnt++
		}
	}
	return cnt
}

type c12Trace struct {
	mu      sync.Mutex
	pairs   [][2]int
	per     map[int]int // deliveries per client
	garbled int         // deliveries whose content is not what that (client, seq) sent
}

func (t *c12Trace) add(c, s int, bad bool) {
	t.mu.Lock()
	t.pairs = append(t.pairs, [2]int{c, s})
	t.per[c]++
	if bad {
		t.garbled++
	}
	t.mu.Unlock()
}

// c12Garbled checks the content of a delivered message against what c12Msg builds for the
// (client id, sequence number) in its header: a template set with the one template, or a data set
// whose every record carries (id<<32|seq, record index) and whose record count fills the message
// length. A message assembled from the bytes of two datagrams (or attributed to the wrong client)
// fails this check even when its header looks fine.
func c12Garbled(m *entities.Message) bool {
	set := m.GetSet()
	if set == nil {
		return true
	}
	id, seq := uint64(m.GetObsDomainID()), uint64(m.GetSequenceNum())
	recs := set.GetRecords()
	switch set.GetSetType() {
	case entities.Template:
		if len(recs) != 1 || m.GetMessageLen() != 32 {
			return true
		}
		els := recs[0].GetOrderedElementList()
		return recs[0].GetTemplateID() != 256 || len(els) != 2 ||
			els[0].GetInfoElement().ElementId != 1 || els[1].GetInfoElement().ElementId != 2
	case entities.Data:
		if len(recs) == 0 || int(m.GetMessageLen()) != 20+16*len(recs) {
			return true
		}
		for r, rec := range recs {
			els := rec.GetOrderedElementList()
			if len(els) != 2 {
				return true
			}
			if els[0].GetUnsigned64Value() != id<<32|seq || els[1].GetUnsigned64Value() != uint64(r) {
				return true
			}
		}
		return false
	}
	return true
}
func (t *c12Trace) count(c int) int {
	t.mu.Lock()
	defer t.mu.Unlock()
	return t.per[c]
}
func (t *c12Trace) total() int {
	t.mu.Lock()
	defer t.mu.Unlock()
	return len(t.pairs)
}

var c12Soak = os.Getenv("VERIF_C12_SOAK") != ""

// c12One runs one case against the real collector.
func c12One(c c12Case, rng *Rng) string {
	level := 1
	if c12Soak {
		level = 3
	}
	in := collector.CollectorInput{Address: "127.0.0.1:0", Protocol: "tcp", MaxBufferSize: 65535}
	switch c.proto {
	case "udp":
		in.Protocol = "udp"
	case "tls":
		c12MintCert()
		in.IsEncrypted = true
		in.ServerCert = c12Cert.cert
		in.ServerKey = c12Cert.key
	}
	cp, err := collector.InitCollectingProcess(in)
	if err != nil {
		return "init-error"
	}
	go cp.Start()
	if !waitUntil(10*time.Second, func() bool { return cp.GetAddress() != nil }) {
		return "start-error"
	}
	addr := cp.GetAddress().String()

	// consumer: keeps draining until told to quit (after Stop has returned)
	tr := &c12Trace{per: map[int]int{}}
	quit := make(chan struct{})
	consumerDone := make(chan struct{})
	crng := NewRng(rng.U64())
	// long UDP sessions: the exporter runs far ahead of a consumer that falls behind
	backlog := false
	if c.proto == "udp" {
		for _, cl := range c.clients {
			if len(cl.msgs) > 40 {
				backlog = true
			}
		}
	}
	go func() {
		defer close(consumerDone)
		ch := cp.GetMsgChan()
		for {
			select {
			case m := <-ch:
				tr.add(int(m.GetObsDomainID()), int(m.GetSequenceNum()), c12Garbled(m))
				perturb(crng, level)
				if backlog {
					time.Sleep(300 * time.Microsecond) // a consumer that falls behind
				}
			case <-quit:
				return
			}
		}
	}()

	expected := make([][]int, len(c.clients))
	totalExpected := 0
	for i, cl := range c.clients {
		expected[i] = c12Expected(c.proto, cl.msgs)
		totalExpected += len(expected[i])
	}
	release := make(chan struct{}) // closed after Stop: hold clients go away
	var cwg sync.WaitGroup
	var finished sync.WaitGroup // clients that are not "hold"
	for i, cl := range c.clients {
		cwg.Add(1)
		hold := cl.end == "hold" && c.proto != "udp"
		if !hold {
			finished.Add(1)
		}
		go func(id int, cl c12Client, r *Rng) {
			defer cwg.Done()
			doneOnce := sync.Once{}
			fin := func() {
				if !hold {
					doneOnce.Do(finished.Done)
				}
			}
			defer fin()
			perturb(r, level)
			var conn net.Conn
			var raw net.Conn
			var err error
			switch c.proto {
			case "tcp":
				conn, err = net.DialTimeout("tcp", addr, 5*time.Second)
				raw = conn
			case "tls":
				raw, err = net.DialTimeout("tcp", addr, 5*time.Second)
				if err == nil && hold && cl.msgs == "" && r.Bool() {
					// connected, but the TLS handshake is never started (or stalls after a few
					// bytes of the ClientHello): the collector holds a connection that has not
					// said anything yet - Stop must deal with it like with any other
					if r.Bool() {
						raw.Write([]byte{0x16, 0x03, 0x01, 0x02, 0x00, 0x01})
					}
					<-release
					raw.Close()
					return
				}
				if err == nil {
					tc := tls.Client(raw, &tls.Config{RootCAs: c12Cert.rootPool, ServerName: "127.0.0.1", MinVersion: tls.VersionTLS12})
					raw.SetDeadline(time.Now().Add(20 * time.Second))
					err = tc.Handshake()
					raw.SetDeadline(time.Time{})
					conn = tc
				}
			case "udp":
				conn, err = net.Dial("udp", addr)
				raw = conn
			}
			if err != nil {
				if raw != nil {
					raw.Close()
				}
				return // refused / reset: the collector is stopping
			}
			defer raw.Close()
			delivered := 0 // how many of this client's messages must have reached the consumer
			exp := expected[id]
			// udp: burst window = datagrams of this client in flight before it waits for the
			// consumer (1 = paced). The sum over all clients stays far below what the socket
			// buffer holds, so the kernel never drops in a quiet run.
			window := []int{1, 2, 4, 8}[r.Intn(4)]
			if lim := 48 / len(c.clients); window > lim {
				window = lim
			}
			if window < 1 {
				window = 1
			}
			if backlog {
				window = 64 // far ahead of a slow consumer (still far below the socket buffer)
			}
			for seq := 0; seq < len(cl.msgs); seq++ {
				b := c12Msg(id, seq, cl.msgs[seq], int(r.U64()%10))
				conn.SetWriteDeadline(time.Now().Add(20 * time.Second))
				if c.proto != "udp" && r.Intn(3) == 0 && len(b) > 4 {
					cut := 1 + r.Intn(len(b)-1)
					if _, err := conn.Write(b[:cut]); err != nil {
						return
					}
					perturb(r, level)
					if _, err := conn.Write(b[cut:]); err != nil {
						return
					}
				} else if _, err := conn.Write(b); err != nil {
					return
				}
				if delivered < len(exp) && exp[delivered] == seq {
					delivered++
					if c.proto == "udp" && (c.mode == "quiet" || r.Intn(2) == 0) {
						// pace: at most `window` datagrams of this client in flight, so that the kernel never drops
						want := delivered - window + 1
						select {
						case <-release:
						default:
							waitUntil(5*time.Second, func() bool {
								select {
								case <-release:
									return true
								default:
								}
								return tr.count(id) >= want
							})
						}
					}
				}
				perturb(r, level)
			}
			switch {
			case c.proto == "udp":
			case cl.end == "cut":
				// abrupt close in the middle of a frame: header announces more than is sent
				b := c12Msg(id, len(cl.msgs), 'd', 0)
				if r.Intn(3) == 0 {
					// ... or the last thing the peer got out is a header whose length field is
					// smaller than a header (0..3): nothing to deliver, nothing to wait for
					conn.Write([]byte{0, 10, 0, byte(r.Intn(4))})
				} else {
					conn.Write(b[:4+r.Intn(len(b)-5)])
				}
				raw.Close()
			case cl.end == "hold":
				<-release
			default:
				conn.Close()
			}
		}(i, cl, NewRng(rng.U64()))
	}

	conns := "-"
	if c.mode == "quiet" {
		// all clients that go away have gone away, everything they were owed has arrived
		fdone := make(chan struct{})
		go func() { finished.Wait(); close(fdone) }()
		select {
		case <-fdone:
		case <-time.After(60 * time.Second):
		}
		waitUntil(10*time.Second, func() bool { return tr.total() >= totalExpected })
		want := int64(0)
		for _, cl := range c.clients {
			if c.proto == "udp" {
				if len(cl.msgs) > 0 {
					want++
				}
			} else if cl.end == "hold" && c12Clean(cl.msgs) {
				want++
			}
		}
		// the value that ended the wait is the observation (a second read could see a
		// connection of a client that left before the collector got round to accepting it)
		var last int64
		waitUntil(10*time.Second, func() bool { last = cp.GetNumConnToCollector(); return last == want })
		conns = fmt.Sprint(last)
	} else {
		// Stop in the middle of the traffic: after a random share of the deliveries
		k := 0
		if totalExpected > 0 {
			k = rng.Intn(totalExpected + 1)
		}
		waitUntil(time.Duration(1+rng.Intn(30))*time.Millisecond, func() bool { return tr.total() >= k })
	}

	stopped := make(chan struct{})
	go func() { cp.Stop(); close(stopped) }()
	stop := "ok"
	select {
	case <-stopped:
	case <-time.After(60 * time.Second):
		stop = "hang"
	}
	close(release)
	cdone := make(chan struct{})
	go func() { cwg.Wait(); close(cdone) }()
	select {
	case <-cdone:
	case <-time.After(60 * time.Second):
	}
	// nothing of the process may be left: no goroutine, no listening socket
	left := 0
	waitUntil(10*time.Second, func() bool { left = collectorGoroutines(); return left == 0 })
	port := "open"
	waitUntil(5*time.Second, func() bool {
		if c.proto == "udp" {
			ua, _ := net.ResolveUDPAddr("udp", addr)
			l, err := net.ListenUDP("udp", ua)
			if err == nil {
				l.Close()
				port = "closed"
			}
		} else {
			cn, err := net.DialTimeout("tcp", addr, time.Second)
			if err != nil {
				port = "closed"
			} else {
				cn.Close()
			}
		}
		return port == "closed"
	})
	close(quit)
	<-consumerDone
	var sb strings.Builder
	sb.WriteString("deliv")
	tr.mu.Lock()
	for _, p := range tr.pairs {
		fmt.Fprintf(&sb, " %d %d", p[0], p[1])
	}
	tr.mu.Unlock()
	tr.mu.Lock()
	garbled := tr.garbled
	tr.mu.Unlock()
	fmt.Fprintf(&sb, " ; conns %s ; stop %s ; left %d ; port %s ; conns2 %d ; numrec %d ; garbled %d",
		conns, stop, left, port, cp.GetNumConnToCollector(), cp.GetNumRecordsReceived(), garbled)
	return sb.String()
}

func c12GenMsgs(r *Rng, maxLen int) string {
	n := r.Intn(maxLen + 1)
	var sb strings.Builder
	for i := 0; i < n; i++ {
		switch x := r.Intn(100); {
		case i == 0 && x < 85:
			sb.WriteByte('t')
		case x < 8:
			sb.WriteByte('x')
		case x < 20:
			sb.WriteByte('t')
		default:
			sb.WriteByte('d')
		}
	}
	return sb.String()
}

func runC12(env *Env) {
	registry.LoadRegistry()
	if len(env.Replay) > 0 {
		for _, line := range env.Replay {
			toks := strings.Fields(line)
			if len(toks) > 0 && toks[0] == "C12" {
				toks = toks[1:]
			}
			for i, t := range toks {
				if t == "|" {
					toks = toks[:i]
					break
				}
			}
			if len(toks) == 1 && toks[0] == "shared" {
				env.Emit("C12 shared", c12Shared())
				continue
			}
			c := parseC12(toks)
			// the property is schedule dependent: a replayed case is run several times, with
			// different timing / burst windows / write splitting drawn from the PRNG
			for rep := 0; rep < 6; rep++ {
				env.Emit("C12 "+c.String(), c12One(c, NewRng(env.Rng.U64())))
			}
		}
		return
	}
	env.Count("shared/one-domain-one-template-id-many-connections")
	env.Emit("C12 shared", c12Shared())
	r := env.Rng
	n := 300
	if c12Soak {
		n = 150
	}
	if env.Thorough() {
		n *= 12
	}
	sizes := []int{1, 1, 2, 2, 3, 4, 5, 8, 12, 16, 24, 32}
	for k := 0; k < n; k++ {
		c := c12Case{proto: []string{"tcp", "udp", "tls", "tcp", "udp"}[k%5], mode: []string{"quiet", "traffic"}[r.Intn(2)]}
		nc := sizes[r.Intn(len(sizes))]
		if c.proto == "tls" && nc > 16 && !env.Thorough() {
			nc = 16
		}
		maxLen := 14
		if nc >= 16 {
			maxLen = 8
		}
		for i := 0; i < nc; i++ {
			cl := c12Client{end: "close", msgs: c12GenMsgs(r, maxLen)}
			if c.proto != "udp" {
				cl.end = []string{"close", "close", "close", "cut", "hold"}[r.Intn(5)]
			}
			c.clients = append(c.clients, cl)
		}
		if c.proto == "udp" && k%10 == 1 {
			// one or two exporters with a long session each (backlog at the collector)
			c.mode = "quiet"
			c.clients = nil
			nc = 1 + r.Intn(2)
			for i := 0; i < nc; i++ {
				c.clients = append(c.clients, c12Client{end: "close", msgs: "t" + strings.Repeat("d", 90+r.Intn(60))})
			}
			env.Count("udp/backlog")
		}
		env.Count("proto/" + c.proto)
		env.Count("mode/" + c.mode)
		env.Count(fmt.Sprintf("clients/%02d", nc))
		env.Emit("C12 "+c.String(), c12One(c, NewRng(r.U64())))
	}
}
