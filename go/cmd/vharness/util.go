package main

import (
	"encoding/hex"
	"fmt"
	"strconv"
	"strings"
)

// Rng: splitmix64, the single source of every random choice.
type Rng struct{ s uint64 }

// NewRng scrambles the seed first: nearby seeds must give unrelated streams (a plain
// "seed * increment" start would make seed n+1 the stream of seed n shifted by one draw).
func NewRng(seed uint64) *Rng {
	z := seed + 0x632BE59BD9B4E019
	z = (z ^ (z >> 30)) * 0xBF58476D1CE4E5B9
	z = (z ^ (z >> 27)) * 0x94D049BB133111EB
	return &Rng{s: z ^ (z >> 31)}
}
func (r *Rng) U64() uint64 {
	r.s += 0x9E3779B97F4A7C15
	z := r.s
	z = (z ^ (z >> 30)) * 0xBF58476D1CE4E5B9
	z = (z ^ (z >> 27)) * 0x94D049BB133111EB
	return z ^ (z >> 31)
}
func (r *Rng) Intn(n int) int {
	if n <= 0 {
		return 0
	}
	return int(r.U64() % uint64(n))
}
func (r *Rng) Bool() bool { return r.U64()&1 == 1 }
func (r *Rng) Bytes(n int) []byte {
	b := make([]byte, n)
	for i := range b {
		b[i] = byte(r.U64())
	}
	return b
}

// Pat is the deterministic byte pattern also defined in coq/Base/Bytes.v (pat).
func Pat(n int, seed uint64) []byte {
	out := make([]byte, n)
	s := seed
	for i := 0; i < n; i++ {
		s = (s*1103515245 + 12345) % 2147483648
		out[i] = byte(s / 65536)
	}
	return out
}

// BHash mirrors coq/Base/Bytes.v bhash.
func BHash(b []byte) uint64 {
	h := uint64(7)
	for _, x := range b {
		h = (h*31 + uint64(x)) % 4294967296
	}
	return h
}

// ShowBytes mirrors coq/Base/Str.v show_bytes.
func ShowBytes(b []byte) string {
	if len(b) == 0 {
		return "-"
	}
	if len(b) <= 48 {
		return hex.EncodeToString(b)
	}
	return fmt.Sprintf("#%d:%s:%d", len(b), hex.EncodeToString(b[:8]), BHash(b))
}

// BytesArg renders a byte-string argument of a case ("-", "hex ..").
func BytesArg(b []byte) string {
	if len(b) == 0 {
		return "-"
	}
	return "hex " + hex.EncodeToString(b)
}

// ParseBytesArg consumes a byte-string argument from tokens.
func ParseBytesArg(t []string) ([]byte, []string) {
	switch t[0] {
	case "-":
		return []byte{}, t[1:]
	case "hex":
		b, err := hex.DecodeString(t[1])
		if err != nil {
			panic(err)
		}
		return b, t[2:]
	case "pat":
		n, _ := strconv.Atoi(t[1])
		s, _ := strconv.ParseUint(t[2], 10, 64)
		return Pat(n, s), t[3:]
	}
	panic("bad bytes arg: " + strings.Join(t, " "))
}

func ShowBool(b bool) string {
	if b {
		return "T"
	}
	return "F"
}

func atoi(s string) int {
	n, err := strconv.Atoi(s)
	if err != nil {
		panic(err)
	}
	return n
}
func atou(s string) uint64 {
	n, err := strconv.ParseUint(s, 10, 64)
	if err != nil {
		panic(err)
	}
	return n
}
func atoz(s string) int64 {
	n, err := strconv.ParseInt(s, 10, 64)
	if err != nil {
		panic(err)
	}
	return n
}
