package main

// C10 - UDP template lifetime. The collecting process runs on a harness clock (VerifClock) whose
// timers follow the documented time.Timer semantics for AfterFunc timers (the same semantics as
// coq/Model/Ttl.v) and whose every scheduling decision is taken by the driver:
//
//	A ns   Advance   virtual now += ns (nothing fires by itself)
//	F t    Fire      timer t, if armed and due, becomes unarmed and its callback starts in a new
//	                 goroutine, which parks inside its first clock.Now() call
//	S c    CbBegin   callback c's Now() samples the virtual time (still parked: a goroutine
//	                 pre-empted right after reading the clock)
//	E c    CbEnd     Now() returns the sampled time; the callback runs deleteTemplateWithConds
//	                 to completion
//	T d i tag / B d i / D d i   template, malformed template (invalidation), data set for key (d,i)
//	X c d i tag      CbEnd of callback c with a template refresh for key (d,i) processed while the
//	                 callback is between two of its critical sections: every Lock/RLock of the
//	                 collector mutex is a scheduling point (overlay/ov_collector.py); the refresh
//	                 runs in the gap before the callback's SECOND lock acquisition after the clock
//	                 read. A callback that takes one critical section (the code as the model has
//	                 it: ACbEnd is atomic) has no gap, and X is then T followed by E - which is
//	                 also what X means in the model (ATemplate; ACbEnd), so that a refresh
//	                 processed inside a split check-then-delete is judged against "the refresh
//	                 came first". Two observation groups: after the refresh, after the callback.
//
// Disabled actions are no-ops. After every action: a probe data set per key of the universe,
// the template table (VerifTemplates), the armed timers and the callbacks in flight.

import (
	"encoding/binary"
	"fmt"
	"runtime"
	"strconv"
	"strings"
	"sync"
	"sync/atomic"
	"time"

	"github.com/vmware/go-ipfix/pkg/collector"
	"github.com/vmware/go-ipfix/pkg/registry"
)

func init() { register("C10", runC10) }

var c10Epoch = time.Unix(1700000000, 0)

// generous: a callback reaches its parking point in microseconds; the watchdog only trips when the
// code under test blocks (e.g. reads the clock while holding cp.mutex). After c10MaxHangs hung
// cases the generators stop (a change that hangs does so on thousands of cases).
const c10Watchdog = 10 * time.Second
const c10MaxHangs = 3

var c10Hangs int

// ---------------------------------------------------------------------------------------------
// harness clock

type c10Timer struct {
	c        *c10Clock
	id       int
	f        func()
	armed    bool
	deadline int64
}

type c10Cb struct {
	id       int
	timer    int
	state    int // 0 started, clock not read; 1 clock read; 2 finished
	sampled  int64
	nowCalls int
	sections int    // lock acquisitions of the collector mutex after the clock read
	inject   func() // X: runs once, before the second of them
	parked   chan struct{}
	release  chan struct{}
	done     chan struct{}
	panicked bool
}

type c10Clock struct {
	mu     sync.Mutex
	now    int64
	tick   int64 // the clock moves by tick after every Now (outside callbacks), AfterFunc and Reset
	timers []*c10Timer
	cbs    []*c10Cb
	gids   map[uint64]*c10Cb
}

// c10HookClock is the clock of the simulation in progress (simulations run one at a time).
var c10HookClock atomic.Pointer[c10Clock]
var c10MaxSections int64

// c10LockHook is collector.VerifLockHook during C10 runs: it counts the critical sections a
// callback takes after reading the clock and runs the armed injection in the first gap. While
// the injection runs the goroutine is not treated as the callback (its clock reads tick like
// any other addTemplate, its lock operations are not counted).
func c10LockHook(write bool) {
	c := c10HookClock.Load()
	if c == nil {
		return
	}
	gid := curGID()
	c.mu.Lock()
	cb := c.gids[gid]
	if cb == nil || cb.state != 1 {
		c.mu.Unlock()
		return
	}
	cb.sections++
	if int64(cb.sections) > atomic.LoadInt64(&c10MaxSections) {
		atomic.StoreInt64(&c10MaxSections, int64(cb.sections))
	}
	inj := cb.inject
	if cb.sections < 2 || inj == nil {
		c.mu.Unlock()
		return
	}
	cb.inject = nil
	delete(c.gids, gid)
	c.mu.Unlock()
	inj()
	c.mu.Lock()
	c.gids[gid] = cb
	c.mu.Unlock()
}

func curGID() uint64 {
	var buf [64]byte
	n := runtime.Stack(buf[:], false)
	// "goroutine 123 [running]:"
	f := strings.Fields(string(buf[:n]))
	id, _ := strconv.ParseUint(f[1], 10, 64)
	return id
}

func (c *c10Clock) Now() time.Time {
	gid := curGID()
	c.mu.Lock()
	cb := c.gids[gid]
	if cb == nil {
		t := c10Epoch.Add(time.Duration(c.now))
		c.now += c.tick
		c.mu.Unlock()
		return t
	}
	cb.nowCalls++
	if cb.nowCalls > 1 {
		// a callback reading the clock again gets the current time without parking
		t := c10Epoch.Add(time.Duration(c.now))
		c.mu.Unlock()
		return t
	}
	c.mu.Unlock()
	cb.parked <- struct{}{}
	<-cb.release
	c.mu.Lock()
	t := c10Epoch.Add(time.Duration(cb.sampled))
	c.mu.Unlock()
	return t
}

func (c *c10Clock) AfterFunc(d time.Duration, f func()) collector.VerifTimer {
	c.mu.Lock()
	defer c.mu.Unlock()
	t := &c10Timer{c: c, id: len(c.timers), f: f, armed: true, deadline: c.now + int64(d)}
	c.timers = append(c.timers, t)
	c.now += c.tick
	return t
}

func (t *c10Timer) Stop() bool {
	t.c.mu.Lock()
	defer t.c.mu.Unlock()
	was := t.armed
	t.armed = false
	return was
}

func (t *c10Timer) Reset(d time.Duration) bool {
	t.c.mu.Lock()
	defer t.c.mu.Unlock()
	was := t.armed
	t.armed = true
	t.deadline = t.c.now + int64(d)
	t.c.now += t.c.tick
	return was
}

func (c *c10Clock) Advance(d int64) {
	if d < 0 {
		return
	}
	c.mu.Lock()
	c.now += d
	c.mu.Unlock()
}

// Fire starts the callback of timer t if it is armed and due; returns "" or "hang".
func (c *c10Clock) Fire(t int) string {
	c.mu.Lock()
	if t < 0 || t >= len(c.timers) || !c.timers[t].armed || c.timers[t].deadline > c.now {
		c.mu.Unlock()
		return ""
	}
	tm := c.timers[t]
	tm.armed = false
	cb := &c10Cb{id: len(c.cbs), timer: t, parked: make(chan struct{}, 1), release: make(chan struct{}), done: make(chan struct{})}
	c.cbs = append(c.cbs, cb)
	c.mu.Unlock()
	registered := make(chan struct{})
	go func() {
		gid := curGID()
		c.mu.Lock()
		c.gids[gid] = cb
		c.mu.Unlock()
		close(registered)
		defer func() {
			if r := recover(); r != nil {
				cb.panicked = true
			}
			c.mu.Lock()
			cb.state = 2
			delete(c.gids, gid)
			c.mu.Unlock()
			close(cb.done)
		}()
		tm.f()
	}()
	<-registered
	select {
	case <-cb.parked:
	case <-cb.done: // a callback that never reads the clock
	case <-time.After(c10Watchdog):
		return "hang"
	}
	return ""
}

func (c *c10Clock) CbBegin(id int) {
	c.mu.Lock()
	defer c.mu.Unlock()
	if id < 0 || id >= len(c.cbs) || c.cbs[id].state != 0 {
		return
	}
	c.cbs[id].state = 1
	c.cbs[id].sampled = c.now
}

func (c *c10Clock) CbEnd(id int) string {
	c.mu.Lock()
	if id < 0 || id >= len(c.cbs) || c.cbs[id].state != 1 {
		c.mu.Unlock()
		return ""
	}
	cb := c.cbs[id]
	c.mu.Unlock()
	close(cb.release)
	select {
	case <-cb.done:
	case <-time.After(c10Watchdog):
		return "hang"
	}
	if cb.panicked {
		return "panic"
	}
	return ""
}

// CbEndInject is CbEnd with inj armed for the first gap between two critical sections of the
// callback. Returns the CbEnd result and whether inj ran.
func (c *c10Clock) CbEndInject(id int, inj func()) (string, bool) {
	c.mu.Lock()
	if id < 0 || id >= len(c.cbs) || c.cbs[id].state != 1 {
		c.mu.Unlock()
		return "", false
	}
	cb := c.cbs[id]
	cb.inject = inj
	c.mu.Unlock()
	r := c.CbEnd(id)
	c.mu.Lock()
	ran := cb.inject == nil
	cb.inject = nil
	c.mu.Unlock()
	return r, ran
}

// drain lets every parked callback finish (end of a case).
func (c *c10Clock) drain() {
	c.mu.Lock()
	cbs := append([]*c10Cb{}, c.cbs...)
	c.mu.Unlock()
	for _, cb := range cbs {
		c.mu.Lock()
		st := cb.state
		if st == 0 {
			cb.state, cb.sampled = 1, c.now
		}
		c.mu.Unlock()
		if st != 2 {
			select {
			case <-cb.release:
			default:
				close(cb.release)
			}
			select {
			case <-cb.done:
			case <-time.After(c10Watchdog):
			}
		}
	}
}

// ---------------------------------------------------------------------------------------------
// messages

type c10Key struct {
	d uint32
	i uint16
}

var c10Universe = []c10Key{{1, 256}, {1, 257}, {2, 256}, {2, 257}}

func c10Msg(obs uint32, setID uint16, body []byte) []byte { return dataMsg(obs, setID, body) }

// template record: tag 0 = [sourceIPv4Address], otherwise [sourceIPv4Address, destinationIPv4Address]
func c10TemplateMsg(k c10Key, tag uint64) []byte {
	ids := []uint16{8}
	if tag != 0 {
		ids = []uint16{8, 12}
	}
	body := make([]byte, 4+4*len(ids))
	binary.BigEndian.PutUint16(body[0:], k.i)
	binary.BigEndian.PutUint16(body[2:], uint16(len(ids)))
	for j, id := range ids {
		binary.BigEndian.PutUint16(body[4+4*j:], id)
		binary.BigEndian.PutUint16(body[6+4*j:], 4)
	}
	return c10Msg(k.d, 2, body)
}

// malformed after the template header: two fields announced, one present
func c10BadTemplateMsg(k c10Key) []byte {
	body := make([]byte, 8)
	binary.BigEndian.PutUint16(body[0:], k.i)
	binary.BigEndian.PutUint16(body[2:], 2)
	binary.BigEndian.PutUint16(body[4:], 8)
	binary.BigEndian.PutUint16(body[6:], 4)
	return c10Msg(k.d, 2, body)
}

func c10DataMsg(k c10Key) []byte {
	return c10Msg(k.d, k.i, []byte{10, 0, 0, 1, 10, 0, 0, 2})
}

// ---------------------------------------------------------------------------------------------
// one simulation

type c10Act struct {
	op  string
	k   c10Key
	tag uint64
	n   int64
}

func (a c10Act) String() string {
	switch a.op {
	case "T":
		return fmt.Sprintf("T %d %d %d", a.k.d, a.k.i, a.tag)
	case "B", "D":
		return fmt.Sprintf("%s %d %d", a.op, a.k.d, a.k.i)
	case "X":
		return fmt.Sprintf("X %d %d %d %d", a.n, a.k.d, a.k.i, a.tag)
	}
	return fmt.Sprintf("%s %d", a.op, a.n)
}

type c10Sim struct {
	clk  *c10Clock
	cp   *collector.CollectingProcess
	dead bool
	ttl  int64 // ns
}

func newC10Sim(ttlSecs uint32, tick int64) *c10Sim {
	clk := &c10Clock{gids: map[uint64]*c10Cb{}, tick: tick}
	cp, err := collector.VerifInitCollectingProcess(collector.CollectorInput{
		Address: "127.0.0.1:0", Protocol: "udp", MaxBufferSize: 65535, TemplateTTL: ttlSecs,
	}, clk)
	if err != nil {
		panic(err)
	}
	c10HookClock.Store(clk)
	return &c10Sim{clk: clk, cp: cp}
}

// guarded runs f under a watchdog and a recover; "" | "hang" | "panic".
func c10Guarded(f func() string) string {
	res := make(chan string, 1)
	go func() {
		defer func() {
			if r := recover(); r != nil {
				res <- "panic"
			}
		}()
		res <- f()
	}()
	select {
	case s := <-res:
		return s
	case <-time.After(c10Watchdog):
		return "hang"
	}
}

// Step performs one planned action and returns the actions that make up what actually happened
// and their observation groups. Every action but X is itself. X c k tag arms the refresh for the
// first gap between two critical sections of callback c and lets the callback finish: when the
// refresh ran in such a gap the history is [X c k tag] (two groups: in the gap, after the
// callback); when the callback took a single critical section (or was not enabled) it has
// completed before the refresh could be placed, and the history is [E c; T k tag].
func (s *c10Sim) Step(a c10Act) ([]c10Act, string) {
	if a.op != "X" || s.dead {
		return []c10Act{a}, s.Do(a)
	}
	mid := ""
	ran := false
	r := c10Guarded(func() string {
		var res string
		res, ran = s.clk.CbEndInject(int(a.n), func() {
			s.cp.VerifDecodePacket(c10TemplateMsg(a.k, a.tag), "127.0.0.1:1")
			mid = s.observe()
		})
		return res
	})
	if r != "" {
		s.dead = true
		if r == "hang" {
			c10Hangs++
		}
		return []c10Act{a}, r
	}
	o := c10Guarded(func() string { return "=" + s.observe() })
	if !strings.HasPrefix(o, "=") {
		s.dead = true
		if o == "hang" {
			c10Hangs++
		}
		if ran {
			return []c10Act{a}, mid + " " + o
		}
		return []c10Act{{op: "E", n: a.n}}, o
	}
	if ran {
		return []c10Act{a}, mid + " " + o[1:]
	}
	t := c10Act{op: "T", k: a.k, tag: a.tag}
	return []c10Act{{op: "E", n: a.n}, t}, o[1:] + " " + s.Do(t)
}

// Do performs one action and returns the observation group ("/ ...").
func (s *c10Sim) Do(a c10Act) string {
	if s.dead {
		return "dead"
	}
	r := c10Guarded(func() string {
		switch a.op {
		case "T":
			s.cp.VerifDecodePacket(c10TemplateMsg(a.k, a.tag), "127.0.0.1:1")
		case "B":
			s.cp.VerifDecodePacket(c10BadTemplateMsg(a.k), "127.0.0.1:1")
		case "D":
			s.cp.VerifDecodePacket(c10DataMsg(a.k), "127.0.0.1:1")
		case "A":
			s.clk.Advance(a.n)
		case "F":
			return s.clk.Fire(int(a.n))
		case "S":
			s.clk.CbBegin(int(a.n))
		case "E":
			return s.clk.CbEnd(int(a.n))
		}
		return ""
	})
	if r != "" {
		s.dead = true
		if r == "hang" {
			c10Hangs++
		}
		return r
	}
	o := c10Guarded(func() string { return "=" + s.observe() })
	if !strings.HasPrefix(o, "=") {
		s.dead = true
		if o == "hang" {
			c10Hangs++
		}
		return o
	}
	return o[1:]
}

func (s *c10Sim) observe() string {
	var sb strings.Builder
	s.clk.mu.Lock()
	now := s.clk.now
	s.clk.mu.Unlock()
	fmt.Fprintf(&sb, "/ %d", now)
	for _, k := range c10Universe {
		msg, err := s.cp.VerifDecodePacket(c10DataMsg(k), "127.0.0.1:1")
		if err != nil {
			sb.WriteString(" x")
		} else {
			fmt.Fprintf(&sb, " %d", len(msg.GetSet().GetRecords()))
		}
	}
	tpls, ndom := s.cp.VerifTemplates()
	fmt.Fprintf(&sb, " %d", ndom)
	for _, t := range tpls {
		id := -1
		if ht, ok := t.Timer.(*c10Timer); ok && ht != nil {
			id = ht.id
		}
		fmt.Fprintf(&sb, " t %d %d %d %d %d", t.ObsDomainID, t.TemplateID, len(t.IEs)-1, int64(t.ExpiryTime.Sub(c10Epoch)), id)
	}
	s.clk.mu.Lock()
	for _, t := range s.clk.timers {
		if t.armed {
			fmt.Fprintf(&sb, " a %d %d", t.id, t.deadline)
		}
	}
	for _, cb := range s.clk.cbs {
		switch cb.state {
		case 0:
			fmt.Fprintf(&sb, " f %d %d _", cb.id, cb.timer)
		case 1:
			fmt.Fprintf(&sb, " f %d %d %d", cb.id, cb.timer, cb.sampled)
		}
	}
	s.clk.mu.Unlock()
	return sb.String()
}

func (s *c10Sim) Close() { s.clk.drain() }

// c10RunCase runs a whole case and returns the observation.
func c10RunCase(ttlSecs uint32, tick int64, acts []c10Act) ([]c10Act, string) {
	s := newC10Sim(ttlSecs, tick)
	defer s.Close()
	out := make([]string, 0, len(acts))
	did := make([]c10Act, 0, len(acts))
	for _, a := range acts {
		d, o := s.Step(a)
		did = append(did, d...)
		out = append(out, o)
		if s.dead {
			break
		}
	}
	return did, strings.Join(out, " ")
}

func c10CaseLine(ttlSecs uint32, tick int64, acts []c10Act) string {
	p := make([]string, 0, len(acts)+1)
	if tick != 0 {
		p = append(p, fmt.Sprintf("C10 ttl %d tick %d", ttlSecs, tick))
	} else {
		p = append(p, fmt.Sprintf("C10 ttl %d", ttlSecs))
	}
	for _, a := range acts {
		p = append(p, a.String())
	}
	return strings.Join(p, " ")
}

func c10ParseCase(t []string) (uint32, int64, []c10Act) {
	// t: "ttl" secs ["tick" ns] actions...
	ttl := uint32(atou(t[1]))
	t = t[2:]
	tick := int64(0)
	if len(t) >= 2 && t[0] == "tick" {
		tick = atoz(t[1])
		t = t[2:]
	}
	acts := []c10Act{}
	for len(t) > 0 {
		switch t[0] {
		case "T":
			acts = append(acts, c10Act{op: "T", k: c10Key{uint32(atou(t[1])), uint16(atou(t[2]))}, tag: atou(t[3])})
			t = t[4:]
		case "B", "D":
			acts = append(acts, c10Act{op: t[0], k: c10Key{uint32(atou(t[1])), uint16(atou(t[2]))}})
			t = t[3:]
		case "X":
			acts = append(acts, c10Act{op: "X", n: atoz(t[1]), k: c10Key{uint32(atou(t[2])), uint16(atou(t[3]))}, tag: atou(t[4])})
			t = t[5:]
		default:
			acts = append(acts, c10Act{op: t[0], n: atoz(t[1])})
			t = t[2:]
		}
	}
	return ttl, tick, acts
}

// ---------------------------------------------------------------------------------------------
// generators

func c10TTLns(ttlSecs uint32) int64 {
	if ttlSecs == 0 {
		return 1800 * int64(time.Second)
	}
	return int64(ttlSecs) * int64(time.Second)
}

// random case, generated while it runs so that most scheduling actions are enabled ones
func c10Random(env *Env, ttlSecs uint32, tick int64, depth int, nkeys int, split bool) (string, string) {
	r := env.Rng
	s := newC10Sim(ttlSecs, tick)
	defer s.Close()
	ttl := c10TTLns(ttlSecs)
	keys := c10Universe[:nkeys]
	acts := []c10Act{}
	obs := []string{}
	refreshWhilePending, staleEnd := false, false
	for len(acts) < depth && !s.dead {
		clk := s.clk
		clk.mu.Lock()
		var due, armedNotDue, fresh, begun []int
		next := int64(-1)
		for _, t := range clk.timers {
			if t.armed {
				if t.deadline <= clk.now {
					due = append(due, t.id)
				} else {
					armedNotDue = append(armedNotDue, t.id)
					if next < 0 || t.deadline-clk.now < next {
						next = t.deadline - clk.now
					}
				}
			}
		}
		for _, cb := range clk.cbs {
			if cb.state == 0 {
				fresh = append(fresh, cb.id)
			} else if cb.state == 1 {
				begun = append(begun, cb.id)
			}
		}
		ntm, ncb := len(clk.timers), len(clk.cbs)
		nowNs := clk.now
		clk.mu.Unlock()
		var a c10Act
		k := keys[r.Intn(len(keys))]
		switch x := r.Intn(100); {
		case x < 22:
			a = c10Act{op: "T", k: k, tag: uint64(r.Intn(2))}
			if len(fresh)+len(begun) > 0 {
				refreshWhilePending = true
			}
		case x < 27:
			a = c10Act{op: "B", k: k}
		case x < 31:
			a = c10Act{op: "D", k: k}
		case x < 53:
			var d int64
			switch y := r.Intn(12); {
			case y < 4 && next > 0:
				d = next
			case y < 5 && next > 1:
				d = next - 1
			case y < 6 && next > 0:
				d = next + 1
			case y < 7:
				d = ttl
			case y < 8:
				d = ttl - 1
			case y < 9:
				d = ttl / 2
			case y < 10:
				d = 1
			case y < 11:
				d = int64(r.Intn(int(ttl/int64(time.Millisecond)))) * int64(time.Millisecond)
			default:
				d = -5
			}
			// virtual time stays where now+ttl is representable as a time.Duration (int64 ns,
			// about 292 years): beyond it time.Time.Sub saturates, which is the clock's
			// arithmetic and not the collector's
			if d > 0 && nowNs > int64(9.2e18)-ttl-int64(1e12)-d {
				d = -5
			}
			a = c10Act{op: "A", n: d}
		case x < 70:
			if len(due) > 0 && r.Intn(10) > 0 {
				a = c10Act{op: "F", n: int64(due[r.Intn(len(due))])}
			} else if len(armedNotDue) > 0 && r.Bool() {
				a = c10Act{op: "F", n: int64(armedNotDue[r.Intn(len(armedNotDue))])}
			} else {
				a = c10Act{op: "F", n: int64(r.Intn(ntm + 1))}
			}
		case x < 84:
			if len(fresh) > 0 && r.Intn(10) > 0 {
				a = c10Act{op: "S", n: int64(fresh[r.Intn(len(fresh))])}
			} else {
				a = c10Act{op: "S", n: int64(r.Intn(ncb + 1))}
			}
		default:
			if split && len(begun) > 0 && r.Intn(3) > 0 {
				// a refresh processed while the callback is between its critical sections
				a = c10Act{op: "X", n: int64(begun[r.Intn(len(begun))]), k: k, tag: uint64(r.Intn(2))}
			} else if len(begun) > 0 && r.Intn(10) > 0 {
				a = c10Act{op: "E", n: int64(begun[r.Intn(len(begun))])}
				if len(begun)+len(fresh) > 1 {
					staleEnd = true
				}
			} else {
				a = c10Act{op: "E", n: int64(r.Intn(ncb + 1))}
			}
		}
		did, o := s.Step(a)
		if a.op == "X" {
			if did[0].op == "X" {
				env.Count("split/refresh-placed-between-two-critical-sections-of-a-callback")
			} else {
				env.Count("split/callback-was-one-critical-section:ran-as-E-then-T")
			}
		}
		acts = append(acts, did...)
		obs = append(obs, o)
	}
	if refreshWhilePending {
		env.Count("random/template-while-callback-in-flight")
	}
	if staleEnd {
		env.Count("random/callback-end-with-others-in-flight")
	}
	return c10CaseLine(ttlSecs, tick, acts), strings.Join(obs, " ")
}

// exhaustive enumeration of all sequences of the alphabet
//   T k 0 (each key) [, T k 1 when tags2], B k (each key), A ttl, A ttl/2 (when half), every
//   enabled F t, every enabled S c, every enabled E c
// up to the given depth.
func c10Enumerate(env *Env, ttlSecs uint32, tick int64, keys []c10Key, tags2, half bool, depth int, class string) {
	ttl := c10TTLns(ttlSecs)
	var rec func(prefix []c10Act)
	rec = func(prefix []c10Act) {
		if c10Hangs >= c10MaxHangs {
			return
		}
		s := newC10Sim(ttlSecs, tick)
		out := make([]string, 0, len(prefix))
		for _, a := range prefix {
			out = append(out, s.Do(a))
		}
		if len(prefix) > 0 {
			// every node is a case of its own (not only the leaves), so that the shortest
			// failing case reported is a minimal prefix
			env.Count(class)
			env.Emit(c10CaseLine(ttlSecs, tick, prefix), strings.Join(out, " "))
		}
		if len(prefix) == depth || s.dead {
			s.Close()
			return
		}
		choices := []c10Act{}
		for _, k := range keys {
			choices = append(choices, c10Act{op: "T", k: k, tag: 0})
			if tags2 {
				choices = append(choices, c10Act{op: "T", k: k, tag: 1})
			}
		}
		for _, k := range keys {
			choices = append(choices, c10Act{op: "B", k: k})
		}
		choices = append(choices, c10Act{op: "A", n: ttl})
		if half {
			choices = append(choices, c10Act{op: "A", n: ttl / 2})
		}
		s.clk.mu.Lock()
		for _, t := range s.clk.timers {
			if t.armed && t.deadline <= s.clk.now {
				choices = append(choices, c10Act{op: "F", n: int64(t.id)})
			}
		}
		for _, cb := range s.clk.cbs {
			if cb.state == 0 {
				choices = append(choices, c10Act{op: "S", n: int64(cb.id)})
			} else if cb.state == 1 {
				choices = append(choices, c10Act{op: "E", n: int64(cb.id)})
			}
		}
		s.clk.mu.Unlock()
		s.Close()
		for _, c := range choices {
			rec(append(append([]c10Act{}, prefix...), c))
		}
	}
	rec(nil)
}

// c10Split: refreshes placed inside the expiry callback (action X), after every other generator so
// that their random streams are what they were. Directed schedules first (the deadline reached,
// the callback past its clock read, the periodic refresh of the same template arriving before the
// callback is done - with one and two keys, a standing and a moving clock, a callback made stale
// by an earlier refresh), then random walks in which two thirds of the callback completions are X.
func c10Split(env *Env, ttls []uint32) {
	k0, k1 := c10Universe[0], c10Universe[1]
	for _, ttlSecs := range []uint32{1, 3, 0} {
		ttl := c10TTLns(ttlSecs)
		for _, tick := range []int64{0, 1, 7} {
			T := func(k c10Key, g uint64) c10Act { return c10Act{op: "T", k: k, tag: g} }
			A := func(n int64) c10Act { return c10Act{op: "A", n: n} }
			N := func(op string, n int64) c10Act { return c10Act{op: op, n: n} }
			X := func(c int64, k c10Key, g uint64) c10Act { return c10Act{op: "X", n: c, k: k, tag: g} }
			D := func(k c10Key) c10Act { return c10Act{op: "D", k: k} }
			for _, acts := range [][]c10Act{
				{T(k0, 0), A(ttl + 2*tick), N("F", 0), N("S", 0), X(0, k0, 0), D(k0)},
				{T(k0, 0), A(ttl + 2*tick), N("F", 0), N("S", 0), X(0, k0, 1), D(k0), A(ttl - 1), D(k0)},
				{T(k0, 0), A(ttl + 2*tick + 5), N("F", 0), A(3), N("S", 0), A(4), X(0, k0, 0), D(k0)},
				{T(k0, 0), T(k1, 1), A(ttl + 4*tick), N("F", 1), N("F", 0), N("S", 0), N("S", 1), X(1, k1, 1), X(0, k0, 0), D(k0), D(k1)},
				{T(k0, 0), T(k1, 0), A(ttl + 4*tick), N("F", 0), N("S", 0), X(0, k1, 0), D(k0), D(k1)},
				{T(k0, 0), A(ttl + 2*tick), N("F", 0), T(k0, 0), N("S", 0), X(0, k0, 0), D(k0), A(ttl + 2*tick), N("F", 0), N("S", 1), X(1, k0, 0), D(k0)},
				{T(k0, 0), A(ttl + 2*tick), N("F", 0), N("S", 0), c10Act{op: "B", k: k0}, X(0, k0, 0), D(k0)},
			} {
				did, o := c10RunCase(ttlSecs, tick, acts)
				env.Count("split/directed")
				env.Emit(c10CaseLine(ttlSecs, tick, did), o)
			}
		}
	}
	n := 400
	if env.Thorough() {
		n = 10000
	}
	for i := 0; i < n && c10Hangs < c10MaxHangs; i++ {
		nkeys := 1 + env.Rng.Intn(2)
		tick := []int64{0, 0, 1, 7}[env.Rng.Intn(4)]
		c, o := c10Random(env, ttls[env.Rng.Intn(len(ttls))], tick, 10+env.Rng.Intn(40), nkeys, true)
		env.Count("split/random")
		env.Emit(c, o)
	}
}

func runC10(env *Env) {
	registry.LoadRegistry()
	collector.VerifLockHook = c10LockHook
	if len(env.Replay) > 0 {
		for _, l := range env.Replay {
			t := strings.Fields(l)
			c := t[1:]
			for i, x := range c {
				if x == "|" {
					c = c[:i]
					break
				}
			}
			ttl, tick, acts := c10ParseCase(c)
			did, o := c10RunCase(ttl, tick, acts)
			env.Emit(c10CaseLine(ttl, tick, did), o)
		}
		return
	}
	one := c10Universe[:1]
	if env.Thorough() {
		c10Enumerate(env, 1, 0, one, true, true, 7, "exhaustive/1key-2tags-depth7")
		c10Enumerate(env, 3, 0, one, false, false, 10, "exhaustive/1key-1tag-depth10")
		c10Enumerate(env, 3, 1, one, false, false, 9, "exhaustive/1key-1tag-tick1-depth9")
		c10Enumerate(env, 2, 0, c10Universe, false, false, 5, "exhaustive/4keys-depth5")
	} else {
		c10Enumerate(env, 1, 0, one, true, true, 5, "exhaustive/1key-2tags-depth5")
		c10Enumerate(env, 3, 0, one, false, false, 8, "exhaustive/1key-1tag-depth8")
		c10Enumerate(env, 3, 1, one, false, false, 6, "exhaustive/1key-1tag-tick1-depth6")
		c10Enumerate(env, 2, 0, c10Universe, false, false, 3, "exhaustive/4keys-depth3")
	}
	n := 1500
	if env.Thorough() {
		n = 40000
	}
	// the configured lifetime is a uint32 of seconds: small values, the default (0), and values
	// around 2^31/1000, 2^32/1000 and the maximum (the "never expire" idiom)
	ttls := []uint32{1, 1, 2, 3, 0, 600, 1, 2, 3, 86400, 2147483, 2147484, 4294967, 4294968, 4294969, 31536000, 4294967295}
	for i := 0; i < n && c10Hangs < c10MaxHangs; i++ {
		depth := 80
		switch i % 4 {
		case 0:
			depth = 8 + env.Rng.Intn(25)
		case 1:
			depth = 30 + env.Rng.Intn(30)
		}
		nkeys := 1 + env.Rng.Intn(4)
		if env.Rng.Intn(3) == 0 {
			nkeys = 1
		}
		tick := []int64{0, 0, 0, 1, 7}[env.Rng.Intn(5)]
		c, o := c10Random(env, ttls[env.Rng.Intn(len(ttls))], tick, depth, nkeys, false)
		env.Count(fmt.Sprintf("random/keys=%d", nkeys))
		if tick != 0 {
			env.Count("random/moving-clock")
		}
		env.Emit(c, o)
	}
	c10Split(env, ttls)
	env.Count(fmt.Sprintf("callback/max-critical-sections-after-clock-read=%d", atomic.LoadInt64(&c10MaxSections)))
}
