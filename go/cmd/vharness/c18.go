package main

// C18 - encrypted transports. Implementation side of the correspondence:
//
//	ccfg / scfg   reflection dump of the real tls.Config (createClientConfig / createServerConfig)
//	xdec / cdec   transport decision of the real InitExportingProcess / CollectingProcess.Start
//	hsE           real exporter          vs harness TLS/DTLS server (arbitrary certificate, max version)
//	hsC           harness TLS/DTLS client vs real collector          (arbitrary client certificate, max version)
//	hsR           real exporter          vs real collector (incl. plaintext peers against encrypted endpoints)
//	xerr          real exporter with broken PEM material vs real collector
//
// All certificates are minted at run time (ECDSA P-256); every handshake is a real one. A cell's
// observation is only what the property speaks about: did InitExportingProcess return a
// connection (and of which kind / version), did the peer get IPFIX bytes, did the real collector
// deliver a message. "no" means an error OR no completion within the ceiling.

import (
	"context"
	"crypto/ecdsa"
	"crypto/elliptic"
	"crypto/rand"
	"crypto/tls"
	"crypto/x509"
	"crypto/x509/pkix"
	"encoding/asn1"
	"encoding/binary"
	"encoding/pem"
	"fmt"
	"io"
	"math/big"
	"net"
	"os"
	"path/filepath"
	"reflect"
	"runtime"
	"sort"
	"strconv"
	"strings"
	"sync"
	"sync/atomic"
	"time"

	"github.com/pion/dtls/v2"

	"github.com/vmware/go-ipfix/pkg/collector"
	"github.com/vmware/go-ipfix/pkg/entities"
	"github.com/vmware/go-ipfix/pkg/exporter"
	"github.com/vmware/go-ipfix/pkg/registry"
)

func init() { register("C18", runC18) }

const (
	c18Ceiling   = 8 * time.Second         // generous ceiling for anything that should complete
	c18QuietWait = 1500 * time.Millisecond // how long "nothing was delivered" is watched when nothing signals the end
)

// ---------------------------------------------------------------------------------- PKI
type c18Cred struct {
	id      int
	certPEM []byte
	keyPEM  []byte
	cert    *x509.Certificate
	key     *ecdsa.PrivateKey
	tlsCert tls.Certificate
}

type c18PKI struct {
	ca1, ca2 *c18Cred
	srv      map[string]*c18Cred // server certificate kinds
	cli      map[string]*c18Cred // client certificate kinds ("none" absent)
	spare    *c18Cred            // an unrelated key (key "mismatch")

	mu     sync.Mutex
	minted time.Time // when the validity-boundary certificates were minted
}

// Validity-boundary kinds: "justexpired" (NotAfter = mint - c18Margin) can never become valid;
// "almostvalid" (NotBefore = mint + c18Margin) would become valid c18Margin after minting. A run
// lasts well under that, and to be independent of the machine's speed the certificate is minted
// again whenever a cell asks for it more than c18Remint after the last minting: the distance of
// "now" to NotBefore is always within [c18Margin - c18Remint - one cell, c18Margin].
const (
	c18Margin = 2 * time.Minute
	c18Remint = 40 * time.Second
)

func (p *c18PKI) mintBoundary(now time.Time) {
	good := []string{"collector.example"}
	goodIP := []net.IP{net.ParseIP("127.0.0.1")}
	p.srv["justexpired"] = c18Mint(17, p.ca1, false, now.Add(-3*time.Hour), now.Add(-c18Margin), good, goodIP)
	p.srv["almostvalid"] = c18Mint(18, p.ca1, false, now.Add(c18Margin), now.Add(3*time.Hour), good, goodIP)
	p.cli["justexpired"] = c18Mint(23, p.ca1, false, now.Add(-3*time.Hour), now.Add(-c18Margin), nil, nil)
	p.minted = now
}

// server / client return the credential of a kind (nil, false: no certificate)
func (p *c18PKI) server(kind string) *c18Cred {
	p.mu.Lock()
	defer p.mu.Unlock()
	if kind == "almostvalid" {
		if now := time.Now(); now.Sub(p.minted) > c18Remint {
			p.mintBoundary(now)
		}
	}
	c, ok := p.srv[kind]
	if !ok {
		panic("server certificate kind " + kind)
	}
	return c
}

func (p *c18PKI) client(kind string) (*c18Cred, bool) {
	p.mu.Lock()
	defer p.mu.Unlock()
	c, ok := p.cli[kind]
	if !ok && kind != "none" {
		panic("client certificate kind " + kind)
	}
	return c, ok
}

func c18Mint(id int, parent *c18Cred, isCA bool, nb, na time.Time, dns []string, ips []net.IP) *c18Cred {
	key, err := ecdsa.GenerateKey(elliptic.P256(), rand.Reader)
	if err != nil {
		panic(err)
	}
	tmpl := &x509.Certificate{
		SerialNumber:          big.NewInt(int64(1000 + id)),
		Subject:               pkix.Name{CommonName: fmt.Sprintf("id%d", id), Organization: []string{"verif"}},
		NotBefore:             nb,
		NotAfter:              na,
		KeyUsage:              x509.KeyUsageDigitalSignature,
		ExtKeyUsage:           []x509.ExtKeyUsage{x509.ExtKeyUsageServerAuth, x509.ExtKeyUsageClientAuth},
		BasicConstraintsValid: true,
		DNSNames:              dns,
		IPAddresses:           ips,
	}
	if isCA {
		tmpl.IsCA = true
		tmpl.KeyUsage |= x509.KeyUsageCertSign
	}
	signer, signerKey := tmpl, key
	if parent != nil {
		signer, signerKey = parent.cert, parent.key
	}
	der, err := x509.CreateCertificate(rand.Reader, tmpl, signer, &key.PublicKey, signerKey)
	if err != nil {
		panic(err)
	}
	cert, err := x509.ParseCertificate(der)
	if err != nil {
		panic(err)
	}
	kder, err := x509.MarshalECPrivateKey(key)
	if err != nil {
		panic(err)
	}
	c := &c18Cred{id: id, cert: cert, key: key,
		certPEM: pem.EncodeToMemory(&pem.Block{Type: "CERTIFICATE", Bytes: der}),
		keyPEM:  pem.EncodeToMemory(&pem.Block{Type: "EC PRIVATE KEY", Bytes: kder})}
	c.tlsCert, err = tls.X509KeyPair(c.certPEM, c.keyPEM)
	if err != nil {
		panic(err)
	}
	return c
}

func c18NewPKI() *c18PKI {
	now := time.Now()
	h := time.Hour
	ok0, ok1 := now.Add(-h), now.Add(24*h)
	good := []string{"collector.example"}
	goodIP := []net.IP{net.ParseIP("127.0.0.1")}
	p := &c18PKI{srv: map[string]*c18Cred{}, cli: map[string]*c18Cred{}}
	p.ca1 = c18Mint(1, nil, true, ok0.Add(-h), ok1.Add(h), nil, nil)
	p.ca2 = c18Mint(2, nil, true, ok0.Add(-h), ok1.Add(h), nil, nil)
	p.srv["trusted"] = c18Mint(10, p.ca1, false, ok0, ok1, good, goodIP)
	p.srv["otherca"] = c18Mint(11, p.ca2, false, ok0, ok1, good, goodIP)
	p.srv["selfsigned"] = c18Mint(12, nil, false, ok0, ok1, good, goodIP)
	p.srv["expired"] = c18Mint(13, p.ca1, false, now.Add(-3*h), now.Add(-h), good, goodIP)
	p.srv["future"] = c18Mint(14, p.ca1, false, now.Add(h), now.Add(3*h), good, goodIP)
	p.srv["wrongsan"] = c18Mint(15, p.ca1, false, ok0, ok1, []string{"wrong.example"}, []net.IP{net.ParseIP("10.9.9.9")})
	p.srv["nosan"] = c18Mint(16, p.ca1, false, ok0, ok1, nil, nil)
	p.cli["trusted"] = c18Mint(20, p.ca1, false, ok0, ok1, nil, nil)
	p.cli["otherca"] = c18Mint(21, p.ca2, false, ok0, ok1, nil, nil)
	p.cli["expired"] = c18Mint(22, p.ca1, false, now.Add(-3*h), now.Add(-h), nil, nil)
	p.spare = c18Mint(99, nil, false, ok0, ok1, nil, nil)
	p.mintBoundary(now)
	return p
}

var c18Names = map[string]string{"set": "collector.example", "unset": "", "mismatch": "other.example", "ip": "127.0.0.1", "badip": "10.9.9.9"}
var c18Vers = map[string]uint16{"11": tls.VersionTLS11, "12": tls.VersionTLS12, "13": tls.VersionTLS13}

func (p *c18PKI) caPEM(kind string) []byte {
	switch kind {
	case "nil":
		return nil
	case "garbage":
		return []byte("-----BEGIN CERTIFICATE-----\nnot a certificate\n-----END CERTIFICATE-----\n")
	case "ca1":
		return p.ca1.certPEM
	case "ca12":
		return append(append([]byte{}, p.ca1.certPEM...), p.ca2.certPEM...)
	case "leaf":
		return p.server("selfsigned").certPEM
	// CA material from which no certificate parses (x509.CertPool.AppendCertsFromPEM = false)
	case "der": // the DER encoding instead of PEM
		return append([]byte{}, p.ca1.cert.Raw...)
	case "keyfile": // well-formed PEM of the wrong block type (the CA's key file instead of its certificate)
		return p.ca1.keyPEM
	case "truncated": // a CERTIFICATE block with valid base64 that is not a certificate
		return pem.EncodeToMemory(&pem.Block{Type: "CERTIFICATE", Bytes: p.ca1.cert.Raw[:len(p.ca1.cert.Raw)/2]})
	case "empty": // empty but not nil
		return []byte{}
	}
	panic("ca kind " + kind)
}

// collector CACert of a hsC / hsR cell: "unset" nil, "set" CA1, else a kind of caPEM
func (p *c18PKI) collCA(cca string) []byte {
	switch cca {
	case "unset":
		return nil
	case "set":
		return p.ca1.certPEM
	}
	return p.caPEM(cca)
}

var c18UnusableCA = []string{"garbage", "der", "keyfile", "truncated", "empty"}
func c18CertPEM(leaf *c18Cred, kind string) []byte {
	switch kind {
	case "nil":
		return nil
	case "empty":
		return []byte{}
	case "garbage":
		return []byte("garbage")
	case "ok":
		return leaf.certPEM
	}
	panic("cert kind " + kind)
}
func (p *c18PKI) keyPEM(leaf *c18Cred, kind string) []byte {
	switch kind {
	case "nil":
		return nil
	case "garbage":
		return []byte("garbage")
	case "ok":
		return leaf.keyPEM
	case "mismatch":
		return p.spare.keyPEM
	}
	panic("key kind " + kind)
}

func c18Pool(cs ...*c18Cred) *x509.CertPool {
	p := x509.NewCertPool()
	for _, c := range cs {
		p.AddCert(c.cert)
	}
	return p
}

// ---------------------------------------------------------------------------------- reflection dump
func c18CN(rawSubject []byte) string {
	var rdn pkix.RDNSequence
	if _, err := asn1.Unmarshal(rawSubject, &rdn); err != nil {
		return "?"
	}
	var n pkix.Name
	n.FillFromRDNSequence(&rdn)
	return strings.TrimPrefix(n.CommonName, "id")
}

func c18Ids(ids []string) string {
	if len(ids) == 0 {
		return "-"
	}
	sort.Slice(ids, func(i, j int) bool {
		a, _ := strconv.Atoi(ids[i])
		b, _ := strconv.Atoi(ids[j])
		return a < b
	})
	return strings.Join(ids, ",")
}

// c18DumpConfig prints every non-zero field of the struct behind cfg, sorted by field name.
// Fields the model knows are rendered canonically; anything else as Name=<value or "set">.
func c18DumpConfig(cfg interface{}) string {
	v := reflect.ValueOf(cfg)
	if v.Kind() == reflect.Ptr {
		v = v.Elem()
	}
	t := v.Type()
	var out []string
	for i := 0; i < t.NumField(); i++ {
		f, fv := t.Field(i), v.Field(i)
		if fv.IsZero() {
			continue
		}
		name := f.Name
		switch {
		case !f.IsExported():
			if fv.Kind() == reflect.Struct { // sync.Mutex etc. carry no configuration
				continue
			}
			out = append(out, name+"=set")
		case name == "Certificates":
			ids := []string{}
			for _, c := range fv.Interface().([]tls.Certificate) {
				id := "?"
				if len(c.Certificate) > 0 {
					if x, err := x509.ParseCertificate(c.Certificate[0]); err == nil {
						id = strings.TrimPrefix(x.Subject.CommonName, "id")
					}
				}
				if c.PrivateKey == nil {
					id += "!nokey"
				}
				ids = append(ids, id)
			}
			out = append(out, name+"="+strings.Join(ids, ","))
		case name == "RootCAs" || name == "ClientCAs":
			ids := []string{}
			for _, s := range fv.Interface().(*x509.CertPool).Subjects() { //nolint:staticcheck
				ids = append(ids, c18CN(s))
			}
			out = append(out, name+"="+c18Ids(ids))
		default:
			switch fv.Kind() {
			case reflect.Func, reflect.Ptr, reflect.Interface, reflect.Map, reflect.Chan:
				out = append(out, name+"=set")
			case reflect.Slice:
				out = append(out, fmt.Sprintf("%s=[%d]", name, fv.Len()))
			case reflect.Int, reflect.Int8, reflect.Int16, reflect.Int32, reflect.Int64:
				out = append(out, fmt.Sprintf("%s=%d", name, fv.Int()))
			case reflect.Uint, reflect.Uint8, reflect.Uint16, reflect.Uint32, reflect.Uint64:
				out = append(out, fmt.Sprintf("%s=%d", name, fv.Uint()))
			default:
				out = append(out, fmt.Sprintf("%s=%v", name, fv.Interface()))
			}
		}
	}
	sort.Strings(out)
	if len(out) == 0 {
		return "ok"
	}
	return "ok " + strings.Join(out, " ")
}

func c18CfgErr(err error) string {
	if strings.Contains(err.Error(), "failed to parse root certificate") {
		return "err parseroot"
	}
	return "err keypair"
}

// ---------------------------------------------------------------------------------- IPFIX payload
// a template message built by hand (harness peers) ...
func c18TemplateMsg(obs uint32) []byte {
	rec := []byte{1, 0, 0, 1, 0, 8, 0, 4} // template 256, 1 field: sourceIPv4Address(8) len 4
	return dataMsg(obs, 2, rec)
}

// ... and the same through the real exporter
func c18SendTemplate(ep *exporter.ExportingProcess) (err error) {
	defer func() {
		if r := recover(); r != nil {
			err = fmt.Errorf("panic: %v", r)
		}
	}()
	set := entities.NewSet(false)
	if err := set.PrepareSet(entities.Template, 256); err != nil {
		return err
	}
	ie, err := registry.GetInfoElement("sourceIPv4Address", registry.IANAEnterpriseID)
	if err != nil {
		return err
	}
	if err := set.AddRecord([]entities.InfoElementWithValue{entities.NewIPAddressInfoElement(ie, nil)}, 256); err != nil {
		return err
	}
	_, err = ep.SendSet(set)
	return err
}

func c18IsIPFIX(b []byte) bool { return len(b) >= 4 && binary.BigEndian.Uint16(b) == 10 }

// ---------------------------------------------------------------------------------- real collector
type c18Coll struct {
	cp      *collector.CollectingProcess
	n       atomic.Int64
	first   chan struct{}
	once    sync.Once
	stopped chan struct{} // Start() returned
	addr    string
}

func c18StartColl(proto string, enc bool, ca, cert, key []byte) *c18Coll {
	cp, err := collector.InitCollectingProcess(collector.CollectorInput{
		Address: "127.0.0.1:0", Protocol: proto, MaxBufferSize: 65535, IsEncrypted: enc,
		CACert: ca, ServerCert: cert, ServerKey: key,
	})
	if err != nil {
		panic(err)
	}
	c := &c18Coll{cp: cp, first: make(chan struct{}), stopped: make(chan struct{})}
	go func() {
		for range cp.GetMsgChan() {
			c.n.Add(1)
			c.once.Do(func() { close(c.first) })
		}
	}()
	go func() {
		defer close(c.stopped)
		cp.Start()
	}()
	deadline := time.Now().Add(c18Ceiling)
	for time.Now().Before(deadline) {
		if a := cp.GetAddress(); a != nil {
			c.addr = a.String()
			break
		}
		select {
		case <-c.stopped:
			if a := cp.GetAddress(); a != nil {
				c.addr = a.String()
			}
			return c
		case <-time.After(time.Millisecond):
		}
	}
	return c
}

// listening reports whether Start() is serving (false: it returned without listening).
func (c *c18Coll) listening() bool { return c.addr != "" }

// delivered waits until a message was delivered (true), or Start() has returned, `done` was
// signalled (+ a short grace) or `quiet` elapsed without one (false).
func (c *c18Coll) delivered(done <-chan struct{}, quiet time.Duration) bool {
	grace := func() bool {
		select {
		case <-c.first:
			return true
		case <-time.After(150 * time.Millisecond):
			return c.n.Load() > 0
		}
	}
	select {
	case <-c.first:
		return true
	case <-c.stopped:
		return grace()
	case <-done:
		return grace()
	case <-time.After(quiet):
	}
	// nothing yet: keep watching for as long as the collector still holds a client (a slow
	// machine must not turn a delivery into "not delivered"), up to the ceiling
	deadline := time.Now().Add(c18Ceiling - quiet)
	for c.n.Load() == 0 && c.cp.GetNumConnToCollector() > 0 && time.Now().Before(deadline) {
		select {
		case <-c.first:
			return true
		case <-c.stopped:
			return grace()
		case <-time.After(20 * time.Millisecond):
		}
	}
	return c.n.Load() > 0
}

func (c *c18Coll) stop() {
	defer func() { recover() }()
	c.cp.Stop()
}

// ---------------------------------------------------------------------------------- real exporter
type c18Exp struct {
	ep   *exporter.ExportingProcess
	ok   bool
	kind string // tls | dtls | plain | nil
	ver  string
}

func (x c18Exp) String() string {
	if !x.ok {
		return "init=no conn=- ver=-"
	}
	return fmt.Sprintf("init=ok conn=%s ver=%s", x.kind, x.ver)
}

func c18InitExporter(in exporter.ExporterInput) c18Exp {
	type res struct {
		ep  *exporter.ExportingProcess
		err error
	}
	ch := make(chan res, 1)
	go func() {
		defer func() {
			if r := recover(); r != nil {
				ch <- res{nil, fmt.Errorf("panic: %v", r)}
			}
		}()
		ep, err := exporter.InitExportingProcess(in)
		ch <- res{ep, err}
	}()
	select {
	case r := <-ch:
		if r.err != nil || r.ep == nil {
			return c18Exp{}
		}
		k, v := r.ep.VerifConnInfo()
		x := c18Exp{ep: r.ep, ok: true, ver: "-"}
		switch k {
		case "*tls.Conn":
			x.kind, x.ver = "tls", strconv.Itoa(int(v))
		case "*dtls.Conn":
			x.kind = "dtls"
		case "*net.TCPConn", "*net.UDPConn":
			x.kind = "plain"
		case "<nil>":
			x.kind = "nil"
		default:
			x.kind = "other:" + k
		}
		return x
	case <-time.After(c18Ceiling):
		// no session within the ceiling (e.g. a DTLS client against a peer that never answers:
		// pion gives up after 30 s); a late success is closed again
		go func() {
			if r := <-ch; r.ep != nil {
				r.ep.CloseConnToCollector()
			}
		}()
		return c18Exp{}
	}
}

func (x c18Exp) close() {
	if x.ok && x.kind != "nil" {
		defer func() { recover() }()
		x.ep.CloseConnToCollector()
	}
}

func (p *c18PKI) exporterInput(proto, addr string, etls bool, sname string, ccert string) exporter.ExporterInput {
	in := exporter.ExporterInput{CollectorAddress: addr, CollectorProtocol: proto, ObservationDomainID: 7,
		CheckConnInterval: time.Hour}
	if etls {
		t := &exporter.ExporterTLSClientConfig{ServerName: sname, CAData: p.ca1.certPEM}
		if c, ok := p.client(ccert); ok {
			t.CertData, t.KeyData = c.certPEM, c.keyPEM
		}
		in.TLSClientConfig = t
	}
	return in
}

func c18Ctx() (context.Context, func()) { return context.WithTimeout(context.Background(), c18Ceiling) }

// ---------------------------------------------------------------------------------- hand-made DTLS 1.0 peers
func c18DTLSRecord(hsType byte, body []byte) []byte {
	hs := []byte{hsType, byte(len(body) >> 16), byte(len(body) >> 8), byte(len(body)), 0, 0, 0, 0, 0,
		byte(len(body) >> 16), byte(len(body) >> 8), byte(len(body))}
	hs = append(hs, body...)
	rec := []byte{22, 0xfe, 0xff, 0, 0, 0, 0, 0, 0, 0, 0, byte(len(hs) >> 8), byte(len(hs))}
	return append(rec, hs...)
}

// ServerHello of a server that speaks DTLS 1.0 only
func c18DTLS10ServerHello() []byte {
	body := []byte{0xfe, 0xff}
	body = append(body, make([]byte, 32)...)
	body = append(body, 0, 0xc0, 0x2b, 0)
	return c18DTLSRecord(2, body)
}

// ClientHello of a client that speaks DTLS 1.0 only
func c18DTLS10ClientHello() []byte {
	body := []byte{0xfe, 0xff}
	body = append(body, make([]byte, 32)...)
	body = append(body, 0, 0, 0, 2, 0xc0, 0x2b, 1, 0)
	return c18DTLSRecord(1, body)
}

// ---------------------------------------------------------------------------------- cells
// hsE: real exporter vs harness server
func (p *c18PKI) cellHsE(proto, scert, sname, ccert, cca, ver string) string {
	sc := p.server(scert)
	rx := make(chan bool, 1)
	var addr string
	var closer io.Closer
	if proto == "tls" {
		cfg := &tls.Config{Certificates: []tls.Certificate{sc.tlsCert}, MinVersion: tls.VersionTLS10, MaxVersion: c18Vers[ver]}
		if cca == "set" {
			cfg.ClientAuth, cfg.ClientCAs = tls.RequireAndVerifyClientCert, c18Pool(p.ca1)
		}
		ln, err := tls.Listen("tcp", "127.0.0.1:0", cfg)
		if err != nil {
			panic(err)
		}
		addr, closer = ln.Addr().String(), ln
		go func() {
			c, err := ln.Accept()
			if err != nil {
				rx <- false
				return
			}
			defer c.Close()
			c.SetDeadline(time.Now().Add(c18Ceiling))
			if err := c.(*tls.Conn).Handshake(); err != nil {
				rx <- false
				return
			}
			b := make([]byte, 4)
			_, err = io.ReadFull(c, b)
			rx <- err == nil && c18IsIPFIX(b)
		}()
	} else if ver == "11" {
		pc, err := net.ListenUDP("udp", &net.UDPAddr{IP: net.ParseIP("127.0.0.1")})
		if err != nil {
			panic(err)
		}
		addr, closer = pc.LocalAddr().String(), pc
		go func() {
			got := false
			b := make([]byte, 2048)
			for {
				n, from, err := pc.ReadFromUDP(b)
				if err != nil {
					rx <- got
					return
				}
				if c18IsIPFIX(b[:n]) {
					got = true
				} else {
					pc.WriteToUDP(c18DTLS10ServerHello(), from)
				}
			}
		}()
	} else {
		a, _ := net.ResolveUDPAddr("udp", "127.0.0.1:0")
		ln, err := dtls.Listen("udp", a, &dtls.Config{Certificates: []tls.Certificate{sc.tlsCert}, ConnectContextMaker: c18Ctx})
		if err != nil {
			panic(err)
		}
		addr, closer = ln.Addr().String(), ln
		go func() {
			c, err := ln.Accept()
			if err != nil {
				rx <- false
				return
			}
			defer c.Close()
			c.SetDeadline(time.Now().Add(c18Ceiling))
			b := make([]byte, 2048)
			n, err := c.Read(b)
			rx <- err == nil && c18IsIPFIX(b[:n])
		}()
	}
	gp := map[string]string{"tls": "tcp", "dtls": "udp"}[proto]
	x := c18InitExporter(p.exporterInput(gp, addr, true, c18Names[sname], ccert))
	got := false
	if x.ok {
		c18SendTemplate(x.ep)
		if proto == "dtls" && ver == "11" {
			time.Sleep(100 * time.Millisecond)
			closer.Close()
		}
		select {
		case got = <-rx:
		case <-time.After(c18Ceiling):
		}
	}
	x.close()
	closer.Close()
	return x.String() + " rx=" + ShowBool(got)
}

// hsC: harness client vs real collector
func (p *c18PKI) cellHsC(proto, scert, ccert, cca, ver string) string {
	sc := p.server(scert)
	ca := p.collCA(cca)
	gp := map[string]string{"tls": "tcp", "dtls": "udp"}[proto]
	col := c18StartColl(gp, true, ca, sc.certPEM, sc.keyPEM)
	defer col.stop()
	if !col.listening() {
		return "hs=no ver=- delivered=F nolisten"
	}
	msg := c18TemplateMsg(9)
	if proto == "tls" {
		cfg := &tls.Config{InsecureSkipVerify: true, MinVersion: tls.VersionTLS10, MaxVersion: c18Vers[ver]}
		if c, ok := p.client(ccert); ok {
			cfg.Certificates = []tls.Certificate{c.tlsCert}
		}
		d := &net.Dialer{Timeout: c18Ceiling}
		conn, err := tls.DialWithDialer(d, "tcp", col.addr, cfg)
		if err != nil {
			return "hs=no ver=- delivered=" + ShowBool(col.n.Load() > 0)
		}
		defer conn.Close()
		v := conn.ConnectionState().Version
		conn.Write(append(append([]byte{}, msg...), msg...))
		done := make(chan struct{})
		go func() { // the collector never writes: a read returns only when it closed the connection
			conn.SetReadDeadline(time.Now().Add(c18Ceiling))
			conn.Read(make([]byte, 1))
			close(done)
		}()
		return fmt.Sprintf("hs=ok ver=%d delivered=%s", v, ShowBool(col.delivered(done, c18Ceiling)))
	}
	raddr, _ := net.ResolveUDPAddr("udp", col.addr)
	if ver == "11" {
		pc, err := net.DialUDP("udp", nil, raddr)
		if err != nil {
			panic(err)
		}
		defer pc.Close()
		pc.Write(c18DTLS10ClientHello())
		time.Sleep(50 * time.Millisecond)
		pc.Write(msg) // and the payload in the clear, for good measure
		return "hs=no ver=- delivered=" + ShowBool(col.delivered(nil, c18QuietWait))
	}
	cfg := &dtls.Config{InsecureSkipVerify: true, ConnectContextMaker: c18Ctx}
	if c, ok := p.client(ccert); ok {
		cfg.Certificates = []tls.Certificate{c.tlsCert}
	}
	conn, err := dtls.Dial("udp", raddr, cfg)
	if err != nil {
		return "hs=no ver=- delivered=" + ShowBool(col.n.Load() > 0)
	}
	defer conn.Close()
	conn.Write(msg)
	return "hs=ok ver=- delivered=" + ShowBool(col.delivered(nil, c18Ceiling))
}

// hsR: real exporter vs real collector
func (p *c18PKI) cellHsR(proto string, etls, cenc bool, scert, sname, ccert, cca string) string {
	sc := p.server(scert)
	ca := p.collCA(cca)
	gp := map[string]string{"tls": "tcp", "dtls": "udp"}[proto]
	col := c18StartColl(gp, cenc, ca, sc.certPEM, sc.keyPEM)
	defer col.stop()
	if !col.listening() {
		return "init=no conn=- ver=- delivered=F nolisten"
	}
	x := c18InitExporter(p.exporterInput(gp, col.addr, etls, c18Names[sname], ccert))
	defer x.close()
	dl := false
	if x.ok {
		c18SendTemplate(x.ep)
		dl = col.delivered(nil, c18QuietWait)
	} else {
		dl = col.n.Load() > 0
	}
	return x.String() + " delivered=" + ShowBool(dl)
}

// xerr: real exporter with broken material vs a real encrypted collector
func (p *c18PKI) cellXerr(proto, ca, cert, key string) string {
	sc := p.server("trusted")
	gp := map[string]string{"tls": "tcp", "dtls": "udp"}[proto]
	col := c18StartColl(gp, true, nil, sc.certPEM, sc.keyPEM)
	defer col.stop()
	leaf, _ := p.client("trusted")
	in := exporter.ExporterInput{CollectorAddress: col.addr, CollectorProtocol: gp, CheckConnInterval: time.Hour,
		TLSClientConfig: &exporter.ExporterTLSClientConfig{ServerName: "collector.example", CAData: p.caPEM(ca),
			CertData: c18CertPEM(leaf, cert), KeyData: p.keyPEM(leaf, key)}}
	x := c18InitExporter(in)
	defer x.close()
	return x.String()
}

// xdec: transport decision of the exporter, against a collector of the base protocol that is
// encrypted iff the exporter is
func (p *c18PKI) cellXdec(etls bool, proto string) string {
	sc := p.server("trusted")
	base := "tcp"
	if strings.HasPrefix(proto, "udp") {
		base = "udp"
	}
	col := c18StartColl(base, etls, nil, sc.certPEM, sc.keyPEM)
	defer col.stop()
	x := c18InitExporter(p.exporterInput(proto, col.addr, etls, "collector.example", "none"))
	defer x.close()
	return x.String()
}

// cdec: transport decision of the collector, probed from outside
func (p *c18PKI) cellCdec(cenc bool, proto string) string {
	sc := p.server("trusted")
	start := func() *c18Coll {
		cp, err := collector.InitCollectingProcess(collector.CollectorInput{
			Address: "127.0.0.1:0", Protocol: proto, MaxBufferSize: 65535, IsEncrypted: cenc,
			ServerCert: sc.certPEM, ServerKey: sc.keyPEM})
		if err != nil {
			panic(err)
		}
		c := &c18Coll{cp: cp, first: make(chan struct{}), stopped: make(chan struct{})}
		go func() {
			for range cp.GetMsgChan() {
				c.n.Add(1)
				c.once.Do(func() { close(c.first) })
			}
		}()
		go func() { defer close(c.stopped); cp.Start() }()
		for i := 0; i < 3000; i++ {
			if a := cp.GetAddress(); a != nil {
				c.addr = a.String()
				return c
			}
			select {
			case <-c.stopped:
				return c
			case <-time.After(time.Millisecond):
			}
		}
		return c
	}
	col := start()
	defer col.stop()
	if !col.listening() {
		return "listen=none"
	}
	msg := c18TemplateMsg(5)
	network := "tcp"
	if strings.HasPrefix(col.cp.GetAddress().Network(), "udp") {
		network = "udp"
	}
	// 1. a plaintext peer
	if pc, err := net.DialTimeout(network, col.addr, c18Ceiling); err == nil {
		pc.Write(msg)
		got := col.delivered(nil, 400*time.Millisecond)
		pc.Close()
		if got {
			return "listen=plain"
		}
	}
	// 2. an encrypted peer
	if network == "tcp" {
		conn, err := tls.DialWithDialer(&net.Dialer{Timeout: c18Ceiling}, "tcp", col.addr, &tls.Config{InsecureSkipVerify: true})
		if err == nil {
			defer conn.Close()
			conn.Write(msg)
			if col.delivered(nil, c18Ceiling) {
				return "listen=tls"
			}
		}
		return "listen=unknown"
	}
	raddr, _ := net.ResolveUDPAddr("udp", col.addr)
	conn, err := dtls.Dial("udp", raddr, &dtls.Config{InsecureSkipVerify: true, ConnectContextMaker: c18Ctx})
	if err == nil {
		defer conn.Close()
		conn.Write(msg)
		if col.delivered(nil, c18Ceiling) {
			return "listen=dtls"
		}
	}
	return "listen=unknown"
}

func (p *c18PKI) cellCcfg(sname, ca, cert, key string) string {
	leaf, _ := p.client("trusted")
	cfg, err := exporter.VerifClientTLSConfig(&exporter.ExporterTLSClientConfig{
		ServerName: c18Names[sname], CAData: p.caPEM(ca), CertData: c18CertPEM(leaf, cert), KeyData: p.keyPEM(leaf, key)})
	if err != nil {
		return c18CfgErr(err)
	}
	return c18DumpConfig(cfg)
}

func (p *c18PKI) cellScfg(ca, cert, key string) string {
	leaf := p.server("trusted")
	cp, err := collector.InitCollectingProcess(collector.CollectorInput{Address: "127.0.0.1:0", Protocol: "tcp",
		IsEncrypted: true, CACert: p.caPEM(ca), ServerCert: c18CertPEM(leaf, cert), ServerKey: p.keyPEM(leaf, key)})
	if err != nil {
		panic(err)
	}
	cfg, err := cp.VerifServerTLSConfig()
	if err != nil {
		return c18CfgErr(err)
	}
	return c18DumpConfig(cfg)
}

func c18B(s string) bool { return s == "T" }
func c18Proto(s string) string {
	if s == "-" {
		return ""
	}
	return s
}

func (p *c18PKI) runCell(t []string) (obs string) {
	defer func() {
		if r := recover(); r != nil {
			obs = fmt.Sprintf("harness-panic %v", r)
			obs = strings.ReplaceAll(obs, "|", "/")
		}
	}()
	switch {
	case t[0] == "ccfg" && len(t) == 5:
		return p.cellCcfg(t[1], t[2], t[3], t[4])
	case t[0] == "scfg" && len(t) == 4:
		return p.cellScfg(t[1], t[2], t[3])
	case t[0] == "xdec" && len(t) == 3:
		return p.cellXdec(c18B(t[1]), c18Proto(t[2]))
	case t[0] == "cdec" && len(t) == 3:
		return p.cellCdec(c18B(t[1]), c18Proto(t[2]))
	case t[0] == "hsE" && len(t) == 7:
		return p.cellHsE(t[1], t[2], t[3], t[4], t[5], t[6])
	case t[0] == "hsC" && len(t) == 6:
		return p.cellHsC(t[1], t[2], t[3], t[4], t[5])
	case t[0] == "hsR" && len(t) == 8:
		return p.cellHsR(t[1], c18B(t[2]), c18B(t[3]), t[4], t[5], t[6], t[7])
	case t[0] == "xerr" && len(t) == 5:
		return p.cellXerr(t[1], t[2], t[3], t[4])
	}
	return "bad-case"
}

// ---------------------------------------------------------------------------------- host trust store
// c18HostTrustStore makes the host trust store, as THIS process sees it, consist of exactly one
// CA: the harness's other CA (CA2), the issuer of the "otherca" certificates. crypto/x509 reads
// SSL_CERT_FILE / SSL_CERT_DIR once, lazily, the first time system roots are needed (a
// verification with a nil pool, x509.SystemCertPool); nothing has needed them before runC18
// starts. The unchanged code always sets RootCAs / ClientCAs explicitly, so the host store is
// never consulted and nothing changes; code that lets host roots in (SystemCertPool as the
// base of RootCAs, RootCAs left nil) now completes a session with an "otherca" server, which
// the property forbids. The variables are set with os.Setenv for the harness process only.
// Returns the function that writes the CA once it is minted, and the clean-up.
func c18HostTrustStore() (install func(ca *c18Cred), cleanup func()) {
	base := ""
	for i, a := range os.Args { // next to the output file (the run directory of bin/check)
		if (a == "-out" || a == "--out") && i+1 < len(os.Args) {
			base = filepath.Dir(os.Args[i+1])
		} else if strings.HasPrefix(a, "-out=") {
			base = filepath.Dir(strings.TrimPrefix(a, "-out="))
		}
	}
	dir, err := os.MkdirTemp(base, "c18-hostroots-")
	if err != nil {
		if dir, err = os.MkdirTemp("", "c18-hostroots-"); err != nil {
			panic(err)
		}
	}
	if dir, err = filepath.Abs(dir); err != nil {
		panic(err)
	}
	emptyDir := filepath.Join(dir, "certs.d")
	if err := os.Mkdir(emptyDir, 0o755); err != nil {
		panic(err)
	}
	file := filepath.Join(dir, "host-roots.pem")
	if err := os.WriteFile(file, nil, 0o644); err != nil {
		panic(err)
	}
	os.Setenv("SSL_CERT_FILE", file)
	os.Setenv("SSL_CERT_DIR", emptyDir)
	return func(ca *c18Cred) {
			if err := os.WriteFile(file, ca.certPEM, 0o644); err != nil {
				panic(err)
			}
		}, func() {
			os.RemoveAll(dir)
		}
}

// ---------------------------------------------------------------------------------- generator
func runC18(env *Env) {
	install, cleanup := c18HostTrustStore() // before anything can load the system roots
	defer cleanup()
	registry.LoadRegistry()
	p := c18NewPKI()
	install(p.ca2)
	if sys, err := x509.SystemCertPool(); err != nil || sys == nil || !sys.Equal(c18Pool(p.ca2)) {
		// the premise of the "otherca" cells (otherca = issued by a CA of the host trust store)
		panic(fmt.Sprintf("C18: host trust store of the harness process is not {CA2}: %v", err))
	}
	var cases [][]string
	if len(env.Replay) > 0 {
		for _, l := range env.Replay {
			t := strings.Fields(l)
			c := t[1:]
			for i, x := range c {
				if x == "|" {
					c = c[:i]
					break
				}
			}
			cases = append(cases, c)
		}
	} else {
		add := func(class string, t ...string) {
			env.Count(class)
			cases = append(cases, t)
		}
		// -- configuration reflection
		for _, sn := range []string{"set", "unset", "ip"} {
			for _, ca := range []string{"nil", "garbage", "ca1", "ca12", "leaf", "der", "keyfile", "truncated", "empty"} {
				for _, ck := range [][2]string{{"nil", "nil"}, {"nil", "ok"}, {"ok", "ok"}, {"ok", "mismatch"}, {"ok", "nil"}, {"ok", "garbage"}, {"empty", "ok"}, {"garbage", "ok"}} {
					add("cfg/client", "ccfg", sn, ca, ck[0], ck[1])
				}
			}
		}
		for _, ca := range []string{"nil", "garbage", "ca1", "ca12", "der", "keyfile", "truncated", "empty"} {
			for _, ck := range [][2]string{{"ok", "ok"}, {"ok", "mismatch"}, {"ok", "nil"}, {"ok", "garbage"}, {"empty", "ok"}, {"garbage", "ok"}} {
				add("cfg/server", "scfg", ca, ck[0], ck[1])
			}
		}
		// -- transport decisions
		for _, e := range []string{"T", "F"} {
			for _, pr := range []string{"tcp", "udp", "tcp4", "udp4", "sctp", "TCP", "-"} {
				add("decision/exporter", "xdec", e, pr)
			}
			for _, pr := range []string{"tcp", "udp", "tcp4", "udp4", "TCP", "-"} {
				add("decision/collector", "cdec", e, pr)
			}
		}
		// -- the matrix of the property's quantifier
		scerts := []string{"trusted", "otherca", "selfsigned", "expired", "future", "justexpired", "almostvalid", "wrongsan", "nosan"}
		snames := []string{"set", "unset", "mismatch"}
		if env.Thorough() { // IP-literal ServerNames over the whole matrix as well
			snames = append(snames, "ip", "badip")
		}
		ccerts := []string{"none", "trusted", "otherca", "expired", "justexpired"}
		ccas := []string{"set", "unset"}
		vers := []string{"11", "12", "13"}
		for _, pr := range []string{"tls", "dtls"} {
			for _, sc := range scerts {
				for _, cc := range ccerts {
					for _, ca := range ccas {
						for _, sn := range snames {
							for _, v := range vers {
								add("matrix/hsE-"+pr, "hsE", pr, sc, sn, cc, ca, v)
							}
							add("matrix/hsR-"+pr, "hsR", pr, "T", "T", sc, sn, cc, ca)
						}
						for _, v := range vers {
							add("matrix/hsC-"+pr, "hsC", pr, sc, cc, ca, v)
						}
					}
				}
			}
			// IP-literal ServerName (DTLS: no name check at all)
			for _, sc := range []string{"trusted", "wrongsan", "nosan"} {
				for _, sn := range []string{"ip", "badip"} {
					add("matrix/ipname-"+pr, "hsE", pr, sc, sn, "none", "unset", "12")
					add("matrix/ipname-"+pr, "hsR", pr, "T", "T", sc, sn, "none", "unset")
				}
			}
			// plaintext peers against encrypted endpoints, and the unencrypted baseline
			for _, ec := range [][2]string{{"T", "F"}, {"F", "T"}, {"F", "F"}} {
				for _, cc := range []string{"none", "trusted"} {
					for _, ca := range ccas {
						add("mixed/exporter-tls="+ec[0]+"-collector-enc="+ec[1], "hsR", pr, ec[0], ec[1], "trusted", "set", cc, ca)
					}
				}
			}
			// a collector whose client-CA material yields no certificate: it must not come up as an
			// endpoint that serves anybody (TLS: Start returns without listening; DTLS: CACert is not
			// used at all - off-property observation)
			for _, ca := range c18UnusableCA {
				for _, cc := range []string{"none", "otherca", "trusted"} {
					for _, v := range []string{"12", "13"} {
						add("unusable-client-ca/hsC-"+pr, "hsC", pr, "trusted", cc, ca, v)
					}
					add("unusable-client-ca/hsR-"+pr, "hsR", pr, "T", "T", "trusted", "set", cc, ca)
				}
				add("unusable-client-ca/hsR-"+pr, "hsR", pr, "F", "T", "trusted", "set", "none", ca)
			}
			// broken PEM material
			for _, ca := range []string{"nil", "garbage", "ca1", "der", "keyfile", "truncated", "empty"} {
				for _, ck := range [][2]string{{"nil", "nil"}, {"ok", "ok"}, {"ok", "mismatch"}, {"garbage", "ok"}, {"ok", "nil"}, {"nil", "ok"}} {
					add("material/"+pr, "xerr", pr, ca, ck[0], ck[1])
				}
			}
		}
	}
	// run the cells concurrently, emit in order
	obs := make([]string, len(cases))
	workers := 2 * runtime.NumCPU()
	if workers > 48 {
		workers = 48
	}
	if workers < 8 {
		workers = 8
	}
	var next atomic.Int64
	var wg sync.WaitGroup
	for w := 0; w < workers; w++ {
		wg.Add(1)
		go func() {
			defer wg.Done()
			for {
				i := int(next.Add(1)) - 1
				if i >= len(cases) {
					return
				}
				obs[i] = p.runCell(cases[i])
			}
		}()
	}
	wg.Wait()
	for i, c := range cases {
		o := obs[i]
		// off-property observations (evidence only)
		switch {
		case c[0] == "hsE" && c[1] == "dtls" && strings.HasPrefix(o, "init=ok") && (c[2] == "wrongsan" || c[2] == "nosan" || c[3] == "badip"):
			env.Count("offprop/dtls-session-without-name-check(empty-or-IP-ServerName)")
		case c[0] == "hsR" && c[2] == "F" && c[3] == "F" && strings.HasSuffix(o, "delivered=T"):
			env.Count("offprop/certificates-supplied-with-IsEncrypted-false:plain-session")
		case c[0] == "hsC" && c[1] == "dtls" && c[4] != "unset" && (c[3] != "trusted" || c[4] != "set") && strings.HasSuffix(o, "delivered=T"):
			env.Count("offprop/dtls-collector-ignores-CACert:client-without-CA-certificate-delivered")
		case c[0] == "xdec" && strings.Contains(o, "conn=nil"):
			env.Count("offprop/TLSClientConfig-with-protocol-not-tcp-udp:nil-connection-no-error")
		}
		if strings.Contains(o, "init=ok") || strings.Contains(o, "hs=ok") {
			env.Count("outcome/session")
		} else if strings.HasPrefix(o, "init=no") || strings.HasPrefix(o, "hs=no") {
			env.Count("outcome/refused")
		}
		env.Emit("C18 "+strings.Join(c, " "), o)
	}
}
