package main

// C12, shared keys: several exporters that all use observation domain 1 and template id 256 (the
// usual situation) on one TCP collector; each keeps re-sending its template between its data
// sets, so that one connection redefines the template while another connection decodes data
// with it. The statement "without data races" is what is observed here: the scenario exists
// for the race detector (bin/c12race) and the runtime's own checks; every data message must also
// be delivered with the right number of records. case "C12 shared", obs "S ok" | "S bad:<n>".

import (
	"fmt"
	"net"
	"sync"
	"sync/atomic"
	"time"

	"github.com/vmware/go-ipfix/pkg/collector"
)

func c12Shared() string {
	cp, err := collector.InitCollectingProcess(collector.CollectorInput{Address: "127.0.0.1:0", Protocol: "tcp", MaxBufferSize: 65535})
	if err != nil {
		panic(err)
	}
	var bad, got atomic.Int64
	done := make(chan struct{})
	go func() {
		defer close(done)
		for m := range cp.GetMsgChan() {
			got.Add(1)
			set := m.GetSet()
			for _, r := range set.GetRecords() {
				if len(r.GetOrderedElementList()) != 3 {
					bad.Add(1)
				}
			}
		}
	}()
	go cp.Start()
	for i := 0; cp.GetAddress() == nil; i++ {
		time.Sleep(time.Millisecond)
		if i > 5000 {
			panic("collector did not start")
		}
	}
	const clients, rounds = 6, 150
	var wg sync.WaitGroup
	for c := 0; c < clients; c++ {
		wg.Add(1)
		go func(c int) {
			defer wg.Done()
			conn, err := net.Dial("tcp", cp.GetAddress().String())
			if err != nil {
				return
			}
			defer conn.Close()
			r := NewRng(uint64(1000 + c))
			for k := 0; k < rounds; k++ {
				conn.Write(c11TplMsg(1, uint32(k), 256, c11Template))
				body := []byte{}
				for j := 0; j < 20; j++ {
					body = append(body, c11Record(r)...)
				}
				conn.Write(c11DataMsg(1, uint32(k), 256, body))
			}
		}(c)
	}
	wg.Wait()
	waitUntil(10*time.Second, func() bool { return got.Load() >= clients*rounds*2 })
	cp.Stop()
	cp.CloseMsgChan()
	<-done
	if bad.Load() != 0 || got.Load() != clients*rounds*2 {
		return fmt.Sprintf("S bad:%d:%d", bad.Load(), got.Load())
	}
	return "S ok"
}
