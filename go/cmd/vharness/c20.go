package main

// C20: standalone collector store (cmd/collector/collector.go). cmd/collector is `package main`,
// so the implementation side is a second binary: cmd/collector built with `go build -overlay`,
// where the overlay ADDS overlay/cmdcollector_driver.go.tmpl to the package (its init() reads case
// lines from stdin when VERIF_DRIVER=C20). This file generates the histories, formats every value
// independently with fmt's %v (the trusted residue) and pipes the cases through that binary.

import (
	"bufio"
	"encoding/hex"
	"fmt"
	"io"
	"math"
	"net"
	"os"
	"os/exec"
	"path/filepath"
	"strings"
	"time"

	"github.com/vmware/go-ipfix/pkg/entities"
)

func init() { register("C20", runC20) }

type c20Driver struct {
	cmd *exec.Cmd
	in  io.WriteCloser
	out *bufio.Reader
}

func verifRootDir() string {
	exe, err := os.Executable()
	if err != nil {
		panic(err)
	}
	exe, _ = filepath.EvalSymlinks(exe)
	// <verif>/.build/bin/vharness
	return filepath.Dir(filepath.Dir(filepath.Dir(exe)))
}

// buildCollectorDriver builds cmd/collector of the repository under test with the overlay that adds
// the driver file. Built on every harness run (the go build cache makes this a relink).
func buildCollectorDriver() string {
	root := verifRootDir()
	overlay := filepath.Join(root, ".build", "overlay", "overlay.json")
	repo := os.Getenv("VERIF_REPO")
	if repo == "" {
		repo = "/repo"
	}
	ov, err := os.ReadFile(overlay)
	if err != nil || !strings.Contains(string(ov), filepath.Join(repo, "cmd", "collector", "verif_driver_overlay.go")) {
		fmt.Fprintln(os.Stderr, "C20: overlay file missing or without the cmd/collector driver for", repo, ":", overlay)
		os.Exit(3)
	}
	bin := filepath.Join(root, ".build", "bin", "collector-driver")
	tmp := fmt.Sprintf("%s.%d", bin, os.Getpid())
	cmd := exec.Command("go", "build", "-overlay", overlay, "-o", tmp, "./cmd/collector")
	cmd.Dir = repo
	cmd.Env = append(os.Environ(), "GOFLAGS=-mod=mod", "GOPROXY=off", "GOSUMDB=off", "GOTOOLCHAIN=local")
	if out, err := cmd.CombinedOutput(); err != nil {
		fmt.Fprintf(os.Stderr, "C20: building cmd/collector with the driver overlay failed: %v\n%s\n", err, out)
		os.Exit(3)
	}
	if err := os.Rename(tmp, bin); err != nil {
		panic(err)
	}
	return bin
}

func startC20Driver() *c20Driver {
	bin := buildCollectorDriver()
	cmd := exec.Command(bin)
	cmd.Env = append(os.Environ(), "VERIF_DRIVER=C20", "TZ=UTC")
	in, _ := cmd.StdinPipe()
	out, _ := cmd.StdoutPipe()
	cmd.Stderr = io.Discard
	if err := cmd.Start(); err != nil {
		panic(err)
	}
	d := &c20Driver{cmd, in, bufio.NewReaderSize(out, 1<<20)}
	// handshake: without the overlay's init() the binary would be the real collector
	ready := make(chan string, 1)
	go func() { s, _ := d.out.ReadString('\n'); ready <- s }()
	select {
	case s := <-ready:
		if strings.TrimSpace(s) != "C20-DRIVER-READY" {
			cmd.Process.Kill()
			fmt.Fprintln(os.Stderr, "C20: collector driver did not announce itself:", s)
			os.Exit(3)
		}
	case <-time.After(20 * time.Second):
		cmd.Process.Kill()
		fmt.Fprintln(os.Stderr, "C20: collector driver did not start (overlay not applied?)")
		os.Exit(3)
	}
	return d
}

func (d *c20Driver) run(caseLine string) string {
	if _, err := io.WriteString(d.in, caseLine+"\n"); err != nil {
		return "DRIVER-DEAD"
	}
	type res struct {
		s   string
		err error
	}
	ch := make(chan res, 1)
	go func() {
		s, err := d.out.ReadString('\n')
		ch <- res{s, err}
	}()
	select {
	case r := <-ch:
		if r.err != nil {
			return "DRIVER-DEAD"
		}
		return strings.TrimRight(r.s, "\n")
	case <-time.After(120 * time.Second):
		d.cmd.Process.Kill()
		return "DRIVER-HANG"
	}
}

func (d *c20Driver) stop() {
	d.in.Close()
	done := make(chan struct{})
	go func() { d.cmd.Wait(); close(done) }()
	select {
	case <-done:
	case <-time.After(5 * time.Second):
		d.cmd.Process.Kill()
	}
}

// ---------------------------------------------------------------------------------- generator

func strArg(s string) string {
	if len(s) == 0 {
		return "-"
	}
	return "hex " + hex.EncodeToString([]byte(s))
}

var c20Names = []string{"sourceIPv4Address", "destinationTransportPort", "octetDeltaCount", "flowStartSeconds",
	"sourcePodName", "x", "a%db", "q\"uote", "<tag>&", "naïve", "名前", "tab\there", "=", "multi\nline", "back\\slash", "%v%s", "bad\xffname"}

var c20Strings = []string{"", "pod-1", "a b  c", "x\ny", "\"q\"", "<&>", "日本語", "é", "%d %s", "\\u00e9", "\t", " ", "\x00nul", "\x7f",
	// not valid UTF-8: stored and returned as is in text format, coerced to U+FFFD per byte by the json format
	"\xff", "a\xc3", "\xed\xa0\x80", "\xf4\x90\x80\x80z", "ok\xe2\x82", "\xc0\xaf", "\xf0\x9f\x98"}

// c20Field returns "<name> <dtcode> <kind> <value> <formatted>" for a random well-typed data field.
func c20Field(r *Rng, class *string) string {
	name := c20Names[r.Intn(len(c20Names))]
	u := r.U64()
	if r.Intn(4) == 0 {
		u = []uint64{0, 1, math.MaxUint64, 1 << 63, 1<<63 - 1, 255, 256, 65535, 65536, 1<<32 - 1, 1 << 32}[r.Intn(11)]
	}
	var dt entities.IEDataType
	var kv, f string
	switch r.Intn(22) {
	case 0:
		dt, kv, f = entities.Unsigned8, fmt.Sprintf("u8 %d", uint8(u)), fmt.Sprintf("%v", uint8(u))
	case 1:
		dt, kv, f = entities.Unsigned16, fmt.Sprintf("u16 %d", uint16(u)), fmt.Sprintf("%v", uint16(u))
	case 2:
		dt, kv, f = entities.Unsigned32, fmt.Sprintf("u32 %d", uint32(u)), fmt.Sprintf("%v", uint32(u))
	case 3:
		dt, kv, f = entities.Unsigned64, fmt.Sprintf("u64 %d", u), fmt.Sprintf("%v", u)
	case 4:
		dt, kv, f = entities.Signed8, fmt.Sprintf("i8 %d", int8(u)), fmt.Sprintf("%v", int8(u))
	case 5:
		dt, kv, f = entities.Signed16, fmt.Sprintf("i16 %d", int16(u)), fmt.Sprintf("%v", int16(u))
	case 6:
		dt, kv, f = entities.Signed32, fmt.Sprintf("i32 %d", int32(u)), fmt.Sprintf("%v", int32(u))
	case 7:
		dt, kv, f = entities.Signed64, fmt.Sprintf("i64 %d", int64(u)), fmt.Sprintf("%v", int64(u))
	case 8:
		dt, kv, f = entities.Float32, fmt.Sprintf("f32 %d", uint32(u)), fmt.Sprintf("%v", math.Float32frombits(uint32(u)))
	case 9:
		dt, kv, f = entities.Float64, fmt.Sprintf("f64 %d", u), fmt.Sprintf("%v", math.Float64frombits(u))
	case 10:
		dt, kv, f = entities.Boolean, "bool "+ShowBool(u&1 == 1), fmt.Sprintf("%v", u&1 == 1)
	case 11:
		dt, kv, f = entities.DateTimeSeconds, fmt.Sprintf("dts %d", uint32(u)), fmt.Sprintf("%v", uint32(u))
	case 12:
		dt, kv, f = entities.DateTimeMilliseconds, fmt.Sprintf("dtms %d", u), fmt.Sprintf("%v", u)
	case 13:
		b := r.Bytes([]int{6, 6, 6, 0, 8, 1}[r.Intn(6)])
		dt, kv, f = entities.MacAddress, "mac "+BytesArg(b), fmt.Sprintf("%v", net.HardwareAddr(b))
	case 14:
		b := r.Bytes([]int{4, 4, 4, 16, 0, 3}[r.Intn(6)])
		dt, kv, f = entities.Ipv4Address, "ip "+BytesArg(b), fmt.Sprintf("%v", net.IP(b))
	case 15:
		b := r.Bytes([]int{16, 16, 16, 4, 0}[r.Intn(5)])
		if r.Intn(3) == 0 && len(b) == 16 {
			for i := 2; i < 12; i++ {
				b[i] = 0 // exercise the :: compression of net.IP.String
			}
		}
		dt, kv, f = entities.Ipv6Address, "ip "+BytesArg(b), fmt.Sprintf("%v", net.IP(b))
	case 16:
		var b []byte
		if r.Intn(4) > 0 {
			b = r.Bytes(r.Intn(6))
		}
		kv = "oct nil"
		if b != nil {
			kv = "oct " + BytesArg(b)
		}
		dt, f = entities.OctetArray, fmt.Sprintf("%v", b)
	case 17:
		s := c20Strings[r.Intn(len(c20Strings))]
		dt, kv, f = entities.String, "str "+BytesArg([]byte(s)), fmt.Sprintf("%v", s)
	case 18: // the same getter serves two element kinds
		dt, kv, f = entities.Unsigned32, fmt.Sprintf("dts %d", uint32(u)), fmt.Sprintf("%v", uint32(u))
		*class = "data/shared-getter"
	case 19:
		dt, kv, f = entities.DateTimeMilliseconds, fmt.Sprintf("u64 %d", u), fmt.Sprintf("%v", u)
		*class = "data/shared-getter"
	case 20: // types whose value is not printed (a fixed notice instead)
		dt = []entities.IEDataType{entities.DateTimeMicroseconds, entities.DateTimeNanoseconds,
			entities.BasicList, entities.SubTemplateList, entities.SubTemplateMultiList, entities.InvalidDataType}[r.Intn(6)]
		if dt == entities.DateTimeMicroseconds || dt == entities.DateTimeNanoseconds {
			kv = fmt.Sprintf("u64 %d", u)
		} else {
			kv = "oct " + BytesArg(r.Bytes(r.Intn(5)))
		}
		f = "notprinted"
		*class = "data/notice-types"
	default: // ill-typed: the getter of the element's data type panics on this concrete kind
		dt, kv, f = entities.Unsigned16, fmt.Sprintf("u8 %d", uint8(u)), "x"
		if r.Bool() {
			dt, kv = entities.String, "oct "+BytesArg(r.Bytes(3))
		}
		*class = "data/ill-typed-panic"
	}
	return fmt.Sprintf("%s %d %s %s", strArg(name), dt, kv, strArg(f))
}

func c20TimeStr(t uint32) string {
	return fmt.Sprintf("%v", time.Unix(int64(t), 0).In(time.UTC))
}

// c20Msg returns a random message spec; tiny=true gives the smallest data message (bulk arrivals).
func c20Msg(r *Rng, tiny bool, class *string) string {
	t := uint32(r.U64())
	if r.Intn(4) == 0 {
		t = []uint32{0, 1, 1<<31 - 1, 1 << 31, 1<<32 - 1}[r.Intn(5)]
	}
	seq := uint32(r.U64())
	if r.Intn(4) == 0 {
		seq = 1<<32 - 1 - uint32(r.Intn(3))
	}
	hdr := fmt.Sprintf("%d %d %d %s %d %d", []int{10, 10, 10, 9, 0, 65535}[r.Intn(6)], r.Intn(65536), t, strArg(c20TimeStr(t)), seq, uint32(r.U64()))
	if tiny {
		if r.Bool() {
			return hdr + " D 1 1 " + fmt.Sprintf("%s %d u8 7 %s", strArg("x"), entities.Unsigned8, strArg("7"))
		}
		return hdr + " D 0"
	}
	var sb strings.Builder
	sb.WriteString(hdr)
	if r.Intn(4) == 0 {
		*class = "template"
		nrec := r.Intn(3)
		fmt.Fprintf(&sb, " T %d", nrec)
		for i := 0; i < nrec; i++ {
			nf := r.Intn(4)
			fmt.Fprintf(&sb, " %d", nf)
			for j := 0; j < nf; j++ {
				fmt.Fprintf(&sb, " %s %d %d", strArg(c20Names[r.Intn(len(c20Names))]), r.Intn(65536), []uint32{0, 0, 29305, 56506, 1<<32 - 1}[r.Intn(5)])
			}
		}
		return sb.String()
	}
	*class = "data"
	nrec := r.Intn(4)
	fmt.Fprintf(&sb, " D %d", nrec)
	for i := 0; i < nrec; i++ {
		nf := r.Intn(5)
		fmt.Fprintf(&sb, " %d", nf)
		for j := 0; j < nf; j++ {
			sb.WriteString(" " + c20Field(r, class))
		}
	}
	return sb.String()
}

var c20Methods = []string{"GET", "GET", "GET", "GET", "GET", "GET", "POST", "PUT", "HEAD", "DELETE", "PATCH", "OPTIONS", "get", "post"}

func c20Query(r *Rng, storeLen int, class *string) string {
	meth := c20Methods[r.Intn(len(c20Methods))]
	counts := []string{"", "", "0", "1", "2", "3", fmt.Sprint(storeLen - 1), fmt.Sprint(storeLen), fmt.Sprint(storeLen + 1),
		"4095", "4096", "4097", "100000", "-1", "-0", "+3", "007", "abc", "1.5", " 1", "1 ", "9223372036854775807",
		"9223372036854775808", "-9223372036854775808", "-9223372036854775809", "18446744073709551616", "1_0", "0x10", "１", "1e3", "+", "-", "--1", "٣"}
	formats := []string{"", "", "json", "json", "text", "text", "text", "JSON", "xml", "text ", "Text", "j"}
	c := counts[r.Intn(len(counts))]
	f := formats[r.Intn(len(formats))]
	if r.Intn(3) == 0 { // mostly-valid stream
		meth = "GET"
		c = []string{"", "0", "1", "2", fmt.Sprint(storeLen), fmt.Sprint(storeLen + 1), "5"}[r.Intn(7)]
		f = []string{"", "json", "text"}[r.Intn(3)]
	}
	*class = "query"
	return fmt.Sprintf("Q %s %s %s", meth, strArg(c), strArg(f))
}

func c20Reset(r *Rng) string {
	return "X " + []string{"POST", "POST", "POST", "GET", "PUT", "DELETE", "post"}[r.Intn(7)]
}

func c20Small(env *Env) string {
	r := env.Rng
	n := 3 + r.Intn(20)
	ops := []string{}
	approxLen := 0
	for i := 0; i < n; i++ {
		var class string
		switch x := r.Intn(10); {
		case x < 5:
			ops = append(ops, "A "+c20Msg(r, false, &class))
			approxLen++
			env.Count("op/arrive-" + class)
		case x < 8:
			ops = append(ops, c20Query(r, approxLen, &class))
			env.Count("op/query")
		case x < 9:
			ops = append(ops, c20Reset(r))
			env.Count("op/reset")
		default:
			ops = append(ops, []string{"S", "W"}[r.Intn(2)])
		}
	}
	ops = append(ops, "S")
	return strings.Join(ops, " ; ")
}

// c20Big: more than 3 x 4096 arrivals of tiny messages, observation points around every crossing
// of the cap (W = cheap probe of 5 positions, S = digest of the whole store), queries with counts
// around 0 / len / cap, a reset in the middle.
func c20Big(env *Env, capN int) string {
	r := env.Rng
	var class string
	ops := []string{}
	q := func(c string, f string) { ops = append(ops, fmt.Sprintf("Q GET %s %s", strArg(c), strArg(f))) }
	first := capN - 2 + r.Intn(2) // cap-2 or cap-1
	ops = append(ops, fmt.Sprintf("R %d %s", first, c20Msg(r, true, &class)), "W")
	for i := 0; i < 4; i++ { // step across the cap one arrival at a time
		ops = append(ops, "A "+c20Msg(r, r.Bool(), &class), "W")
	}
	ops = append(ops, "S")
	q("1", "text")
	q("2", "json")
	q(fmt.Sprint(capN-1+r.Intn(3)), []string{"text", "json"}[r.Intn(2)])
	ops = append(ops, fmt.Sprintf("R %d %s", capN+1+r.Intn(capN), c20Msg(r, true, &class)), "W")
	q("0", "text")
	q("3", "json")
	if r.Bool() {
		ops = append(ops, "X POST", "W")
		ops = append(ops, fmt.Sprintf("R %d %s", capN-1, c20Msg(r, true, &class)), "W", "A "+c20Msg(r, false, &class), "W", "A "+c20Msg(r, true, &class), "W")
	} else {
		ops = append(ops, "X GET", "W")
	}
	ops = append(ops, fmt.Sprintf("R %d %s", 2*capN+1+r.Intn(100), c20Msg(r, true, &class)), "W")
	q("3", "text")
	q("", []string{"text", "json"}[r.Intn(2)])
	ops = append(ops, "A "+c20Msg(r, false, &class), "S")
	env.Count("history/exceeds-3x-cap")
	line := strings.Join(ops, " ; ")
	for len(line) < 4200 { // keeps these (expensive) histories out of the in-Coq vm_compute sample
		line += " ;"
	}
	return line
}

func runC20(env *Env) {
	d := startC20Driver()
	defer d.stop()
	run := func(c string) { env.Emit("C20 "+c, d.run("C20 "+c)) }
	if len(env.Replay) > 0 {
		for _, l := range env.Replay {
			t := strings.Fields(l)
			c := t[1:]
			for i, x := range c {
				if x == "|" {
					c = c[:i]
					break
				}
			}
			run(strings.Join(c, " "))
		}
		return
	}
	nSmall, nBig := 1200, 4
	if env.Thorough() {
		nSmall, nBig = 30000, 60
	}
	for i := 0; i < nBig; i++ {
		run(c20Big(env, 4096))
	}
	for i := 0; i < nSmall; i++ {
		env.Count("history/small")
		run(c20Small(env))
	}
}
