package main

// Exporter histories shared by C02 / C08 / C09: a real ExportingProcess over TCP or UDP to a
// listener owned by the harness. Case syntax:
//
//	<tcp|udp> <obsDomain> <seq0> <full|dig> { S <set ops> ; | C <k> <set ops> ; | W }*
//
// Each "S" builds a fresh set with the builder operations (setops.go) and calls SendSet; "C k"
// applies the operations to the set object of the k-th "S" (as it was left: reused with or
// without ResetSet) and calls SendSet on it again; the operations AS / M / G share and change
// element objects and call GetBuffer (setops.go); "W" waits for the template refresh of a UDP
// exporter (the exporter of such a case is created with TempRefTimeout = 1 s).
// Observation per send: r=ok:<n> | r=err:<class> | r=panic, the exact bytes that arrived at the
// peer socket for that call (w=..., export time zeroed after it was checked against the
// harness's own clock readings: t=ok|bad), and at the end the registered template ids, the
// sequence counter and any bytes that arrived without a successful call (stray=...).

import (
	"bytes"
	"encoding/binary"
	"encoding/hex"
	"fmt"
	"io"
	"net"
	"sort"
	"strings"
	"time"

	"github.com/vmware/go-ipfix/pkg/entities"
	"github.com/vmware/go-ipfix/pkg/exporter"
)

func showWire(mode string, b []byte) string {
	if mode == "full" {
		// chunks of 128 bytes, one token each: "+<k> c1 .. ck"
		k := (len(b) + 127) / 128
		var sb strings.Builder
		fmt.Fprintf(&sb, "+%d", k)
		for i := 0; i < len(b); i += 128 {
			j := i + 128
			if j > len(b) {
				j = len(b)
			}
			sb.WriteString(" " + hex.EncodeToString(b[i:j]))
		}
		return sb.String()
	}
	h := b
	if len(h) > 20 {
		h = h[:20]
	}
	return fmt.Sprintf("%s/%d/%d", hex.EncodeToString(h), len(b), BHash(b))
}

type peer struct {
	proto string
	ln    net.Listener
	conn  net.Conn
	udp   *net.UDPConn
	acc   chan net.Conn
}

func newPeer(proto string) (*peer, string) {
	p := &peer{proto: proto}
	if proto == "tcp" {
		ln, err := net.Listen("tcp", "127.0.0.1:0")
		if err != nil {
			panic(err)
		}
		p.ln = ln
		p.acc = make(chan net.Conn, 8)
		go func() {
			// every connection of the case (a history may reconnect)
			for {
				c, err := ln.Accept()
				if err != nil {
					close(p.acc)
					return
				}
				p.acc <- c
			}
		}()
		return p, ln.Addr().String()
	}
	c, err := net.ListenUDP("udp", &net.UDPAddr{IP: net.IPv4(127, 0, 0, 1)})
	if err != nil {
		panic(err)
	}
	c.SetReadBuffer(1 << 22)
	p.udp = c
	return p, c.LocalAddr().String()
}

func (p *peer) ready() {
	if p.proto == "tcp" {
		select {
		case c := <-p.acc:
			p.conn = c
		case <-time.After(5 * time.Second):
			panic("accept timeout")
		}
	}
}

// recv returns the bytes of one successful call that reported n bytes.
func (p *peer) recv(n int) []byte {
	if p.proto == "tcp" {
		b := make([]byte, n)
		p.conn.SetReadDeadline(time.Now().Add(3 * time.Second))
		k, _ := io.ReadFull(p.conn, b)
		return b[:k]
	}
	b := make([]byte, 70000)
	p.udp.SetReadDeadline(time.Now().Add(3 * time.Second))
	k, _, err := p.udp.ReadFromUDP(b)
	if err != nil {
		return nil
	}
	return b[:k]
}

// endSession returns whatever else arrives from a process that was closed, and keeps the
// listener / socket for the next process of the history.
func (p *peer) endSession() []byte {
	var out []byte
	if p.proto == "tcp" {
		p.conn.SetReadDeadline(time.Now().Add(2 * time.Second))
		out, _ = io.ReadAll(p.conn)
		p.conn.Close()
		return out
	}
	b := make([]byte, 70000)
	for {
		p.udp.SetReadDeadline(time.Now().Add(15 * time.Millisecond))
		k, _, err := p.udp.ReadFromUDP(b)
		if err != nil {
			break
		}
		out = append(out, b[:k]...)
	}
	return out
}

// drain returns whatever else arrives (after the exporter closed its side, for TCP).
func (p *peer) drain() []byte {
	var out []byte
	if p.proto == "tcp" {
		p.conn.SetReadDeadline(time.Now().Add(2 * time.Second))
		out, _ = io.ReadAll(p.conn)
		p.conn.Close()
		p.ln.Close()
		return out
	}
	b := make([]byte, 70000)
	for {
		p.udp.SetReadDeadline(time.Now().Add(15 * time.Millisecond))
		k, _, err := p.udp.ReadFromUDP(b)
		if err != nil {
			break
		}
		out = append(out, b[:k]...)
	}
	p.udp.Close()
	return out
}

// histEvent is one event of a history: a SendSet on a new (obj < 0) or an earlier set object
// after some operations, or a wait for the template refresh.
type histEvent struct {
	wait   bool
	reconn bool
	seq0   uint32
	noHook bool
	obj    int
	ops    []setOp
}

func parseHist(rest []string) []histEvent {
	var evs []histEvent
	for len(rest) > 0 {
		switch rest[0] {
		case "S":
			var ops []setOp
			ops, rest = parseSetOps(rest[1:])
			evs = append(evs, histEvent{obj: -1, ops: ops})
		case "C":
			var ops []setOp
			k := atoi(rest[1])
			ops, rest = parseSetOps(rest[2:])
			evs = append(evs, histEvent{obj: k, ops: ops})
		case "W":
			evs = append(evs, histEvent{wait: true})
			rest = rest[1:]
		case "X":
			if rest[1] == "-" {
				evs = append(evs, histEvent{reconn: true, noHook: true})
			} else {
				evs = append(evs, histEvent{reconn: true, seq0: uint32(atou(rest[1]))})
			}
			rest = rest[2:]
		default:
			panic("bad history token " + rest[0])
		}
	}
	return evs
}

// runHist runs one history; a history that waits for the template refresh is run again when
// the machine was too slow for the timing to be meaningful.
func runHist(toks []string) string {
	out, ok := "", false
	for try := 0; try < 4 && !ok; try++ {
		out, ok = runHistOnce(toks)
	}
	return out
}

func runHistOnce(toks []string) (string, bool) {
	proto, obs, seq0, mode := toks[0], uint32(atou(toks[1])), uint32(atou(toks[2])), toks[3]
	evs := parseHist(toks[4:])
	refresh := uint32(0) // the default (600 s): no refresh during the case
	for _, ev := range evs {
		if ev.wait {
			refresh = 1
		}
	}
	p, addr := newPeer(proto)
	var tInit time.Time
	var ep *exporter.ExportingProcess
	connect := func(q uint32, hook bool) {
		tInit = time.Now()
		var err error
		ep, err = exporter.InitExportingProcess(exporter.ExporterInput{
			CollectorAddress: addr, CollectorProtocol: proto, ObservationDomainID: obs,
			CheckConnInterval: time.Hour, TempRefTimeout: refresh,
		})
		if err != nil {
			panic(err)
		}
		p.ready()
		if hook {
			ep.VerifSetSeq(q)
		}
	}
	connect(seq0, true)
	timely := true
	var out []string
	var sets []entities.Set
	ctx := &objCtx{}
	for _, ev := range evs {
		if ev.wait {
			o, ok := waitRefresh(p, ep, tInit, mode)
			timely = timely && ok
			out = append(out, o)
			continue
		}
		if ev.reconn {
			// the process is closed and a new one is created for the same collector and domain;
			// the application keeps its set and element objects
			if refresh != 0 && time.Since(tInit) > 1900*time.Millisecond {
				timely = false
			}
			ep.CloseConnToCollector()
			out = append(out, "x="+ShowBytes(p.endSession()))
			connect(ev.seq0, !ev.noHook)
			continue
		}
		var set entities.Set
		if ev.obj < 0 {
			set = entities.NewSet(false)
			sets = append(sets, set)
		} else if ev.obj < len(sets) {
			set = sets[ev.obj]
		} else {
			set = entities.NewSet(false)
		}
		for _, o := range ev.ops {
			applyOpCtx(ctx, set, o, "")
		}
		res, n := "", 0
		t0 := time.Now().Unix()
		func() {
			defer func() {
				if r := recover(); r != nil {
					res = "r=panic"
				}
			}()
			k, err := ep.SendSet(set)
			if err != nil {
				res = "r=err:" + errClassX(err)
			} else {
				res, n = fmt.Sprintf("r=ok:%d", k), k
			}
		}()
		t1 := time.Now().Unix()
		w, tk := "-", "-"
		if n > 0 {
			b := p.recv(n)
			tk = "bad"
			if len(b) >= 8 {
				et := int64(binary.BigEndian.Uint32(b[4:8]))
				if et >= t0 && et <= t1 {
					tk = "ok"
				}
				copy(b[4:8], []byte{0, 0, 0, 0})
			}
			w = showWire(mode, b)
		}
		out = append(out, res+" w="+w+" t="+tk)
	}
	if refresh != 0 && time.Since(tInit) > 1900*time.Millisecond {
		timely = false // the second tick may have fired
	}
	// the template map is read under templateMutex: a mutex that was never released (a failed
	// refresh used to leave it locked) must show up as an observation, not as a hung harness
	idc := make(chan []uint16, 1)
	go func() { idc <- ep.VerifTemplateIDs() }()
	tp := "-"
	select {
	case ids := <-idc:
		idl := make([]string, len(ids))
		for i, id := range ids {
			idl[i] = fmt.Sprint(id)
		}
		if len(idl) > 0 {
			tp = strings.Join(idl, ",")
		}
	case <-time.After(5 * time.Second):
		tp = "LOCKED"
	}
	seq := ep.VerifSeq()
	ep.CloseConnToCollector()
	stray := p.drain()
	out = append(out, fmt.Sprintf("tpls=%s seq=%d stray=%s", tp, seq, ShowBytes(stray)))
	return strings.Join(out, " "), timely
}

// waitRefresh reads what the refresh goroutine of a UDP exporter (TempRefTimeout = 1 s) sends
// at its first tick: one message per registered template, in the (random) order of the map.
// Reported sorted by their bytes, export time checked and zeroed: "f=<k> w=.. .. t=ok|bad|-".
// Not timely: the history before the wait took so long that the tick may already have fired.
func waitRefresh(p *peer, ep *exporter.ExportingProcess, tInit time.Time, mode string) (string, bool) {
	timely := time.Since(tInit) < 850*time.Millisecond
	want := len(ep.VerifTemplateIDs())
	var msgs [][]byte
	if p.proto == "udp" {
		deadline := tInit.Add(1850 * time.Millisecond)
		buf := make([]byte, 70000)
		for time.Now().Before(deadline) {
			p.udp.SetReadDeadline(deadline)
			k, _, err := p.udp.ReadFromUDP(buf)
			if err != nil {
				break
			}
			msgs = append(msgs, append([]byte(nil), buf[:k]...))
			if len(msgs) >= want {
				// anything else the same tick sends follows within microseconds
				deadline = time.Now().Add(60 * time.Millisecond)
				if lim := tInit.Add(1900 * time.Millisecond); deadline.After(lim) {
					deadline = lim
				}
			}
		}
		if want == 0 {
			// nothing registered: nothing may arrive around the tick
		}
	}
	t1 := time.Now().Unix()
	tk := "-"
	for _, b := range msgs {
		if tk == "-" {
			tk = "ok"
		}
		if len(b) >= 8 {
			et := int64(binary.BigEndian.Uint32(b[4:8]))
			if et < tInit.Unix() || et > t1 {
				tk = "bad"
			}
			copy(b[4:8], []byte{0, 0, 0, 0})
		} else {
			tk = "bad"
		}
	}
	sort.Slice(msgs, func(i, j int) bool { return bytes.Compare(msgs[i], msgs[j]) < 0 })
	var sb strings.Builder
	fmt.Fprintf(&sb, "f=%d", len(msgs))
	for _, b := range msgs {
		sb.WriteString(" w=" + showWire(mode, b))
	}
	sb.WriteString(" t=" + tk)
	return sb.String(), timely
}

// replayHist runs the replay lines of a history property.
func replayHist(env *Env, prop string) bool {
	if len(env.Replay) == 0 {
		return false
	}
	for _, l := range env.Replay {
		t := strings.Fields(l)
		c := t[1:]
		for i, x := range c {
			if x == "|" {
				c = c[:i]
				break
			}
		}
		if prop == "C08" && len(c) == 1 && c[0] == "stall" {
			env.Emit("C08 stall", c08Stall())
			continue
		}
		env.Emit(prop+" "+strings.Join(c, " "), runHist(c))
	}
	return true
}
