package main

// C02: well-formedness for an independent RFC 7011 decoder. Template + data exchanges on a
// real ExportingProcess (TCP and UDP); the exact bytes from the peer socket are reported in
// full and parsed by the extracted rfc_parse (Model/Rfc7011.v).

import (
	"fmt"
	"strings"

	"github.com/vmware/go-ipfix/pkg/entities"
	"github.com/vmware/go-ipfix/pkg/registry"
)

func init() { register("C02", runC02) }

// boundary values for a spec (deterministic list), used besides the random ones
func boundaryValue(r *Rng, s IESpec, k int) string {
	switch entities.IEDataType(s.DT) {
	case entities.String:
		n := []int{0, 1, 254, 255, 256, 300}[k%6]
		return "str " + patArg(r, n)
	case entities.OctetArray:
		if s.Len == 65535 {
			n := []int{0, 1, 254, 255, 256, 1000}[k%6]
			if n == 0 && k%12 == 0 {
				return "oct nil"
			}
			return "oct " + patArg(r, n)
		}
	}
	return ""
}

func genC02(env *Env) string {
	r := env.Rng
	parts := []string{histHead(r, "full", uint64(r.Intn(1000)))}
	id := 256 + r.Intn(65000)
	n := 1 + r.Intn(8)
	if r.Intn(8) == 0 {
		n = 9 + r.Intn(40)
	}
	t := genTpl(r, id, n)
	// never a template whose records can be empty (zero-length fixed octet arrays only)
	allZero := true
	for _, s := range t.specs {
		if s.Len != 0 {
			allZero = false
		}
	}
	if allZero {
		t.specs = append(t.specs, IESpec{uint16(1 + r.Intn(30000)), uint8(entities.Unsigned16), 0, 2})
	}
	if r.Intn(6) == 0 {
		// several template records in one set
		t2 := genTpl(r, 256+r.Intn(65000), 1+r.Intn(4))
		parts = append(parts, fmt.Sprintf("S P T %d %s %s L ;", t.id, t.tplAdd(r), t2.tplAdd(r)))
		env.Count("send/template-multi")
	} else {
		parts = append(parts, t.tplSet(r))
		env.Count("send/template")
	}
	sends := 1 + r.Intn(3)
	for i := 0; i < sends; i++ {
		nrec := 1 + r.Intn(4)
		recs := []string{fmt.Sprintf("S P D %d", t.id)}
		for j := 0; j < nrec; j++ {
			k := r.Intn(1000)
			recs = append(recs, t.dataAdd(r, t.id, func(i int, s IESpec) string {
				if r.Intn(3) == 0 {
					return boundaryValue(r, s, k+i)
				}
				return ""
			}))
		}
		parts = append(parts, strings.Join(recs, " ")+" ;")
		env.Count(fmt.Sprintf("send/data-%d-records", nrec))
	}
	return strings.Join(parts, " ")
}

func runC02(env *Env) {
	registry.LoadRegistry()
	if replayHist(env, "C02") {
		return
	}
	r := env.Rng
	emit := func(c string) { env.Emit("C02 "+c, runHist(strings.Fields(c))) }
	// other exporting processes of the same program keep sending during every session (noise.go)
	stopNoise := startNoise(2)
	defer func() {
		stopNoise()
		env.Count(fmt.Sprintf("noise/other-exporters-sends>=%d", (noiseSends/1000)*1000))
	}()
	// every supported type alone, plain and enterprise-specific, with the registry's length
	for _, dt := range genTypes {
		for _, ent := range []uint32{0, 29305, 56506, 4294967295} {
			s := IESpec{uint16(1 + r.Intn(32767)), uint8(dt), ent, entities.InfoElementLength[dt]}
			t := tplG{id: 256 + r.Intn(1000), specs: []IESpec{s}}
			if dt == entities.OctetArray && ent == 29305 {
				t.specs[0].Len = 5
			}
			emit(histHead(r, "full", 0) + " " + t.tplSet(r) + " " + t.dataSet(r, 2))
			env.Count("shape/single-type")
		}
	}
	// element id boundaries
	for _, id := range []uint16{1, 127, 128, 255, 256, 32767} {
		t := tplG{id: 256, specs: []IESpec{{id, uint8(entities.Unsigned32), 0, 4}, {id, uint8(entities.Unsigned32), 77, 4}}}
		emit(histHead(r, "full", 0) + " " + t.tplSet(r) + " " + t.dataSet(r, 1))
		env.Count("shape/element-id-boundary")
	}
	// the largest messages: one string filling the message up to the limit (TCP) / the datagram (UDP)
	st := oneFieldTpl(300, entities.String, 5)
	emit("tcp 5 0 full " + st.tplSet(r) + " " + sizedData(r, st, 65535))
	emit("udp 5 0 full " + st.tplSet(r) + " " + sizedData(r, st, 65507))
	env.Count("shape/largest")
	// the largest record count that fits
	u8 := oneFieldTpl(301, entities.Unsigned8, 4)
	emit("tcp 5 0 full " + u8.tplSet(r) + " " + manyRecords(u8, 65515, 200))
	env.Count("shape/max-records")
	n := 500
	if env.Thorough() {
		n = 20000
	}
	for i := 0; i < n; i++ {
		emit(genC02(env))
	}
	_ = fmt.Sprint
}
