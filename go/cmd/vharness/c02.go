package main

// C02: well-formedness for an independent RFC 7011 decoder. Template + data exchanges on a
// real ExportingProcess (TCP and UDP); the exact bytes from the peer socket are reported in
// full and parsed by the extracted rfc_parse (Model/Rfc7011.v).

import (
	"fmt"
	"strings"
	"sync"

	"github.com/vmware/go-ipfix/pkg/entities"
	"github.com/vmware/go-ipfix/pkg/registry"
)

func init() { register("C02", runC02) }

// boundary values for a spec (deterministic list), used besides the random ones
func boundaryValue(r *Rng, s IESpec, k int) string {
	switch entities.IEDataType(s.DT) {
	case entities.String:
		n := []int{0, 1, 254, 255, 256, 300}[k%6]
		return "str " + patArg(r, n)
	case entities.OctetArray:
		if s.Len == 65535 {
			n := []int{0, 1, 254, 255, 256, 1000}[k%6]
			if n == 0 && k%12 == 0 {
				return "oct nil"
			}
			return "oct " + patArg(r, n)
		}
	}
	return ""
}

func genC02(env *Env) string {
	r := env.Rng
	parts := []string{histHead(r, "full", uint64(r.Intn(1000)))}
	id := 256 + r.Intn(65000)
	n := 1 + r.Intn(8)
	if r.Intn(8) == 0 {
		n = 9 + r.Intn(40)
	}
	t := genTpl(r, id, n)
	// never a template whose records can be empty (zero-length fixed octet arrays only)
	allZero := true
	for _, s := range t.specs {
		if s.Len != 0 {
			allZero = false
		}
	}
	if allZero {
		t.specs = append(t.specs, IESpec{uint16(1 + r.Intn(30000)), uint8(entities.Unsigned16), 0, 2})
	}
	if r.Intn(6) == 0 {
		// several template records in one set
		t2 := genTpl(r, 256+r.Intn(65000), 1+r.Intn(4))
		parts = append(parts, fmt.Sprintf("S P T %d %s %s L ;", t.id, t.tplAdd(r), t2.tplAdd(r)))
		env.Count("send/template-multi")
	} else {
		parts = append(parts, t.tplSet(r))
		env.Count("send/template")
	}
	sends := 1 + r.Intn(3)
	for i := 0; i < sends; i++ {
		nrec := 1 + r.Intn(4)
		recs := []string{fmt.Sprintf("S P D %d", t.id)}
		for j := 0; j < nrec; j++ {
			k := r.Intn(1000)
			recs = append(recs, t.dataAdd(r, t.id, func(i int, s IESpec) string {
				if r.Intn(3) == 0 {
					return boundaryValue(r, s, k+i)
				}
				return ""
			}))
		}
		parts = append(parts, strings.Join(recs, " ")+" ;")
		env.Count(fmt.Sprintf("send/data-%d-records", nrec))
	}
	return strings.Join(parts, " ")
}

// ---- histories on reused set objects and shared / changed element objects ----

// histB assembles a history and keeps count of the set objects (S events) and of the element
// object pool entries (A operations) it has made so far.
type histB struct {
	parts  []string
	nS, nA int
}

func (h *histB) add(s string) { h.parts = append(h.parts, s) }
func (h *histB) String() string { return strings.Join(h.parts, " ") }

// varLen: the element is variable-length (its value decides its encoded length).
func varLen(s IESpec) bool {
	dt := entities.IEDataType(s.DT)
	return dt == entities.String || (dt == entities.OctetArray && s.Len == 65535)
}

// valueOfLen: a well-typed value; for a variable-length element one of n content bytes.
func valueOfLen(r *Rng, s IESpec, n int) string {
	if varLen(s) {
		if entities.IEDataType(s.DT) == entities.String {
			return "str " + patArg(r, n)
		}
		return "oct " + patArg(r, n)
	}
	return wfValue(r, s)
}

func (t tplG) addWith(r *Rng, vals []string) string {
	var sb strings.Builder
	fmt.Fprintf(&sb, "A %s %d %d", randForm(r), t.id, len(t.specs))
	for i, s := range t.specs {
		sb.WriteString(" " + s.String() + " " + vals[i])
	}
	return sb.String()
}

func nonEmptyTpl(r *Rng, id, n int) tplG {
	t := genTpl(r, id, n)
	allZero := true
	for _, s := range t.specs {
		if s.Len != 0 {
			allZero = false
		}
	}
	if allZero {
		t.specs = append(t.specs, IESpec{uint16(1 + r.Intn(30000)), uint8(entities.Unsigned16), 0, 2})
	}
	return t
}

// genC02Reuse: one set object used for several messages - reset and prepared again (for the
// same or another template, or as a template set), sent again unchanged, extended without a
// reset - and the template set object itself sent again / turned into a data set.
func genC02Reuse(env *Env) string {
	r := env.Rng
	h := &histB{}
	h.add(histHead(r, "full", uint64(r.Intn(1000))))
	t1 := nonEmptyTpl(r, 256+r.Intn(30000), 1+r.Intn(5))
	t2 := nonEmptyTpl(r, 31000+r.Intn(30000), 1+r.Intn(5))
	h.add(t1.tplSet(r)) // object 0
	h.nS, h.nA = 1, 1
	dataOps := func(t tplG, n int) string {
		var p []string
		for i := 0; i < n; i++ {
			p = append(p, t.dataAdd(r, t.id, nil))
			h.nA++
		}
		return strings.Join(p, " ")
	}
	// object 1: the application's data set object
	h.add(fmt.Sprintf("S P D %d %s ;", t1.id, dataOps(t1, 1+r.Intn(3))))
	h.nS++
	known2 := false
	steps := 2 + r.Intn(5)
	for i := 0; i < steps; i++ {
		switch k := r.Intn(10); {
		case k < 4: // the usual cycle: ResetSet, PrepareSet, AddRecord.., SendSet
			t := t1
			if known2 && r.Bool() {
				t = t2
			}
			h.add(fmt.Sprintf("C 1 R P D %d %s ;", t.id, dataOps(t, 1+r.Intn(3))))
			env.Count("reuse/reset-data")
		case k < 5: // the same object carries the next template
			h.add(fmt.Sprintf("C 1 R P T %d %s ;", t2.id, t2.tplAdd(r)))
			h.nA++
			known2 = true
			env.Count("reuse/reset-template")
		case k < 6: // sent again as it is
			h.add("C 1 ;")
			env.Count("reuse/send-again")
		case k < 7: // more records without a reset (data sets only make sense)
			h.add(fmt.Sprintf("C 1 %s ;", t1.dataAdd(r, t1.id, nil)))
			h.nA++
			env.Count("reuse/append-no-reset")
		case k < 8: // the template set object again
			if r.Bool() {
				h.add("C 0 ;")
			} else {
				h.add(fmt.Sprintf("C 0 R P D %d %s ;", t1.id, dataOps(t1, 1+r.Intn(2))))
			}
			env.Count("reuse/template-object")
		case k < 9: // PrepareSet again without a reset
			h.add(fmt.Sprintf("C 1 P D %d %s ;", t1.id, dataOps(t1, 1)))
			env.Count("reuse/prepare-no-reset")
		default: // reset twice / update length by hand
			h.add(fmt.Sprintf("C 1 R R P D %d %s L ;", t1.id, dataOps(t1, 1+r.Intn(2))))
			env.Count("reuse/reset-twice")
		}
	}
	return h.String()
}

// genC02Shared: the application keeps its element objects, sets new values and adds them again
// (both records then hold the same objects), possibly after GetBuffer / SendSet has already
// encoded the first record; variable-length values keep, lose or gain octets.
func genC02Shared(env *Env) string {
	r := env.Rng
	h := &histB{}
	h.add(histHead(r, "full", uint64(r.Intn(1000))))
	t := nonEmptyTpl(r, 256+r.Intn(60000), 1+r.Intn(5))
	if r.Intn(3) != 0 {
		// make sure a variable-length element is there most of the time
		dt := entities.String
		ln := -1
		if r.Bool() {
			dt, ln = entities.OctetArray, 65535
		}
		t.specs = append(t.specs, genSpec(r, dt, ln))
	}
	h.add(t.tplSet(r))
	h.nS, h.nA = 1, 1
	lens := make([]int, len(t.specs))
	vals := make([]string, len(t.specs))
	for i, s := range t.specs {
		lens[i] = []int{0, 1, 2, 7, 20, 254, 255, 256}[r.Intn(8)]
		vals[i] = valueOfLen(r, s, lens[i])
	}
	tag := h.nA
	ops := []string{fmt.Sprintf("P D %d", t.id), t.addWith(r, vals)}
	h.nA++
	// what happens to the objects before they are added again
	mutate := func(mode int) []string {
		var m []string
		for j, s := range t.specs {
			if r.Intn(3) == 0 {
				continue
			}
			n := lens[j]
			if varLen(s) {
				switch mode {
				case 1: // shorter
					if n > 0 {
						n = r.Intn(n)
					}
				case 2: // longer
					n = n + 1 + r.Intn(3)
				case 3: // any
					n = smallLen(r)
				}
			}
			lens[j] = n
			m = append(m, fmt.Sprintf("M %d %d %s", tag, j, valueOfLen(r, s, n)))
		}
		return m
	}
	mode := r.Intn(4)
	env.Count([]string{"shared/same-length", "shared/shorter", "shared/longer", "shared/any-length"}[mode])
	switch r.Intn(5) {
	case 0: // set, add again, send
		ops = append(ops, mutate(mode)...)
		ops = append(ops, fmt.Sprintf("AS %s %d %d", randForm(r), t.id, tag))
		h.add("S " + strings.Join(ops, " ") + " ;")
	case 1: // the first record was already encoded (GetBuffer) when the values change
		ops = append(ops, "G")
		ops = append(ops, mutate(mode)...)
		ops = append(ops, fmt.Sprintf("AS %s %d %d", randForm(r), t.id, tag))
		h.add("S " + strings.Join(ops, " ") + " ;")
		env.Count("shared/getbuffer-first")
	case 2: // sent, values changed, sent again without a reset (cached), then the usual cycle
		h.add("S " + strings.Join(ops, " ") + " ;")
		h.add("C 1 " + strings.Join(mutate(mode), " ") + " ;")
		h.add(fmt.Sprintf("C 1 R P D %d AS %s %d %d %s AS %s %d %d ;", t.id, randForm(r), t.id, tag,
			strings.Join(mutate(0), " "), randForm(r), t.id, tag))
		env.Count("shared/after-send")
	case 3: // values changed after the add, nothing added again: the one record carries the new values
		ops = append(ops, mutate(mode)...)
		h.add("S " + strings.Join(ops, " ") + " ;")
		h.add("C 1 ;")
		env.Count("shared/changed-then-retry")
	default: // two set objects holding the same element objects
		h.add("S " + strings.Join(ops, " ") + " ;")
		h.add(fmt.Sprintf("S P D %d AS %s %d %d %s ;", t.id, randForm(r), t.id, tag, strings.Join(mutate(mode), " ")))
		h.add("C 1 ;")
		env.Count("shared/two-sets")
	}
	return h.String()
}

// genC02Refresh: a UDP exporter with a refresh timeout of 1 s: 1-3 templates (one of them
// possibly registered from a set with two records), some data, then the wait for the refresh.
func genC02Refresh(env *Env) string {
	r := env.Rng
	parts := []string{fmt.Sprintf("udp %d %d full", r.U64()&0xffffffff, r.Intn(1000))}
	n := 1 + r.Intn(3)
	var tpls []tplG
	for i := 0; i < n; i++ {
		t := nonEmptyTpl(r, 256+i*1000+r.Intn(1000), 1+r.Intn(6))
		tpls = append(tpls, t)
		if i == 0 && r.Intn(3) == 0 {
			t2 := nonEmptyTpl(r, 40000+r.Intn(1000), 1+r.Intn(3))
			tpls = append(tpls, t2)
			parts = append(parts, fmt.Sprintf("S P T %d %s %s ;", t.id, t.tplAdd(r), t2.tplAdd(r)))
		} else {
			parts = append(parts, t.tplSet(r))
		}
	}
	for i := r.Intn(3); i > 0; i-- {
		parts = append(parts, tpls[r.Intn(len(tpls))].dataSet(r, 1+r.Intn(3)))
	}
	parts = append(parts, "W")
	env.Count(fmt.Sprintf("refresh/%d-templates", len(tpls)))
	return strings.Join(parts, " ")
}

func runC02(env *Env) {
	registry.LoadRegistry()
	if replayHist(env, "C02") {
		return
	}
	r := env.Rng
	emit := func(c string) { env.Emit("C02 "+c, runHist(strings.Fields(c))) }
	// other exporting processes of the same program keep sending during every session (noise.go)
	stopNoise := startNoise(2)
	defer func() {
		stopNoise()
		env.Count(fmt.Sprintf("noise/other-exporters-sends>=%d", (noiseSends/1000)*1000))
	}()
	// every supported type alone, plain and enterprise-specific, with the registry's length
	for _, dt := range genTypes {
		for _, ent := range []uint32{0, 29305, 56506, 4294967295} {
			s := IESpec{uint16(1 + r.Intn(32767)), uint8(dt), ent, entities.InfoElementLength[dt]}
			t := tplG{id: 256 + r.Intn(1000), specs: []IESpec{s}}
			if dt == entities.OctetArray && ent == 29305 {
				t.specs[0].Len = 5
			}
			emit(histHead(r, "full", 0) + " " + t.tplSet(r) + " " + t.dataSet(r, 2))
			env.Count("shape/single-type")
		}
	}
	// element id boundaries
	for _, id := range []uint16{1, 127, 128, 255, 256, 32767} {
		t := tplG{id: 256, specs: []IESpec{{id, uint8(entities.Unsigned32), 0, 4}, {id, uint8(entities.Unsigned32), 77, 4}}}
		emit(histHead(r, "full", 0) + " " + t.tplSet(r) + " " + t.dataSet(r, 1))
		env.Count("shape/element-id-boundary")
	}
	// the largest messages: one string filling the message up to the limit (TCP) / the datagram (UDP)
	st := oneFieldTpl(300, entities.String, 5)
	emit("tcp 5 0 full " + st.tplSet(r) + " " + sizedData(r, st, 65535))
	emit("udp 5 0 full " + st.tplSet(r) + " " + sizedData(r, st, 65507))
	env.Count("shape/largest")
	// the largest record count that fits
	u8 := oneFieldTpl(301, entities.Unsigned8, 4)
	emit("tcp 5 0 full " + u8.tplSet(r) + " " + manyRecords(u8, 65515, 200))
	env.Count("shape/max-records")
	n := 500
	if env.Thorough() {
		n = 20000
	}
	for i := 0; i < n; i++ {
		emit(genC02(env))
	}
	// reused set objects, shared and changed element objects
	emit("tcp 5 0 full S P T 300 A 1 300 1 5 13 0 65535 str - ; S P D 300 A 1 300 1 5 13 0 65535 str hex 616263 ; C 1 R P D 300 A 2 300 1 5 13 0 65535 str hex 6465 ; C 1 ; C 0 ;")
	emit("udp 5 0 full S P T 300 A 1 300 2 5 13 0 65535 str - 6 2 0 2 u16 0 ; S P D 300 A 1 300 2 5 13 0 65535 str hex 616263646566 6 2 0 2 u16 4369 M 1 0 str hex 7879 M 1 1 u16 8738 AS 1 300 1 ; C 1 ; C 1 R P D 300 AS 2 300 1 ;")
	emit("tcp 5 7 full S P T 300 A 1 300 1 5 13 0 65535 str - ; S P D 300 A 1 300 1 5 13 0 65535 str hex 616263 ; X - C 1 ; C 0 ; C 1 ; C 1 R P D 300 A 2 300 1 5 13 0 65535 str hex 6465 ;")
	emit("udp 5 7 full S P T 300 A 1 300 1 5 13 0 65535 str - ; S P D 300 A 1 300 1 5 13 0 65535 str hex 616263 ; X 9 C 0 ; C 1 ;")
	env.Count("shape/reuse-fixed")
	m := n / 2
	for i := 0; i < m; i++ {
		emit(genC02Reuse(env))
		emit(genC02Shared(env))
	}
	// template refresh (UDP, 1 s): each case takes a good second, so they run side by side
	k := 8
	if env.Thorough() {
		k = 96
	}
	cases := make([]string, k)
	for i := range cases {
		cases[i] = genC02Refresh(env)
	}
	obs := make([]string, k)
	for lo := 0; lo < k; lo += 16 {
		hi := lo + 16
		if hi > k {
			hi = k
		}
		var wg sync.WaitGroup
		for i := lo; i < hi; i++ {
			wg.Add(1)
			go func(i int) {
				defer wg.Done()
				obs[i] = runHist(strings.Fields(cases[i]))
			}(i)
		}
		wg.Wait()
	}
	for i := range cases {
		env.Emit("C02 "+cases[i], obs[i])
	}
}
