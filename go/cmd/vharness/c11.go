package main

import (
	"encoding/binary"
	"encoding/hex"
	"fmt"
	"net"
	"os"
	"strings"
	"sync"
	"time"

	"github.com/vmware/go-ipfix/pkg/collector"
	"github.com/vmware/go-ipfix/pkg/entities"
	"github.com/vmware/go-ipfix/pkg/registry"
)

func init() { register("C11", runC11) }

// ---- harness-side message construction (independent of the library's encoder) ----

type c11Field struct {
	ID  uint16
	Ent uint32
	Len uint16
}

func c11MsgHeader(total int, seq, obs uint32) []byte {
	b := make([]byte, 16)
	binary.BigEndian.PutUint16(b[0:], 10)
	binary.BigEndian.PutUint16(b[2:], uint16(total))
	binary.BigEndian.PutUint32(b[4:], 1700000000)
	binary.BigEndian.PutUint32(b[8:], seq)
	binary.BigEndian.PutUint32(b[12:], obs)
	return b
}

func c11TplMsg(obs, seq uint32, tid uint16, fs []c11Field) []byte {
	rec := make([]byte, 4)
	binary.BigEndian.PutUint16(rec[0:], tid)
	binary.BigEndian.PutUint16(rec[2:], uint16(len(fs)))
	for _, f := range fs {
		x := make([]byte, 4)
		id := f.ID
		if f.Ent != 0 {
			id |= 0x8000
		}
		binary.BigEndian.PutUint16(x[0:], id)
		binary.BigEndian.PutUint16(x[2:], f.Len)
		rec = append(rec, x...)
		if f.Ent != 0 {
			e := make([]byte, 4)
			binary.BigEndian.PutUint32(e, f.Ent)
			rec = append(rec, e...)
		}
	}
	total := 16 + 4 + len(rec)
	b := c11MsgHeader(total, seq, obs)
	sh := make([]byte, 4)
	binary.BigEndian.PutUint16(sh[0:], 2)
	binary.BigEndian.PutUint16(sh[2:], uint16(4+len(rec)))
	return append(append(b, sh...), rec...)
}

func c11DataMsg(obs, seq uint32, tid uint16, body []byte) []byte {
	total := 16 + 4 + len(body)
	b := c11MsgHeader(total, seq, obs)
	sh := make([]byte, 4)
	binary.BigEndian.PutUint16(sh[0:], tid)
	binary.BigEndian.PutUint16(sh[2:], uint16(4+len(body)))
	return append(append(b, sh...), body...)
}

// c11Template: sourceIPv4Address(8,4) destinationTransportPort(11,2) packetDeltaCount(2,8)
var c11Template = []c11Field{{8, 0, 4}, {11, 0, 2}, {2, 0, 8}}

func c11Record(r *Rng) []byte { return r.Bytes(14) }

// startTCPCollector starts a collector and a consumer that records deliveries.
type delivered struct {
	mu   sync.Mutex
	msgs []*entities.Message
}

func startCollector(proto string, mode collector.DecodingMode) (*collector.CollectingProcess, *delivered, func()) {
	return startCollectorBuf(proto, mode, 65535)
}

// startCollectorBuf: MaxBufferSize is the size of the UDP read buffer; over TCP a message is
// delimited by its own length field and the setting must not matter.
func startCollectorBuf(proto string, mode collector.DecodingMode, maxBuf uint16) (*collector.CollectingProcess, *delivered, func()) {
	cp, err := collector.InitCollectingProcess(collector.CollectorInput{
		Address: "127.0.0.1:0", Protocol: proto, MaxBufferSize: maxBuf, DecodingMode: mode,
	})
	if err != nil {
		panic(err)
	}
	d := &delivered{}
	done := make(chan struct{})
	go func() {
		for m := range cp.GetMsgChan() {
			d.mu.Lock()
			d.msgs = append(d.msgs, m)
			d.mu.Unlock()
		}
		close(done)
	}()
	go cp.Start()
	for i := 0; cp.GetAddress() == nil; i++ {
		time.Sleep(time.Millisecond)
		if i > 5000 {
			panic("collector did not start")
		}
	}
	stop := func() {
		cp.Stop()
		cp.CloseMsgChan()
		<-done
	}
	return cp, d, stop
}

func showDelivered(ms []*entities.Message) string {
	var sb strings.Builder
	fmt.Fprintf(&sb, "n=%d", len(ms))
	for _, m := range ms {
		set := m.GetSet()
		tid := 0
		if len(set.GetRecords()) > 0 {
			tid = int(set.GetRecords()[0].GetTemplateID())
		}
		if set.GetSetType() == entities.Template {
			fmt.Fprintf(&sb, " t:%d:%d:%d:%d", m.GetSequenceNum(), m.GetObsDomainID(), tid, len(set.GetRecords()))
		} else {
			// rendered only now, after every later message was read: contents must not change
			fmt.Fprintf(&sb, " d:%d:%d:%d:%s", m.GetSequenceNum(), m.GetObsDomainID(), tid, ShowRecords(set.GetRecords()))
		}
	}
	return sb.String()
}

// slowFactor stretches every timing-dependent wait when bin/check re-runs a disagreeing case
// (VERIF_SLOW=1): a verdict must not depend on machine load.
func slowFactor() time.Duration {
	if os.Getenv("VERIF_SLOW") != "" {
		return 12
	}
	return 1
}

// waitConns polls until the collector reports n connections (or the ceiling passes).
func waitConns(cp *collector.CollectingProcess, n int64, ceiling time.Duration) bool {
	deadline := time.Now().Add(ceiling)
	for cp.GetNumConnToCollector() != n {
		if time.Now().After(deadline) {
			return false
		}
		time.Sleep(200 * time.Microsecond)
	}
	return true
}

// c11Run runs one case against a fresh collector.
func c11Run(stream []byte, cuts []int) string {
	// a TCP collector configured with a small MaxBufferSize (every third stream, by its size)
	maxBuf := uint16(65535)
	if len(stream)%3 == 0 {
		maxBuf = 512
	}
	cp, d, stop := startCollectorBuf("tcp", collector.DecodingModeStrict, maxBuf)
	defer stop()
	addr := cp.GetAddress().String()
	conn, err := net.Dial("tcp", addr)
	if err != nil {
		return "dial-error"
	}
	if !waitConns(cp, 1, 10*time.Second) { // accepted and registered before anything is sent
		return "not-registered"
	}
	tc := conn.(*net.TCPConn)
	tc.SetNoDelay(true)
	prev := 0
	for _, c := range append(append([]int{}, cuts...), len(stream)) {
		if c > prev {
			if _, err := conn.Write(stream[prev:c]); err != nil {
				break
			}
			prev = c
			time.Sleep(300 * time.Microsecond)
		} else if c == prev && prev > 0 {
			// a repeated cut point (an empty segment for the model): the sender stalls here -
			// when, not only where, the stream is cut must not matter
			time.Sleep(1300 * time.Millisecond)
		}
	}
	// did the collector close the connection by itself (decode error)? It does so within
	// microseconds of reading the offending frame; an open connection stays registered.
	closed := waitConns(cp, 0, 250*time.Millisecond*slowFactor())
	one := make([]byte, 1)
	if !closed {
		// half-close: the reader sees EOF after consuming everything, then closes
		tc.CloseWrite()
		conn.SetReadDeadline(time.Now().Add(10 * time.Second))
		conn.Read(one)
	}
	conn.Close()
	waitConns(cp, 0, 10*time.Second) // all deliveries of this connection are done
	d.mu.Lock()
	first := append([]*entities.Message{}, d.msgs...)
	d.msgs = nil
	d.mu.Unlock()
	// a second connection on the same collector afterwards: data for the first stream's template
	// (no template re-sent) and a fresh domain; it must see exactly the table left behind
	second := []*entities.Message{}
	closed2 := false
	c2, err := net.Dial("tcp", addr)
	if err == nil {
		waitConns(cp, 1, 10*time.Second)
		c2.(*net.TCPConn).SetNoDelay(true)
		for _, m := range c11Other() {
			if _, err := c2.Write(m); err != nil {
				break
			}
			time.Sleep(300 * time.Microsecond)
		}
		closed2 = waitConns(cp, 0, 250*time.Millisecond*slowFactor())
		if !closed2 {
			c2.(*net.TCPConn).CloseWrite()
			c2.SetReadDeadline(time.Now().Add(10 * time.Second))
			c2.Read(one)
		}
		c2.Close()
		waitConns(cp, 0, 10*time.Second)
		d.mu.Lock()
		second = append(second, d.msgs...)
		d.mu.Unlock()
	}
	// the first connection's messages are rendered last
	return fmt.Sprintf("%s closed=%s other %s closed=%s", showDelivered(first), ShowBool(closed), showDelivered(second), ShowBool(closed2))
}

// what a second connection sends after the first one is finished
func c11Other() [][]byte {
	return [][]byte{c11DataMsg(1, 50, 256, make([]byte, 14)), c11TplMsg(777, 0, 300, c11Template),
		c11DataMsg(777, 1, 300, make([]byte, 14)), c11DataMsg(1, 51, 258, []byte{10, 0, 0, 1, 2, 0xab, 0xcd})}
}

func joinInts(xs []int) string {
	cs := make([]string, len(xs))
	for i, c := range xs {
		cs[i] = fmt.Sprint(c)
	}
	if len(cs) == 0 {
		return ""
	}
	return " " + strings.Join(cs, " ")
}

func c11Case(stream []byte, cuts []int, lens []int) string {
	o := c11Other()
	hs := make([]string, len(o))
	for i, m := range o {
		hs[i] = hex.EncodeToString(m)
	}
	return fmt.Sprintf("C11 cuts %d%s msgs %d%s other %d %s stream %s", len(cuts), joinInts(cuts), len(lens), joinInts(lens),
		len(o), strings.Join(hs, " "), hex.EncodeToString(stream))
}

func parseC11(t []string) ([]byte, []int, []int) {
	// t: cuts k c1..ck msgs m l1..lm other h1 h2 stream hex
	k := atoi(t[1])
	cuts := make([]int, k)
	for i := 0; i < k; i++ {
		cuts[i] = atoi(t[2+i])
	}
	t = t[2+k:]
	m := atoi(t[1])
	lens := make([]int, m)
	for i := 0; i < m; i++ {
		lens[i] = atoi(t[2+i])
	}
	t = t[2+m:]
	no := atoi(t[1])
	b, err := hex.DecodeString(t[3+no])
	if err != nil {
		panic(err)
	}
	return b, cuts, lens
}

func runC11(env *Env) {
	registry.LoadRegistry()
	type job struct {
		stream []byte
		cuts   []int
		class  string
		lens   []int
	}
	jobs := []job{}
	if len(env.Replay) > 0 {
		for _, l := range env.Replay {
			t := strings.Fields(l)
			for i, x := range t {
				if x == "|" {
					t = t[:i]
					break
				}
			}
			s, c, l := parseC11(t[1:])
			jobs = append(jobs, job{s, c, "replay", l})
		}
	} else {
		r := env.Rng
		// message pool
		mk := func(kind string, seq uint32) []byte {
			switch kind {
			case "T":
				return c11TplMsg(1, seq, 256, c11Template)
			case "T2":
				return c11TplMsg(2, seq, 257, c11Template[:2])
			case "TV": // sourceIPv4Address + applicationId (octetArray, variable length)
				return c11TplMsg(1, seq, 258, []c11Field{{8, 0, 4}, {95, 0, 65535}})
			case "DV":
				body := []byte{}
				for i, n := 0, 1+r.Intn(3); i < n; i++ {
					v := r.Bytes(1 + r.Intn(9))
					body = append(append(append(body, r.Bytes(4)...), byte(len(v))), v...)
				}
				return c11DataMsg(1, seq, 258, body)
			case "DVlong": // one record whose octetArray value is 600..1500 bytes (3-byte length prefix)
				v := r.Bytes(600 + r.Intn(900))
				body := append(append(r.Bytes(4), 255, byte(len(v)>>8), byte(len(v))), v...)
				return c11DataMsg(1, seq, 258, body)
			case "XVtrunc": // the variable-length field announces more bytes than the set holds
				body := append(append(r.Bytes(4), 9), r.Bytes(3)...)
				return c11DataMsg(1, seq, 258, body)
			case "D":
				n := 1 + r.Intn(3)
				body := []byte{}
				for i := 0; i < n; i++ {
					body = append(body, c11Record(r)...)
				}
				return c11DataMsg(1, seq, 256, body)
			case "D2":
				return c11DataMsg(2, seq, 257, r.Bytes(6))
			case "Xver":
				m := c11DataMsg(1, seq, 256, c11Record(r))
				m[1] = 9
				return m
			case "Xnotpl":
				return c11DataMsg(1, seq, 999, c11Record(r))
			case "Xshort":
				m := c11DataMsg(1, seq, 256, c11Record(r))[:10+r.Intn(9)]
				binary.BigEndian.PutUint16(m[2:], uint16(len(m)))
				return m
			case "Xbadtpl":
				// unknown element id in strict mode
				return c11TplMsg(1, seq, 258, []c11Field{{8, 0, 4}, {32000, 0, 4}})
			case "Llong":
				// header length larger than the message: swallows bytes of the next one
				m := c11DataMsg(1, seq, 256, c11Record(r))
				binary.BigEndian.PutUint16(m[2:], uint16(len(m)+3+r.Intn(20)))
				return m
			case "Lshort":
				m := c11DataMsg(1, seq, 256, c11Record(r))
				binary.BigEndian.PutUint16(m[2:], uint16(len(m)-1-r.Intn(10)))
				return m
			case "Lzero":
				m := c11DataMsg(1, seq, 256, c11Record(r))
				binary.BigEndian.PutUint16(m[2:], 0)
				return m
			}
			panic(kind)
		}
		valid := []string{"T", "D", "D", "T2", "D2", "D", "TV", "DV", "DV", "DVlong"}
		invalid := []string{"Xver", "Xnotpl", "Xshort", "Xbadtpl", "Lzero", "XVtrunc"}
		lying := []string{"Llong", "Lshort"}
		var lastLens []int
		mkStream := func(kinds []string) []byte {
			s := []byte{}
			lastLens = nil
			for i, k := range kinds {
				m := mk(k, uint32(i))
				lastLens = append(lastLens, len(m))
				s = append(s, m...)
			}
			return s
		}
		lensCopy := func() []int { return append([]int{}, lastLens...) }
		randKinds := func(n int, badAt int, bad string) []string {
			ks := []string{"T", "TV"}
			for i := 2; i < n; i++ {
				ks = append(ks, valid[r.Intn(len(valid))])
			}
			// data for 257 needs T2 first; keep it simple: order decides validity, the model knows
			if badAt >= 0 && badAt < n {
				ks[badAt] = bad
			}
			return ks
		}
		randCuts := func(n, k int) []int {
			m := map[int]bool{}
			for i := 0; i < k; i++ {
				m[1+r.Intn(n-1)] = true
			}
			out := []int{}
			for c := 1; c < n; c++ {
				if m[c] {
					out = append(out, c)
				}
			}
			return out
		}
		// (1) one short stream: every single cut point; thorough: every double cut as well
		base := mkStream([]string{"T", "D", "D"})
		baseLens := lensCopy()
		for c := 1; c < len(base); c++ {
			jobs = append(jobs, job{base, []int{c}, "single-cut", baseLens})
		}
		if env.Thorough() {
			for a := 1; a < len(base); a++ {
				for b := a + 1; b < len(base); b += 1 {
					jobs = append(jobs, job{base, []int{a, b}, "double-cut", baseLens})
				}
			}
		}
		// (2) an invalid message at every position, with random cuts and uncut
		for _, bad := range invalid {
			for pos := 0; pos < 5; pos++ {
				ks := randKinds(5, pos, bad)
				s := mkStream(ks)
				jobs = append(jobs, job{s, nil, "invalid/" + bad + "/uncut", lensCopy()})
				jobs = append(jobs, job{s, randCuts(len(s), 1+r.Intn(6)), "invalid/" + bad + "/cuts", lensCopy()})
			}
		}
		// (3) random valid streams with random multi-cuts (long ones too)
		nrand := 60
		if env.Thorough() {
			nrand = 1500
		}
		for i := 0; i < nrand; i++ {
			ks := randKinds(2+r.Intn(8), -1, "")
			s := mkStream(ks)
			jobs = append(jobs, job{s, randCuts(len(s), r.Intn(12)), "valid/multi-cut", lensCopy()})
		}
		// byte-by-byte delivery
		s := mkStream([]string{"T", "D"})
		sLens := lensCopy()
		all := []int{}
		for c := 1; c < len(s); c++ {
			all = append(all, c)
		}
		jobs = append(jobs, job{s, all, "valid/byte-by-byte", sLens})
		// (3b) a sender that stalls: inside a message, between two messages after a split
		// message, and both (repeated cut point = stall of 1.3 s)
		{
			s := mkStream([]string{"T", "TV", "D", "DV", "D"})
			l := lensCopy()
			in1 := l[0] + l[1] + 7      // inside the first data message
			b2 := l[0] + l[1] + l[2]    // the boundary after it
			in3 := b2 + l[3] + 5        // inside the last message
			jobs = append(jobs, job{s, []int{in1, in1}, "valid/stall-inside-message", l})
			jobs = append(jobs, job{s, []int{in1, b2, b2}, "valid/stall-after-split-message", l})
			jobs = append(jobs, job{s, []int{5, 5, b2, b2, in3, in3}, "valid/stalls", l})
		}
		// (4) lying length fields (outside the theorem's frame hypothesis: correspondence only)
		for _, bad := range lying {
			for pos := 1; pos < 3; pos++ {
				ks := randKinds(4, pos, bad)
				s := mkStream(ks)
				jobs = append(jobs, job{s, randCuts(len(s), r.Intn(4)), "lying/" + bad, lensCopy()})
			}
		}
	}
	// run in parallel, emit in order
	res := make([]string, len(jobs))
	var wg sync.WaitGroup
	sem := make(chan struct{}, 24)
	for i := range jobs {
		if env.GenOnly {
			res[i] = "-"
			continue
		}
		wg.Add(1)
		sem <- struct{}{}
		go func(i int) {
			defer wg.Done()
			defer func() { <-sem }()
			res[i] = c11Run(jobs[i].stream, jobs[i].cuts)
		}(i)
	}
	wg.Wait()
	for i, j := range jobs {
		env.Count(j.class)
		env.Emit(c11Case(j.stream, j.cuts, j.lens), res[i])
	}
}
