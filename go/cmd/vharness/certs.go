package main

import (
	"crypto/ecdsa"
	"crypto/elliptic"
	"crypto/rand"
	"crypto/x509"
	"crypto/x509/pkix"
	"encoding/pem"
	"math/big"
	"net"
	"time"
)

// minted certificates (the repository's static test certificates are expired)
type certPair struct {
	CertPEM, KeyPEM []byte
	cert            *x509.Certificate
	key             *ecdsa.PrivateKey
}

var certSerial = int64(1000)

func mintCA(cn string) *certPair {
	key, _ := ecdsa.GenerateKey(elliptic.P256(), rand.Reader)
	certSerial++
	tpl := &x509.Certificate{
		SerialNumber: big.NewInt(certSerial), Subject: pkix.Name{CommonName: cn},
		NotBefore: time.Now().Add(-time.Hour), NotAfter: time.Now().Add(24 * time.Hour),
		IsCA: true, KeyUsage: x509.KeyUsageCertSign | x509.KeyUsageDigitalSignature, BasicConstraintsValid: true,
	}
	der, err := x509.CreateCertificate(rand.Reader, tpl, tpl, &key.PublicKey, key)
	if err != nil {
		panic(err)
	}
	c, _ := x509.ParseCertificate(der)
	kb, _ := x509.MarshalECPrivateKey(key)
	return &certPair{pem.EncodeToMemory(&pem.Block{Type: "CERTIFICATE", Bytes: der}),
		pem.EncodeToMemory(&pem.Block{Type: "EC PRIVATE KEY", Bytes: kb}), c, key}
}

func mintLeaf(ca *certPair, cn string, dns []string, ips []net.IP, notBefore, notAfter time.Time, client bool) *certPair {
	key, _ := ecdsa.GenerateKey(elliptic.P256(), rand.Reader)
	certSerial++
	eku := []x509.ExtKeyUsage{x509.ExtKeyUsageServerAuth}
	if client {
		eku = []x509.ExtKeyUsage{x509.ExtKeyUsageClientAuth}
	}
	tpl := &x509.Certificate{
		SerialNumber: big.NewInt(certSerial), Subject: pkix.Name{CommonName: cn},
		NotBefore: notBefore, NotAfter: notAfter, DNSNames: dns, IPAddresses: ips,
		KeyUsage: x509.KeyUsageDigitalSignature, ExtKeyUsage: eku,
	}
	der, err := x509.CreateCertificate(rand.Reader, tpl, ca.cert, &key.PublicKey, ca.key)
	if err != nil {
		panic(err)
	}
	c, _ := x509.ParseCertificate(der)
	kb, _ := x509.MarshalECPrivateKey(key)
	return &certPair{pem.EncodeToMemory(&pem.Block{Type: "CERTIFICATE", Bytes: der}),
		pem.EncodeToMemory(&pem.Block{Type: "EC PRIVATE KEY", Bytes: kb}), c, key}
}
