package main

// C19: Kafka publication. Streams of template/data messages go through the real
// KafkaProducer.PublishIPFIXMessages with sarama's mock async producer; every captured Kafka
// message is also handed to the real consumer-side decoder (KafkaConsumer.DecodeAndPrintMsg).

import (
	"encoding/hex"
	"fmt"
	"math"
	"net"
	"sort"
	"strings"
	"sync"
	"time"
	"unicode/utf8"

	"github.com/IBM/sarama"
	saramamock "github.com/IBM/sarama/mocks"
	"google.golang.org/protobuf/encoding/protowire"
	"google.golang.org/protobuf/proto"
	"google.golang.org/protobuf/reflect/protoreflect"

	"github.com/vmware/go-ipfix/pkg/entities"
	"github.com/vmware/go-ipfix/pkg/kafka/consumer"
	"github.com/vmware/go-ipfix/pkg/kafka/producer"
	"github.com/vmware/go-ipfix/pkg/kafka/producer/convertor"
	convtest "github.com/vmware/go-ipfix/pkg/kafka/producer/convertor/test"
	"github.com/vmware/go-ipfix/pkg/kafka/producer/protobuf"
	"github.com/vmware/go-ipfix/pkg/registry"
)

func init() { register("C19", runC19) }

type mockReporter struct {
	mu         sync.Mutex
	unexpected int
}

func (m *mockReporter) Errorf(format string, args ...interface{}) {
	m.mu.Lock()
	defer m.mu.Unlock()
	if strings.HasPrefix(format, "No more expectation") {
		m.unexpected++
	}
}

func c19Schema(conv string) (convertor.IPFIXToKafkaConvertor, func() proto.Message) {
	if conv == "2" {
		return convtest.NewFlowType2Convertor(), func() proto.Message { return &protobuf.FlowType2{} }
	}
	return convtest.NewFlowType1Convertor(), func() proto.Message { return &protobuf.FlowType1{} }
}

func c19Dump(m proto.Message) string {
	type kv struct {
		n int
		s string
	}
	var fs []kv
	m.ProtoReflect().Range(func(fd protoreflect.FieldDescriptor, v protoreflect.Value) bool {
		if fd.Kind() == protoreflect.StringKind {
			fs = append(fs, kv{int(fd.Number()), fmt.Sprintf("%d=s:%s", fd.Number(), ShowBytes([]byte(v.String())))})
		} else {
			fs = append(fs, kv{int(fd.Number()), fmt.Sprintf("%d=%d", fd.Number(), v.Uint())})
		}
		return true
	})
	if len(fs) == 0 {
		return "-"
	}
	sort.Slice(fs, func(a, b int) bool { return fs[a].n < fs[b].n })
	out := make([]string, len(fs))
	for i, f := range fs {
		out[i] = f.s
	}
	return strings.Join(out, ",")
}

// c19Msgs builds the entities.Message stream of a case; returns the number of data records.
func c19Msgs(t []string) ([]*entities.Message, int) {
	var msgs []*entities.Message
	nrecs := 0
	for len(t) > 0 {
		if t[0] != "M" {
			panic("case: expected M, got " + t[0])
		}
		msg := entities.NewMessage(true)
		msg.SetVersion(10)
		msg.SetExportTime(uint32(atou(t[1])))
		msg.SetSequenceNum(uint32(atou(t[2])))
		msg.SetObsDomainID(uint32(atou(t[3])))
		var addr []byte
		addr, t = ParseBytesArg(t[4:])
		msg.SetExportAddress(string(addr))
		kind := t[0]
		n := atoi(t[1])
		t = t[2:]
		set := entities.NewSet(true)
		if kind == "T" {
			_ = set.PrepareSet(entities.Template, 256)
			for i := 0; i < n; i++ {
				ie := entities.NewInfoElement("sourcePodName", 101, entities.String, registry.AntreaEnterpriseID, 65535)
				ie2 := entities.NewInfoElement("octetDeltaCount", 1, entities.Unsigned64, 0, 8)
				if err := set.AddRecord([]entities.InfoElementWithValue{entities.NewStringInfoElement(ie, ""), entities.NewUnsigned64InfoElement(ie2, 0)}, 256); err != nil {
					panic(err)
				}
			}
		} else {
			_ = set.PrepareSet(entities.Data, 256)
			for i := 0; i < n; i++ {
				nf := atoi(t[0])
				t = t[1:]
				elems := make([]entities.InfoElementWithValue, 0, nf)
				for j := 0; j < nf; j++ {
					var name []byte
					name, t = ParseBytesArg(t)
					ie := entities.NewInfoElement(string(name), uint16(1+j), entities.OctetArray, 0, 0)
					var e entities.InfoElementWithValue
					if t[0] == "strrep" { // strrep <n> <hex>: n repetitions of the bytes
						b, err := hex.DecodeString(t[2])
						if err != nil {
							panic(err)
						}
						e, t = entities.NewStringInfoElement(ie, strings.Repeat(string(b), atoi(t[1]))), t[3:]
					} else {
						e, t = MkElem(ie, t)
					}
					_, t = ParseBytesArg(t) // ip string (model only)
					elems = append(elems, e)
				}
				if err := set.AddRecord(elems, 256); err != nil {
					panic(err)
				}
				nrecs++
			}
		}
		msg.AddSet(set)
		msgs = append(msgs, msg)
	}
	return msgs, nrecs
}

func c19Consume(topic string, fresh func() proto.Message, v []byte) (s string) {
	defer func() {
		if r := recover(); r != nil {
			s = "short"
		}
	}()
	target := fresh()
	kc := consumer.NewKafkaConsumer(consumer.ConsumerInput{KafkaTopic: topic, KafkaProtoSchema: target, MsgDelimitWithLen: true})
	if err := kc.DecodeAndPrintMsg(&sarama.ConsumerMessage{Topic: topic, Value: v}); err != nil {
		return "err"
	}
	return c19Dump(target)
}

func c19One(c []string) string {
	convName, topic := c[0], c[1]
	conv, fresh := c19Schema(convName)
	if len(c) > 3 && c[3] == "RAW" {
		var v []byte
		for _, h := range c[5:] {
			b, err := hex.DecodeString(h)
			if err != nil {
				panic(err)
			}
			v = append(v, b...)
		}
		return "raw " + c19Consume(topic, fresh, v)
	}
	msgs, nrecs := c19Msgs(c[3:])
	rep := &mockReporter{}
	cfg := sarama.NewConfig()
	cfg.Version = sarama.DefaultVersion
	cfg.Producer.Return.Successes = true
	cfg.Producer.Return.Errors = true
	mock := saramamock.NewAsyncProducer(rep, cfg)
	for i := 0; i < nrecs+16; i++ {
		mock.ExpectInputAndSucceed()
	}
	kp, err := producer.NewKafkaProducer(producer.ProducerInput{
		KafkaTopic: topic, KafkaVersion: sarama.DefaultVersion, KafkaLogSuccesses: false, ProtoSchemaConvertor: conv})
	if err != nil {
		return "init-error"
	}
	kp.SetSaramaProducer(mock)
	var got []*sarama.ProducerMessage
	drained := make(chan struct{})
	go func() {
		if nrecs > 530 {
			// a broker that stalls: nothing is taken off the producer for 1.3 s while more
			// records are handed over than its channels buffer (256 inputs + 256 successes).
			// Every record must still be published, in order, once it moves again.
			time.Sleep(1300 * time.Millisecond)
		}
		for m := range mock.Successes() {
			got = append(got, m)
		}
		close(drained)
	}()
	go func() {
		for range mock.Errors() {
		}
	}()
	ch := make(chan *entities.Message, len(msgs))
	for _, m := range msgs {
		ch <- m
	}
	close(ch)
	panicked := false
	done := make(chan struct{})
	go func() {
		defer func() {
			if r := recover(); r != nil {
				panicked = true
			}
			close(done)
		}()
		kp.PublishIPFIXMessages(ch)
	}()
	<-done
	mock.Close()
	<-drained
	var sb strings.Builder
	fmt.Fprintf(&sb, "n=%d", len(got))
	if panicked {
		sb.WriteString(" panic")
	}
	rep.mu.Lock()
	fmt.Fprintf(&sb, " x=%d", rep.unexpected)
	rep.mu.Unlock()
	// ONE consumer for the whole stream, as deployed: its schema message object is reused for
	// every Kafka message, and each message must decode to its own values only
	target := fresh()
	kc := consumer.NewKafkaConsumer(consumer.ConsumerInput{KafkaTopic: topic, KafkaProtoSchema: target, MsgDelimitWithLen: true})
	consume := func(tp string, v []byte) (s string) {
		defer func() {
			if r := recover(); r != nil {
				s = "short"
			}
		}()
		if err := kc.DecodeAndPrintMsg(&sarama.ConsumerMessage{Topic: tp, Value: v}); err != nil {
			return "err"
		}
		return c19Dump(target)
	}
	for _, m := range got {
		v, _ := m.Value.Encode()
		// the real consumer-side decoder on this Kafka message
		dump := consume(m.Topic, v)
		fmt.Fprintf(&sb, " ; %s %d", m.Topic, (len(v)+63)/64)
		for i := 0; i < len(v); i += 64 {
			j := i + 64
			if j > len(v) {
				j = len(v)
			}
			sb.WriteString(" " + hex.EncodeToString(v[i:j]))
		}
		sb.WriteString(" " + dump)
	}
	return sb.String()
}

// ---------------------------------------------------------------------------------- generator

type c19Elem struct {
	name string
	kind string // registry-typed concrete kind
}

var c19Mapped = []c19Elem{
	{"flowStartSeconds", "dts"}, {"flowEndSeconds", "dts"}, {"sourceIPv4Address", "ip4"}, {"sourceIPv6Address", "ip6"},
	{"destinationIPv4Address", "ip4"}, {"destinationIPv6Address", "ip6"}, {"sourceTransportPort", "u16"},
	{"destinationTransportPort", "u16"}, {"protocolIdentifier", "u8"}, {"packetTotalCount", "u64"}, {"octetTotalCount", "u64"},
	{"packetDeltaCount", "u64"}, {"octetDeltaCount", "u64"}, {"reversePacketTotalCount", "u64"}, {"reverseOctetTotalCount", "u64"},
	{"reversePacketDeltaCount", "u64"}, {"reverseOctetDeltaCount", "u64"}, {"sourcePodNamespace", "str"}, {"sourcePodName", "str"},
	{"sourceNodeName", "str"}, {"destinationPodNamespace", "str"}, {"destinationPodName", "str"}, {"destinationNodeName", "str"},
	{"destinationClusterIPv4", "ip4"}, {"destinationClusterIPv6", "ip6"}, {"destinationServicePort", "u16"},
	{"destinationServicePortName", "str"}, {"ingressNetworkPolicyName", "str"}, {"ingressNetworkPolicyNamespace", "str"},
	{"egressNetworkPolicyName", "str"}, {"egressNetworkPolicyNamespace", "str"},
}

var c19Unmapped = []c19Elem{
	{"flowEndReason", "u8"}, {"tcpState", "str"}, {"flowStartMilliseconds", "dtms"}, {"ingressInterface", "u32"},
	{"sourceMacAddress", "mac"}, {"ipPayloadPacketSection", "oct"}, {"notARegistryName", "u64"}, {"sourcepodname", "str"},
	{"ingressNetworkPolicyRuleAction", "u8"}, {"flowType", "u8"}, {"absoluteError", "f64"}, {"dataRecordsReliability", "bool"}, {"mibObjectValueInteger", "i32"},
}

var c19Bounds = []uint64{0, 1, 2, 127, 128, 129, 255, 256, 16383, 16384, 65535, 65536, 1<<21 - 1, 1 << 21, 1<<28 - 1, 1 << 28,
	1<<32 - 1, 1 << 32, 1<<35 - 1, 1 << 35, 1<<42 - 1, 1 << 42, 1<<49 - 1, 1 << 49, 1<<56 - 1, 1 << 56, 1<<63 - 1, 1 << 63, math.MaxUint64}

var c19ValidStrings = []string{"", "pod-1", "kube-system", "a", "node/1", "日本語", "é", "\x00", "with space", "x\ny", "\U0001F600", "߿ࠀ￿\U00010000\U0010ffff", "\xed\x9f\xbf\xee\x80\x80"}
var c19InvalidStrings = []string{"\xff", "ab\xc3", "\xc0\xaf", "\xed\xa0\x80", "\xf4\x90\x80\x80", "\x80", "ok\xe2\x82", "\xf8\x88\x80\x80\x80", "\xc1\xbf", "\xe0\x9f\xbf", "\xf0\x8f\xbf\xbf"}

func c19Num(r *Rng, bits uint) uint64 {
	var v uint64
	if r.Intn(2) == 0 {
		v = c19Bounds[r.Intn(len(c19Bounds))]
	} else {
		v = r.U64() >> uint(r.Intn(64))
	}
	if bits < 64 {
		v &= 1<<bits - 1
	}
	return v
}

func c19Str(r *Rng, invalid bool) string {
	if invalid {
		return c19InvalidStrings[r.Intn(len(c19InvalidStrings))]
	}
	switch r.Intn(12) {
	case 0: // length boundaries of the length varint
		n := []int{126, 127, 128, 129, 200, 300, 1000}[r.Intn(7)]
		return strings.Repeat("k8s-", n/4+1)[:n]
	default:
		return c19ValidStrings[r.Intn(len(c19ValidStrings))]
	}
}

// c19Value renders "<kind> <value> <ipstr>" for an element kind; reports whether all strings are valid UTF-8.
func c19Value(r *Rng, kind string, invalid bool) (string, bool) {
	switch kind {
	case "u8":
		return fmt.Sprintf("u8 %d -", c19Num(r, 8)), true
	case "u16":
		return fmt.Sprintf("u16 %d -", c19Num(r, 16)), true
	case "u32":
		return fmt.Sprintf("u32 %d -", c19Num(r, 32)), true
	case "u64":
		return fmt.Sprintf("u64 %d -", c19Num(r, 64)), true
	case "dts":
		return fmt.Sprintf("dts %d -", c19Num(r, 32)), true
	case "dtms":
		return fmt.Sprintf("dtms %d -", c19Num(r, 64)), true
	case "i32":
		return fmt.Sprintf("i32 %d -", int32(r.U64())), true
	case "f64":
		return fmt.Sprintf("f64 %d -", r.U64()), true
	case "bool":
		return "bool " + ShowBool(r.Bool()) + " -", true
	case "mac":
		return "mac " + BytesArg(r.Bytes(6)) + " -", true
	case "oct":
		return "oct " + BytesArg(r.Bytes(r.Intn(5))) + " -", true
	case "str":
		s := c19Str(r, invalid)
		return "str " + BytesArg([]byte(s)) + " -", utf8.ValidString(s)
	case "ip4", "ip6":
		var b []byte
		switch x := r.Intn(12); {
		case x == 0:
			b = nil
		case x == 1:
			b = r.Bytes(3)
		case x == 2 && kind == "ip6":
			b = append([]byte{0, 0, 0, 0, 0, 0, 0, 0, 0, 0, 0xff, 0xff}, r.Bytes(4)...)
		case x == 3 && kind == "ip6":
			b = make([]byte, 16)
			b[15] = byte(r.U64())
		case kind == "ip4":
			b = r.Bytes(4)
		default:
			b = r.Bytes(16)
		}
		arg := "nil"
		if b != nil {
			arg = BytesArg(b)
		}
		return "ip " + arg + " " + BytesArg([]byte(net.IP(b).String())), true
	}
	panic("kind " + kind)
}

type c19Gen struct {
	r     *Rng
	valid bool
	typed bool
}

func (g *c19Gen) elem(e c19Elem, invalid bool) string {
	v, ok := c19Value(g.r, e.kind, invalid)
	if !ok {
		g.valid = false
	}
	return BytesArg([]byte(e.name)) + " " + v
}

func (g *c19Gen) record(mode int) string {
	r := g.r
	var fs []string
	switch mode {
	case 0: // every mapped element once, v4 or v6 (the shape of the repository's own test)
		v6 := r.Bool()
		for _, e := range c19Mapped {
			if (e.kind == "ip4" && v6) || (e.kind == "ip6" && !v6) {
				continue
			}
			fs = append(fs, g.elem(e, false))
		}
		r2 := NewRng(r.U64())
		for i := len(fs) - 1; i > 0; i-- { // the record order is arbitrary
			j := r2.Intn(i + 1)
			fs[i], fs[j] = fs[j], fs[i]
		}
	default:
		n := r.Intn(9)
		for i := 0; i < n; i++ {
			if r.Intn(4) == 0 {
				fs = append(fs, g.elem(c19Unmapped[r.Intn(len(c19Unmapped))], false))
			} else {
				fs = append(fs, g.elem(c19Mapped[r.Intn(len(c19Mapped))], false)) // duplicates and v4+v6 happen
			}
		}
	}
	return fmt.Sprintf("%d %s", len(fs), strings.Join(fs, " "))
}

func (g *c19Gen) header(invalidAddr bool) string {
	r := g.r
	addr := []string{"127.0.0.1:4739", "10.0.0.1", "[2001:db8::1]:4739", "", "exporter-ü", "::1"}[r.Intn(6)]
	if invalidAddr {
		addr = "10.0.0.1\xff"
		g.valid = false
	}
	return fmt.Sprintf("M %d %d %d %s", uint32(c19Num(r, 32)), uint32(c19Num(r, 32)), uint32(c19Num(r, 32)), BytesArg([]byte(addr)))
}

func c19Marker(valid bool) string {
	if valid {
		return "utf8ok"
	}
	return "utf8bad"
}

func c19Stream(env *Env) string {
	r := env.Rng
	g := &c19Gen{r: r, valid: true, typed: true}
	nm := 1 + r.Intn(5)
	var ms []string
	for i := 0; i < nm; i++ {
		if r.Intn(4) == 0 {
			ms = append(ms, fmt.Sprintf("%s T %d", g.header(false), r.Intn(3)))
			env.Count("msg/template")
			continue
		}
		nrec := r.Intn(5)
		recs := make([]string, nrec)
		for j := range recs {
			recs[j] = g.record(r.Intn(5))
		}
		env.Count(fmt.Sprintf("msg/data-%d-records", nrec))
		ms = append(ms, strings.TrimSpace(fmt.Sprintf("%s D %d %s", g.header(false), nrec, strings.Join(recs, " "))))
	}
	return fmt.Sprintf("%d %s %s %s", 1+r.Intn(2), []string{"flows", "test-flow-msgs", "t"}[r.Intn(3)], c19Marker(g.valid), strings.Join(ms, " "))
}

func runC19(env *Env) {
	registry.LoadRegistry()
	run := func(c string) { env.Emit("C19 "+c, c19One(strings.Fields(c))) }
	if len(env.Replay) > 0 {
		for _, l := range env.Replay {
			t := strings.Fields(l)
			c := t[1:]
			for i, x := range c {
				if x == "|" {
					c = c[:i]
					break
				}
			}
			run(strings.Join(c, " "))
		}
		return
	}
	r := env.Rng
	n := 1500
	if env.Thorough() {
		n = 60000
	}
	for i := 0; i < n; i++ {
		env.Count("stream/well-formed")
		run(c19Stream(env))
	}
	// one message with more records than the producer's channels hold, against a stalled broker
	{
		var sb strings.Builder
		fmt.Fprintf(&sb, "1 flows utf8ok M 1700000000 7 1 - D 600")
		for i := 0; i < 600; i++ {
			fmt.Fprintf(&sb, " 1 %s u64 %d -", BytesArg([]byte("octetDeltaCount")), 1000+i)
		}
		env.Count("backlog/producer-input-stalled")
		run(sb.String())
	}
	// varint boundaries on every numeric field kind, both schemas
	for _, conv := range []string{"1", "2"} {
		for _, v := range c19Bounds {
			env.Count("boundary/varint")
			run(fmt.Sprintf("%s flows utf8ok M %d %d %d - D 1 3 %s u64 %d - %s u16 %d - %s dts %d -", conv, uint32(v), uint32(v>>7), uint32(v>>14),
				BytesArg([]byte("octetDeltaCount")), v, BytesArg([]byte("sourceTransportPort")), uint16(v), BytesArg([]byte("flowStartSeconds")), uint32(v)))
		}
		// long strings (length varint of 2 and 3 bytes); too long for the in-Coq sample
		for _, n := range []int{16383, 16384, 16385, 70000} {
			env.Count("boundary/long-string")
			run(fmt.Sprintf("%s flows utf8ok M 1 2 3 - D 1 2 %s strrep %d %s - %s strrep %d %s -", conv, BytesArg([]byte("sourcePodName")), n, hex.EncodeToString([]byte("a")),
				BytesArg([]byte("destinationPodName")), n/4, hex.EncodeToString([]byte("\u00e9\u00df"))))
		}
	}
	// F10: a string that is not valid UTF-8 (element value or exporter address)
	nbad := 40
	for i := 0; i < nbad; i++ {
		g := &c19Gen{r: r, valid: true}
		conv := 1 + r.Intn(2)
		env.Count("utf8/invalid-string")
		var strElems []c19Elem
		for _, e := range c19Mapped {
			if e.kind == "str" {
				strElems = append(strElems, e)
			}
		}
		switch i % 4 {
		case 0: // single record, one bad string
			run(fmt.Sprintf("%d flows utf8bad %s D 1 1 %s", conv, g.header(false), g.elem(strElems[r.Intn(len(strElems))], true)))
		case 1: // bad record between two good ones
			run(fmt.Sprintf("%d flows utf8bad %s D 3 %s 2 %s %s %s", conv, g.header(false), g.record(1), g.elem(c19Mapped[8], false), g.elem(strElems[r.Intn(len(strElems))], true), g.record(1)))
		case 2: // bad exporter address: every record of the message is lost
			run(fmt.Sprintf("%d flows utf8bad %s D 2 %s %s", conv, g.header(true), g.record(0), g.record(1)))
		default: // invalid string in an element the converter ignores: harmless
			v, _ := c19Value(r, "str", true)
			run(fmt.Sprintf("%d flows utf8bad %s D 1 2 %s %s %s", conv, g.header(false), BytesArg([]byte("tcpState")), v, g.elem(c19Mapped[8], false)))
		}
	}
	// RAW stream: hand-made values for the consumer side (unknown fields, repeats, non-canonical
	// varints, uint32 overflow, wrong wire types, bad field numbers, truncation, invalid UTF-8)
	nraw := 300
	if env.Thorough() {
		nraw = 20000
	}
	for i := 0; i < nraw; i++ {
		env.Count("raw/consumer-only")
		v := c19RawValue(r)
		chunks := []string{}
		for j := 0; j < len(v); j += 64 {
			k := j + 64
			if k > len(v) {
				k = len(v)
			}
			chunks = append(chunks, hex.EncodeToString(v[j:k]))
		}
		run(strings.TrimSpace(fmt.Sprintf("%d flows utf8ok RAW %d %s", 1+r.Intn(2), len(chunks), strings.Join(chunks, " "))))
	}
	// separate ill-typed stream: a mapped name carried by the wrong element kind (getter panic)
	for i := 0; i < 30; i++ {
		g := &c19Gen{r: r, valid: true}
		env.Count("ill/wrong-element-kind")
		bad := []string{
			BytesArg([]byte("sourceTransportPort")) + " u32 80 -",
			BytesArg([]byte("octetDeltaCount")) + " u32 80 -",
			BytesArg([]byte("sourcePodName")) + " oct hex 6162 -",
			BytesArg([]byte("sourceIPv4Address")) + " str hex 6162 -",
			BytesArg([]byte("flowStartSeconds")) + " u64 5 -",
			BytesArg([]byte("protocolIdentifier")) + " u16 6 -",
		}[r.Intn(6)]
		run(fmt.Sprintf("%d flows %s %s D 1 %s %s D 2 %s 1 %s %s D 1 %s", 1+r.Intn(2), "utf8ok", g.header(false), g.record(1), g.header(false), g.record(1), bad, g.header(false), g.record(1)))
	}
}

func c19RawValue(r *Rng) []byte {
	var p []byte
	known := []int{1, 2, 3, 4, 5, 6, 7, 8, 9, 10, 11, 12, 14, 19, 20, 25, 26, 27, 28, 33, 34, 35, 36}
	isStr := map[int]bool{6: true, 7: true, 19: true, 20: true, 25: true, 26: true, 33: true, 36: true}
	nf := r.Intn(7)
	for i := 0; i < nf; i++ {
		switch r.Intn(14) {
		case 0: // unknown varint field
			p = protowire.AppendTag(p, protowire.Number(100+r.Intn(1000)), protowire.VarintType)
			p = protowire.AppendVarint(p, r.U64())
		case 1: // unknown fixed64
			p = protowire.AppendTag(p, protowire.Number(100+r.Intn(1000)), protowire.Fixed64Type)
			p = protowire.AppendFixed64(p, r.U64())
		case 2: // unknown fixed32 (sometimes on a known number: wrong wire type)
			n := 100 + r.Intn(1000)
			if r.Bool() {
				n = known[r.Intn(len(known))]
			}
			p = protowire.AppendTag(p, protowire.Number(n), protowire.Fixed32Type)
			p = protowire.AppendFixed32(p, uint32(r.U64()))
		case 3: // unknown bytes (any content)
			p = protowire.AppendTag(p, protowire.Number(100+r.Intn(1000)), protowire.BytesType)
			p = protowire.AppendBytes(p, r.Bytes(r.Intn(6)))
		case 4: // non-canonical varint for a known numeric field
			p = protowire.AppendTag(p, 8, protowire.VarintType)
			p = append(p, 0x85, 0x80, 0x00)
		case 5: // uint32 field with a value above 2^32
			p = protowire.AppendTag(p, protowire.Number([]int{1, 2, 3, 4, 5, 8, 9, 10, 34}[r.Intn(9)]), protowire.VarintType)
			p = protowire.AppendVarint(p, 1<<32+uint64(r.Intn(1000))+r.U64()<<33)
		case 6: // known string field with varint wire type / numeric field as bytes
			if r.Bool() {
				p = protowire.AppendTag(p, 19, protowire.VarintType)
				p = protowire.AppendVarint(p, r.U64())
			} else {
				p = protowire.AppendTag(p, 11, protowire.BytesType)
				p = protowire.AppendBytes(p, r.Bytes(r.Intn(4)))
			}
		case 7: // invalid UTF-8 in a known string field (rarely)
			s := "ok"
			if r.Intn(3) == 0 {
				s = c19InvalidStrings[r.Intn(len(c19InvalidStrings))]
			}
			p = protowire.AppendTag(p, 20, protowire.BytesType)
			p = protowire.AppendString(p, s)
		default: // a well-formed known field (repeats happen: last wins)
			n := known[r.Intn(len(known))]
			if isStr[n] {
				p = protowire.AppendTag(p, protowire.Number(n), protowire.BytesType)
				p = protowire.AppendString(p, c19ValidStrings[r.Intn(len(c19ValidStrings))])
			} else {
				p = protowire.AppendTag(p, protowire.Number(n), protowire.VarintType)
				p = protowire.AppendVarint(p, c19Num(r, 64))
			}
		}
	}
	switch r.Intn(16) {
	case 0: // truncation
		if len(p) > 0 {
			p = p[:r.Intn(len(p))]
		}
	case 1: // field number 0
		p = append(p, 0x00, 0x01)
	case 2: // field number 2^29 (too large) / 2^29-1 (largest valid)
		p = protowire.AppendVarint(p, uint64(1<<29-r.Intn(2))<<3)
		p = protowire.AppendVarint(p, 7)
	case 3: // length beyond the end
		p = protowire.AppendTag(p, 19, protowire.BytesType)
		p = protowire.AppendVarint(p, uint64(5+r.Intn(100)))
		p = append(p, 'a', 'b')
	case 4: // 10-byte varint that overflows 64 bits / one that does not
		p = protowire.AppendTag(p, 12, protowire.VarintType)
		p = append(p, 0xff, 0xff, 0xff, 0xff, 0xff, 0xff, 0xff, 0xff, 0xff, byte(1+r.Intn(2)))
	case 5: // reserved wire types 6 / 7
		p = protowire.AppendVarint(p, uint64(50<<3|(6+r.Intn(2))))
		p = append(p, 1)
	}
	prefix := make([]byte, 4)
	if r.Intn(4) > 0 { // the consumer does not look at the prefix
		prefix[3] = byte(len(p))
		prefix[2] = byte(len(p) >> 8)
	} else {
		copy(prefix, r.Bytes(4))
	}
	if r.Intn(25) == 0 {
		return r.Bytes(r.Intn(4)) // shorter than the delimiter
	}
	return append(prefix, p...)
}
