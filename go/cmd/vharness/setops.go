package main

// Set-builder operations shared by C16 / C02 / C08 / C09: the case syntax
//
//	P <T|D|U> <id>                          PrepareSet
//	A <1|2|X<k>> <id> <n> <elem>*n          AddRecord / AddRecordV2 / AddRecordWithExtraElements(k)
//	N <count> A ...                         the following add, <count> times
//	L                                       UpdateLenInHeader
//	R                                       ResetSet
//	O <obs> <seq> <time>                    observe (snapshot; C16 only)
//	AS <1|2|X<k>> <id> <tag>                AddRecord* with the element objects of the <tag>-th A of the case (histories only)
//	M <tag> <j> <kind> <value>              SetXxxValue(value) on element j of the <tag>-th A's objects (histories only)
//	G                                       GetBuffer() on every record of the set (histories only)
//
// with <elem> = <id> <dtcode> <ent> <len> <kind> <value> as in elems.go / Driver/Show.v.

import (
	"fmt"
	"math"
	"net"
	"strconv"
	"strings"
	"time"

	"github.com/vmware/go-ipfix/pkg/entities"
	"github.com/vmware/go-ipfix/pkg/exporter"
)

// objCtx holds the element objects made by the A operations of a history, in order (one entry
// per A; for a repeated add the objects of the last repetition).
type objCtx struct {
	pool [][]entities.InfoElementWithValue
}

type setOp struct {
	kind  byte // P A L R O, S (AS) M G
	tag   int
	elemJ int
	val   []string
	ty    string
	id    uint16
	form  string // "1" "2" "X"
	extra int
	elems [][]string // per element: spec(4) + value tokens
	rep   int
	obs   [3]uint64
}

func elemTokLen(t []string) int {
	// <id> <dt> <ent> <len> then the value tokens
	return 4 + valueTokLen(t[4:])
}

func valueTokLen(t []string) int {
	// <kind> then: bytes-arg kinds take "nil" | "-" | "hex h" | "pat n s"
	switch t[0] {
	case "oct", "mac", "ip", "str":
		switch t[1] {
		case "nil", "-":
			return 2
		case "hex":
			return 3
		case "pat":
			return 4
		}
		panic("bad bytes arg " + strings.Join(t[:2], " "))
	}
	return 2
}

// parseSetOps parses ops until the token list ends or a ";" token; returns the rest after ";".
func parseSetOps(t []string) ([]setOp, []string) {
	var ops []setOp
	rep := 1
	for len(t) > 0 {
		switch t[0] {
		case ";":
			return ops, t[1:]
		case "P":
			ops = append(ops, setOp{kind: 'P', ty: t[1], id: uint16(atou(t[2]))})
			t = t[3:]
		case "N":
			rep = atoi(t[1])
			t = t[2:]
		case "A":
			o := setOp{kind: 'A', id: uint16(atou(t[2])), rep: rep}
			rep = 1
			if strings.HasPrefix(t[1], "X") {
				o.form = "X"
				o.extra = atoi(t[1][1:])
			} else {
				o.form = t[1]
			}
			n := atoi(t[3])
			t = t[4:]
			for i := 0; i < n; i++ {
				l := elemTokLen(t)
				o.elems = append(o.elems, t[:l])
				t = t[l:]
			}
			ops = append(ops, o)
		case "AS":
			o := setOp{kind: 'S', id: uint16(atou(t[2])), tag: atoi(t[3]), rep: 1}
			if strings.HasPrefix(t[1], "X") {
				o.form = "X"
				o.extra = atoi(t[1][1:])
			} else {
				o.form = t[1]
			}
			ops = append(ops, o)
			t = t[4:]
		case "M":
			l := valueTokLen(t[3:])
			ops = append(ops, setOp{kind: 'M', tag: atoi(t[1]), elemJ: atoi(t[2]), val: t[3 : 3+l]})
			t = t[3+l:]
		case "G":
			ops = append(ops, setOp{kind: 'G'})
			t = t[1:]
		case "L":
			ops = append(ops, setOp{kind: 'L'})
			t = t[1:]
		case "R":
			ops = append(ops, setOp{kind: 'R'})
			t = t[1:]
		case "O":
			ops = append(ops, setOp{kind: 'O', obs: [3]uint64{atou(t[1]), atou(t[2]), atou(t[3])}})
			t = t[4:]
		default:
			panic("bad set op " + t[0])
		}
	}
	return ops, nil
}

func contentType(s string) entities.ContentType {
	switch s {
	case "T":
		return entities.Template
	case "D":
		return entities.Data
	}
	return entities.Undefined
}

func showType(t entities.ContentType) string {
	switch t {
	case entities.Template:
		return "T"
	case entities.Data:
		return "D"
	case entities.Undefined:
		return "U"
	}
	return "?"
}

// errClassX refines errClass (elems.go) for the exporter-side messages.
func errClassX(err error) string {
	m := err.Error()
	switch {
	case strings.Contains(m, "cannot be encoded"), strings.Contains(m, "encode error"):
		return "encode"
	case strings.Contains(m, "does not match the set"), strings.Contains(m, "set ID"):
		return "setid"
	case strings.Contains(m, "set type is not"):
		return "settype"
	case strings.Contains(m, "error when sending message"), strings.Contains(m, "could not send the complete"):
		return "write"
	}
	return errClass(err)
}

func mkElems(specs [][]string) []entities.InfoElementWithValue {
	els := make([]entities.InfoElementWithValue, len(specs))
	for i, t := range specs {
		spec, rest := parseIESpec(t)
		els[i], _ = MkElem(spec.IE(fmt.Sprintf("e%d", i)), rest)
	}
	return els
}

// setElem calls the setter of the value's kind on an element object (a setter of another kind
// panics in the base implementation: recovered, nothing changes).
func setElem(e entities.InfoElementWithValue, t []string) {
	defer func() { recover() }()
	switch t[0] {
	case "oct":
		b, _ := parseObytes(t[1:])
		e.SetOctetArrayValue(b)
	case "mac":
		b, _ := parseObytes(t[1:])
		e.SetMacAddressValue(net.HardwareAddr(b))
	case "ip":
		b, _ := parseObytes(t[1:])
		e.SetIPAddressValue(net.IP(b))
	case "str":
		b, _ := ParseBytesArg(t[1:])
		e.SetStringValue(string(b))
	case "u8":
		e.SetUnsigned8Value(uint8(atou(t[1])))
	case "u16":
		e.SetUnsigned16Value(uint16(atou(t[1])))
	case "u32", "dts":
		e.SetUnsigned32Value(uint32(atou(t[1])))
	case "u64", "dtms":
		e.SetUnsigned64Value(atou(t[1]))
	case "i8":
		e.SetSigned8Value(int8(atoz(t[1])))
	case "i16":
		e.SetSigned16Value(int16(atoz(t[1])))
	case "i32":
		e.SetSigned32Value(int32(atoz(t[1])))
	case "i64":
		e.SetSigned64Value(atoz(t[1]))
	case "f32":
		e.SetFloat32Value(math.Float32frombits(uint32(atou(t[1]))))
	case "f64":
		e.SetFloat64Value(math.Float64frombits(atou(t[1])))
	case "bool":
		e.SetBooleanValue(t[1] == "T")
	default:
		panic("bad kind " + t[0])
	}
}

// applyOp runs one builder operation on s; forceForm (if non-empty) replaces the add form.
// Returns "ok" / "err:<class>" / "panic" once per repetition, space separated.
func applyOp(s entities.Set, o setOp, forceForm string) string { return applyOpCtx(nil, s, o, forceForm) }

// applyOpCtx: the same within a history whose element objects can be shared and changed.
func applyOpCtx(ctx *objCtx, s entities.Set, o setOp, forceForm string) string {
	var lastEls []entities.InfoElementWithValue
	if o.kind == 'A' && ctx != nil {
		defer func() { ctx.pool = append(ctx.pool, lastEls) }()
	}
	one := func() (res string) {
		defer func() {
			if r := recover(); r != nil {
				res = "panic"
			}
		}()
		var err error
		switch o.kind {
		case 'P':
			err = s.PrepareSet(contentType(o.ty), o.id)
		case 'M':
			if o.tag < len(ctx.pool) && o.elemJ < len(ctx.pool[o.tag]) {
				setElem(ctx.pool[o.tag][o.elemJ], o.val)
			}
		case 'G':
			for _, r := range s.GetRecords() {
				func() {
					defer func() { recover() }()
					r.GetBuffer()
				}()
			}
		case 'A', 'S':
			var els []entities.InfoElementWithValue
			if o.kind == 'S' {
				if o.tag >= len(ctx.pool) {
					return "ok"
				}
				els = ctx.pool[o.tag]
			} else {
				els = mkElems(o.elems)
				lastEls = els
			}
			form, extra := o.form, o.extra
			if forceForm != "" {
				form, extra = forceForm, 3
			}
			switch form {
			case "1":
				// the copying add paths take a scratch slice which the caller overwrites right
				// after the call, as a loop that reuses one slice per record does: the record
				// must have its own list of the element objects
				tmp := append([]entities.InfoElementWithValue(nil), els...)
				err = s.AddRecord(tmp, o.id)
				scribble(tmp)
			case "2":
				err = s.AddRecordV2(els, o.id) // documented to adopt the slice
			default:
				tmp := append([]entities.InfoElementWithValue(nil), els...)
				err = s.AddRecordWithExtraElements(tmp, extra, o.id)
				scribble(tmp)
			}
		case 'L':
			s.UpdateLenInHeader()
		case 'R':
			s.ResetSet()
		}
		if err != nil {
			return "err:" + errClassX(err)
		}
		return "ok"
	}
	if o.kind != 'A' || o.rep <= 1 {
		if o.kind == 'A' && o.rep == 0 {
			return "-"
		}
		return one()
	}
	// repeated add: report the first result and whether all were the same
	first := one()
	same := true
	for i := 1; i < o.rep; i++ {
		if one() != first {
			same = false
		}
	}
	if !same {
		return first + "!"
	}
	return first
}

// snapshotSet renders everything observable about a set (without the type when !withType).
func snapshotSet(s entities.Set, withType bool, obs [3]uint64) string {
	var sb strings.Builder
	ty := "_"
	if withType {
		ty = showType(s.GetSetType())
	}
	fmt.Fprintf(&sb, "S %s %d %s %d", ty, s.GetSetLength(), ShowBytes(s.GetHeaderBuffer()), len(s.GetRecords()))
	if int(s.GetNumberOfRecords()) != len(s.GetRecords()) {
		sb.WriteString(" NREC-MISMATCH")
	}
	for _, r := range s.GetRecords() {
		kind, minl := "D", "-"
		func() {
			defer func() { recover() }()
			m := r.GetMinDataRecordLen()
			kind, minl = "T", strconv.Itoa(int(m))
		}()
		blen, dig := "panic", "-"
		func() {
			defer func() { recover() }()
			b := r.GetBuffer()
			blen, dig = strconv.Itoa(len(b)), ShowBytes(b)
		}()
		fmt.Fprintf(&sb, " R %s %d %d %d %s %s %s", kind, r.GetTemplateID(), r.GetFieldCount(), r.GetRecordLength(), blen, dig, minl)
	}
	func() {
		defer func() {
			if r := recover(); r != nil {
				sb.WriteString(" M panic 0 -")
			}
		}()
		b, err := exporter.CreateIPFIXMsg(s, uint32(obs[0]), uint32(obs[1]), time.Unix(int64(obs[2]), 0))
		if err != nil {
			fmt.Fprintf(&sb, " M err:%s 0 -", errClassX(err))
		} else {
			fmt.Fprintf(&sb, " M ok %d %s", len(b), ShowBytes(b))
		}
	}()
	return sb.String()
}

// buildSet applies ops (no O ops expected) to a fresh set and returns it with the op results.
func buildSet(ops []setOp) (entities.Set, []string) {
	s := entities.NewSet(false)
	res := make([]string, 0, len(ops))
	for _, o := range ops {
		res = append(res, applyOp(s, o, ""))
	}
	return s, res
}

var scribbleIE = entities.NewInfoElement("scribble", 31999, entities.Unsigned8, 0, 1)

// scribble overwrites a caller-owned slice after it was handed to a copying add.
func scribble(els []entities.InfoElementWithValue) {
	for i := range els {
		els[i] = entities.NewUnsigned8InfoElement(scribbleIE, 0xEE)
	}
}
