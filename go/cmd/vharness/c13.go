// C13: thread safety of the aggregation process (pkg/intermediate/aggregate.go, worker.go).
//
// Real AggregationProcess, N goroutines calling AggregateMsgByFlowKey directly, the built-in
// worker pool (Start/Stop with a message channel), and concurrent ForAllExpiredFlowRecordsDo /
// GetRecords / GetNumFlows / GetExpiryFromExpirePriorityQueue / ForAllRecordsDo. Every operation
// is stamped at invocation and response with a global logical clock.
//
//	small: short programs on few flows (same-flow contention, stale end-seconds, 2^64 wrap);
//	       the harness searches a linearization against a Go mirror of ConcAgg.agg_step and
//	       emits history + witness; the extracted Coq checker lin_check is the judge.
//	big:   1..16 goroutines + pool + scanner + querier, flows partitioned so that the delta sums
//	       are order-independent; emitted: per flow exported + remaining source-side delta sum.
//
// The configuration makes every operation a deterministic function of the abstract state,
// independent of the clock: active timeout +1h, inactive timeout -1h (every flow is always
// expired: a scan exports and deletes everything that is there).
// Built with -race (vharness-race) the same runner is the race soak (bin/c13_race).
package main

import (
	"fmt"
	"net"
	"os"
	"runtime"
	"sort"
	"strconv"
	"strings"
	"sync"
	"sync/atomic"
	"time"

	"github.com/vmware/go-ipfix/pkg/entities"
	"github.com/vmware/go-ipfix/pkg/intermediate"
	"github.com/vmware/go-ipfix/pkg/registry"
)

func init() { register("C13", runC13) }

type c13op struct {
	kind  byte // I N G S X A
	k     uint64
	start uint32
	end   uint32
	delta uint64
}

func (o c13op) String() string {
	switch o.kind {
	case 'I':
		return fmt.Sprintf("I %d %d %d %d", o.k, o.start, o.end, o.delta)
	case 'G':
		return fmt.Sprintf("G %d", o.k)
	}
	return string(o.kind)
}

type c13kv struct {
	k uint64
	v [4]uint64 // cd sd dd end
}

type c13res struct {
	kind byte // u n r l f
	n    uint64
	rec  *[4]uint64
	list []c13kv
	flag bool
}

func (r c13res) String() string {
	switch r.kind {
	case 'u':
		return "u"
	case 'n':
		return fmt.Sprintf("n %d", r.n)
	case 'r':
		if r.rec == nil {
			return "r0"
		}
		return fmt.Sprintf("r1 %d %d %d %d", r.rec[0], r.rec[1], r.rec[2], r.rec[3])
	case 'l':
		return "l " + c13list(r.list)
	case 'f':
		return "f " + ShowBool(r.flag)
	}
	return "?"
}

func c13list(l []c13kv) string {
	var b strings.Builder
	b.WriteString(strconv.Itoa(len(l)))
	for _, x := range l {
		fmt.Fprintf(&b, " %d %d %d %d %d", x.k, x.v[0], x.v[1], x.v[2], x.v[3])
	}
	return b.String()
}

func (a c13res) eq(b c13res) bool { return a.String() == b.String() }

// ---- Go mirror of ConcAgg.agg_step (only used to FIND a witness; Coq checks it) ----
type c13flow struct{ end, esrc, edst, sd, dd, cd uint64 }
type c13state map[uint64]c13flow

func (s c13state) view() []c13kv {
	out := make([]c13kv, 0, len(s))
	for k, f := range s {
		out = append(out, c13kv{k, [4]uint64{f.cd, f.sd, f.dd, f.end}})
	}
	sort.Slice(out, func(i, j int) bool { return out[i].k < out[j].k })
	return out
}

func (s c13state) key() string { return c13list(s.view()) + fmt.Sprint(s.aux()) }
func (s c13state) aux() []uint64 {
	ks := make([]uint64, 0, len(s))
	for k := range s {
		ks = append(ks, k)
	}
	sort.Slice(ks, func(i, j int) bool { return ks[i] < ks[j] })
	out := []uint64{}
	for _, k := range ks {
		out = append(out, s[k].esrc, s[k].edst)
	}
	return out
}

func c13step(s c13state, o c13op) (c13state, c13res) {
	switch o.kind {
	case 'I':
		n := c13state{}
		for k, v := range s {
			n[k] = v
		}
		fin := uint64(o.end)
		f, ok := s[o.k]
		if !ok {
			n[o.k] = c13flow{fin, fin, fin, o.delta, o.delta, o.delta}
			return n, c13res{kind: 'u'}
		}
		latest := f.end <= fin
		fe := f.end
		if latest {
			fe = fin
		}
		prev := f.edst
		if prev == 0 {
			prev = uint64(o.start)
		}
		if fin <= prev {
			n[o.k] = c13flow{fe, fin, fin, f.sd, f.dd, f.cd}
			return n, c13res{kind: 'u'}
		}
		sd, dd := o.delta+f.sd, o.delta+f.dd
		cd := f.cd
		if latest {
			cd = dd
		}
		n[o.k] = c13flow{fe, fin, fin, sd, dd, cd}
		return n, c13res{kind: 'u'}
	case 'N':
		return s, c13res{kind: 'n', n: uint64(len(s))}
	case 'G':
		if f, ok := s[o.k]; ok {
			return s, c13res{kind: 'r', rec: &[4]uint64{f.cd, f.sd, f.dd, f.end}}
		}
		return s, c13res{kind: 'r'}
	case 'S':
		return c13state{}, c13res{kind: 'l', list: s.view()}
	case 'X':
		return s, c13res{kind: 'f', flag: len(s) > 0}
	case 'A':
		return s, c13res{kind: 'l', list: s.view()}
	}
	panic("bad op")
}

// ---- the real thing ----
func c13ie(name string, ent uint32) *entities.InfoElement {
	ie, err := registry.GetInfoElement(name, ent)
	if err != nil {
		panic(err)
	}
	return ie
}

var c13ies struct {
	once                                                        sync.Once
	sport, dport, proto, sip, dip, fstart, fend, odc, otc, rotc *entities.InfoElement
	ftype                                                       *entities.InfoElement
}

func c13init() {
	c13ies.once.Do(func() {
		registry.LoadRegistry()
		c13ies.sport = c13ie("sourceTransportPort", registry.IANAEnterpriseID)
		c13ies.dport = c13ie("destinationTransportPort", registry.IANAEnterpriseID)
		c13ies.proto = c13ie("protocolIdentifier", registry.IANAEnterpriseID)
		c13ies.sip = c13ie("sourceIPv4Address", registry.IANAEnterpriseID)
		c13ies.dip = c13ie("destinationIPv4Address", registry.IANAEnterpriseID)
		c13ies.fstart = c13ie("flowStartSeconds", registry.IANAEnterpriseID)
		c13ies.fend = c13ie("flowEndSeconds", registry.IANAEnterpriseID)
		c13ies.odc = c13ie("octetDeltaCount", registry.IANAEnterpriseID)
		c13ies.otc = c13ie("octetTotalCount", registry.IANAEnterpriseID)
		c13ies.rotc = c13ie("reverseOctetTotalCount", registry.IANAReversedEnterpriseID)
		c13ies.ftype = c13ie("flowType", registry.AntreaEnterpriseID)
	})
}

func c13flowKey(k uint64) intermediate.FlowKey {
	return intermediate.FlowKey{SourceAddress: "10.0.0.1", DestinationAddress: "10.0.0.2", Protocol: 6,
		SourcePort: uint16(k + 1), DestinationPort: 80}
}

func c13elems(o c13op) []entities.InfoElementWithValue {
	return []entities.InfoElementWithValue{
		entities.NewIPAddressInfoElement(c13ies.sip, net.ParseIP("10.0.0.1").To4()),
		entities.NewIPAddressInfoElement(c13ies.dip, net.ParseIP("10.0.0.2").To4()),
		entities.NewUnsigned16InfoElement(c13ies.sport, uint16(o.k+1)),
		entities.NewUnsigned16InfoElement(c13ies.dport, 80),
		entities.NewUnsigned8InfoElement(c13ies.proto, 6),
		entities.NewUnsigned8InfoElement(c13ies.ftype, registry.FlowTypeIntraNode),
		entities.NewDateTimeSecondsInfoElement(c13ies.fstart, o.start),
		entities.NewDateTimeSecondsInfoElement(c13ies.fend, o.end),
		entities.NewUnsigned64InfoElement(c13ies.odc, o.delta),
		entities.NewUnsigned64InfoElement(c13ies.otc, 1000),
		entities.NewUnsigned64InfoElement(c13ies.rotc, 1000),
	}
}

// one message carrying the given ingest operations as records (per-record granularity)
func c13msg(ops []c13op) *entities.Message {
	set := entities.NewSet(true)
	if err := set.PrepareSet(entities.Data, 256); err != nil {
		panic(err)
	}
	for _, o := range ops {
		if err := set.AddRecord(c13elems(o), 256); err != nil {
			panic(err)
		}
	}
	m := entities.NewMessage(true)
	m.AddSet(set)
	return m
}

func c13new(ch chan *entities.Message, workers int) *intermediate.AggregationProcess {
	c13init()
	ap, err := intermediate.InitAggregationProcess(intermediate.AggregationInput{
		MessageChan: ch, WorkerNum: workers,
		AggregateElements: &intermediate.AggregationElements{
			StatsElements:                      []string{"octetDeltaCount"},
			AggregatedSourceStatsElements:      []string{"octetDeltaCountFromSourceNode"},
			AggregatedDestinationStatsElements: []string{"octetDeltaCountFromDestinationNode"},
			AntreaFlowEndSecondsElements:       []string{"flowEndSecondsFromSourceNode", "flowEndSecondsFromDestinationNode"},
		},
		ActiveExpiryTimeout: time.Hour, InactiveExpiryTimeout: -time.Hour,
	})
	if err != nil {
		panic(err)
	}
	return ap
}

func c13u64(r entities.Record, name string) uint64 {
	e, _, ok := r.GetInfoElementWithValue(name)
	if !ok {
		return 0
	}
	if e.GetInfoElement().DataType == entities.Unsigned64 {
		return e.GetUnsigned64Value()
	}
	return uint64(e.GetUnsigned32Value())
}

func c13view(r entities.Record) [4]uint64 {
	return [4]uint64{c13u64(r, "octetDeltaCount"), c13u64(r, "octetDeltaCountFromSourceNode"),
		c13u64(r, "octetDeltaCountFromDestinationNode"), c13u64(r, "flowEndSeconds")}
}

func c13mapU64(m map[string]interface{}, name string) uint64 {
	switch v := m[name].(type) {
	case uint64:
		return v
	case uint32:
		return uint64(v)
	}
	return 0
}

func c13collect(dst *[]c13kv) intermediate.FlowKeyRecordMapCallBack {
	return func(key intermediate.FlowKey, rec *intermediate.AggregationFlowRecord) error {
		*dst = append(*dst, c13kv{uint64(key.SourcePort) - 1, c13view(rec.Record)})
		return nil
	}
}

func c13sorted(l []c13kv) []c13kv {
	sort.Slice(l, func(i, j int) bool { return l[i].k < l[j].k })
	return l
}

// c13do runs one operation on the real process
func c13do(ap *intermediate.AggregationProcess, o c13op) c13res {
	switch o.kind {
	case 'I':
		if err := ap.AggregateMsgByFlowKey(c13msg([]c13op{o})); err != nil {
			return c13res{kind: 'n', n: 999999} // an error is never expected: shows up as a result mismatch
		}
		return c13res{kind: 'u'}
	case 'N':
		return c13res{kind: 'n', n: uint64(ap.GetNumFlows())}
	case 'G':
		fk := c13flowKey(o.k)
		rs := ap.GetRecords(&fk)
		if len(rs) == 0 {
			return c13res{kind: 'r'}
		}
		m := rs[0]
		return c13res{kind: 'r', rec: &[4]uint64{c13mapU64(m, "octetDeltaCount"), c13mapU64(m, "octetDeltaCountFromSourceNode"),
			c13mapU64(m, "octetDeltaCountFromDestinationNode"), c13mapU64(m, "flowEndSeconds")}}
	case 'S':
		var l []c13kv
		if err := ap.ForAllExpiredFlowRecordsDo(c13collect(&l)); err != nil {
			return c13res{kind: 'n', n: 999998}
		}
		return c13res{kind: 'l', list: c13sorted(l)}
	case 'X':
		return c13res{kind: 'f', flag: ap.GetExpiryFromExpirePriorityQueue() > 0}
	case 'A':
		var l []c13kv
		if err := ap.ForAllRecordsDo(c13collect(&l)); err != nil {
			return c13res{kind: 'n', n: 999997}
		}
		return c13res{kind: 'l', list: c13sorted(l)}
	}
	panic("bad op")
}

type c13hop struct {
	thr, idx  int
	op        c13op
	inv, resp uint64
	res       c13res
}

// threads with id >= c13pool are single-operation pseudo-threads whose record goes through the
// worker pool (message channel); their response stamp is taken after Stop() has returned.
const c13pool = 100

func c13runSmall(env *Env, progs map[int][]c13op, rng *Rng) (hist []c13hop, final []c13kv) {
	var clk atomic.Uint64
	ch := make(chan *entities.Message)
	ap := c13new(ch, 2)
	started := make(chan struct{})
	go func() { close(started); ap.Start() }()
	<-started
	var mu sync.Mutex
	var wg sync.WaitGroup
	var gate atomic.Bool
	var poolOps []*c13hop
	tids := make([]int, 0, len(progs))
	for t := range progs {
		tids = append(tids, t)
	}
	sort.Ints(tids)
	for _, t := range tids {
		ops := progs[t]
		yields := make([]int, len(ops))
		for i := range yields {
			yields[i] = rng.Intn(4)
		}
		if t >= c13pool {
			h := &c13hop{thr: t, idx: 0, op: ops[0], res: c13res{kind: 'u'}}
			poolOps = append(poolOps, h)
			wg.Add(1)
			go func(h *c13hop, y int) {
				defer wg.Done()
				for !gate.Load() {
				}
				for j := 0; j < y; j++ {
					runtime.Gosched()
				}
				h.inv = clk.Add(1)
				ch <- c13msg([]c13op{h.op})
			}(h, yields[0])
			continue
		}
		wg.Add(1)
		go func(t int, ops []c13op, yields []int) {
			defer wg.Done()
			for !gate.Load() {
			}
			local := make([]c13hop, 0, len(ops))
			for i, o := range ops {
				for j := 0; j < yields[i]; j++ {
					runtime.Gosched()
				}
				inv := clk.Add(1)
				r := c13do(ap, o)
				resp := clk.Add(1)
				local = append(local, c13hop{t, i, o, inv, resp, r})
			}
			mu.Lock()
			hist = append(hist, local...)
			mu.Unlock()
		}(t, ops, yields)
	}
	time.Sleep(20 * time.Microsecond) // let every goroutine reach its spin loop
	gate.Store(true)
	wg.Wait()
	ap.Stop()
	late := clk.Add(1)
	for _, h := range poolOps {
		h.resp = late
		hist = append(hist, *h)
	}
	sort.Slice(hist, func(i, j int) bool { return hist[i].inv < hist[j].inv })
	var l []c13kv
	ap.ForAllRecordsDo(c13collect(&l))
	return hist, c13sorted(l)
}

// c13linearize: Wing-Gong search with memoisation on (set of linearized ops, model state)
func c13linearize(h []c13hop, final []c13kv) []int {
	n := len(h)
	if n > 62 {
		return nil
	}
	finalS := c13list(final)
	seen := map[string]bool{}
	order := make([]int, 0, n)
	var dfs func(mask uint64, s c13state) bool
	dfs = func(mask uint64, s c13state) bool {
		if len(order) == n {
			return c13list(s.view()) == finalS
		}
		key := strconv.FormatUint(mask, 16) + "/" + s.key()
		if seen[key] {
			return false
		}
		seen[key] = true
		// earliest response among the remaining operations: a candidate must be invoked before it
		minResp := ^uint64(0)
		for i := 0; i < n; i++ {
			if mask&(1<<uint(i)) == 0 && h[i].resp < minResp {
				minResp = h[i].resp
			}
		}
		for i := 0; i < n; i++ {
			if mask&(1<<uint(i)) != 0 || h[i].inv > minResp {
				continue
			}
			s2, r := c13step(s, h[i].op)
			if !r.eq(h[i].res) {
				continue
			}
			order = append(order, i)
			if dfs(mask|1<<uint(i), s2) {
				return true
			}
			order = order[:len(order)-1]
		}
		return false
	}
	if dfs(0, c13state{}) {
		return order
	}
	return nil
}

// c13guard runs f under a generous watchdog; a scenario normally takes milliseconds. On a hang
// the case is emitted with the observation HANG (an oracle failure with that case as replay)
// and the run ends: the blocked goroutines cannot be recovered.
func c13guard(env *Env, limit time.Duration, caseLine func() string, f func()) {
	done := make(chan struct{})
	go func() { defer close(done); f() }()
	select {
	case <-done:
	case <-time.After(limit):
		env.Emit(caseLine(), "HANG")
		env.Count("hang")
		env.out.Flush()
		buf := make([]byte, 1<<16)
		n := runtime.Stack(buf, true)
		os.Stderr.Write(buf[:n])
		os.Exit(0)
	}
}

func c13caseLine(progs map[int][]c13op) string {
	var c strings.Builder
	n := 0
	for _, p := range progs {
		n += len(p)
	}
	fmt.Fprintf(&c, "C13 small %d %d P", len(progs), n)
	tids := make([]int, 0, len(progs))
	for t := range progs {
		tids = append(tids, t)
	}
	sort.Ints(tids)
	for _, t := range tids {
		for i, o := range progs[t] {
			fmt.Fprintf(&c, " %d %d %s", t, i, o)
		}
	}
	return c.String()
}

func c13emitSmall(env *Env, progs map[int][]c13op, hist []c13hop, final []c13kv) bool {
	nthr := len(progs)
	var c, o strings.Builder
	fmt.Fprintf(&c, "C13 small %d %d P", nthr, len(hist))
	o.WriteString("H")
	for _, h := range hist {
		fmt.Fprintf(&c, " %d %d %s", h.thr, h.idx, h.op)
		fmt.Fprintf(&o, " %d %d %s", h.inv, h.resp, h.res)
	}
	w := c13linearize(hist, final)
	o.WriteString(" W")
	if w == nil {
		o.WriteString(" none")
	} else {
		for _, i := range w {
			fmt.Fprintf(&o, " %d", i)
		}
	}
	o.WriteString(" F " + c13list(final))
	env.Emit(c.String(), o.String())
	return w != nil
}

func c13genSmall(rng *Rng) map[int][]c13op {
	progs := map[int][]c13op{}
	nthr := 1 + rng.Intn(4)
	nkeys := uint64(1 + rng.Intn(3))
	genOp := func(onlyIngest bool) c13op {
		x := rng.Intn(10)
		if onlyIngest || x < 5 {
			start := uint32(1 + rng.Intn(5))
			d := uint64(rng.Intn(100))
			switch rng.Intn(8) {
			case 0:
				d = ^uint64(0) - uint64(rng.Intn(3))
			case 1:
				d = 1 << 63
			}
			return c13op{kind: 'I', k: uint64(rng.Intn(int(nkeys))), start: start, end: start + uint32(rng.Intn(6)), delta: d}
		}
		switch x {
		case 5:
			return c13op{kind: 'N'}
		case 6, 7:
			return c13op{kind: 'G', k: uint64(rng.Intn(int(nkeys)))}
		case 8:
			return c13op{kind: 'S'}
		}
		if rng.Bool() {
			return c13op{kind: 'X'}
		}
		return c13op{kind: 'A'}
	}
	for t := 0; t < nthr; t++ {
		n := 1 + rng.Intn(4)
		for i := 0; i < n; i++ {
			progs[t] = append(progs[t], genOp(false))
		}
	}
	npool := rng.Intn(4)
	for i := 0; i < npool; i++ {
		progs[c13pool+i] = []c13op{genOp(true)}
	}
	return progs
}

func c13parseCase(line string) map[int][]c13op {
	t := strings.Fields(line)
	// C13 small <nthr> <nops> P {thr idx op}*
	if len(t) < 5 || t[0] != "C13" || t[1] != "small" {
		return nil
	}
	progs := map[int][]c13op{}
	i := 5
	type ent struct {
		idx int
		op  c13op
	}
	tmp := map[int][]ent{}
	for i < len(t) && t[i] != "|" {
		thr, idx := atoi(t[i]), atoi(t[i+1])
		i += 2
		var o c13op
		o.kind = t[i][0]
		i++
		switch o.kind {
		case 'I':
			o.k, o.start, o.end, o.delta = atou(t[i]), uint32(atou(t[i+1])), uint32(atou(t[i+2])), atou(t[i+3])
			i += 4
		case 'G':
			o.k = atou(t[i])
			i++
		}
		tmp[thr] = append(tmp[thr], ent{idx, o})
	}
	for thr, es := range tmp {
		sort.Slice(es, func(a, b int) bool { return es[a].idx < es[b].idx })
		for _, e := range es {
			progs[thr] = append(progs[thr], e.op)
		}
	}
	return progs
}

func c13big(env *Env, nthr, per int, rng *Rng) {
	type ksum struct{ count, sum uint64 }
	want := map[uint64]*ksum{}
	ch := make(chan *entities.Message)
	ap := c13new(ch, 1+rng.Intn(4))
	started := make(chan struct{})
	go func() { close(started); ap.Start() }()
	<-started
	// per-thread message lists: thread t owns flows t*64 .. t*64+3; end-seconds strictly increase per flow
	build := func(t int, viaPool bool) []*entities.Message {
		var msgs []*entities.Message
		endOf := map[uint64]uint32{}
		for i := 0; i < per; {
			n := 1 + rng.Intn(3)
			var ops []c13op
			k := uint64(t*64 + rng.Intn(4))
			if viaPool {
				k = uint64(t*64 + 4 + i) // a flow goes through the pool in ONE message (workers may reorder messages)
				if k >= uint64(t*64+64) {
					break
				}
			}
			for j := 0; j < n && i < per; j, i = j+1, i+1 {
				if !viaPool && rng.Intn(3) == 0 {
					k = uint64(t*64 + rng.Intn(4))
				}
				e := endOf[k]
				if e == 0 {
					e = 10
				}
				e += 1 + uint32(rng.Intn(3))
				endOf[k] = e
				d := rng.U64() >> uint(rng.Intn(64))
				ops = append(ops, c13op{kind: 'I', k: k, start: 1, end: e, delta: d})
				if want[k] == nil {
					want[k] = &ksum{}
				}
				want[k].count++
				want[k].sum += d
			}
			msgs = append(msgs, c13msg(ops))
		}
		return msgs
	}
	direct := make([][]*entities.Message, nthr)
	for t := 0; t < nthr; t++ {
		direct[t] = build(t, false)
	}
	pooled := build(nthr, true)
	exported := map[uint64]uint64{}
	var wg, bg sync.WaitGroup
	stop := make(chan struct{})
	gate := make(chan struct{})
	var bad atomic.Int64
	for t := 0; t < nthr; t++ {
		wg.Add(1)
		go func(ms []*entities.Message) {
			defer wg.Done()
			<-gate
			for _, m := range ms {
				if err := ap.AggregateMsgByFlowKey(m); err != nil {
					bad.Add(1)
				}
			}
		}(direct[t])
	}
	wg.Add(1)
	go func() {
		defer wg.Done()
		<-gate
		for _, m := range pooled {
			ch <- m
		}
	}()
	bg.Add(2)
	go func() { // scanner: exports are summed per flow
		defer bg.Done()
		<-gate
		for {
			select {
			case <-stop:
				return
			default:
			}
			ap.ForAllExpiredFlowRecordsDo(func(key intermediate.FlowKey, rec *intermediate.AggregationFlowRecord) error {
				exported[uint64(key.SourcePort)-1] += c13u64(rec.Record, "octetDeltaCountFromSourceNode")
				return nil
			})
			runtime.Gosched()
		}
	}()
	total := int64(len(want))
	go func() { // querier
		defer bg.Done()
		<-gate
		for i := 0; ; i++ {
			select {
			case <-stop:
				return
			default:
			}
			if n := ap.GetNumFlows(); n < 0 || n > total {
				bad.Add(1)
			}
			fk := c13flowKey(uint64(i % 8))
			ap.GetRecords(&fk)
			ap.GetExpiryFromExpirePriorityQueue()
			if i%16 == 0 {
				ap.GetRecords(nil)
			}
			runtime.Gosched()
		}
	}()
	close(gate)
	wg.Wait()
	ap.Stop()
	close(stop)
	bg.Wait()
	var l []c13kv
	ap.ForAllRecordsDo(c13collect(&l))
	for _, x := range l {
		exported[x.k] += x.v[1]
	}
	keys := make([]uint64, 0, len(want))
	for k := range want {
		keys = append(keys, k)
	}
	sort.Slice(keys, func(i, j int) bool { return keys[i] < keys[j] })
	var c, o strings.Builder
	fmt.Fprintf(&c, "C13 big %d %d K %d", nthr, per, len(keys))
	fmt.Fprintf(&o, "T %d", len(keys))
	for _, k := range keys {
		fmt.Fprintf(&c, " %d %d %d", k, want[k].count, want[k].sum)
		fmt.Fprintf(&o, " %d %d", k, exported[k])
	}
	if bad.Load() != 0 {
		fmt.Fprintf(&o, " errors=%d", bad.Load())
	}
	env.Emit(c.String(), o.String())
	env.Count(fmt.Sprintf("big threads=%d", nthr))
}

func runC13(env *Env) {
	c13init()
	if len(env.Replay) > 0 {
		for _, line := range env.Replay {
			progs := c13parseCase(line)
			if progs == nil {
				continue
			}
			for rep := 0; rep < 40; rep++ {
				c13guard(env, 20*time.Second, func() string { return c13caseLine(progs) }, func() {
					h, f := c13runSmall(env, progs, env.Rng)
					c13emitSmall(env, progs, h, f)
				})
			}
		}
		return
	}
	nsmall, per := 2500, 150
	if env.Thorough() {
		nsmall, per = 20000, 1000
	}
	for i := 0; i < nsmall; i++ {
		progs := c13genSmall(env.Rng)
		var h []c13hop
		var ok bool
		c13guard(env, 20*time.Second, func() string { return c13caseLine(progs) }, func() {
			var f []c13kv
			h, f = c13runSmall(env, progs, env.Rng)
			ok = c13emitSmall(env, progs, h, f)
		})
		env.Count(fmt.Sprintf("small threads=%d", len(progs)))
		overlap := false
		for a := range h {
			for b := range h {
				if a != b && h[a].thr < c13pool && h[b].thr < c13pool && h[a].inv < h[b].inv && h[b].inv < h[a].resp {
					overlap = true
				}
			}
		}
		if overlap {
			env.Count("small with overlapping direct operations")
		}
		if !ok {
			env.Count("small not linearizable")
		}
	}
	for _, n := range []int{1, 2, 3, 4, 8, 12, 16} {
		n := n
		c13guard(env, 600*time.Second, func() string { return fmt.Sprintf("C13 big %d %d K 0", n, per) }, func() { c13big(env, n, per, env.Rng) })
	}
}
