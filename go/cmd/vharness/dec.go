package main

// Shared by C03 / C04 / C17: packet histories through real collecting processes, run in a child
// process (memory cap, watchdog, recover), rendering of decodePacket outcomes and of the
// template table, packet builders.

import (
	"bufio"
	"encoding/binary"
	"encoding/hex"
	"fmt"
	"io"
	"os"
	"os/exec"
	"runtime"
	"sort"
	"strings"
	"sync"
	"time"

	"github.com/vmware/go-ipfix/pkg/collector"
	"github.com/vmware/go-ipfix/pkg/entities"
	"github.com/vmware/go-ipfix/pkg/registry"
)

func init() { register("decworker", runDecWorker) }

const (
	decWatchdog   = 2 * time.Second
	decHeapCap    = 768 << 20 // in-process allocation check
	decUlimitVKiB = 6 << 20   // ulimit -v backstop for the child (KiB)
)

func modeOf(s string) collector.DecodingMode {
	switch s {
	case "S":
		return collector.DecodingModeStrict
	case "K":
		return collector.DecodingModeLenientKeepUnknown
	case "D":
		return collector.DecodingModeLenientDropUnknown
	}
	panic("bad mode " + s)
}

// modeFor: the decoding mode to configure for a case. Strict is the documented default, so for
// half of the strict cases (chosen by the size of the case, i.e. deterministically) the field is
// left unset: an unconfigured collecting process must behave exactly like a strict one.
func modeFor(s string, salt int) collector.DecodingMode {
	if s == "S" && salt%2 == 0 {
		return ""
	}
	return modeOf(s)
}

// parsePackets: byte-string atoms up to ";" form one packet.
func parsePackets(t []string) [][]byte {
	var out [][]byte
	cur := []byte{}
	for len(t) > 0 {
		if t[0] == ";" {
			out = append(out, cur)
			cur = []byte{}
			t = t[1:]
			continue
		}
		var b []byte
		b, t = ParseBytesArg(t)
		cur = append(cur, b...)
	}
	return out
}

// pktArg renders a packet for a case line; long runs are never needed here (packets are short
// or given as explicit atoms by the generator).
func pktArg(b []byte) string {
	if len(b) == 0 {
		return "- ;"
	}
	// several short hex atoms: the Coq-side tokenizer is quadratic in the length of one token
	var sb strings.Builder
	for i := 0; i < len(b); i += 256 {
		j := i + 256
		if j > len(b) {
			j = len(b)
		}
		sb.WriteString("hex " + hex.EncodeToString(b[i:j]) + " ")
	}
	sb.WriteString(";")
	return sb.String()
}

func showField(ie *entities.InfoElement) string {
	name := ie.Name
	if name == "" {
		name = "_"
	}
	return fmt.Sprintf("%d:%d:%d:%d:%s", ie.ElementId, ie.EnterpriseId, ie.DataType, ie.Len, name)
}

func showFieldList(ies []*entities.InfoElement) string {
	var sb strings.Builder
	fmt.Fprintf(&sb, "n=%d", len(ies))
	for _, ie := range ies {
		sb.WriteString(" ")
		sb.WriteString(showField(ie))
	}
	return sb.String()
}

// showDecoded renders the result of decodePacket as coq/Driver/DecShow.v show_outcome.
func showDecoded(msg *entities.Message, err error) string {
	if err != nil {
		return "err " + errClass(err)
	}
	hdr := fmt.Sprintf("%d %d %d %d", msg.GetMessageLen(), msg.GetExportTime(), msg.GetSequenceNum(), msg.GetObsDomainID())
	set := msg.GetSet()
	if set.GetSetType() == entities.Template {
		recs := set.GetRecords()
		if len(recs) != 1 {
			return fmt.Sprintf("tpl %s records=%d", hdr, len(recs))
		}
		ies := []*entities.InfoElement{}
		for _, e := range recs[0].GetOrderedElementList() {
			ies = append(ies, e.GetInfoElement())
		}
		return fmt.Sprintf("tpl %s %d %s", hdr, recs[0].GetTemplateID(), showFieldList(ies))
	}
	return "data " + hdr + " " + ShowRecords(set.GetRecords()) + showIdents(set.GetRecords())
}

// showIdents: which elements the delivered values belong to (first record), as DecShow.v show_idents.
func showIdents(recs []entities.Record) string {
	if len(recs) == 0 {
		return ""
	}
	var sb strings.Builder
	sb.WriteString(" E")
	for _, e := range recs[0].GetOrderedElementList() {
		sb.WriteString(" " + showField(e.GetInfoElement()))
	}
	return sb.String()
}

func showSnapshot(cp *collector.CollectingProcess) string {
	ts, nd := cp.VerifTemplates()
	var sb strings.Builder
	fmt.Fprintf(&sb, "doms=%d", nd)
	for _, t := range ts {
		fmt.Fprintf(&sb, " [%d %d %s]", t.ObsDomainID, t.TemplateID, showFieldList(t.IEs))
	}
	return sb.String()
}

// decodeOne: one packet through the collector; a panic is an observation, not a crash.
func decodeOne(cp *collector.CollectingProcess, pkt []byte) (s string) {
	defer func() {
		if r := recover(); r != nil {
			s = "panic"
		}
	}()
	// decodePacket consumes its buffer: give it a private copy
	msg, err := cp.VerifDecodePacket(append([]byte{}, pkt...), "127.0.0.1:4739")
	return showDecoded(msg, err)
}

// ---- worker (child process) ----

// decCase runs one case of property prop; emit is called once per finished part so that a hang
// leaves the parts already observed.
func decCase(prop string, toks []string, emit func(string)) {
	switch prop {
	case "C03":
		cp := newCollector(modeFor(toks[0], len(toks)), "tcp")
		for _, p := range parsePackets(toks[1:]) {
			emit(decodeOne(cp, p))
		}
	case "C04":
		cp := newCollector(modeFor(toks[0], len(toks)), "tcp")
		for _, p := range parsePackets(toks[1:]) {
			emit(decodeOne(cp, p) + " @ " + showSnapshot(cp))
		}
	case "C17":
		pkts := parsePackets(toks)
		for _, m := range []string{"S", "K", "D"} {
			cp := newCollector(modeFor(m, len(toks)), "tcp")
			for _, p := range pkts {
				emit(decodeOne(cp, p))
			}
		}
	default:
		panic("decworker: unknown property " + prop)
	}
}

func runDecWorker(env *Env) {
	registry.LoadRegistry()
	in := bufio.NewReaderSize(os.Stdin, 1<<20)
	out := bufio.NewWriter(os.Stdout)
	for {
		line, err := in.ReadString('\n')
		if err != nil {
			return
		}
		t := strings.Fields(line)
		if len(t) == 0 {
			continue
		}
		var mu sync.Mutex
		parts := []string{}
		done := make(chan struct{})
		go func() {
			defer close(done)
			defer func() {
				if r := recover(); r != nil { // harness-side failure (bad case syntax): visible, not fatal
					mu.Lock()
					parts = append(parts, "harness-panic")
					mu.Unlock()
				}
			}()
			decCase(t[0], t[1:], func(s string) { mu.Lock(); parts = append(parts, s); mu.Unlock() })
		}()
		verdict := ""
		wd := decWatchdog
		if ms := os.Getenv("VERIF_DEC_WATCHDOG_MS"); ms != "" {
			wd = time.Duration(atoi(ms)) * time.Millisecond
		}
		deadline := time.After(wd)
		tick := time.NewTicker(20 * time.Millisecond)
	wait:
		for {
			select {
			case <-done:
				break wait
			case <-deadline:
				verdict = "hang"
				break wait
			case <-tick.C:
				var ms runtime.MemStats
				runtime.ReadMemStats(&ms)
				if ms.HeapAlloc > decHeapCap {
					verdict = "oom"
					break wait
				}
			}
		}
		tick.Stop()
		mu.Lock()
		ps := append([]string{}, parts...)
		mu.Unlock()
		if verdict != "" {
			ps = append(ps, verdict)
		}
		fmt.Fprintln(out, strings.Join(ps, " / "))
		out.Flush()
		if verdict != "" {
			os.Exit(3) // the stuck goroutine cannot be stopped: the parent starts a fresh worker
		}
	}
}

// ---- parent side ----

type decWorker struct {
	cmd *exec.Cmd
	in  io.WriteCloser
	out *bufio.Reader
}

// startDecWorker starts a worker child; patient: a five times longer watchdog (used once to
// confirm a hang / crash verdict, so that a stalled machine is not mistaken for a hang).
func startDecWorker(patient bool) *decWorker {
	self, err := os.Executable()
	if err != nil {
		panic(err)
	}
	script := fmt.Sprintf("ulimit -v %d 2>/dev/null; exec \"$0\" decworker", decUlimitVKiB)
	cmd := exec.Command("/bin/bash", "-c", script, self)
	cmd.Stderr = nil
	if patient {
		cmd.Env = append(os.Environ(), fmt.Sprintf("VERIF_DEC_WATCHDOG_MS=%d", 5*decWatchdog.Milliseconds()))
	}
	in, _ := cmd.StdinPipe()
	outp, _ := cmd.StdoutPipe()
	if err := cmd.Start(); err != nil {
		panic(err)
	}
	return &decWorker{cmd, in, bufio.NewReaderSize(outp, 1<<20)}
}

func (w *decWorker) stop() {
	w.in.Close()
	w.cmd.Process.Kill()
	w.cmd.Wait()
}

// DecPool runs cases on worker children, restarting a worker that died or got stuck.
type DecPool struct {
	w   *decWorker
	bad int // hang / oom / crash verdicts so far
}

// decMaxBad: after this many hang / oom / crash verdicts the generators stop producing cases
// (each costs the watchdog's 2 s and a fresh child; a handful of replays is what is needed).
const decMaxBad = 6

// Tripped reports that the run has seen enough non-terminating / crashing cases.
func (p *DecPool) Tripped() bool { return p.bad >= decMaxBad }

func (p *DecPool) Close() {
	if p.w != nil {
		p.w.stop()
		p.w = nil
	}
}

// Run returns the implementation's observation for "<PROP> <case tokens>". A hang / oom / crash
// verdict is confirmed once in a fresh, patient worker before it is reported.
func (p *DecPool) Run(line string) string {
	s, bad := p.runOnce(line, false)
	if bad {
		s2, bad2 := p.runOnce(line, true)
		if !bad2 {
			return s2
		}
		p.bad++
	}
	return s
}

func (p *DecPool) runOnce(line string, patient bool) (string, bool) {
	if patient {
		p.Close()
	}
	if p.w == nil {
		p.w = startDecWorker(patient)
	}
	if patient {
		defer p.Close()
	}
	limit := decWatchdog + 8*time.Second
	if patient {
		limit = 5*decWatchdog + 8*time.Second
	}
	type res struct {
		s   string
		err error
	}
	ch := make(chan res, 1)
	w := p.w
	go func() {
		if _, err := io.WriteString(w.in, line+"\n"); err != nil {
			ch <- res{"", err}
			return
		}
		s, err := w.out.ReadString('\n')
		ch <- res{s, err}
	}()
	select {
	case r := <-ch:
		s := strings.TrimSpace(r.s)
		if r.err != nil {
			// the child died without an answer (memory cap of ulimit -v, fatal runtime error)
			p.Close()
			return "crash", true
		}
		last := s
		if i := strings.LastIndex(s, " / "); i >= 0 {
			last = s[i+3:]
		}
		if last == "hang" || last == "oom" {
			p.Close()
			return s, true
		}
		return s, false
	case <-time.After(limit):
		p.Close()
		return "hang", true
	}
}

// ---- packet builders (harness-side, independent of the exporter) ----

func msgBytes(version uint16, obs uint32, seq uint32, setID uint16, body []byte) []byte {
	n := 20 + len(body)
	b := make([]byte, n)
	binary.BigEndian.PutUint16(b[0:], version)
	binary.BigEndian.PutUint16(b[2:], uint16(n))
	binary.BigEndian.PutUint32(b[4:], 1000)
	binary.BigEndian.PutUint32(b[8:], seq)
	binary.BigEndian.PutUint32(b[12:], obs)
	binary.BigEndian.PutUint16(b[16:], setID)
	binary.BigEndian.PutUint16(b[18:], uint16(4+len(body)))
	copy(b[20:], body)
	return b
}

// fieldSpec is a template field specifier as it goes on the wire.
type fieldSpec struct {
	ID  uint16
	Ent uint32
	Len uint16
	// what the collector will make of it (for building matching data): data type and the
	// length in force (the registry's for known elements)
	DT      entities.IEDataType
	Known   bool
	ForceEB bool // set the enterprise bit although Ent == 0
}

func (f fieldSpec) wire() []byte {
	b := make([]byte, 4)
	binary.BigEndian.PutUint16(b[0:], f.ID)
	binary.BigEndian.PutUint16(b[2:], f.Len)
	if f.Ent != 0 || f.ForceEB {
		b[0] |= 0x80
		e := make([]byte, 4)
		binary.BigEndian.PutUint32(e, f.Ent)
		b = append(b, e...)
	}
	return b
}

// effLen: the length the collector will use when decoding data for this field.
func (f fieldSpec) effLen() uint16 {
	if f.Known {
		return entities.InfoElementLength[f.DT]
	}
	return f.Len
}

func templateBody(tid uint16, count int, fields []fieldSpec) []byte {
	b := make([]byte, 4)
	binary.BigEndian.PutUint16(b[0:], tid)
	binary.BigEndian.PutUint16(b[2:], uint16(count))
	for _, f := range fields {
		b = append(b, f.wire()...)
	}
	return b
}

func templatePkt(obs uint32, tid uint16, fields []fieldSpec) []byte {
	return msgBytes(10, obs, 0, 2, templateBody(tid, len(fields), fields))
}

// knownPool: all registry elements whose data type the library can decode.
var knownPoolCache []fieldSpec

func knownPool() []fieldSpec {
	if knownPoolCache != nil {
		return knownPoolCache
	}
	for _, ent := range []uint32{registry.IANAEnterpriseID, registry.IANAReversedEnterpriseID, registry.AntreaEnterpriseID} {
		for id := 0; id < 32768; id++ {
			ie, err := registry.GetInfoElementFromID(uint16(id), ent)
			if err != nil {
				continue
			}
			if _, err := entities.DecodeAndCreateInfoElementWithValue(ie, nil); err != nil {
				continue
			}
			knownPoolCache = append(knownPoolCache, fieldSpec{ID: ie.ElementId, Ent: ie.EnterpriseId, Len: ie.Len, DT: ie.DataType, Known: true})
		}
	}
	sort.SliceStable(knownPoolCache, func(i, j int) bool {
		a, b := knownPoolCache[i], knownPoolCache[j]
		if a.Ent != b.Ent {
			return a.Ent < b.Ent
		}
		return a.ID < b.ID
	})
	return knownPoolCache
}

func isKnown(id uint16, ent uint32) bool {
	_, err := registry.GetInfoElementFromID(id, ent)
	return err == nil
}

// unknownSpec: an element id that is not in the registry (IANA or enterprise), wire length l.
func unknownSpec(r *Rng, l uint16) fieldSpec {
	for {
		ent := []uint32{0, 0, 29305, 56506, 12345, 4294967295}[r.Intn(6)]
		id := uint16(1 + r.Intn(32767))
		if !isKnown(id, ent) {
			return fieldSpec{ID: id, Ent: ent, Len: l, DT: entities.OctetArray}
		}
	}
}

// fieldBytes: a grammar-valid encoding of one field of a data record.
func fieldBytes(r *Rng, f fieldSpec) []byte {
	l := f.effLen()
	if l != entities.VariableLength {
		return r.Bytes(int(l))
	}
	n := []int{0, 1, 2, 5, 17, 254, 255, 256, 300}[r.Intn(9)]
	if r.Intn(4) != 0 {
		n = r.Intn(12)
	}
	v := r.Bytes(n)
	if n < 255 && r.Intn(8) != 0 {
		return append([]byte{byte(n)}, v...)
	}
	return append([]byte{255, byte(n >> 8), byte(n)}, v...)
}

func recordBytes(r *Rng, fs []fieldSpec) []byte {
	b := []byte{}
	for _, f := range fs {
		b = append(b, fieldBytes(r, f)...)
	}
	return b
}

func minRecLen(fs []fieldSpec) int {
	n := 0
	for _, f := range fs {
		if f.effLen() == entities.VariableLength {
			n++
		} else {
			n += int(f.effLen())
		}
	}
	return n
}
