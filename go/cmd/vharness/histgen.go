package main

// Generators of exporter histories for C02 / C08 / C09.

import (
	"fmt"
	"strings"

	"github.com/vmware/go-ipfix/pkg/entities"
)

type tplG struct {
	id    int
	specs []IESpec
}

func randForm(r *Rng) string { return []string{"1", "2", "X0", "X3"}[r.Intn(4)] }

func genTpl(r *Rng, id, n int) tplG {
	t := tplG{id: id}
	for i := 0; i < n; i++ {
		t.specs = append(t.specs, randSpec(r))
	}
	return t
}

// tplRecord renders one template record add.
func (t tplG) tplAdd(r *Rng) string {
	var sb strings.Builder
	fmt.Fprintf(&sb, "A %s %d %d", randForm(r), t.id, len(t.specs))
	for _, s := range t.specs {
		sb.WriteString(" " + s.String() + " " + zeroValue(entities.IEDataType(s.DT)))
	}
	return sb.String()
}
func (t tplG) tplSet(r *Rng) string { return fmt.Sprintf("S P T %d %s ;", t.id, t.tplAdd(r)) }

// dataAdd renders one data record add for the template; mutate(i, spec) may replace a value.
func (t tplG) dataAdd(r *Rng, recID int, mutate func(i int, s IESpec) string) string {
	var sb strings.Builder
	fmt.Fprintf(&sb, "A %s %d %d", randForm(r), recID, len(t.specs))
	for i, s := range t.specs {
		v := ""
		if mutate != nil {
			v = mutate(i, s)
		}
		if v == "" {
			v = wfValue(r, s)
		}
		sb.WriteString(" " + s.String() + " " + v)
	}
	return sb.String()
}
func (t tplG) dataSet(r *Rng, nrec int) string {
	parts := []string{fmt.Sprintf("S P D %d", t.id)}
	for i := 0; i < nrec; i++ {
		parts = append(parts, t.dataAdd(r, t.id, nil))
	}
	return strings.Join(parts, " ") + " ;"
}

// illValue renders a value of the element's Go kind that cannot be encoded faithfully.
func illValue(r *Rng, s IESpec) string {
	switch entities.IEDataType(s.DT) {
	case entities.MacAddress:
		if r.Intn(4) == 0 {
			return "mac nil"
		}
		return "mac " + patArg(r, []int{0, 1, 5, 7, 9}[r.Intn(5)])
	case entities.Ipv4Address:
		switch r.Intn(3) {
		case 0:
			return "ip nil"
		case 1:
			return "ip " + BytesArg(r.Bytes(16))
		}
		return "ip " + BytesArg(r.Bytes(5))
	case entities.Ipv6Address:
		if r.Bool() {
			return "ip nil"
		}
		return "ip " + BytesArg(r.Bytes(15))
	case entities.OctetArray:
		if s.Len < 65535 {
			return "oct " + patArg(r, int(s.Len)+1)
		}
	}
	return ""
}

func illable(s IESpec) bool {
	switch entities.IEDataType(s.DT) {
	case entities.MacAddress, entities.Ipv4Address, entities.Ipv6Address:
		return true
	case entities.OctetArray:
		return s.Len < 65535
	}
	return false
}

func histHead(r *Rng, mode string, seq0 uint64) string {
	proto := "tcp"
	if r.Intn(3) == 0 {
		proto = "udp"
	}
	return fmt.Sprintf("%s %d %d %s", proto, r.U64()&0xffffffff, seq0, mode)
}

// oneFieldTpl: a template with a single element of the given type (for exact sizes / counts).
func oneFieldTpl(id int, dt entities.IEDataType, elemID int) tplG {
	return tplG{id: id, specs: []IESpec{{uint16(elemID), uint8(dt), 0, entities.InfoElementLength[dt]}}}
}

// sizedData: a data set for a one-string template whose message is exactly msgLen bytes
// (msgLen >= 16+4+3+255).
func sizedData(r *Rng, t tplG, msgLen int) string {
	c := msgLen - 23
	return fmt.Sprintf("S P D %d A %s %d 1 %s str pat %d %d ;", t.id, randForm(r), t.id, t.specs[0].String(), c, r.Intn(1000))
}

// manyRecords: a data set with cnt identical one-byte records.
func manyRecords(t tplG, cnt int, val int) string {
	if cnt == 0 {
		return fmt.Sprintf("S P D %d ;", t.id)
	}
	return fmt.Sprintf("S P D %d N %d A 2 %d 1 %s u8 %d ;", t.id, cnt, t.id, t.specs[0].String(), val)
}
