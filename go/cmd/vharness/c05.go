package main

// C05: flow aggregation arithmetic. A case is a whole history:
//
//	C05 <cfg> <ntpl> { T <nf> { <name> <kind> }* }* { ; R <tpl> <val>* | ; X <src> <dst> <proto> <sport> <dport> }*
//
// run against a real AggregationProcess (AggregateMsgByFlowKey with a one-record data set;
// ForAllRecordsDo + ResetStatAndThroughputElementsInRecord for X). After every operation the
// observation lists the status, the number of flows and, in full, every flow whose record or
// flags changed (flows are numbered in order of creation):
//
//	; <ok|err|panic> n=<flows> { F <idx> <src> <dst> <proto> <sport> <dport> <ready> <filled> <v4> <nf> { <name> <kind> <val> }* }*

import (
	"encoding/hex"
	"fmt"
	"net"
	"os"
	"sort"
	"strconv"
	"strings"

	"github.com/vmware/go-ipfix/pkg/entities"
	"github.com/vmware/go-ipfix/pkg/intermediate"
	"github.com/vmware/go-ipfix/pkg/registry"
)

func init() { register("C05", runC05) }

// ------------------------------------------------------------------ configurations
// (mirrored by c05_config in coq/Driver/C05drv.v)
type c05Config struct {
	correlate, nonStats, stats, srcStats, dstStats, flowEnd, tp, srcTp, dstTp []string
}

func c05Suffix(l []string, suf string) []string {
	out := make([]string, len(l))
	for i, x := range l {
		out[i] = x + suf
	}
	return out
}

var c05Correlate = []string{
	"sourcePodName", "sourcePodNamespace", "sourceNodeName", "destinationPodName",
	"destinationPodNamespace", "destinationNodeName", "destinationClusterIPv4",
	"destinationClusterIPv6", "destinationServicePort", "ingressNetworkPolicyRuleAction",
	"egressNetworkPolicyRuleAction", "ingressNetworkPolicyRulePriority",
}

func c05GetConfig(name string) *c05Config {
	var stats []string
	nonStats := []string{"flowEndSeconds", "flowEndReason", "tcpState"}
	switch name {
	case "std", "stdhttp": // the lists of pkg/intermediate/aggregate_test.go (httpVals only in stdhttp)
		stats = []string{"packetTotalCount", "packetDeltaCount", "octetTotalCount",
			"reversePacketTotalCount", "reversePacketDeltaCount", "reverseOctetTotalCount"}
		if name == "stdhttp" {
			nonStats = append(nonStats, "httpVals")
		}
	case "ant": // the lists of the Antrea flow aggregator (eight counters)
		stats = []string{"packetTotalCount", "packetDeltaCount", "octetTotalCount", "octetDeltaCount",
			"reversePacketTotalCount", "reversePacketDeltaCount", "reverseOctetTotalCount", "reverseOctetDeltaCount"}
	default:
		return nil
	}
	tp := []string{"throughput", "reverseThroughput"}
	return &c05Config{
		correlate: c05Correlate, nonStats: nonStats, stats: stats,
		srcStats: c05Suffix(stats, "FromSourceNode"), dstStats: c05Suffix(stats, "FromDestinationNode"),
		flowEnd: []string{"flowEndSecondsFromSourceNode", "flowEndSecondsFromDestinationNode"},
		tp:      tp, srcTp: c05Suffix(tp, "FromSourceNode"), dstTp: c05Suffix(tp, "FromDestinationNode"),
	}
}

func c05NewProcess(cfg *c05Config) *intermediate.AggregationProcess {
	ch := make(chan *entities.Message)
	ap, err := intermediate.InitAggregationProcess(intermediate.AggregationInput{
		MessageChan: ch, WorkerNum: 1, CorrelateFields: cfg.correlate,
		AggregateElements: &intermediate.AggregationElements{
			NonStatsElements: cfg.nonStats, StatsElements: cfg.stats,
			AggregatedSourceStatsElements: cfg.srcStats, AggregatedDestinationStatsElements: cfg.dstStats,
			AntreaFlowEndSecondsElements: cfg.flowEnd, ThroughputElements: cfg.tp,
			SourceThroughputElements: cfg.srcTp, DestinationThroughputElements: cfg.dstTp,
		},
		ActiveExpiryTimeout: 1 << 40, InactiveExpiryTimeout: 1 << 40,
	})
	if err != nil {
		panic(err)
	}
	return ap
}

// ------------------------------------------------------------------ records
type c05Field struct{ name, kind string }

func c05KindOfDT(dt entities.IEDataType) string {
	switch dt {
	case entities.Unsigned8:
		return "u8"
	case entities.Unsigned16:
		return "u16"
	case entities.Unsigned32, entities.DateTimeSeconds:
		return "u32"
	case entities.Unsigned64, entities.DateTimeMilliseconds:
		return "u64"
	case entities.Signed32:
		return "i32"
	case entities.String:
		return "str"
	case entities.Ipv4Address:
		return "ip4"
	case entities.Ipv6Address:
		return "ip6"
	}
	return "oth"
}

var c05DTOfKind = map[string]entities.IEDataType{
	"u8": entities.Unsigned8, "u16": entities.Unsigned16, "u32": entities.Unsigned32, "u64": entities.Unsigned64,
	"i32": entities.Signed32, "str": entities.String, "ip4": entities.Ipv4Address, "ip6": entities.Ipv6Address,
	"oth": entities.Boolean,
}

// c05IE: the registry's element of that name when its data type agrees with the concrete kind
// used in the case, otherwise a synthetic element of that name and kind.
func c05IE(f c05Field) *entities.InfoElement {
	for _, ent := range []uint32{registry.IANAEnterpriseID, registry.IANAReversedEnterpriseID, registry.AntreaEnterpriseID} {
		if ie, err := registry.GetInfoElement(f.name, ent); err == nil && c05KindOfDT(ie.DataType) == f.kind {
			return ie
		}
	}
	dt := c05DTOfKind[f.kind]
	return entities.NewInfoElement(f.name, 999, dt, 0, entities.InfoElementLength[dt])
}

func c05Bytes(s string) []byte {
	if s == "-" {
		return nil
	}
	b, err := hex.DecodeString(s)
	if err != nil {
		panic(err)
	}
	return b
}

func c05Elem(f c05Field, val string) entities.InfoElementWithValue {
	ie := c05IE(f)
	switch f.kind {
	case "u8":
		return entities.NewUnsigned8InfoElement(ie, uint8(atou(val)))
	case "u16":
		return entities.NewUnsigned16InfoElement(ie, uint16(atou(val)))
	case "u32":
		if ie.DataType == entities.DateTimeSeconds {
			return entities.NewDateTimeSecondsInfoElement(ie, uint32(atou(val)))
		}
		return entities.NewUnsigned32InfoElement(ie, uint32(atou(val)))
	case "u64":
		return entities.NewUnsigned64InfoElement(ie, atou(val))
	case "i32":
		return entities.NewSigned32InfoElement(ie, int32(atoz(val)))
	case "str":
		if val == "-" {
			val = ""
		}
		return entities.NewStringInfoElement(ie, val)
	case "ip4", "ip6":
		return entities.NewIPAddressInfoElement(ie, net.IP(c05Bytes(val)))
	}
	return entities.NewBoolInfoElement(ie, atou(val) != 0)
}

func c05ShowBytes(b []byte) string {
	if len(b) == 0 {
		return "-"
	}
	return hex.EncodeToString(b)
}

// c05ShowElem: "<name> <kind> <val>" from the concrete element struct.
func c05ShowElem(e entities.InfoElementWithValue) string {
	n := e.GetName()
	switch x := e.(type) {
	case *entities.Unsigned8InfoElement:
		return fmt.Sprintf("%s u8 %d", n, x.GetUnsigned8Value())
	case *entities.Unsigned16InfoElement:
		return fmt.Sprintf("%s u16 %d", n, x.GetUnsigned16Value())
	case *entities.Unsigned32InfoElement:
		return fmt.Sprintf("%s u32 %d", n, x.GetUnsigned32Value())
	case *entities.DateTimeSecondsInfoElement:
		return fmt.Sprintf("%s u32 %d", n, x.GetUnsigned32Value())
	case *entities.Unsigned64InfoElement:
		return fmt.Sprintf("%s u64 %d", n, x.GetUnsigned64Value())
	case *entities.DateTimeMillisecondsInfoElement:
		return fmt.Sprintf("%s u64 %d", n, x.GetUnsigned64Value())
	case *entities.Signed32InfoElement:
		return fmt.Sprintf("%s i32 %d", n, x.GetSigned32Value())
	case *entities.StringInfoElement:
		s := x.GetStringValue()
		if s == "" {
			s = "-"
		}
		return fmt.Sprintf("%s str %s", n, strings.ReplaceAll(s, " ", "_"))
	case *entities.IPAddressInfoElement:
		k := "ip6"
		if x.GetDataType() == entities.Ipv4Address {
			k = "ip4"
		}
		return fmt.Sprintf("%s %s %s", n, k, c05ShowBytes(x.GetIPAddressValue()))
	case *entities.BooleanInfoElement:
		v := 0
		if x.GetBooleanValue() {
			v = 1
		}
		return fmt.Sprintf("%s oth %d", n, v)
	}
	return n + " oth 0"
}

// canonical form of the address string held by a FlowKey (see ip_canon in coq/Model/Agg.v)
func c05Addr(s string) string {
	if s == "<nil>" || s == "" {
		return "-"
	}
	if strings.HasPrefix(s, "?") {
		return s[1:]
	}
	ip := net.ParseIP(s)
	if ip == nil {
		return "bad:" + s
	}
	if v4 := ip.To4(); v4 != nil {
		return hex.EncodeToString(v4)
	}
	return hex.EncodeToString(ip.To16())
}

func c05KeyString(k intermediate.FlowKey) string {
	return fmt.Sprintf("%s %s %d %d %d", c05Addr(k.SourceAddress), c05Addr(k.DestinationAddress), k.Protocol, k.SourcePort, k.DestinationPort)
}

func c05ShowFlow(f intermediate.VerifAggFlow) string {
	var sb strings.Builder
	fmt.Fprintf(&sb, "%s %s %s %s %d", c05KeyString(f.Key), ShowBool(f.ReadyToSend), ShowBool(f.Filled), ShowBool(f.IsIPv4), len(f.Elements))
	for _, e := range f.Elements {
		sb.WriteString(" ")
		sb.WriteString(c05ShowElem(e))
	}
	return sb.String()
}

// ------------------------------------------------------------------ running a case
type c05Run struct {
	ap    *intermediate.AggregationProcess
	order []intermediate.FlowKey          // creation order
	prev  map[intermediate.FlowKey]string // last rendering
}

func (r *c05Run) observe(status string) string {
	flows := r.ap.VerifAggFlows()
	cur := map[intermediate.FlowKey]string{}
	var fresh []intermediate.FlowKey
	for _, f := range flows {
		cur[f.Key] = c05ShowFlow(f)
		if _, ok := r.prev[f.Key]; !ok {
			fresh = append(fresh, f.Key)
		}
	}
	sort.Slice(fresh, func(i, j int) bool { return cur[fresh[i]] < cur[fresh[j]] })
	// flows that disappeared are dropped from the order (never happens without expiry)
	var order []intermediate.FlowKey
	for _, k := range r.order {
		if _, ok := cur[k]; ok {
			order = append(order, k)
		}
	}
	gone := len(order) != len(r.order)
	order = append(order, fresh...)
	var sb strings.Builder
	fmt.Fprintf(&sb, "; %s n=%d", status, len(flows))
	if gone {
		sb.WriteString(" GONE")
	}
	for i, k := range order {
		if old, ok := r.prev[k]; !ok || old != cur[k] {
			fmt.Fprintf(&sb, " F %d %s", i, cur[k])
		}
	}
	r.order, r.prev = order, cur
	return sb.String()
}

func (r *c05Run) apply(tpls [][]c05Field, op []string, idx int) (status string) {
	defer func() {
		if e := recover(); e != nil {
			status = "panic"
		}
	}()
	switch op[0] {
	case "R":
		tpl := tpls[atoi(op[1])]
		vals := op[2:]
		elems := make([]entities.InfoElementWithValue, len(tpl))
		for i, f := range tpl {
			elems[i] = c05Elem(f, vals[i])
		}
		set := entities.NewSet(true)
		if err := set.PrepareSet(entities.Data, 256); err != nil {
			return "harness-error"
		}
		var err error
		if idx%2 == 0 {
			err = set.AddRecord(elems, 256)
		} else {
			err = set.AddRecordV2(elems, 256)
		}
		if err != nil {
			return "harness-error"
		}
		msg := entities.NewMessage(true)
		msg.AddSet(set)
		if err := r.ap.AggregateMsgByFlowKey(msg); err != nil {
			return "err"
		}
		return "ok"
	case "X":
		want := strings.Join(op[1:6], " ")
		err := r.ap.ForAllRecordsDo(func(k intermediate.FlowKey, rec *intermediate.AggregationFlowRecord) error {
			if c05KeyString(k) == want {
				return r.ap.ResetStatAndThroughputElementsInRecord(rec.Record)
			}
			return nil
		})
		if err != nil {
			return "err"
		}
		return "ok"
	}
	return "harness-error"
}

func c05Parse(t []string) (cfg string, tpls [][]c05Field, ops [][]string) {
	cfg = t[0]
	nt := atoi(t[1])
	t = t[2:]
	for i := 0; i < nt; i++ {
		nf := atoi(t[1])
		t = t[2:]
		var fs []c05Field
		for j := 0; j < nf; j++ {
			fs = append(fs, c05Field{t[0], t[1]})
			t = t[2:]
		}
		tpls = append(tpls, fs)
	}
	var cur []string
	for _, x := range t {
		if x == ";" {
			if cur != nil {
				ops = append(ops, cur)
			}
			cur = []string{}
			continue
		}
		cur = append(cur, x)
	}
	if cur != nil {
		ops = append(ops, cur)
	}
	return
}

// c05TwinView: every flow of the process with its flags and elements, httpVals left out.
func c05TwinView(ap *intermediate.AggregationProcess) map[string]string {
	out := map[string]string{}
	for _, f := range ap.VerifAggFlows() {
		var sb strings.Builder
		fmt.Fprintf(&sb, "%s %s %s", ShowBool(f.ReadyToSend), ShowBool(f.Filled), ShowBool(f.IsIPv4))
		for _, e := range f.Elements {
			if e.GetName() == "httpVals" {
				continue
			}
			sb.WriteString(" ")
			sb.WriteString(c05ShowElem(e))
		}
		out[c05KeyString(f.Key)] = sb.String()
	}
	return out
}

// c05HttpVal: the httpVals string carried by the i-th operation of the twin run (valid JSON
// maps with fresh and with repeated transaction ids, the empty string, and text that is not JSON).
func c05HttpVal(i int) string {
	switch i % 5 {
	case 0:
		return fmt.Sprintf(`{"%d":"{\"hostname\":\"h%d\",\"url\":\"/x\",\"status\":\"200\"}"}`, i, i)
	case 1:
		return `{"1":"GET_/a"}`
	case 2:
		return "-"
	case 3:
		return "not-json"
	}
	return fmt.Sprintf(`{"%d":"a","%d":"b"}`, i, i+1)
}

func c05One(caseToks []string) string {
	cfgName, tpls, ops := c05Parse(caseToks)
	cfg := c05GetConfig(cfgName)
	if cfg == nil {
		return "bad-config"
	}
	run := &c05Run{ap: c05NewProcess(cfg), prev: map[intermediate.FlowKey]string{}}
	// httpVals differential (harness only; the JSON merge is not modelled): the same history with an
	// extra httpVals string on every record, aggregated under the configuration that lists httpVals
	// in NonStatsElements, must leave every other field of every flow exactly as in the main run.
	var twin *c05Run
	var twinTpls [][]c05Field
	if cfgName == "std" && os.Getenv("VERIF_C05_NOTWIN") == "" {
		twin = &c05Run{ap: c05NewProcess(c05GetConfig("stdhttp")), prev: map[intermediate.FlowKey]string{}}
		for _, t := range tpls {
			for _, f := range t {
				if f.name == "httpVals" {
					twin = nil
				}
			}
			twinTpls = append(twinTpls, append(append([]c05Field{}, t...), c05Field{"httpVals", "str"}))
		}
	}
	var sb strings.Builder
	for i, op := range ops {
		st := run.apply(tpls, op, i)
		if i > 0 {
			sb.WriteString(" ")
		}
		if twin != nil {
			op2 := op
			if op[0] == "R" {
				op2 = append(append([]string{}, op...), c05HttpVal(i))
			}
			st2 := twin.apply(twinTpls, op2, i)
			diff := ""
			if st2 != st {
				diff = "status:" + st2
			} else if st != "panic" {
				a, b := c05TwinView(run.ap), c05TwinView(twin.ap)
				if len(a) != len(b) {
					diff = "flows"
				}
				for k, v := range a {
					if b[k] != v {
						diff = "flow:" + strings.ReplaceAll(k, " ", ",")
					}
				}
			}
			if diff != "" {
				// not an observation the model can produce: reported as a disagreement on this case
				fmt.Fprintf(&sb, "; HTTPVALS-DIFFERENTIAL op=%d %s ", i, diff)
				twin = nil
			}
		}
		if st == "panic" {
			sb.WriteString("; panic")
			break
		}
		sb.WriteString(run.observe(st))
	}
	if len(ops) == 0 {
		return "empty"
	}
	return sb.String()
}

// ------------------------------------------------------------------ generator
type c05Tpl struct {
	fields []c05Field
}

func c05Template(cfg *c05Config, v6 bool) []c05Field {
	ipk, suf := "ip4", "IPv4"
	if v6 {
		ipk, suf = "ip6", "IPv6"
	}
	fs := []c05Field{
		{"source" + suf + "Address", ipk}, {"destination" + suf + "Address", ipk},
		{"sourceTransportPort", "u16"}, {"destinationTransportPort", "u16"}, {"protocolIdentifier", "u8"},
		{"sourcePodName", "str"}, {"destinationPodName", "str"}, {"destinationCluster" + suf, ipk},
		{"destinationServicePort", "u16"}, {"flowStartSeconds", "u32"}, {"flowEndSeconds", "u32"},
		{"flowEndReason", "u8"}, {"tcpState", "str"}, {"flowType", "u8"},
		{"ingressNetworkPolicyRuleAction", "u8"}, {"egressNetworkPolicyRuleAction", "u8"},
		{"ingressNetworkPolicyRulePriority", "i32"},
	}
	for _, s := range cfg.stats {
		fs = append(fs, c05Field{s, "u64"})
	}
	return fs
}

type c05GKey struct {
	v6                        bool
	src, dst                  string
	proto                     uint8
	sport, dport              uint16
	flowType, egress, ingress uint8
	start                     uint32
	nodes                     [2]*c05GNode // 0 = source, 1 = destination
	shape                     int
}

type c05GNode struct {
	start  uint32 // each reporting node has its own connection-tracking start time
	end    uint32
	totals map[string]uint64
	n      int
}

func (k *c05GKey) keyToks() string {
	return fmt.Sprintf("%s %s %d %d %d", k.src, k.dst, k.proto, k.sport, k.dport)
}

var c05TCP = []string{"ESTABLISHED", "TIME_WAIT", "SYN_SENT", "CLOSE"}

// c05Counter: a counter increment of the given shape (0 small, 1 32-bit range, 2 near 2^64)
func c05Inc(rng *Rng, shape int) uint64 {
	if rng.Intn(6) == 0 {
		return 0 // a record that reports no growth at all
	}
	switch shape {
	case 0:
		return uint64(rng.Intn(2000))
	case 1:
		return rng.U64() >> 30
	}
	return ^uint64(0) - uint64(rng.Intn(5000))
}

// c05Record: the value tokens of the next record of key k from node (0 src / 1 dst), in the
// order of the template. kind: 0 = within the exporter contract; >0 = one deliberate breach.
func c05Record(rng *Rng, cfg *c05Config, k *c05GKey, node int, breach int, tpl []c05Field) []string {
	nd := k.nodes[node]
	corr := k.flowType == 2 && k.egress != 2 && k.egress != 3 && k.ingress != 3
	if !corr {
		nd = k.nodes[0] // one reporting stream
	}
	step := uint32(1 + rng.Intn(4))
	if rng.Intn(8) == 0 {
		step = uint32(rng.Intn(100000))+1
	}
	// gaps around 2^31 seconds and up to the top of the uint32 range (signed-comparison mistakes)
	big := uint32(0)
	if rng.Intn(9) == 0 {
		big = uint32(1<<31) - 2 + uint32(rng.Intn(5))
		if rng.Intn(3) == 0 {
			big = uint32(1<<31) + uint32(rng.Intn(1<<30))
		}
	}
	end := nd.end + step
	if nd.n == 0 {
		nd.start = k.start
		if rng.Intn(3) == 0 && k.start < 0xFFFF0000 {
			nd.start = k.start + uint32(rng.Intn(40)) // the nodes do not agree on the start time
		}
		end = nd.start + 1 + uint32(rng.Intn(20))
		if big != 0 && uint64(nd.start)+uint64(big) <= 0xFFFFFFFF {
			end = nd.start + big
		}
	} else if big != 0 && uint64(nd.end)+uint64(big) <= 0xFFFFFFFF {
		end = nd.end + big
	}
	start := nd.start
	flowType := k.flowType
	switch breach {
	case 1: // end time not increasing for this node
		if nd.n > 0 {
			end = nd.end - uint32(rng.Intn(2))
			if end == 0 {
				end = 1
			}
		}
	case 2: // end <= start
		start = end + uint32(rng.Intn(2))
	case 4: // correlation requirement changes
		flowType = uint8(1 + rng.Intn(4))
	}
	vals := map[string]string{}
	for _, s := range cfg.stats {
		if strings.Contains(s, "Delta") {
			vals[s] = strconv.FormatUint(c05Inc(rng, rng.Intn(3)), 10)
			continue
		}
		cur := nd.totals[s]
		var nv uint64
		switch k.shape {
		case 0:
			nv = cur + uint64(rng.Intn(3000))
		case 1:
			nv = cur + rng.U64()>>34
		default: // close to 2^64 without wrapping
			if nd.n == 0 {
				cur = ^uint64(0) - 200000
			}
			inc := uint64(rng.Intn(4000))
			if ^uint64(0)-cur < inc {
				inc = ^uint64(0) - cur
			}
			nv = cur + inc
		}
		if breach == 3 && nd.n > 0 && cur > 0 { // total decreases
			nv = cur - 1 - uint64(rng.Intn(int(min(cur, 1000))))
		}
		nd.totals[s] = nv
		vals[s] = strconv.FormatUint(nv, 10)
	}
	nd.end = end
	nd.n++
	srcPod, dstPod := "podA", "podB"
	if corr || k.flowType == 2 {
		if node == 0 {
			dstPod = "-"
		} else {
			srcPod = "-"
		}
	}
	if k.flowType == 3 {
		dstPod = "-"
	}
	if breach == 5 { // neither / both pod names on a record of a correlated flow
		if rng.Bool() {
			srcPod, dstPod = "-", "-"
		} else {
			srcPod, dstPod = "podA", "podB"
		}
	}
	cluster := "-"
	if node == 0 {
		cluster = "0a600001"
		if k.v6 {
			cluster = "20010000000000000000000000000aaa"
		}
	} else if rng.Bool() {
		cluster = "00000000"
		if k.v6 {
			cluster = "00000000000000000000000000000000"
		}
	}
	vals["sourceIPv4Address"], vals["sourceIPv6Address"] = k.src, k.src
	vals["destinationIPv4Address"], vals["destinationIPv6Address"] = k.dst, k.dst
	vals["sourceTransportPort"] = strconv.Itoa(int(k.sport))
	vals["destinationTransportPort"] = strconv.Itoa(int(k.dport))
	vals["protocolIdentifier"] = strconv.Itoa(int(k.proto))
	vals["sourcePodName"], vals["destinationPodName"] = srcPod, dstPod
	vals["destinationClusterIPv4"], vals["destinationClusterIPv6"] = cluster, cluster
	vals["destinationServicePort"] = strconv.Itoa(rng.Intn(2) * 4739)
	vals["flowStartSeconds"] = strconv.FormatUint(uint64(start), 10)
	vals["flowEndSeconds"] = strconv.FormatUint(uint64(end), 10)
	vals["flowEndReason"] = strconv.Itoa(2 + rng.Intn(2)*rng.Intn(2))
	vals["tcpState"] = c05TCP[rng.Intn(len(c05TCP))]
	vals["flowType"] = strconv.Itoa(int(flowType))
	vals["ingressNetworkPolicyRuleAction"] = strconv.Itoa(int(k.ingress))
	vals["egressNetworkPolicyRuleAction"] = strconv.Itoa(int(k.egress))
	vals["ingressNetworkPolicyRulePriority"] = strconv.Itoa(rng.Intn(3)*25000 - 25000)
	out := make([]string, len(tpl))
	for i, f := range tpl {
		v, ok := vals[f.name]
		if !ok {
			v = "0"
			if f.kind == "str" || f.kind == "ip4" || f.kind == "ip6" {
				v = "-"
			}
		}
		out[i] = c05Coerce(f.kind, v)
	}
	return out
}

// c05Coerce makes a value token fit the concrete kind of its field (ill-typed templates change kinds).
func c05Coerce(kind, v string) string {
	switch kind {
	case "u8", "u16", "u32", "u64", "oth":
		n, err := strconv.ParseUint(v, 10, 64)
		if err != nil {
			n = 7
		}
		switch kind {
		case "u8":
			n &= 0xff
		case "u16":
			n &= 0xffff
		case "u32":
			n &= 0xffffffff
		case "oth":
			n &= 1
		}
		return strconv.FormatUint(n, 10)
	case "i32":
		n, err := strconv.ParseInt(v, 10, 64)
		if err != nil || n > 1<<31-1 || n < -(1<<31) {
			n = -3
		}
		return strconv.FormatInt(n, 10)
	case "ip4", "ip6":
		if v == "-" {
			return v
		}
		if _, err := hex.DecodeString(v); err != nil {
			return "0a000007"
		}
	}
	return v
}

func c05NewKey(rng *Rng, i int, v6 bool) *c05GKey {
	// protocols without ports (ICMP 1, ICMPv6 58) included: the 5-tuple still has five fields
	k := &c05GKey{v6: v6, proto: []uint8{6, 17, 132, 1, 58, 1, 58}[rng.Intn(7)], sport: uint16(1000 + i), dport: uint16(80 + rng.Intn(2)), shape: rng.Intn(3)}
	ai := i
	if rng.Intn(3) == 0 {
		ai = 0 // same addresses as the first key: the flows differ in ports (and maybe protocol) only
	}
	if v6 {
		k.src = fmt.Sprintf("200100000000000000000000000000%02x", 1+ai)
		k.dst = "20010000000000000000000000000099"
		if rng.Intn(6) == 0 { // IPv4-mapped address in an IPv6 element
			k.src = fmt.Sprintf("00000000000000000000ffff0a0000%02x", 1+ai)
		}
	} else {
		k.src = fmt.Sprintf("0a0000%02x", 1+ai)
		k.dst = "0a000063"
	}
	k.flowType = []uint8{2, 2, 2, 1, 3, 4, 0}[rng.Intn(7)]
	k.egress = []uint8{0, 1, 0, 1, 2, 3}[rng.Intn(6)]
	k.ingress = []uint8{0, 1, 0, 1, 2, 3}[rng.Intn(6)]
	k.start = uint32(rng.Intn(3)) * uint32(1+rng.Intn(1000000))
	k.nodes[0] = &c05GNode{totals: map[string]uint64{}}
	k.nodes[1] = &c05GNode{totals: map[string]uint64{}}
	return k
}

func c05TplToks(tpls [][]c05Field) string {
	var sb strings.Builder
	fmt.Fprintf(&sb, "%d", len(tpls))
	for _, t := range tpls {
		fmt.Fprintf(&sb, " T %d", len(t))
		for _, f := range t {
			fmt.Fprintf(&sb, " %s %s", f.name, f.kind)
		}
	}
	return sb.String()
}

// c05GenHistory: a random history of nops operations. mode 0: within the hypotheses;
// mode 1: with breaches of the exporter contract; mode 2: ill-typed templates as well;
// mode 3: within the hypotheses, half of the records of the IPv4 flows in another layout of the
// same fields (the theorems compare the templates of a flow by name, not by position).
func c05GenHistory(env *Env, cfgName string, nops, nkeys, mode int) string {
	rng := env.Rng
	cfg := c05GetConfig(cfgName)
	tpls := [][]c05Field{c05Template(cfg, false), c05Template(cfg, true)}
	if mode == 2 {
		// ill-typed variants of the IPv4 template
		base := c05Template(cfg, false)
		v := append([]c05Field{}, base...)
		switch rng.Intn(6) {
		case 0: // a field is missing
			i := rng.Intn(len(v))
			v = append(v[:i], v[i+1:]...)
		case 1: // a field has another concrete kind
			i := rng.Intn(len(v))
			v[i].kind = []string{"u8", "u16", "u32", "u64", "i32", "str", "ip4", "ip6", "oth"}[rng.Intn(9)]
		case 2: // a duplicated name
			i := rng.Intn(len(v))
			v = append(v, v[i])
		case 3: // the record already carries a per-node field
			all := append(append(append([]string{}, cfg.srcStats...), cfg.srcTp...), cfg.flowEnd...)
			v = append(v, c05Field{all[rng.Intn(len(all))], "u64"})
		case 4: // both address families
			v = append(v, c05Field{"sourceIPv6Address", "ip6"}, c05Field{"destinationIPv6Address", "ip6"})
		case 5: // field order shuffled (not ill-typed: equivalent to the base template)
			for i := len(v) - 1; i > 0; i-- {
				j := rng.Intn(i + 1)
				v[i], v[j] = v[j], v[i]
			}
		}
		tpls = append(tpls, v)
	}
	if mode == 3 {
		// another layout of the same IPv4 fields (another template version / another exporter):
		// shuffled, reversed, or the forward and reverse counters in each other's places
		v := append([]c05Field{}, c05Template(cfg, false)...)
		switch rng.Intn(3) {
		case 0:
			for i := len(v) - 1; i > 0; i-- {
				j := rng.Intn(i + 1)
				v[i], v[j] = v[j], v[i]
			}
		case 1:
			for i, j := 0, len(v)-1; i < j; i, j = i+1, j-1 {
				v[i], v[j] = v[j], v[i]
			}
		case 2:
			pos := map[string]int{}
			for i, f := range v {
				pos[f.name] = i
			}
			for i, f := range v {
				if strings.HasPrefix(f.name, "reverse") {
					continue
				}
				rn := "reverse" + strings.ToUpper(f.name[:1]) + f.name[1:]
				if j, ok := pos[rn]; ok && (rng.Intn(3) != 0) {
					v[i], v[j] = v[j], v[i]
				}
			}
		}
		tpls = append(tpls, v)
	}
	keys := make([]*c05GKey, nkeys)
	for i := range keys {
		keys[i] = c05NewKey(rng, i, mode != 3 && rng.Intn(3) == 0)
	}
	var sb strings.Builder
	fmt.Fprintf(&sb, "C05 %s %s", cfgName, c05TplToks(tpls))
	for i := 0; i < nops; i++ {
		k := keys[rng.Intn(nkeys)]
		if rng.Intn(7) == 0 {
			fmt.Fprintf(&sb, " ; X %s", k.keyToks())
			env.Count("op:reset")
			continue
		}
		node := rng.Intn(2)
		breach := 0
		if mode >= 1 && mode != 3 && rng.Intn(4) == 0 {
			breach = 1 + rng.Intn(5)
			env.Count(fmt.Sprintf("breach:%d", breach))
		}
		ti := 0
		if k.v6 {
			ti = 1
		}
		if mode == 2 && !k.v6 && rng.Intn(3) == 0 {
			ti = 2
			env.Count("op:illtyped-record")
		}
		if mode == 3 && !k.v6 && rng.Bool() {
			ti = 2
			env.Count("op:record-in-other-layout")
		}
		vals := c05Record(rng, cfg, k, node, breach, tpls[ti])
		fmt.Fprintf(&sb, " ; R %d %s", ti, strings.Join(vals, " "))
		env.Count("op:record")
	}
	return sb.String()
}

// c05Enumerate: every history of the given depth over 2 keys x 2 nodes x 3 counter shapes + resets
func c05Enumerate(env *Env, cfgName string, depth int, emit func(string)) {
	cfg := c05GetConfig(cfgName)
	tpl := c05Template(cfg, false)
	head := fmt.Sprintf("C05 %s %s", cfgName, c05TplToks([][]c05Field{tpl}))
	nsym := 2*2*3 + 2
	idx := make([]int, depth)
	for {
		keys := []*c05GKey{
			{src: "0a000001", dst: "0a000063", proto: 6, sport: 1000, dport: 80, flowType: 2, start: 5},
			{src: "0a000002", dst: "0a000063", proto: 6, sport: 1001, dport: 80, flowType: 1, start: 0},
		}
		cnt := map[[2]int]int{}
		tot := map[[2]int]uint64{}
		var sb strings.Builder
		sb.WriteString(head)
		for _, s := range idx {
			if s >= 12 {
				fmt.Fprintf(&sb, " ; X %s", keys[s-12].keyToks())
				continue
			}
			ki, node, shape := s/6, (s/3)%2, s%3
			k := keys[ki]
			stream := [2]int{ki, node}
			if k.flowType != 2 {
				stream = [2]int{ki, 0}
			}
			cnt[stream]++
			end := k.start + uint32(5*cnt[stream])
			var delta, inc uint64
			switch shape {
			case 0:
				delta, inc = 3, 100
			case 1:
				delta, inc = 1<<63+7, 1<<40
			default:
				delta, inc = ^uint64(0), 0
			}
			if cnt[stream] == 1 && shape == 2 {
				tot[stream] = ^uint64(0) - 16
			}
			tot[stream] += inc
			vals := map[string]string{}
			for _, st := range cfg.stats {
				if strings.Contains(st, "Delta") {
					vals[st] = strconv.FormatUint(delta, 10)
				} else {
					vals[st] = strconv.FormatUint(tot[stream], 10)
				}
			}
			srcPod, dstPod := "podA", "podB"
			if k.flowType == 2 {
				if node == 0 {
					dstPod = "-"
				} else {
					srcPod = "-"
				}
			}
			vals["sourceIPv4Address"], vals["destinationIPv4Address"] = k.src, k.dst
			vals["sourceTransportPort"], vals["destinationTransportPort"] = strconv.Itoa(int(k.sport)), strconv.Itoa(int(k.dport))
			vals["protocolIdentifier"] = "6"
			vals["sourcePodName"], vals["destinationPodName"] = srcPod, dstPod
			vals["destinationClusterIPv4"] = "00000000"
			vals["flowStartSeconds"] = strconv.Itoa(int(k.start))
			vals["flowEndSeconds"] = strconv.Itoa(int(end))
			vals["flowEndReason"] = "2"
			vals["tcpState"] = c05TCP[(node+shape)%len(c05TCP)]
			vals["flowType"] = strconv.Itoa(int(k.flowType))
			out := make([]string, len(tpl))
			for i, f := range tpl {
				v, ok := vals[f.name]
				if !ok {
					v = "0"
				}
				out[i] = v
			}
			fmt.Fprintf(&sb, " ; R 0 %s", strings.Join(out, " "))
		}
		emit(sb.String())
		// next
		i := depth - 1
		for i >= 0 {
			idx[i]++
			if idx[i] < nsym {
				break
			}
			idx[i] = 0
			i--
		}
		if i < 0 {
			return
		}
	}
}

func runC05(env *Env) {
	registry.LoadRegistry()
	emit := func(line string) {
		t := strings.Fields(line)
		c := t[1:]
		for i, x := range c {
			if x == "|" {
				c = c[:i]
				break
			}
		}
		env.Emit("C05 "+strings.Join(c, " "), c05One(c))
	}
	if len(env.Replay) > 0 {
		for _, l := range env.Replay {
			emit(l)
		}
		return
	}
	env.Count("differential:httpVals-twin-on-std-histories")
	thorough := env.Thorough()
	// short histories (these also feed the in-Coq sample)
	nshort, nlong, nbreach, nill := 150, 60, 60, 60
	if thorough {
		nshort, nlong, nbreach, nill = 1500, 600, 600, 600
	}
	cfgs := []string{"std", "ant"}
	for i := 0; i < nshort; i++ {
		emit(c05GenHistory(env, cfgs[i%2], 1+env.Rng.Intn(3), 1+env.Rng.Intn(2), i%3))
		env.Count("history:short")
	}
	for i := 0; i < nlong; i++ {
		emit(c05GenHistory(env, cfgs[i%2], 20+env.Rng.Intn(41), 1+env.Rng.Intn(4), 0))
		env.Count("history:in-contract")
	}
	for i := 0; i < nbreach; i++ {
		emit(c05GenHistory(env, cfgs[i%2], 10+env.Rng.Intn(51), 1+env.Rng.Intn(4), 1))
		env.Count("history:contract-breached")
	}
	for i := 0; i < nlong; i++ {
		emit(c05GenHistory(env, cfgs[i%2], 4+env.Rng.Intn(30), 1+env.Rng.Intn(3), 3))
		env.Count("history:mixed-layouts")
	}
	for i := 0; i < nill; i++ {
		emit(c05GenHistory(env, cfgs[i%2], 5+env.Rng.Intn(30), 1+env.Rng.Intn(3), 2))
		env.Count("history:ill-typed")
	}
	depth := 2
	if thorough {
		depth = 4
	}
	c05Enumerate(env, "std", depth, func(l string) { emit(l); env.Count("history:enumerated") })
}
