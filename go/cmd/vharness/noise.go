package main

// A second, unrelated exporting process in the same program that keeps sending while the
// histories under test run. Two exporting processes share no state, so on code where the
// property holds this cannot change a single byte of the observed session; state that is
// shared behind the API (a package-level message object or buffer) shows as a header or body
// that belongs to the other process.

import (
	"io"
	"net"
	"sync"
	"sync/atomic"

	"github.com/vmware/go-ipfix/pkg/entities"
	"github.com/vmware/go-ipfix/pkg/exporter"
	"github.com/vmware/go-ipfix/pkg/registry"
)

var noiseSends int64

// startNoise returns a function that stops the background exporters and waits for them.
func startNoise(nproc int) func() {
	var stop int32
	var wg sync.WaitGroup
	for i := 0; i < nproc; i++ {
		ln, err := net.Listen("tcp", "127.0.0.1:0")
		if err != nil {
			panic(err)
		}
		go func() {
			c, err := ln.Accept()
			if err == nil {
				io.Copy(io.Discard, c)
				c.Close()
			}
		}()
		ep, err := exporter.InitExportingProcess(exporter.ExporterInput{
			CollectorAddress: ln.Addr().String(), CollectorProtocol: "tcp", ObservationDomainID: 0xA5A5A500 + uint32(i),
		})
		if err != nil {
			panic(err)
		}
		ie, err := registry.GetInfoElement("sourceIPv4Address", registry.IANAEnterpriseID)
		if err != nil {
			panic(err)
		}
		tid := ep.NewTemplateID()
		ts := entities.NewSet(false)
		ts.PrepareSet(entities.Template, tid)
		ts.AddRecord([]entities.InfoElementWithValue{entities.NewIPAddressInfoElement(ie, nil)}, tid)
		if _, err := ep.SendSet(ts); err != nil {
			panic(err)
		}
		wg.Add(1)
		go func(i int) {
			defer wg.Done()
			defer ln.Close()
			defer ep.CloseConnToCollector()
			for k := 0; atomic.LoadInt32(&stop) == 0; k++ {
				ds := entities.NewSet(false)
				ds.PrepareSet(entities.Data, tid)
				for j := 0; j <= k%7; j++ {
					ds.AddRecord([]entities.InfoElementWithValue{entities.NewIPAddressInfoElement(ie, net.IPv4(0xEE, byte(i), byte(k), byte(j)).To4())}, tid)
				}
				if _, err := ep.SendSet(ds); err != nil {
					return
				}
				atomic.AddInt64(&noiseSends, 1)
			}
		}(i)
	}
	return func() {
		atomic.StoreInt32(&stop, 1)
		wg.Wait()
	}
}
