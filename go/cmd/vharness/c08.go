package main

// C08: sequence numbers and header bookkeeping. Histories of successful template and data
// sends with record counts 0..thousands on one real ExportingProcess (TCP and UDP), sessions
// started near 2^32 through VerifSetSeq so that the wrap is crossed; headers parsed from the
// bytes at the peer socket. A few histories contain failing sends (correspondence only).

import (
	"fmt"
	"strings"

	"github.com/vmware/go-ipfix/pkg/entities"
	"github.com/vmware/go-ipfix/pkg/registry"
)

func init() { register("C08", runC08) }

func genC08(env *Env) string {
	r := env.Rng
	seq0 := uint64(0)
	switch r.Intn(4) {
	case 0:
		seq0 = 4294967296 - uint64(1+r.Intn(40))
		env.Count("session/near-wrap")
	case 1:
		seq0 = r.U64() & 0xffffffff
		env.Count("session/random-start")
	default:
		env.Count("session/from-zero")
	}
	parts := []string{histHead(r, "dig", seq0)}
	var tpls []tplG
	small := oneFieldTpl(256+r.Intn(100), entities.Unsigned8, 1+r.Intn(400))
	tpls = append(tpls, small)
	parts = append(parts, small.tplSet(r))
	n := 2 + r.Intn(10)
	for i := 0; i < n; i++ {
		switch k := r.Intn(10); {
		case k < 2:
			t := genTpl(r, 400+len(tpls), 1+r.Intn(6))
			tpls = append(tpls, t)
			parts = append(parts, t.tplSet(r))
			env.Count("send/template")
		case k < 3:
			t := tpls[r.Intn(len(tpls))]
			parts = append(parts, t.tplSet(r)) // refresh
			env.Count("send/template-again")
		case k < 6:
			t := tpls[r.Intn(len(tpls))]
			c := r.Intn(5)
			parts = append(parts, t.dataSet(r, c))
			env.Count(fmt.Sprintf("send/data-%d-records", c))
		case k < 9:
			c := []int{0, 1, 2, 7, 40, 255, 256, 1000}[r.Intn(8)]
			parts = append(parts, manyRecords(small, c, r.Intn(256)))
			env.Count("send/data-many")
		default:
			c := 5000 + r.Intn(20000)
			parts = append(parts, manyRecords(small, c, r.Intn(256)))
			env.Count("send/data-thousands")
		}
	}
	return strings.Join(parts, " ")
}

func runC08(env *Env) {
	registry.LoadRegistry()
	if replayHist(env, "C08") {
		return
	}
	emit := func(c string) { env.Emit("C08 "+c, runHist(strings.Fields(c))) }
	// "on one exporting process": other exporting processes of the same program keep sending
	// (their own domain, their own counts) during every session observed here
	stopNoise := startNoise(2)
	defer func() {
		stopNoise()
		env.Count(fmt.Sprintf("noise/other-exporters-sends>=%d", (noiseSends/1000)*1000))
	}()
	small := oneFieldTpl(256, entities.Unsigned8, 4)
	// the wrap, exactly: counter 2^32-3, then 1, 2 (hits 0), 5 records
	for _, proto := range []string{"tcp", "udp"} {
		emit(fmt.Sprintf("%s 7 4294967293 dig %s %s %s %s %s %s", proto, small.tplSet(env.Rng),
			manyRecords(small, 1, 1), manyRecords(small, 2, 2), small.tplSet(env.Rng), manyRecords(small, 5, 3), manyRecords(small, 0, 0)))
		env.Count("shape/exact-wrap")
		// the largest data message: 65515 one-byte records (TCP; over UDP it exceeds the datagram limit)
		emit(fmt.Sprintf("%s 1 4294960000 dig %s %s %s", proto, small.tplSet(env.Rng), manyRecords(small, 65515, 9), manyRecords(small, 3, 1)))
		env.Count("shape/max-records")
	}
	// failing sends in the middle (outside the statement; correspondence only)
	emit(fmt.Sprintf("tcp 1 10 dig %s %s %s %s", small.tplSet(env.Rng), manyRecords(small, 65516, 1), manyRecords(small, 1, 1), "S P D 999 A 1 999 1 4 1 0 1 u8 1 ;"))
	env.Count("shape/with-failures")
	n := 250
	if env.Thorough() {
		n = 8000
	}
	for i := 0; i < n; i++ {
		emit(genC08(env))
	}
}
