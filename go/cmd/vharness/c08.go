package main

// C08: sequence numbers and header bookkeeping. Histories of successful template and data
// sends with record counts 0..thousands on one real ExportingProcess (TCP and UDP), sessions
// started near 2^32 through VerifSetSeq so that the wrap is crossed; headers parsed from the
// bytes at the peer socket. A few histories contain failing sends (correspondence only).

import (
	"fmt"
	"strings"

	"github.com/vmware/go-ipfix/pkg/entities"
	"github.com/vmware/go-ipfix/pkg/registry"
)

func init() { register("C08", runC08) }

func genC08(env *Env) string {
	r := env.Rng
	seq0 := uint64(0)
	switch r.Intn(4) {
	case 0:
		seq0 = 4294967296 - uint64(1+r.Intn(40))
		env.Count("session/near-wrap")
	case 1:
		seq0 = r.U64() & 0xffffffff
		env.Count("session/random-start")
	default:
		env.Count("session/from-zero")
	}
	parts := []string{histHead(r, "dig", seq0)}
	var tpls []tplG
	small := oneFieldTpl(256+r.Intn(100), entities.Unsigned8, 1+r.Intn(400))
	tpls = append(tpls, small)
	parts = append(parts, small.tplSet(r))
	n := 2 + r.Intn(10)
	for i := 0; i < n; i++ {
		switch k := r.Intn(10); {
		case k < 2:
			t := genTpl(r, 400+len(tpls), 1+r.Intn(6))
			tpls = append(tpls, t)
			parts = append(parts, t.tplSet(r))
			env.Count("send/template")
		case k < 3:
			t := tpls[r.Intn(len(tpls))]
			parts = append(parts, t.tplSet(r)) // refresh
			env.Count("send/template-again")
		case k < 6:
			t := tpls[r.Intn(len(tpls))]
			c := r.Intn(5)
			parts = append(parts, t.dataSet(r, c))
			env.Count(fmt.Sprintf("send/data-%d-records", c))
		case k < 9:
			c := []int{0, 1, 2, 7, 40, 255, 256, 1000}[r.Intn(8)]
			parts = append(parts, manyRecords(small, c, r.Intn(256)))
			env.Count("send/data-many")
		default:
			c := 5000 + r.Intn(20000)
			parts = append(parts, manyRecords(small, c, r.Intn(256)))
			env.Count("send/data-thousands")
		}
	}
	return strings.Join(parts, " ")
}

// genC08Reconnect: several exporting processes one after the other for the same collector
// address and observation domain (close, InitExportingProcess again). Each process counts
// only the data records it has sent itself; data for a template of an earlier process is
// refused until the template has been sent again on the new process.
func genC08Reconnect(env *Env) string {
	r := env.Rng
	start := func() uint64 {
		switch r.Intn(4) {
		case 0:
			return 4294967296 - uint64(1+r.Intn(40))
		case 1:
			return r.U64() & 0xffffffff
		}
		return 0
	}
	parts := []string{histHead(r, "dig", start())}
	small := oneFieldTpl(256+r.Intn(100), entities.Unsigned8, 1+r.Intn(400))
	other := genTpl(r, 500+r.Intn(100), 1+r.Intn(4))
	parts = append(parts, small.tplSet(r)) // set object 0
	nS := 1
	session := func(first bool) {
		n := 1 + r.Intn(5)
		for i := 0; i < n; i++ {
			switch k := r.Intn(8); {
			case k < 4:
				parts = append(parts, manyRecords(small, []int{0, 1, 2, 7, 40, 255, 1000}[r.Intn(7)], r.Intn(256)))
				nS++
				env.Count("reconnect/data")
			case k < 5:
				parts = append(parts, other.tplSet(r), other.dataSet(r, 1+r.Intn(3)))
				nS += 2
				env.Count("reconnect/second-template")
			case k < 6 && nS > 1:
				parts = append(parts, fmt.Sprintf("C %d ;", 1+r.Intn(nS-1))) // an earlier set object again
				env.Count("reconnect/set-object-again")
			default:
				parts = append(parts, "C 0 ;") // the template again
				env.Count("reconnect/template-again")
			}
		}
	}
	session(true)
	for k := 1 + r.Intn(3); k > 0; k-- {
		if r.Intn(3) == 0 {
			parts = append(parts, fmt.Sprintf("X %d", start()))
		} else {
			parts = append(parts, "X -") // as InitExportingProcess leaves it
		}
		env.Count("reconnect/new-process")
		if r.Bool() {
			// data of the previous process's template before it is known again: refused
			parts = append(parts, manyRecords(small, 1+r.Intn(5), 3))
			nS++
			env.Count("reconnect/data-before-template")
		}
		parts = append(parts, "C 0 ;")
		session(false)
	}
	return strings.Join(parts, " ")
}

func runC08(env *Env) {
	registry.LoadRegistry()
	if replayHist(env, "C08") {
		return
	}
	emit := func(c string) { env.Emit("C08 "+c, runHist(strings.Fields(c))) }
	// "on one exporting process": other exporting processes of the same program keep sending
	// (their own domain, their own counts) during every session observed here
	stopNoise := startNoise(2)
	defer func() {
		stopNoise()
		env.Count(fmt.Sprintf("noise/other-exporters-sends>=%d", (noiseSends/1000)*1000))
	}()
	// export time under contention (c08b.go), run beside the histories
	stallRes := make(chan string, 1)
	go func() { stallRes <- c08Stall() }()
	defer func() {
		env.Emit("C08 stall", <-stallRes)
		env.Count("shape/export-time-of-a-send-that-waited-its-turn")
	}()
	small := oneFieldTpl(256, entities.Unsigned8, 4)
	// the wrap, exactly: counter 2^32-3, then 1, 2 (hits 0), 5 records
	for _, proto := range []string{"tcp", "udp"} {
		emit(fmt.Sprintf("%s 7 4294967293 dig %s %s %s %s %s %s", proto, small.tplSet(env.Rng),
			manyRecords(small, 1, 1), manyRecords(small, 2, 2), small.tplSet(env.Rng), manyRecords(small, 5, 3), manyRecords(small, 0, 0)))
		env.Count("shape/exact-wrap")
		// the largest data message: 65515 one-byte records (TCP; over UDP it exceeds the datagram limit)
		emit(fmt.Sprintf("%s 1 4294960000 dig %s %s %s", proto, small.tplSet(env.Rng), manyRecords(small, 65515, 9), manyRecords(small, 3, 1)))
		env.Count("shape/max-records")
	}
	// failing sends in the middle (outside the statement; correspondence only)
	emit(fmt.Sprintf("tcp 1 10 dig %s %s %s %s", small.tplSet(env.Rng), manyRecords(small, 65516, 1), manyRecords(small, 1, 1), "S P D 999 A 1 999 1 4 1 0 1 u8 1 ;"))
	env.Count("shape/with-failures")
	n := 250
	if env.Thorough() {
		n = 8000
	}
	for i := 0; i < n; i++ {
		emit(genC08(env))
	}
	// reconnects: the second process counts from its own start
	for _, proto := range []string{"tcp", "udp"} {
		emit(fmt.Sprintf("%s 7 4294967293 dig %s %s X - %s C 0 ; %s X 4294967295 C 0 ; %s X - C 0 ; C 1 ;", proto, small.tplSet(env.Rng),
			manyRecords(small, 5, 1), manyRecords(small, 2, 2), manyRecords(small, 3, 3), manyRecords(small, 2, 4)))
		env.Count("shape/reconnect")
	}
	for i := 0; i < n/4; i++ {
		emit(genC08Reconnect(env))
	}
}
