package main

// C03: arbitrary byte strings x template states x decoding modes through decodePacket.
// case:  C03 <mode> <packet> ; <packet> ; ...   obs: one outcome per packet, " / "-separated.

import (
	"encoding/binary"
	"encoding/hex"
	"fmt"
	"net"
	"strings"
	"time"

	"github.com/vmware/go-ipfix/pkg/entities"
	"github.com/vmware/go-ipfix/pkg/registry"
)

func init() { register("C03", runC03) }

// caseTokens extracts the case tokens of a replay/corpus line ("C03 ... | obs" or "C03 ...").
func caseTokens(line string) []string {
	t := strings.Fields(line)
	if len(t) > 0 && len(t[0]) == 3 && t[0][0] == 'C' {
		t = t[1:]
	}
	for i, x := range t {
		if x == "|" {
			return t[:i]
		}
	}
	return t
}

// randomTemplate: 0..maxF field specifiers mixing known elements, unknown fixed-length,
// unknown variable-length and zero-length unknown elements.
func randomTemplate(r *Rng, maxF int) []fieldSpec {
	kp := knownPool()
	n := r.Intn(maxF + 1)
	fs := []fieldSpec{}
	for i := 0; i < n; i++ {
		switch r.Intn(10) {
		case 0, 1, 2, 3, 4:
			fs = append(fs, kp[r.Intn(len(kp))])
		case 5:
			// a known variable-length element (string / octet array)
			for {
				f := kp[r.Intn(len(kp))]
				if f.Len == entities.VariableLength {
					fs = append(fs, f)
					break
				}
			}
		case 6:
			fs = append(fs, unknownSpec(r, uint16(1+r.Intn(12))))
		case 7:
			fs = append(fs, unknownSpec(r, entities.VariableLength))
		case 8:
			fs = append(fs, unknownSpec(r, 0))
		case 9:
			// known element announced with a reduced / different length (the registry's is used)
			f := kp[r.Intn(len(kp))]
			f.Len = uint16(r.Intn(9))
			fs = append(fs, f)
		}
	}
	return fs
}

func dataBody(r *Rng, fs []fieldSpec, nrec int, pad int) []byte {
	b := []byte{}
	for i := 0; i < nrec; i++ {
		b = append(b, recordBytes(r, fs)...)
	}
	if pad > 0 {
		b = append(b, make([]byte, pad)...)
	}
	return b
}

// c03Via presents the packets to a collecting process the way a peer does: one after the other
// on one TCP connection / from one UDP source address. The delivered messages are kept by the
// consumer and rendered only after the last one arrived, as an application that batches does:
// a delivered record must be what ITS message's bytes define, whatever was read afterwards.
// obs: one outcome per packet as in the in-process form; a packet without a delivery is "err lost".
func c03Via(proto string, mode string, pkts [][]byte, refs []string) string {
	cp, d, stop := startCollector(proto, modeOf(mode))
	stopped := false
	defer func() {
		if !stopped {
			stop()
		}
	}()
	conn, err := net.Dial(proto, cp.GetAddress().String())
	if err != nil {
		return "dial-error"
	}
	defer conn.Close()
	if proto == "tcp" {
		waitConns(cp, 1, 10*time.Second)
	}
	count := func() int { d.mu.Lock(); defer d.mu.Unlock(); return len(d.msgs) }
	for i, p := range pkts {
		if _, err := conn.Write(p); err != nil {
			break
		}
		// wait for this packet's delivery (or give up: it was rejected or lost)
		deadline := time.Now().Add(400 * time.Millisecond * slowFactor())
		for count() < i+1 && time.Now().Before(deadline) {
			time.Sleep(100 * time.Microsecond)
		}
		if count() < i+1 {
			break
		}
	}
	d.mu.Lock()
	ms := append([]*entities.Message{}, d.msgs...)
	d.mu.Unlock()
	out := []string{}
	for i := range pkts {
		switch {
		case i < len(ms):
			out = append(out, showDecoded(ms[i], nil))
		case i < len(refs) && strings.HasPrefix(refs[i], "err"):
			// not delivered, and rightly so: the bytes denote no message (the reference outcome of
			// decoding them in-process names the reason; the transport only shows "nothing came")
			out = append(out, refs[i])
		default:
			out = append(out, "err lost")
		}
	}
	// "terminates promptly ... without crashing the process": once the peer has gone the reader
	// of this connection is gone too, and the collecting process can be stopped
	if proto == "tcp" {
		conn.Close()
		if !waitConns(cp, 0, 2*time.Second*slowFactor()) {
			out[len(out)-1] = "hang connection-still-held-after-the-peer-left"
		}
		fin := make(chan struct{})
		go func() { stop(); close(fin) }()
		stopped = true
		select {
		case <-fin:
		case <-time.After(5 * time.Second * slowFactor()):
			out[len(out)-1] = "hang stop-does-not-return"
		}
	}
	return strings.Join(out, " / ")
}

// c03ViaCase: <mode> via <proto> <packets>; the per-packet reference outcomes come from the
// in-process decoder (child process) on the same history.
func c03ViaCase(pool *DecPool, c string) string {
	t := strings.Fields(c)
	ref := pool.Run("C03 " + t[0] + " " + strings.Join(t[3:], " "))
	return c03Via(t[2], t[0], parsePackets(t[3:]), strings.Split(ref, " / "))
}

func runC03(env *Env) {
	registry.LoadRegistry()
	pool := &DecPool{}
	defer pool.Close()
	if len(env.Replay) > 0 {
		for _, l := range env.Replay {
			ct := caseTokens(l)
			c := strings.Join(ct, " ")
			if len(ct) > 2 && ct[1] == "via" {
				env.Emit("C03 "+c, c03ViaCase(pool, c))
				continue
			}
			env.Emit("C03 "+c, pool.Run("C03 "+c))
		}
		return
	}
	r := env.Rng
	modes := []string{"S", "K", "D"}
	emit := func(mode string, class string, pkts ...string) {
		if pool.Tripped() {
			return
		}
		c := mode + " " + strings.Join(pkts, " ")
		env.Count(class)
		env.Emit("C03 "+c, pool.Run("C03 "+c))
	}
	hx := func(b []byte) string { return pktArg(b) }
	scale := 1
	if env.Thorough() {
		scale = 40
	}

	// --- A. structured: template state, then grammar-valid data and its neighbourhood ---
	for it := 0; it < 260*scale; it++ {
		mode := modes[r.Intn(3)]
		if r.Intn(4) != 0 {
			mode = modes[1+r.Intn(2)]
		}
		obs := uint32(r.Intn(3))
		tid := uint16(256 + r.Intn(4))
		fs := randomTemplate(r, 6)
		switch it % 13 { // degenerate shapes always present
		case 0:
			fs = nil
		case 1:
			fs = []fieldSpec{unknownSpec(r, 0)}
		case 2:
			fs = []fieldSpec{unknownSpec(r, 0), unknownSpec(r, 0)}
		case 3:
			fs = append([]fieldSpec{unknownSpec(r, entities.VariableLength)}, fs...)
		case 4:
			fs = append(fs, unknownSpec(r, entities.VariableLength))
		}
		tp := templatePkt(obs, tid, fs)
		setup := []string{hx(tp)}
		if r.Intn(5) == 0 { // an older template under the same key: replaced
			setup = append([]string{hx(templatePkt(obs, tid, randomTemplate(r, 4)))}, setup...)
		}
		if r.Intn(5) == 0 { // another key
			setup = append(setup, hx(templatePkt(obs+1, tid, randomTemplate(r, 3))))
		}
		min := minRecLen(fs)
		nrec := r.Intn(4)
		pad := 0
		if min > 1 && r.Bool() {
			pad = 1 + r.Intn(min-1)
		}
		body := dataBody(r, fs, nrec, pad)
		good := msgBytes(10, obs, uint32(it), tid, body)
		with := func(final []byte) []string { return append(append([]string{}, setup...), hx(final)) }
		emit(mode, "data/valid", with(good)...)
		// every truncation (short packets) / sampled truncations
		cuts := []int{}
		if len(good) <= 72 {
			for c := 0; c < len(good); c++ {
				cuts = append(cuts, c)
			}
		} else {
			for c := 0; c <= 24; c++ {
				cuts = append(cuts, c)
			}
			for k := 0; k < 40; k++ {
				cuts = append(cuts, 20+r.Intn(len(good)-20))
			}
		}
		for _, c := range cuts {
			emit(mode, "data/truncated", with(good[:c])...)
		}
		// extensions by 1..8 bytes
		for k := 1; k <= 8; k++ {
			emit(mode, "data/extended", with(append(append([]byte{}, good...), r.Bytes(k)...))...)
		}
		// byte mutations in the body (length prefixes among them)
		for k := 0; k < 12 && len(body) > 0; k++ {
			m := append([]byte{}, good...)
			p := 20 + r.Intn(len(body))
			m[p] = []byte{0, 1, 254, 255, byte(r.Intn(256))}[r.Intn(5)]
			emit(mode, "data/mutated-byte", with(m)...)
		}
		// header mutations: version, set id (other template / reserved ids), domain, length fields
		for k := 0; k < 6; k++ {
			m := append([]byte{}, good...)
			switch k {
			case 0:
				binary.BigEndian.PutUint16(m[0:], uint16(r.Intn(12)))
			case 1:
				binary.BigEndian.PutUint16(m[16:], uint16(r.Intn(260)))
			case 2:
				binary.BigEndian.PutUint32(m[12:], uint32(r.Intn(4)))
			case 3:
				binary.BigEndian.PutUint16(m[2:], uint16(r.Intn(65536)))
			case 4:
				binary.BigEndian.PutUint16(m[18:], uint16(r.Intn(65536)))
			case 5:
				binary.BigEndian.PutUint16(m[16:], 2) // the data body read as a template set
			}
			emit(mode, "data/mutated-header", with(m)...)
		}
		// random body under a valid header
		emit(mode, "data/random-body", with(msgBytes(10, obs, 0, tid, r.Bytes(r.Intn(40))))...)
	}

	// --- B. template sets and their neighbourhood (all three modes) ---
	for it := 0; it < 120*scale; it++ {
		mode := modes[it%3]
		obs := uint32(r.Intn(3))
		tid := uint16(256 + r.Intn(4))
		fs := randomTemplate(r, 6)
		tp := templatePkt(obs, tid, fs)
		old := hx(templatePkt(obs, tid, randomTemplate(r, 3)))
		data := hx(msgBytes(10, obs, 1, tid, dataBody(r, fs, 1+r.Intn(2), 0)))
		emit(mode, "tpl/valid", old, hx(tp), data)
		for c := 0; c < len(tp); c++ {
			emit(mode, "tpl/truncated", old, hx(tp[:c]), data)
		}
		for k := 0; k < 10; k++ {
			m := append([]byte{}, tp...)
			switch k {
			case 0:
				binary.BigEndian.PutUint16(m[22:], uint16(len(fs)+1+r.Intn(3))) // count too large
			case 1:
				binary.BigEndian.PutUint16(m[22:], uint16(r.Intn(len(fs)+1))) // count smaller
			case 2:
				binary.BigEndian.PutUint16(m[22:], 65535)
			case 3:
				binary.BigEndian.PutUint16(m[22:], 0)
			default:
				if len(m) > 24 {
					p := 24 + r.Intn(len(m)-24)
					m[p] ^= byte(1 << uint(r.Intn(8)))
				}
			}
			emit(mode, "tpl/mutated", old, hx(m), data)
		}
		// more than one record in the set / trailing bytes after the first record
		two := append(append([]byte{}, tp...), templateBody(tid+1, 1, []fieldSpec{knownPool()[r.Intn(len(knownPool()))]})...)
		emit(mode, "tpl/two-records", hx(two), data)
		emit(mode, "tpl/trailing", hx(append(append([]byte{}, tp...), r.Bytes(1+r.Intn(6))...)), data)
		// enterprise bit with enterprise number 0, unsupported types (dateTimeMicroseconds, basicList, id 0)
		odd := []fieldSpec{{ID: uint16(1 + r.Intn(400)), Ent: 0, Len: 4, ForceEB: true}, {ID: 154, Len: 8}, {ID: 291, Len: 65535}, {ID: 0, Len: 0}, {ID: 416, Len: 0}}
		o := odd[r.Intn(len(odd))]
		emit(mode, "tpl/odd-element", old, hx(templatePkt(obs, tid, append(append([]fieldSpec{}, fs...), o))), data)
	}

	// --- C. unstructured: random bytes against a populated table ---
	for it := 0; it < 1500*scale; it++ {
		mode := modes[r.Intn(3)]
		fs := randomTemplate(r, 3)
		setup := hx(templatePkt(0, 256, fs))
		n := r.Intn(64)
		b := r.Bytes(n)
		if n >= 2 && r.Intn(4) != 0 {
			binary.BigEndian.PutUint16(b[0:], 10)
		}
		if n >= 18 && r.Bool() {
			binary.BigEndian.PutUint32(b[12:], 0)
			binary.BigEndian.PutUint16(b[16:], []uint16{256, 2, 2, 257, 0}[r.Intn(5)])
		}
		emit(mode, "random", setup, hx(b))
	}

	// --- E. sessions through the transports: a template, then several valid data messages of
	// different sizes (octetArray / string / unknown fields among them) on one connection; the
	// deliveries are looked at after the last one was read ---
	runts := 0
	for it := 0; it < 90*scale && !pool.Tripped(); it++ {
		mode := modes[it%3]
		proto := []string{"tcp", "tcp", "udp"}[(it/3)%3]
		obs := uint32(r.Intn(3))
		tid := uint16(256 + r.Intn(4))
		fs := randomTemplate(r, 5)
		fs = append(fs, fieldSpec{ID: 95, Len: 65535, DT: entities.OctetArray, Known: true})
		if it%2 == 0 {
			fs = append(fs, unknownSpec(r, entities.VariableLength), fieldSpec{ID: 82, Len: 65535, DT: entities.String, Known: true})
		}
		pkts := [][]byte{templatePkt(obs, tid, fs)}
		for k, n := 0, 2+r.Intn(4); k < n; k++ {
			pkts = append(pkts, msgBytes(10, obs, uint32(k), tid, dataBody(r, fs, 1+r.Intn(3), 0)))
		}
		// the in-process decoder decides whether every packet is acceptable in this mode (a strict
		// collector refuses the unknown element): only then is the session put on a transport
		args := []string{}
		for _, p := range pkts {
			args = append(args, hx(p))
		}
		ref := pool.Run("C03 " + mode + " " + strings.Join(args, " "))
		if strings.Contains(ref, "err") || strings.Contains(ref, "panic") || strings.Contains(ref, "hang") {
			env.Count("session/not-acceptable-in-mode")
			continue
		}
		class := "session/" + proto
		if proto == "tcp" && r.Bool() {
			// the session ends with bytes that denote no message: a message whose length field
			// (0..15) is shorter than a message header - the peer was cut off, or is hostile -
			// or a data message cut inside a record with consistent length fields. The reader
			// must reject it, let go of the connection, and the process must still stop.
			var bad []byte
			if r.Bool() {
				l := []int{0, 1, 3, 4, 15, 0, 8}[runts%7] // every boundary on every run
				runts++
				n := l
				if n < 4 {
					n = 4
				}
				bad = append([]byte{}, pkts[1][:n]...)
				binary.BigEndian.PutUint16(bad[2:], uint16(l))
				class = "session/tcp-ends-with-runt-message"
			} else {
				g := pkts[len(pkts)-1]
				cut := 21 + r.Intn(len(g)-21)
				bad = append([]byte{}, g[:cut]...)
				binary.BigEndian.PutUint16(bad[2:], uint16(cut))
				binary.BigEndian.PutUint16(bad[18:], uint16(cut-16))
				class = "session/tcp-ends-with-cut-record"
			}
			withBad := append(append([]string{}, args...), hx(bad))
			ref2 := strings.Split(pool.Run("C03 "+mode+" "+strings.Join(withBad, " ")), " / ")
			if len(ref2) == len(withBad) && strings.HasPrefix(ref2[len(ref2)-1], "err") {
				args = withBad
			} else {
				class = "session/tcp" // the cut fell on a record boundary: still a message
			}
		}
		c := mode + " via " + proto + " " + strings.Join(args, " ")
		env.Count(class)
		env.Emit("C03 "+c, c03ViaCase(pool, c))
	}

	// --- D. large bodies: many records, long variable-length fields (pat atoms) ---
	for it := 0; it < 6*scale; it++ {
		mode := modes[1+r.Intn(2)]
		hdr := func(tid uint16) string { return "hex " + hex.EncodeToString(msgBytes(10, 0, 0, tid, nil)) }
		u8 := fieldSpec{ID: 4, Len: 1, DT: entities.Unsigned8, Known: true}
		u16 := fieldSpec{ID: 7, Len: 2, DT: entities.Unsigned16, Known: true}
		str := fieldSpec{ID: 82, Len: 65535, DT: entities.String, Known: true}
		switch it % 3 {
		case 0:
			emit(mode, "large/many-records", hx(templatePkt(0, 300, []fieldSpec{u8, u16})),
				fmt.Sprintf("%s pat %d %d ;", hdr(300), 2000+r.Intn(3000), r.Intn(1<<20)))
		case 1:
			n := 60000 + r.Intn(5000)
			emit(mode, "large/long-string", hx(templatePkt(0, 301, []fieldSpec{str, u16})),
				fmt.Sprintf("%s hex ff%04x pat %d %d hex 0102 ;", hdr(301), n, n, r.Intn(1<<20)))
		case 2:
			n := 60000 + r.Intn(5000)
			emit(mode, "large/long-string-short", hx(templatePkt(0, 301, []fieldSpec{str, u16})),
				fmt.Sprintf("%s hex ff%04x pat %d %d ;", hdr(301), n+1+r.Intn(400), n, r.Intn(1<<20)))
		}
	}
}
