// C14: exporter background activity and lifecycle (pkg/exporter/process.go).
//
// Real ExportingProcess against a peer socket owned by the harness.
//
//	udp refresh   1 s template refresh; the application registers templates, then sends data sets
//	              continuously and densely around the ticks, registers one more template after the
//	              first refresh round, then 1-4 goroutines call CloseConnToCollector repeatedly
//	              while the application keeps sending; afterwards more sends (must fail).
//	tcp peer      50 ms connection check (ExporterInput.CheckConnInterval); the peer reads some
//	              whole messages and closes; the application sends until the first error and then
//	              some more (all must fail); then close.
//	udp/tcp close close racing with sends, immediately.
//
// Waits are logical (a counter reaching a target) under generous watchdogs whose expiry never
// alarms by itself. Observation: the application's log (set kind, template id, records, unique
// id, result class) and the messages at the peer in arrival order, each parsed as one whole
// length-framed IPFIX message (well-formedness flag, sequence number, set id, first record id).
// The extracted Coq oracle (Driver/C14drv.v) accepts or rejects the trace. A final line reports
// goroutines started by InitExportingProcess that are still alive after all closes.
// Built with -race the same runner is the race soak (bin/c14_race): F8 (seqNumber) shows there.
package main

import (
	"encoding/binary"
	"fmt"
	"io"
	"net"
	"runtime"
	"strings"
	"sync"
	"sync/atomic"
	"time"

	"github.com/vmware/go-ipfix/pkg/entities"
	"github.com/vmware/go-ipfix/pkg/exporter"
	"github.com/vmware/go-ipfix/pkg/registry"
)

func init() { register("C14", runC14) }

type c14entry struct {
	kind byte // T D
	tid  uint16
	nrec int
	id   uint64
	res  string // ok | ec (sanity check) | ew (write / other)
}

type c14msg struct {
	kind byte
	tid  uint16
	nrec int
	seq  uint32
	id   uint64
	wf   bool
}

// c14parse: one whole message (a UDP datagram or one length-framed TCP message)
func c14parse(b []byte) c14msg {
	m := c14msg{kind: '?'}
	if len(b) < 20 {
		return m
	}
	version := binary.BigEndian.Uint16(b[0:])
	length := int(binary.BigEndian.Uint16(b[2:]))
	m.seq = binary.BigEndian.Uint32(b[8:])
	setID := binary.BigEndian.Uint16(b[16:])
	setLen := int(binary.BigEndian.Uint16(b[18:]))
	m.wf = version == 10 && length == len(b) && 16+setLen == length
	body := b[20:]
	switch {
	case setID == 2:
		m.kind = 'T'
		if len(body) >= 4 {
			m.tid = binary.BigEndian.Uint16(body[0:])
			fc := int(binary.BigEndian.Uint16(body[2:]))
			m.nrec = 1
			m.wf = m.wf && fc == 1 && len(body) == 4+4*fc
		} else {
			m.wf = false
		}
	case setID >= 256:
		m.kind = 'D'
		m.tid = setID
		m.nrec = len(body) / 8
		m.wf = m.wf && len(body)%8 == 0 && m.nrec >= 1
		if len(body) >= 8 {
			m.id = binary.BigEndian.Uint64(body[0:])
		}
	default:
		m.wf = false
	}
	return m
}

type c14peer struct {
	mu    sync.Mutex
	msgs  []c14msg
	ntmpl atomic.Int64
	nall  atomic.Int64
	junk  atomic.Int64 // bytes that are not part of a whole message (tcp)
}

func (p *c14peer) add(m c14msg) {
	p.mu.Lock()
	p.msgs = append(p.msgs, m)
	p.mu.Unlock()
	if m.kind == 'T' {
		p.ntmpl.Add(1)
	}
	p.nall.Add(1)
}

func (p *c14peer) snapshot() []c14msg {
	p.mu.Lock()
	defer p.mu.Unlock()
	return append([]c14msg{}, p.msgs...)
}

// waitFor: logical wait with a watchdog; the result only says whether the target was reached
func waitFor(limit time.Duration, cond func() bool) bool {
	dl := time.Now().Add(limit)
	for !cond() {
		if time.Now().After(dl) {
			return false
		}
		time.Sleep(200 * time.Microsecond)
	}
	return true
}

// drain: wait until the peer has been quiet for a while
func (p *c14peer) drain() {
	last := p.nall.Load()
	quiet := time.Now()
	for time.Since(quiet) < 60*time.Millisecond {
		time.Sleep(5 * time.Millisecond)
		if n := p.nall.Load(); n != last {
			last, quiet = n, time.Now()
		}
	}
}

var c14odc *entities.InfoElement
var c14once sync.Once

func c14elems(v uint64) []entities.InfoElementWithValue {
	c14once.Do(func() {
		registry.LoadRegistry()
		ie, err := registry.GetInfoElement("octetDeltaCount", registry.IANAEnterpriseID)
		if err != nil {
			panic(err)
		}
		c14odc = ie
	})
	return []entities.InfoElementWithValue{entities.NewUnsigned64InfoElement(c14odc, v)}
}

type c14app struct {
	ep   *exporter.ExportingProcess
	log  []c14entry
	next uint64
	tids []uint16
}

func c14class(err error) string {
	if err == nil {
		return "ok"
	}
	if strings.Contains(err.Error(), "sanity check") {
		return "ec"
	}
	return "ew"
}

func (a *c14app) sendTemplate() {
	tid := a.ep.NewTemplateID()
	set := entities.NewSet(false)
	set.PrepareSet(entities.Template, tid)
	set.AddRecord(c14elems(0), tid)
	_, err := a.ep.SendSet(set)
	a.log = append(a.log, c14entry{'T', tid, 1, 0, c14class(err)})
	a.tids = append(a.tids, tid)
}

func (a *c14app) sendData(rng *Rng) string {
	tid := a.tids[rng.Intn(len(a.tids))]
	n := 1 + rng.Intn(3)
	set := entities.NewSet(false)
	set.PrepareSet(entities.Data, tid)
	a.next++
	id := a.next
	for i := 0; i < n; i++ {
		set.AddRecord(c14elems(id+uint64(i)<<40), tid)
	}
	_, err := a.ep.SendSet(set)
	res := c14class(err)
	a.log = append(a.log, c14entry{'D', tid, n, id, res})
	return res
}

func c14emit(env *Env, out *sync.Mutex, proto, scen string, closers int, a *c14app, p *c14peer, panics int64, extra string) {
	var c, o strings.Builder
	fmt.Fprintf(&c, "C14 %s %s %d A %d", proto, scen, closers, len(a.log))
	for _, e := range a.log {
		fmt.Fprintf(&c, " %c %d %d %d %s", e.kind, e.tid, e.nrec, e.id, e.res)
	}
	msgs := p.snapshot()
	fmt.Fprintf(&o, "W %d", len(msgs))
	for _, m := range msgs {
		fmt.Fprintf(&o, " %c %d %d %d %d %s", m.kind, m.tid, m.nrec, m.seq, m.id, ShowBool(m.wf))
	}
	fmt.Fprintf(&o, " J %d P %d%s", p.junk.Load(), panics, extra)
	out.Lock()
	env.Emit(c.String(), o.String())
	env.Count(proto + " " + scen)
	out.Unlock()
}

func c14closers(ep *exporter.ExportingProcess, n int, panics *atomic.Int64) *sync.WaitGroup {
	var wg sync.WaitGroup
	for i := 0; i < n; i++ {
		wg.Add(1)
		go func() {
			defer wg.Done()
			defer func() {
				if r := recover(); r != nil {
					panics.Add(1)
				}
			}()
			for j := 0; j < 3; j++ {
				ep.CloseConnToCollector()
			}
		}()
	}
	return &wg
}

func c14udpPeer() (*net.UDPConn, *c14peer) {
	conn, err := net.ListenUDP("udp", &net.UDPAddr{IP: net.IPv4(127, 0, 0, 1)})
	if err != nil {
		panic(err)
	}
	conn.SetReadBuffer(8 << 20)
	p := &c14peer{}
	go func() {
		buf := make([]byte, 65536)
		for {
			n, _, err := conn.ReadFromUDP(buf)
			if err != nil {
				return
			}
			p.add(c14parse(append([]byte{}, buf[:n]...)))
		}
	}()
	return conn, p
}

// udp: refresh = run through two refresh rounds first; otherwise close races with the first sends
func c14udp(env *Env, out *sync.Mutex, rng *Rng, refresh bool, closers int) {
	conn, p := c14udpPeer()
	defer conn.Close()
	ep, err := exporter.InitExportingProcess(exporter.ExporterInput{
		CollectorAddress: conn.LocalAddr().String(), CollectorProtocol: "udp", ObservationDomainID: 1, TempRefTimeout: 1})
	if err != nil {
		panic(err)
	}
	start := time.Now()
	a := &c14app{ep: ep}
	k := 2 + rng.Intn(2)
	for i := 0; i < k; i++ {
		a.sendTemplate()
	}
	pace := func() {
		// dense around the expected ticks (every second after start), sparse otherwise
		ph := time.Since(start) % time.Second
		if ph > 850*time.Millisecond || ph < 150*time.Millisecond {
			time.Sleep(150 * time.Microsecond)
		} else {
			time.Sleep(4 * time.Millisecond)
		}
	}
	scen := "close"
	if refresh {
		scen = "refresh"
		target := int64(2 * k)
		waitFor(6*time.Second, func() bool { a.sendData(rng); pace(); return p.ntmpl.Load() >= target })
		a.sendTemplate()
		target += int64(1 + k + 1)
		waitFor(6*time.Second, func() bool { a.sendData(rng); pace(); return p.ntmpl.Load() >= target })
	} else {
		for i := rng.Intn(20); i > 0; i-- {
			a.sendData(rng)
		}
	}
	var panics atomic.Int64
	cw := c14closers(ep, closers, &panics)
	fails := 0
	waitFor(10*time.Second, func() bool {
		if a.sendData(rng) != "ok" {
			fails++
		} else {
			fails = 0
		}
		return fails >= 10
	})
	cw.Wait()
	// every close has returned: these sends must fail, and none of them may reach the peer (the
	// oracle compares the data messages at the peer with the sends logged as successful)
	for i := 0; i < 20; i++ {
		a.sendData(rng)
	}
	a.sendTemplate()
	p.drain()
	extra := ""
	c14emit(env, out, "udp", scen, closers, a, p, panics.Load(), extra)
}

func c14tcp(env *Env, out *sync.Mutex, rng *Rng, peerClose bool, closers int) {
	ln, err := net.Listen("tcp", "127.0.0.1:0")
	if err != nil {
		panic(err)
	}
	defer ln.Close()
	p := &c14peer{}
	stopAfter := int64(3 + rng.Intn(30))
	peerDone := make(chan struct{})
	go func() {
		defer close(peerDone)
		c, err := ln.Accept()
		if err != nil {
			return
		}
		defer c.Close()
		hdr := make([]byte, 4)
		for {
			if peerClose && p.nall.Load() >= stopAfter {
				return // the peer closes its side at a message boundary
			}
			if _, err := io.ReadFull(c, hdr); err != nil {
				if err != io.EOF {
					p.junk.Add(1)
				}
				return
			}
			l := int(binary.BigEndian.Uint16(hdr[2:]))
			if l < 4 {
				p.junk.Add(1)
				return
			}
			b := make([]byte, l)
			copy(b, hdr)
			if _, err := io.ReadFull(c, b[4:]); err != nil {
				p.junk.Add(int64(l))
				return
			}
			p.add(c14parse(b))
		}
	}()
	ep, err := exporter.InitExportingProcess(exporter.ExporterInput{
		CollectorAddress: ln.Addr().String(), CollectorProtocol: "tcp", ObservationDomainID: 1,
		CheckConnInterval: 50 * time.Millisecond})
	if err != nil {
		panic(err)
	}
	a := &c14app{ep: ep}
	a.sendTemplate()
	if rng.Bool() {
		a.sendTemplate()
	}
	scen := "close"
	extra := ""
	var panics atomic.Int64
	if peerClose {
		scen = "peer"
		// send until the collector-side close has been noticed: the first failing send
		noticed := waitFor(15*time.Second, func() bool {
			r := a.sendData(rng)
			time.Sleep(300 * time.Microsecond)
			return r != "ok"
		})
		if !noticed {
			extra += " peer-close-never-noticed"
		}
		for i := 0; i < 20; i++ {
			a.sendData(rng)
		}
		c14closers(ep, closers, &panics).Wait()
	} else {
		for i := rng.Intn(40); i > 0; i-- {
			a.sendData(rng)
		}
		cw := c14closers(ep, closers, &panics)
		fails := 0
		waitFor(10*time.Second, func() bool {
			if a.sendData(rng) != "ok" {
				fails++
			} else {
				fails = 0
			}
			return fails >= 10
		})
		cw.Wait()
	}
	select {
	case <-peerDone:
	case <-time.After(10 * time.Second):
		extra += " peer-reader-stuck"
	}
	for i := 0; i < 5; i++ {
		a.sendData(rng)
	}
	c14emit(env, out, "tcp", scen, closers, a, p, panics.Load(), extra)
}

// c14tcpIdle runs alone (no other exporter alive): the peer closes while the application is
// idle; the connection checker must notice (its goroutine ends: logical wait) and the first
// send afterwards must fail.
func c14tcpIdle(env *Env, out *sync.Mutex, rng *Rng) {
	ln, err := net.Listen("tcp", "127.0.0.1:0")
	if err != nil {
		panic(err)
	}
	defer ln.Close()
	p := &c14peer{}
	peerDone := make(chan struct{})
	closeNow := make(chan struct{})
	go func() {
		defer close(peerDone)
		c, err := ln.Accept()
		if err != nil {
			return
		}
		defer c.Close()
		hdr := make([]byte, 4)
		for {
			select {
			case <-closeNow:
				return
			default:
			}
			c.SetReadDeadline(time.Now().Add(5 * time.Millisecond))
			if _, err := io.ReadFull(c, hdr[:1]); err != nil {
				if ne, ok := err.(net.Error); ok && ne.Timeout() {
					continue
				}
				return
			}
			c.SetReadDeadline(time.Time{})
			if _, err := io.ReadFull(c, hdr[1:]); err != nil {
				p.junk.Add(1)
				return
			}
			l := int(binary.BigEndian.Uint16(hdr[2:]))
			if l < 4 {
				p.junk.Add(1)
				return
			}
			b := make([]byte, l)
			copy(b, hdr)
			if _, err := io.ReadFull(c, b[4:]); err != nil {
				p.junk.Add(int64(l))
				return
			}
			p.add(c14parse(b))
		}
	}()
	ep, err := exporter.InitExportingProcess(exporter.ExporterInput{
		CollectorAddress: ln.Addr().String(), CollectorProtocol: "tcp", ObservationDomainID: 1,
		CheckConnInterval: 50 * time.Millisecond})
	if err != nil {
		panic(err)
	}
	a := &c14app{ep: ep}
	a.sendTemplate()
	nsend := int64(1 + rng.Intn(5))
	for i := int64(0); i < nsend; i++ {
		a.sendData(rng)
	}
	waitFor(5*time.Second, func() bool { return p.nall.Load() >= nsend+1 })
	close(closeNow)
	<-peerDone
	extra := ""
	// the application is idle: only the connection checker can notice
	if !waitFor(10*time.Second, func() bool { return c14background() == 0 }) {
		extra += " peer-close-never-noticed"
	}
	for i := 0; i < 5; i++ {
		if a.sendData(rng) == "ok" && extra == "" {
			extra += " send-succeeded-after-the-checker-noticed-the-peer-close"
		}
	}
	var panics atomic.Int64
	c14closers(ep, 2, &panics).Wait()
	c14emit(env, out, "tcp", "idle", 2, a, p, panics.Load(), extra)
}

// ---------------------------------------------------------------------------------- close / wait
// c14gate wraps the exporter's connection (hook VerifWrapConn). Once armed, the next Write - the
// template refresher's: the application does not send while the gate is armed - is held until
// the harness releases it. The wrapper also sees when conn.Close is called (the closing call is
// past its Swap) and counts bytes that a write STARTED after some CloseConnToCollector call had
// returned managed to put on the wire.
type c14gate struct {
	net.Conn
	armed       atomic.Bool
	enteredOnce sync.Once
	entered     chan struct{}
	release     chan struct{}
	closeOnce   sync.Once
	closeCalled chan struct{}
	returned    atomic.Int64 // CloseConnToCollector calls that have returned
	lateBytes   atomic.Int64
}

func (g *c14gate) Write(b []byte) (int, error) {
	late := g.returned.Load() > 0
	if g.armed.Load() {
		g.enteredOnce.Do(func() { close(g.entered) })
		<-g.release
	}
	n, err := g.Conn.Write(b)
	if late && err == nil && n > 0 {
		g.lateBytes.Add(int64(n))
	}
	return n, err
}

func (g *c14gate) Close() error {
	g.closeOnce.Do(func() { close(g.closeCalled) })
	return g.Conn.Close()
}

// c14closeWait: "closing stops all background work" for EVERY CloseConnToCollector call. The
// refresher is held inside a Write; a first CloseConnToCollector is started and has reached
// conn.Close; then `more` further goroutines call CloseConnToCollector. While the refresher is
// still running none of these calls may return (one-sided timing: on a correct tree they block
// for as long as the gate is shut; a wrong tree returns within microseconds). After the release
// every call must return, the refresher must be gone, and nothing may have been written by a
// write that started after a close had returned.
func c14closeWait(env *Env, out *sync.Mutex, rng *Rng, more int) {
	conn, p := c14udpPeer()
	defer conn.Close()
	ep, err := exporter.InitExportingProcess(exporter.ExporterInput{
		CollectorAddress: conn.LocalAddr().String(), CollectorProtocol: "udp", ObservationDomainID: 1, TempRefTimeout: 1})
	if err != nil {
		panic(err)
	}
	g := &c14gate{entered: make(chan struct{}), release: make(chan struct{}), closeCalled: make(chan struct{})}
	ep.VerifWrapConn(func(c net.Conn) net.Conn { g.Conn = c; return g })
	a := &c14app{ep: ep}
	k := 1 + rng.Intn(3)
	for i := 0; i < k; i++ {
		a.sendTemplate()
	}
	for i := rng.Intn(4); i > 0; i-- {
		a.sendData(rng)
	}
	g.armed.Store(true)
	var reasons []string
	var panics atomic.Int64
	inWrite := false
	select {
	case <-g.entered:
		inWrite = true
	case <-time.After(8 * time.Second):
		// no refresh tick within 8 s: nothing to observe (the refresh scenarios report that)
	}
	done := make(chan int, 1+more)
	closer := func(id int) {
		defer func() {
			if r := recover(); r != nil {
				panics.Add(1)
			}
			g.returned.Add(1)
			done <- id
		}()
		ep.CloseConnToCollector()
	}
	go closer(0)
	select {
	case <-g.closeCalled:
	case <-time.After(8 * time.Second):
		reasons = append(reasons, "CloseConnToCollector-did-not-close-the-connection")
	}
	for i := 1; i <= more; i++ {
		go closer(i)
	}
	returnedEarly := 0
	if inWrite {
		// the refresher is inside Write: background work is still running
		timer := time.After(300 * time.Millisecond)
	wait:
		for {
			select {
			case <-done:
				returnedEarly++
			case <-timer:
				break wait
			}
		}
		if returnedEarly > 0 {
			reasons = append(reasons, "a-CloseConnToCollector-call-returned-while-a-background-goroutine-was-still-running")
		}
	}
	close(g.release)
	pending := 1 + more - returnedEarly
	deadline := time.After(15 * time.Second)
	for pending > 0 {
		select {
		case <-done:
			pending--
		case <-deadline:
			reasons = append(reasons, "a-CloseConnToCollector-call-did-not-return")
			pending = 0
		}
	}
	// every close has returned: the sends must fail and nothing more may reach the peer
	for i := 0; i < 5; i++ {
		a.sendData(rng)
	}
	p.drain()
	if g.lateBytes.Load() > 0 {
		reasons = append(reasons, "bytes-were-written-by-a-write-started-after-a-CloseConnToCollector-call-returned")
	}
	extra := ""
	if len(reasons) > 0 {
		extra = " " + reasons[0]
	}
	if inWrite {
		out.Lock()
		env.Count("closewait: refresher held inside Write")
		out.Unlock()
	}
	c14emit(env, out, "udp", "closewait", 1+more, a, p, panics.Load(), extra)
}

func c14background() int {
	buf := make([]byte, 1<<22)
	n := runtime.Stack(buf, true)
	return strings.Count(string(buf[:n]), "exporter.InitExportingProcess.func")
}

func runC14(env *Env) {
	var out sync.Mutex
	var wg sync.WaitGroup
	type job func(rng *Rng)
	var jobs []job
	nrefresh, nclose, npeer, nwait := 6, 64, 16, 4
	if env.Thorough() {
		nrefresh, nclose, npeer, nwait = 12, 400, 60, 16
	}
	if len(env.Replay) > 0 {
		nrefresh, nclose, npeer, nwait = 0, 0, 0, 0
		for _, l := range env.Replay {
			t := strings.Fields(l)
			if len(t) < 4 || t[0] != "C14" {
				continue
			}
			switch t[1] + " " + t[2] {
			case "udp refresh":
				nrefresh += 2
			case "udp closewait":
				nwait += 2
			case "tcp peer", "tcp half":
				npeer += 8
			default:
				nclose += 16
			}
		}
	}
	for i := 0; i < nrefresh; i++ {
		c := 1 + i%4
		jobs = append(jobs, func(rng *Rng) { c14udp(env, &out, rng, true, c) })
	}
	for i := 0; i < nwait; i++ {
		c := 1 + i%3
		jobs = append(jobs, func(rng *Rng) { c14closeWait(env, &out, rng, c) })
	}
	for i := 0; i < nclose; i++ {
		c := 1 + i%4
		if i%2 == 0 {
			jobs = append(jobs, func(rng *Rng) { c14udp(env, &out, rng, false, c) })
		} else {
			jobs = append(jobs, func(rng *Rng) { c14tcp(env, &out, rng, false, c) })
		}
	}
	for i := 0; i < npeer; i++ {
		c := 1 + i%3
		jobs = append(jobs, func(rng *Rng) { c14tcp(env, &out, rng, true, c) })
	}
	for i := 0; i < npeer/2; i++ {
		c := 1 + i%3
		jobs = append(jobs, func(rng *Rng) { c14tcpHalf(env, &out, rng, c) })
	}
	if nrefresh > 0 {
		jobs = append(jobs, func(rng *Rng) { c14json(env, &out, rng) }, func(rng *Rng) { c14json(env, &out, rng) })
		jobs = append(jobs, func(rng *Rng) { c14burst(env, &out) }, func(rng *Rng) { c14burst(env, &out) })
		jobs = append(jobs, func(rng *Rng) { c14tcpSlow(env, &out, rng) }, func(rng *Rng) { c14tcpSlow(env, &out, rng) })
	}
	sem := make(chan struct{}, 8)
	for i, j := range jobs {
		rng := NewRng(env.Seed*1000003 + uint64(i))
		wg.Add(1)
		sem <- struct{}{}
		go func(j job, rng *Rng) {
			defer wg.Done()
			defer func() { <-sem }()
			j(rng)
		}(j, rng)
	}
	wg.Wait()
	// every exporter has been closed: its background goroutines must be gone (logical wait)
	waitFor(10*time.Second, func() bool { return c14background() == 0 })
	if c14background() == 0 && (len(env.Replay) == 0 || npeer > 0) {
		for i := 0; i < 3; i++ {
			c14tcpIdle(env, &out, NewRng(env.Seed*7+uint64(i)))
		}
		waitFor(10*time.Second, func() bool { return c14background() == 0 })
	}
	out.Lock()
	env.Emit("C14 leak", fmt.Sprintf("G %d", c14background()))
	out.Unlock()
}
