// C14: exporter background activity and lifecycle (pkg/exporter/process.go).
//
// Real ExportingProcess against a peer socket owned by the harness.
//
//	udp refresh   1 s template refresh; the application registers templates, then sends data sets
//	              continuously and densely around the ticks, registers one more template after the
//	              first refresh round, then 1-4 goroutines call CloseConnToCollector repeatedly
//	              while the application keeps sending; afterwards more sends (must fail).
//	tcp peer      50 ms connection check (ExporterInput.CheckConnInterval); the peer reads some
//	              whole messages and closes; the application sends until the first error and then
//	              some more (all must fail); then close.
//	udp/tcp close close racing with sends, immediately.
//
// Waits are logical (a counter reaching a target) under generous watchdogs whose expiry never
// alarms by itself. Observation: the application's log (set kind, template id, records, unique
// id, result class) and the messages at the peer in arrival order, each parsed as one whole
// length-framed IPFIX message (well-formedness flag, sequence number, set id, first record id).
// The extracted Coq oracle (Driver/C14drv.v) accepts or rejects the trace. A final line reports
// goroutines started by InitExportingProcess that are still alive after all closes.
// Built with -race the same runner is the race soak (bin/c14_race): F8 (seqNumber) shows there.
package main

import (
	"encoding/binary"
	"fmt"
	"io"
	"net"
	"runtime"
	"strings"
	"sync"
	"sync/atomic"
	"time"

	"github.com/vmware/go-ipfix/pkg/entities"
	"github.com/vmware/go-ipfix/pkg/exporter"
	"github.com/vmware/go-ipfix/pkg/registry"
)

func init() { register("C14", runC14) }

type c14entry struct {
	kind byte // T D
	tid  uint16
	nrec int
	id   uint64
	res  string // ok | ec (sanity check) | ew (write / other)
}

type c14msg struct {
	kind byte
	tid  uint16
	nrec int
	seq  uint32
	id   uint64
	wf   bool
}

// c14parse: one whole message (a UDP datagram or one length-framed TCP message)
func c14parse(b []byte) c14msg {
	m := c14msg{kind: '?'}
	if len(b) < 20 {
		return m
	}
	version := binary.BigEndian.Uint16(b[0:])
	length := int(binary.BigEndian.Uint16(b[2:]))
	m.seq = binary.BigEndian.Uint32(b[8:])
	setID := binary.BigEndian.Uint16(b[16:])
	setLen := int(binary.BigEndian.Uint16(b[18:]))
	m.wf = version == 10 && length == len(b) && 16+setLen == length
	body := b[20:]
	switch {
	case setID == 2:
		m.kind = 'T'
		if len(body) >= 4 {
			m.tid = binary.BigEndian.Uint16(body[0:])
			fc := int(binary.BigEndian.Uint16(body[2:]))
			m.nrec = 1
			m.wf = m.wf && fc == 1 && len(body) == 4+4*fc
		} else {
			m.wf = false
		}
	case setID >= 256:
		m.kind = 'D'
		m.tid = setID
		m.nrec = len(body) / 8
		m.wf = m.wf && len(body)%8 == 0 && m.nrec >= 1
		if len(body) >= 8 {
			m.id = binary.BigEndian.Uint64(body[0:])
		}
	default:
		m.wf = false
	}
	return m
}

type c14peer struct {
	mu    sync.Mutex
	msgs  []c14msg
	ntmpl atomic.Int64
	nall  atomic.Int64
	junk  atomic.Int64 // bytes that are not part of a whole message (tcp)
}

func (p *c14peer) add(m c14msg) {
	p.mu.Lock()
	p.msgs = append(p.msgs, m)
	p.mu.Unlock()
	if m.kind == 'T' {
		p.ntmpl.Add(1)
	}
	p.nall.Add(1)
}

func (p *c14peer) snapshot() []c14msg {
	p.mu.Lock()
	defer p.mu.Unlock()
	return append([]c14msg{}, p.msgs...)
}

// waitFor: logical wait with a watchdog; the result only says whether the target was reached
func waitFor(limit time.Duration, cond func() bool) bool {
	dl := time.Now().Add(limit)
	for !cond() {
		if time.Now().After(dl) {
			return false
		}
		time.Sleep(200 * time.Microsecond)
	}
	return true
}

// drain: wait until the peer has been quiet for a while
func (p *c14peer) drain() {
	last := p.nall.Load()
	quiet := time.Now()
	for time.Since(quiet) < 60*time.Millisecond {
		time.Sleep(5 * time.Millisecond)
		if n := p.nall.Load(); n != last {
			last, quiet = n, time.Now()
		}
	}
}

var c14odc *entities.InfoElement
var c14once sync.Once

func c14elems(v uint64) []entities.InfoElementWithValue {
	c14once.Do(func() {
		registry.LoadRegistry()
		ie, err := registry.GetInfoElement("octetDeltaCount", registry.IANAEnterpriseID)
		if err != nil {
			panic(err)
		}
		c14odc = ie
	})
	return []entities.InfoElementWithValue{entities.NewUnsigned64InfoElement(c14odc, v)}
}

type c14app struct {
	ep   *exporter.ExportingProcess
	log  []c14entry
	next uint64
	tids []uint16
}

func c14class(err error) string {
	if err == nil {
		return "ok"
	}
	if strings.Contains(err.Error(), "sanity check") {
		return "ec"
	}
	return "ew"
}

func (a *c14app) sendTemplate() {
	tid := a.ep.NewTemplateID()
	set := entities.NewSet(false)
	set.PrepareSet(entities.Template, tid)
	set.AddRecord(c14elems(0), tid)
	_, err := a.ep.SendSet(set)
	a.log = append(a.log, c14entry{'T', tid, 1, 0, c14class(err)})
	a.tids = append(a.tids, tid)
}

func (a *c14app) sendData(rng *Rng) string {
	tid := a.tids[rng.Intn(len(a.tids))]
	n := 1 + rng.Intn(3)
	set := entities.NewSet(false)
	set.PrepareSet(entities.Data, tid)
	a.next++
	id := a.next
	for i := 0; i < n; i++ {
		set.AddRecord(c14elems(id+uint64(i)<<40), tid)
	}
	_, err := a.ep.SendSet(set)
	res := c14class(err)
	a.log = append(a.log, c14entry{'D', tid, n, id, res})
	return res
}

func c14emit(env *Env, out *sync.Mutex, proto, scen string, closers int, a *c14app, p *c14peer, panics int64, extra string) {
	var c, o strings.Builder
	fmt.Fprintf(&c, "C14 %s %s %d A %d", proto, scen, closers, len(a.log))
	for _, e := range a.log {
		fmt.Fprintf(&c, " %c %d %d %d %s", e.kind, e.tid, e.nrec, e.id, e.res)
	}
	msgs := p.snapshot()
	fmt.Fprintf(&o, "W %d", len(msgs))
	for _, m := range msgs {
		fmt.Fprintf(&o, " %c %d %d %d %d %s", m.kind, m.tid, m.nrec, m.seq, m.id, ShowBool(m.wf))
	}
	fmt.Fprintf(&o, " J %d P %d%s", p.junk.Load(), panics, extra)
	out.Lock()
	env.Emit(c.String(), o.String())
	env.Count(proto + " " + scen)
	out.Unlock()
}

func c14closers(ep *exporter.ExportingProcess, n int, panics *atomic.Int64) *sync.WaitGroup {
	var wg sync.WaitGroup
	for i := 0; i < n; i++ {
		wg.Add(1)
		go func() {
			defer wg.Done()
			defer func() {
				if r := recover(); r != nil {
					panics.Add(1)
				}
			}()
			for j := 0; j < 3; j++ {
				ep.CloseConnToCollector()
			}
		}()
	}
	return &wg
}

func c14udpPeer() (*net.UDPConn, *c14peer) {
	conn, err := net.ListenUDP("udp", &net.UDPAddr{IP: net.IPv4(127, 0, 0, 1)})
	if err != nil {
		panic(err)
	}
	conn.SetReadBuffer(8 << 20)
	p := &c14peer{}
	go func() {
		buf := make([]byte, 65536)
		for {
			n, _, err := conn.ReadFromUDP(buf)
			if err != nil {
				return
			}
			p.add(c14parse(append([]byte{}, buf[:n]...)))
		}
	}()
	return conn, p
}

// udp: refresh = run through two refresh rounds first; otherwise close races with the first sends
func c14udp(env *Env, out *sync.Mutex, rng *Rng, refresh bool, closers int) {
	conn, p := c14udpPeer()
	defer conn.Close()
	ep, err := exporter.InitExportingProcess(exporter.ExporterInput{
		CollectorAddress: conn.LocalAddr().String(), CollectorProtocol: "udp", ObservationDomainID: 1, TempRefTimeout: 1})
	if err != nil {
		panic(err)
	}
	start := time.Now()
	a := &c14app{ep: ep}
	k := 2 + rng.Intn(2)
	for i := 0; i < k; i++ {
		a.sendTemplate()
	}
	pace := func() {
		// dense around the expected ticks (every second after start), sparse otherwise
		ph := time.Since(start) % time.Second
		if ph > 850*time.Millisecond || ph < 150*time.Millisecond {
			time.Sleep(150 * time.Microsecond)
		} else {
			time.Sleep(4 * time.Millisecond)
		}
	}
	scen := "close"
	if refresh {
		scen = "refresh"
		target := int64(2 * k)
		waitFor(6*time.Second, func() bool { a.sendData(rng); pace(); return p.ntmpl.Load() >= target })
		a.sendTemplate()
		target += int64(1 + k + 1)
		waitFor(6*time.Second, func() bool { a.sendData(rng); pace(); return p.ntmpl.Load() >= target })
	} else {
		for i := rng.Intn(20); i > 0; i-- {
			a.sendData(rng)
		}
	}
	var panics atomic.Int64
	cw := c14closers(ep, closers, &panics)
	fails := 0
	waitFor(10*time.Second, func() bool {
		if a.sendData(rng) != "ok" {
			fails++
		} else {
			fails = 0
		}
		return fails >= 10
	})
	cw.Wait()
	// every close has returned: these sends must fail, and none of them may reach the peer (the
	// oracle compares the data messages at the peer with the sends logged as successful)
	for i := 0; i < 20; i++ {
		a.sendData(rng)
	}
	a.sendTemplate()
	p.drain()
	extra := ""
	c14emit(env, out, "udp", scen, closers, a, p, panics.Load(), extra)
}

func c14tcp(env *Env, out *sync.Mutex, rng *Rng, peerClose bool, closers int) {
	ln, err := net.Listen("tcp", "127.0.0.1:0")
	if err != nil {
		panic(err)
	}
	defer ln.Close()
	p := &c14peer{}
	stopAfter := int64(3 + rng.Intn(30))
	peerDone := make(chan struct{})
	go func() {
		defer close(peerDone)
		c, err := ln.Accept()
		if err != nil {
			return
		}
		defer c.Close()
		hdr := make([]byte, 4)
		for {
			if peerClose && p.nall.Load() >= stopAfter {
				return // the peer closes its side at a message boundary
			}
			if _, err := io.ReadFull(c, hdr); err != nil {
				if err != io.EOF {
					p.junk.Add(1)
				}
				return
			}
			l := int(binary.BigEndian.Uint16(hdr[2:]))
			if l < 4 {
				p.junk.Add(1)
				return
			}
			b := make([]byte, l)
			copy(b, hdr)
			if _, err := io.ReadFull(c, b[4:]); err != nil {
				p.junk.Add(int64(l))
				return
			}
			p.add(c14parse(b))
		}
	}()
	ep, err := exporter.InitExportingProcess(exporter.ExporterInput{
		CollectorAddress: ln.Addr().String(), CollectorProtocol: "tcp", ObservationDomainID: 1,
		CheckConnInterval: 50 * time.Millisecond})
	if err != nil {
		panic(err)
	}
	a := &c14app{ep: ep}
	a.sendTemplate()
	if rng.Bool() {
		a.sendTemplate()
	}
	scen := "close"
	extra := ""
	var panics atomic.Int64
	if peerClose {
		scen = "peer"
		// send until the collector-side close has been noticed: the first failing send
		noticed := waitFor(15*time.Second, func() bool {
			r := a.sendData(rng)
			time.Sleep(300 * time.Microsecond)
			return r != "ok"
		})
		if !noticed {
			extra += " peer-close-never-noticed"
		}
		for i := 0; i < 20; i++ {
			a.sendData(rng)
		}
		c14closers(ep, closers, &panics).Wait()
	} else {
		for i := rng.Intn(40); i > 0; i-- {
			a.sendData(rng)
		}
		cw := c14closers(ep, closers, &panics)
		fails := 0
		waitFor(10*time.Second, func() bool {
			if a.sendData(rng) != "ok" {
				fails++
			} else {
				fails = 0
			}
			return fails >= 10
		})
		cw.Wait()
	}
	select {
	case <-peerDone:
	case <-time.After(10 * time.Second):
		extra += " peer-reader-stuck"
	}
	for i := 0; i < 5; i++ {
		a.sendData(rng)
	}
	c14emit(env, out, "tcp", scen, closers, a, p, panics.Load(), extra)
}

// c14tcpIdle runs alone (no other exporter alive): the peer closes while the application is
// idle; the connection checker must notice (its goroutine ends: logical wait) and the first
// send afterwards must fail.
func c14tcpIdle(env *Env, out *sync.Mutex, rng *Rng) {
	ln, err := net.Listen("tcp", "127.0.0.1:0")
	if err != nil {
		panic(err)
	}
	defer ln.Close()
	p := &c14peer{}
	peerDone := make(chan struct{})
	closeNow := make(chan struct{})
	go func() {
		defer close(peerDone)
		c, err := ln.Accept()
		if err != nil {
			return
		}
		defer c.Close()
		hdr := make([]byte, 4)
		for {
			select {
			case <-closeNow:
				return
			default:
			}
			c.SetReadDeadline(time.Now().Add(5 * time.Millisecond))
			if _, err := io.ReadFull(c, hdr[:1]); err != nil {
				if ne, ok := err.(net.Error); ok && ne.Timeout() {
					continue
				}
				return
			}
			c.SetReadDeadline(time.Time{})
			if _, err := io.ReadFull(c, hdr[1:]); err != nil {
				p.junk.Add(1)
				return
			}
			l := int(binary.BigEndian.Uint16(hdr[2:]))
			if l < 4 {
				p.junk.Add(1)
				return
			}
			b := make([]byte, l)
			copy(b, hdr)
			if _, err := io.ReadFull(c, b[4:]); err != nil {
				p.junk.Add(int64(l))
				return
			}
			p.add(c14parse(b))
		}
	}()
	ep, err := exporter.InitExportingProcess(exporter.ExporterInput{
		CollectorAddress: ln.Addr().String(), CollectorProtocol: "tcp", ObservationDomainID: 1,
		CheckConnInterval: 50 * time.Millisecond})
	if err != nil {
		panic(err)
	}
	a := &c14app{ep: ep}
	a.sendTemplate()
	nsend := int64(1 + rng.Intn(5))
	for i := int64(0); i < nsend; i++ {
		a.sendData(rng)
	}
	waitFor(5*time.Second, func() bool { return p.nall.Load() >= nsend+1 })
	close(closeNow)
	<-peerDone
	extra := ""
	// the application is idle: only the connection checker can notice
	if !waitFor(10*time.Second, func() bool { return c14background() == 0 }) {
		extra += " peer-close-never-noticed"
	}
	for i := 0; i < 5; i++ {
		if a.sendData(rng) == "ok" && extra == "" {
			extra += " send-succeeded-after-the-checker-noticed-the-peer-close"
		}
	}
	var panics atomic.Int64
	c14closers(ep, 2, &panics).Wait()
	c14emit(env, out, "tcp", "idle", 2, a, p, panics.Load(), extra)
}

func c14background() int {
	buf := make([]byte, 1<<22)
	n := runtime.Stack(buf, true)
	return strings.Count(string(buf[:n]), "exporter.InitExportingProcess.func")
}

func runC14(env *Env) {
	var out sync.Mutex
	var wg sync.WaitGroup
	type job func(rng *Rng)
	var jobs []job
	nrefresh, nclose, npeer := 6, 64, 16
	if env.Thorough() {
		nrefresh, nclose, npeer = 12, 400, 60
	}
	if len(env.Replay) > 0 {
		nrefresh, nclose, npeer = 0, 0, 0
		for _, l := range env.Replay {
			t := strings.Fields(l)
			if len(t) < 4 || t[0] != "C14" {
				continue
			}
			switch t[1] + " " + t[2] {
			case "udp refresh":
				nrefresh += 2
			case "tcp peer":
				npeer += 8
			default:
				nclose += 16
			}
		}
	}
	for i := 0; i < nrefresh; i++ {
		c := 1 + i%4
		jobs = append(jobs, func(rng *Rng) { c14udp(env, &out, rng, true, c) })
	}
	for i := 0; i < nclose; i++ {
		c := 1 + i%4
		if i%2 == 0 {
			jobs = append(jobs, func(rng *Rng) { c14udp(env, &out, rng, false, c) })
		} else {
			jobs = append(jobs, func(rng *Rng) { c14tcp(env, &out, rng, false, c) })
		}
	}
	for i := 0; i < npeer; i++ {
		c := 1 + i%3
		jobs = append(jobs, func(rng *Rng) { c14tcp(env, &out, rng, true, c) })
	}
	sem := make(chan struct{}, 8)
	for i, j := range jobs {
		rng := NewRng(env.Seed*1000003 + uint64(i))
		wg.Add(1)
		sem <- struct{}{}
		go func(j job, rng *Rng) {
			defer wg.Done()
			defer func() { <-sem }()
			j(rng)
		}(j, rng)
	}
	wg.Wait()
	// every exporter has been closed: its background goroutines must be gone (logical wait)
	waitFor(10*time.Second, func() bool { return c14background() == 0 })
	if c14background() == 0 && (len(env.Replay) == 0 || npeer > 0) {
		for i := 0; i < 3; i++ {
			c14tcpIdle(env, &out, NewRng(env.Seed*7+uint64(i)))
		}
		waitFor(10*time.Second, func() bool { return c14background() == 0 })
	}
	out.Lock()
	env.Emit("C14 leak", fmt.Sprintf("G %d", c14background()))
	out.Unlock()
}
