package main

// C08, export time under contention: "an export time equal to the wall-clock second of sending".
// Two goroutines use one exporting process; the first call's write to the collector is held for
// 1.3 s (hook VerifWrapConn), the second call waits its turn and is written afterwards. The
// second message must carry the second in which IT was sent, not the second in which its caller
// arrived. case "C08 stall", obs "t=ok" | "t=stale:<seconds>" | "t=missing".

import (
	"encoding/binary"
	"fmt"
	"net"
	"sync"
	"time"

	"github.com/vmware/go-ipfix/pkg/entities"
	"github.com/vmware/go-ipfix/pkg/exporter"
	"github.com/vmware/go-ipfix/pkg/registry"
)

type c08gate struct {
	net.Conn
	mu       sync.Mutex
	n        int
	holdNth  int
	hold     time.Duration
	started  []time.Time // when each Write was entered
	finished []time.Time
}

func (g *c08gate) Write(b []byte) (int, error) {
	g.mu.Lock()
	g.n++
	k := g.n
	g.started = append(g.started, time.Now())
	g.mu.Unlock()
	if k == g.holdNth {
		time.Sleep(g.hold)
	}
	n, err := g.Conn.Write(b)
	g.mu.Lock()
	g.finished = append(g.finished, time.Now())
	g.mu.Unlock()
	return n, err
}

func c08Stall() string {
	conn, err := net.ListenUDP("udp", &net.UDPAddr{IP: net.IPv4(127, 0, 0, 1)})
	if err != nil {
		panic(err)
	}
	defer conn.Close()
	ep, err := exporter.InitExportingProcess(exporter.ExporterInput{
		CollectorAddress: conn.LocalAddr().String(), CollectorProtocol: "udp", ObservationDomainID: 9, TempRefTimeout: 3600})
	if err != nil {
		panic(err)
	}
	defer ep.CloseConnToCollector()
	g := &c08gate{holdNth: 2, hold: 1300 * time.Millisecond}
	ep.VerifWrapConn(func(c net.Conn) net.Conn { g.Conn = c; return g })
	ie, err := registry.GetInfoElement("octetDeltaCount", registry.IANAEnterpriseID)
	if err != nil {
		panic(err)
	}
	tid := ep.NewTemplateID()
	ts := entities.NewSet(false)
	ts.PrepareSet(entities.Template, tid)
	ts.AddRecord([]entities.InfoElementWithValue{entities.NewUnsigned64InfoElement(ie, 0)}, tid)
	if _, err := ep.SendSet(ts); err != nil { // write 1
		return "t=template-failed"
	}
	data := func(v uint64) entities.Set {
		s := entities.NewSet(false)
		s.PrepareSet(entities.Data, tid)
		s.AddRecord([]entities.InfoElementWithValue{entities.NewUnsigned64InfoElement(ie, v)}, tid)
		return s
	}
	var wg sync.WaitGroup
	wg.Add(2)
	go func() { defer wg.Done(); ep.SendSet(data(1)) }() // write 2: held
	time.Sleep(100 * time.Millisecond)
	go func() { defer wg.Done(); ep.SendSet(data(2)) }() // write 3: after the first one is through
	wg.Wait()
	g.mu.Lock()
	defer g.mu.Unlock()
	if len(g.started) < 3 || len(g.finished) < 2 {
		return "t=missing"
	}
	unblocked, written := g.finished[1], g.started[2]
	// the second data message at the peer
	buf := make([]byte, 2048)
	var exportTime int64 = -1
	for i := 0; i < 3; i++ {
		conn.SetReadDeadline(time.Now().Add(2 * time.Second))
		n, _, err := conn.ReadFromUDP(buf)
		if err != nil {
			break
		}
		if n >= 28 && binary.BigEndian.Uint16(buf[16:]) == tid && binary.BigEndian.Uint64(buf[20:]) == 2 {
			exportTime = int64(binary.BigEndian.Uint32(buf[4:]))
		}
	}
	if exportTime < 0 {
		return "t=missing"
	}
	if exportTime >= unblocked.Unix() && exportTime <= written.Unix() {
		return "t=ok"
	}
	return fmt.Sprintf("t=stale:%d", unblocked.Unix()-exportTime)
}
