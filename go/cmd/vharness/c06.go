package main

// C06 (flow expiry) and C07 (inter-node correlation): one engine drives a real
// AggregationProcess under virtual time (overlay/ov_intermediate.py) through a whole history
// and prints per-op results plus a canonical snapshot of map and queue after every op.
//
// case   := P <A> <I> <MR> <ME> T <n> <fieldidx>*n CF <m> <fieldidx>*m <op>*
// op     := rec <k> <val>*n | msg <k> <val>*n | adv <d> | scan <nf> <k>*nf | exp
// obs    := (<res> <snapshot> ;)*            (PANIC ends the observation)
// res    := r ok|err | a | s <err T/F> cb <n> <k>*n pk <m> <k>*m ix <n> <index>*n | e <ns>
// snap   := F <nf> {<k> <ready> <retries> <filled> <ipv4> <val>*n}*nf Q <nq> {<k> <active> <inactive>}*nq H ok|bad A <nq> {<k> <index>}*nq
// Times are nanosecond offsets from the virtual epoch; flows and queue entries (Q) are sorted by key.
// A is the queue's backing slice in ARRAY ORDER: flow key and index field of every slot; it is
// compared with the array of the exact heap model (coq/Model/Heap.v) after every operation.
// ix: the index field of the popped (detached) item as seen inside each callback.

import (
	"encoding/hex"
	"fmt"
	"net"
	"sort"
	"strconv"
	"strings"
	"time"

	"github.com/vmware/go-ipfix/pkg/entities"
	"github.com/vmware/go-ipfix/pkg/intermediate"
	"github.com/vmware/go-ipfix/pkg/registry"
)

func init() { register("C06", runC06) }

// aggFields mirrors coq/Model/Corr.v field_table: index -> element name (type from the registry).
var aggFields = []string{
	"flowType",                         // 0 u8
	"sourcePodName",                    // 1 str
	"destinationPodName",               // 2 str
	"ingressNetworkPolicyRuleAction",   // 3 u8
	"egressNetworkPolicyRuleAction",    // 4 u8
	"sourcePodNamespace",               // 5 str
	"sourceNodeName",                   // 6 str
	"destinationPodNamespace",          // 7 str
	"destinationNodeName",              // 8 str
	"destinationClusterIPv4",           // 9 ip4
	"destinationClusterIPv6",           // 10 ip6
	"destinationServicePort",           // 11 u16
	"ingressNetworkPolicyRulePriority", // 12 i32
	"octetDeltaCount",                  // 13 u64 (not a supported correlate type)
	"tcpState",                         // 14 str
	"flowEndSeconds",                   // 15 dateTimeSeconds (each node's own view; not read by the correlation logic)
}

func aggElement(name string) *entities.InfoElement {
	for _, ent := range []uint32{registry.AntreaEnterpriseID, registry.IANAEnterpriseID, registry.IANAReversedEnterpriseID} {
		if ie, err := registry.GetInfoElement(name, ent); err == nil {
			return ie
		}
	}
	panic("no element " + name)
}

var aggEpoch = time.Unix(1700000000, 0)

const aggKeys = 16

func aggKeyFields(k int) []entities.InfoElementWithValue {
	var src, dst net.IP
	var sn, dn string
	if k%2 == 0 {
		src, dst = net.IPv4(10, 0, byte(k), 1).To4(), net.IPv4(10, 0, byte(k), 2).To4()
		sn, dn = "sourceIPv4Address", "destinationIPv4Address"
	} else {
		src = net.ParseIP(fmt.Sprintf("2001:db8::%d:1", k))
		dst = net.ParseIP(fmt.Sprintf("2001:db8::%d:2", k))
		sn, dn = "sourceIPv6Address", "destinationIPv6Address"
	}
	return []entities.InfoElementWithValue{
		entities.NewIPAddressInfoElement(aggElement(sn), src),
		entities.NewIPAddressInfoElement(aggElement(dn), dst),
		entities.NewUnsigned16InfoElement(aggElement("sourceTransportPort"), uint16(1000+k)),
		entities.NewUnsigned16InfoElement(aggElement("destinationTransportPort"), uint16(2000+k)),
		entities.NewUnsigned8InfoElement(aggElement("protocolIdentifier"), 6),
	}
}

func aggFlowKey(k int) intermediate.FlowKey {
	f := aggKeyFields(k)
	return intermediate.FlowKey{SourceAddress: f[0].GetIPAddressValue().String(), DestinationAddress: f[1].GetIPAddressValue().String(),
		Protocol: 6, SourcePort: uint16(1000 + k), DestinationPort: uint16(2000 + k)}
}

var aggKeyIndex = func() map[intermediate.FlowKey]int {
	m := map[intermediate.FlowKey]int{}
	return m
}()

func aggKeyID(fk intermediate.FlowKey) int {
	if len(aggKeyIndex) == 0 {
		for k := 0; k < aggKeys; k++ {
			aggKeyIndex[aggFlowKey(k)] = k
		}
	}
	if k, ok := aggKeyIndex[fk]; ok {
		return k
	}
	return 99
}

// aggMkValue builds the element for field index fi from its case token.
func aggMkValue(fi int, tok string) entities.InfoElementWithValue {
	ie := aggElement(aggFields[fi])
	switch ie.DataType {
	case entities.String:
		if tok == "-" {
			return entities.NewStringInfoElement(ie, "")
		}
		b, err := hex.DecodeString(tok)
		if err != nil {
			panic(err)
		}
		return entities.NewStringInfoElement(ie, string(b))
	case entities.Unsigned8:
		return entities.NewUnsigned8InfoElement(ie, uint8(atou(tok)))
	case entities.Unsigned16:
		return entities.NewUnsigned16InfoElement(ie, uint16(atou(tok)))
	case entities.DateTimeSeconds:
		return entities.NewDateTimeSecondsInfoElement(ie, uint32(atou(tok)))
	case entities.Unsigned64:
		return entities.NewUnsigned64InfoElement(ie, atou(tok))
	case entities.Signed32:
		return entities.NewSigned32InfoElement(ie, int32(atoz(tok)))
	case entities.Ipv4Address, entities.Ipv6Address:
		if tok == "nil" {
			return entities.NewIPAddressInfoElement(ie, nil)
		}
		b, err := hex.DecodeString(tok)
		if err != nil {
			panic(err)
		}
		return entities.NewIPAddressInfoElement(ie, net.IP(b))
	}
	panic("unsupported field type in aggFields")
}

// aggShowValue renders an element as the case token form (coq/Driver/C06drv.v show_fval).
func aggShowValue(e entities.InfoElementWithValue) (s string) {
	defer func() {
		if r := recover(); r != nil {
			s = "getter-panic"
		}
	}()
	switch e.GetDataType() {
	case entities.String:
		v := e.GetStringValue()
		if v == "" {
			return "-"
		}
		return hex.EncodeToString([]byte(v))
	case entities.Unsigned8:
		return strconv.Itoa(int(e.GetUnsigned8Value()))
	case entities.Unsigned16:
		return strconv.Itoa(int(e.GetUnsigned16Value()))
	case entities.DateTimeSeconds:
		return strconv.FormatUint(uint64(e.GetUnsigned32Value()), 10)
	case entities.Unsigned64:
		return strconv.FormatUint(e.GetUnsigned64Value(), 10)
	case entities.Signed32:
		return strconv.Itoa(int(e.GetSigned32Value()))
	case entities.Ipv4Address, entities.Ipv6Address:
		v := e.GetIPAddressValue()
		if len(v) == 0 {
			return "nil"
		}
		return hex.EncodeToString(v)
	}
	return "unsupported"
}

type aggCase struct {
	A, I, ME int64
	MR       int
	T, CF    []int
}

func aggSnapshot(ap *intermediate.AggregationProcess, c *aggCase, locked bool) (string, intermediate.VerifSnap) {
	var sn intermediate.VerifSnap
	if locked {
		sn = ap.VerifSnapshotLocked()
	} else {
		sn = ap.VerifSnapshot()
	}
	sort.Slice(sn.Flows, func(i, j int) bool { return aggKeyID(sn.Flows[i].Key) < aggKeyID(sn.Flows[j].Key) })
	q := append([]intermediate.VerifSlot(nil), sn.Queue...)
	sort.SliceStable(q, func(i, j int) bool { return aggKeyID(q[i].Key) < aggKeyID(q[j].Key) })
	var sb strings.Builder
	fmt.Fprintf(&sb, "F %d", len(sn.Flows))
	for _, f := range sn.Flows {
		// orientation of the stored record: N = the template's order, R = the reverse order
		// (records are fed in one of the two; R only when it can be told apart)
		orient := "N"
		if f.Record != nil && len(c.T) > 1 {
			if els := f.Record.GetOrderedElementList(); len(els) > 0 {
				first := els[0].GetName()
				if first == aggFields[c.T[len(c.T)-1]] && first != aggFields[c.T[0]] {
					orient = "R"
				}
			}
		}
		fmt.Fprintf(&sb, " %d %s %d %s %s %s", aggKeyID(f.Key), ShowBool(f.ReadyToSend), f.Retries, ShowBool(f.Filled), ShowBool(f.IsIPv4), orient)
		for _, fi := range c.T {
			if f.Record == nil {
				sb.WriteString(" norecord")
				continue
			}
			e, _, ok := f.Record.GetInfoElementWithValue(aggFields[fi])
			if !ok {
				sb.WriteString(" missing")
			} else {
				sb.WriteString(" " + aggShowValue(e))
			}
		}
	}
	fmt.Fprintf(&sb, " Q %d", len(q))
	for _, s := range q {
		fmt.Fprintf(&sb, " %d %d %d", aggKeyID(s.Key), int64(s.Active.Sub(aggEpoch)), int64(s.Inactive.Sub(aggEpoch)))
	}
	if sn.HeapProblem == "" {
		sb.WriteString(" H ok")
	} else {
		sb.WriteString(" H bad")
	}
	// the slice as it is: position by position
	fmt.Fprintf(&sb, " A %d", len(sn.Queue))
	for _, s := range sn.Queue {
		fmt.Fprintf(&sb, " %d %d", aggKeyID(s.Key), s.Index)
	}
	return sb.String(), sn
}

// hpRunCase runs a raw heap probe ("HP <op>*", grammar in coq/Driver/C06drv.v) on a real
// TimeToExpirePriorityQueue driven by the real container/heap.
func hpRunCase(t []string) string {
	var ops []intermediate.VerifHeapOp
	for len(t) > 0 {
		op := intermediate.VerifHeapOp{Op: t[0]}
		t = t[1:]
		take := func() int64 { x := atoz(t[0]); t = t[1:]; return x }
		switch op.Op {
		case "push", "upd":
			op.Key = int(take())
			op.Active, op.Inactive = take(), take()
		case "set":
			op.I = int(take())
			op.Active, op.Inactive = take(), take()
		case "swap":
			op.I, op.J = int(take()), int(take())
		case "fix", "rem":
			op.I = int(take())
		case "pop", "init", "peek":
		default:
			panic("bad probe op " + op.Op)
		}
		ops = append(ops, op)
	}
	return hpShow(intermediate.VerifHeapProbe(aggEpoch, ops))
}

func hpShow(steps []intermediate.VerifHeapStep) string {
	var sb strings.Builder
	for i, st := range steps {
		if i > 0 {
			sb.WriteString(" ")
		}
		fmt.Fprintf(&sb, "%s A %d", st.Result, len(st.Slots))
		for _, s := range st.Slots {
			fmt.Fprintf(&sb, " %d %d %d %d", s.Key, s.Index, s.Active, s.Inactive)
		}
		sb.WriteString(" ;")
	}
	return sb.String()
}

// hpGen draws a probe: the slice after the prefix is read back from the real queue to choose
// valid / invalid indices and attached / detached keys.
func hpGen(r *Rng) string {
	var toks []string
	var ops []intermediate.VerifHeapOp
	pushed := map[int]bool{}
	tm := func() int64 { return int64(r.Intn(7)) }
	for n := 4 + r.Intn(40); n > 0; n-- {
		var slots []intermediate.VerifHeapSlot
		if len(ops) > 0 {
			st := intermediate.VerifHeapProbe(aggEpoch, ops)
			slots = st[len(st)-1].Slots
		}
		in := map[int]bool{}
		for _, s := range slots {
			in[s.Key] = true
		}
		idx := func() int { // mostly a position, sometimes not
			switch r.Intn(10) {
			case 0:
				return -1
			case 1:
				return -2 - r.Intn(2)
			case 2:
				return len(slots) + r.Intn(3)
			}
			if len(slots) == 0 {
				return 0
			}
			return r.Intn(len(slots))
		}
		op := intermediate.VerifHeapOp{}
		switch x := r.Intn(100); {
		case x < 38 || len(slots) == 0 && x < 70:
			k := r.Intn(14)
			for in[k] {
				k = (k + 1) % 16
			}
			if len(in) >= 14 {
				continue
			}
			op = intermediate.VerifHeapOp{Op: "push", Key: k, Active: tm(), Inactive: tm()}
			pushed[k] = true
			toks = append(toks, fmt.Sprintf("push %d %d %d", k, op.Active, op.Inactive))
		case x < 52:
			op = intermediate.VerifHeapOp{Op: "pop"}
			toks = append(toks, "pop")
		case x < 72:
			var cand []int
			for k := range pushed {
				if in[k] || r.Intn(5) == 0 { // now and then a detached item
					cand = append(cand, k)
				}
			}
			if len(cand) == 0 {
				continue
			}
			sort.Ints(cand)
			k := cand[r.Intn(len(cand))]
			op = intermediate.VerifHeapOp{Op: "upd", Key: k, Active: tm(), Inactive: tm()}
			toks = append(toks, fmt.Sprintf("upd %d %d %d", k, op.Active, op.Inactive))
		case x < 80:
			op = intermediate.VerifHeapOp{Op: "fix", I: idx()}
			toks = append(toks, fmt.Sprintf("fix %d", op.I))
		case x < 88:
			op = intermediate.VerifHeapOp{Op: "rem", I: idx()}
			toks = append(toks, fmt.Sprintf("rem %d", op.I))
		case x < 92:
			if len(slots) == 0 {
				continue
			}
			op = intermediate.VerifHeapOp{Op: "set", I: r.Intn(len(slots)), Active: tm(), Inactive: tm()}
			toks = append(toks, fmt.Sprintf("set %d %d %d", op.I, op.Active, op.Inactive))
		case x < 94:
			if len(slots) == 0 {
				continue
			}
			op = intermediate.VerifHeapOp{Op: "swap", I: r.Intn(len(slots)), J: r.Intn(len(slots))}
			toks = append(toks, fmt.Sprintf("swap %d %d", op.I, op.J))
		case x < 98:
			op = intermediate.VerifHeapOp{Op: "init"}
			toks = append(toks, "init")
		default:
			op = intermediate.VerifHeapOp{Op: "peek"}
			toks = append(toks, "peek")
		}
		ops = append(ops, op)
	}
	return "HP " + strings.Join(toks, " ")
}

// aggRunCase runs one history on a fresh AggregationProcess.
func aggRunCase(t []string) string {
	if len(t) > 0 && t[0] == "HP" {
		return hpRunCase(t[1:])
	}
	next := func() string { x := t[0]; t = t[1:]; return x }
	expect := func(s string) {
		if next() != s {
			panic("bad case syntax, expected " + s)
		}
	}
	c := &aggCase{}
	expect("P")
	c.A, c.I = atoz(next()), atoz(next())
	c.MR = int(atoz(next()))
	c.ME = atoz(next())
	expect("T")
	for n := atoi(next()); n > 0; n-- {
		c.T = append(c.T, atoi(next()))
	}
	expect("CF")
	for n := atoi(next()); n > 0; n-- {
		c.CF = append(c.CF, atoi(next()))
	}
	oldMR, oldME := intermediate.MaxRetries, intermediate.MinExpiryTime
	intermediate.MaxRetries, intermediate.MinExpiryTime = c.MR, time.Duration(c.ME)
	defer func() {
		intermediate.MaxRetries, intermediate.MinExpiryTime = oldMR, oldME
		intermediate.VerifUnsetNow()
	}()
	cf := make([]string, len(c.CF))
	for i, fi := range c.CF {
		cf[i] = aggFields[fi]
	}
	ap, err := intermediate.InitAggregationProcess(intermediate.AggregationInput{
		MessageChan: make(chan *entities.Message), WorkerNum: 1, CorrelateFields: cf,
		ActiveExpiryTimeout: time.Duration(c.A), InactiveExpiryTimeout: time.Duration(c.I)})
	if err != nil {
		panic(err)
	}
	now := int64(0)
	intermediate.VerifSetNow(aggEpoch)
	var out strings.Builder
	mkElems := func(k int) []entities.InfoElementWithValue {
		els := aggKeyFields(k)
		for _, fi := range c.T {
			els = append(els, aggMkValue(fi, next()))
		}
		return els
	}
	_, pre := aggSnapshot(ap, c, false)
	for len(t) > 0 {
		op := next()
		res, panicked := func() (res string, panicked bool) {
			defer func() {
				if r := recover(); r != nil {
					panicked = true
				}
			}()
			rev := func(els []entities.InfoElementWithValue) []entities.InfoElementWithValue {
				if op == "recr" || op == "msgr" {
					for i, j := 0, len(els)-1; i < j; i, j = i+1, j-1 {
						els[i], els[j] = els[j], els[i]
					}
				}
				return els
			}
			switch op {
			case "rec", "recr":
				k := atoi(next())
				if err := ap.VerifAddRecord(entities.NewDataRecordFromElements(256, rev(mkElems(k)), true)); err != nil {
					return "r err", false
				}
				return "r ok", false
			case "msg", "msgr":
				k := atoi(next())
				set := entities.NewSet(true)
				if err := set.PrepareSet(entities.Data, 256); err != nil {
					panic(err)
				}
				if err := set.AddRecordV2(rev(mkElems(k)), 256); err != nil {
					panic(err)
				}
				m := entities.NewMessage(true)
				m.AddSet(set)
				if err := ap.AggregateMsgByFlowKey(m); err != nil {
					return "r err", false
				}
				return "r ok", false
			case "adv":
				now += atoz(next())
				intermediate.VerifSetNow(aggEpoch.Add(time.Duration(now)))
				return "a", false
			case "exp":
				return fmt.Sprintf("e %d", int64(ap.GetExpiryFromExpirePriorityQueue())), false
			case "scan":
				fails := map[int]bool{}
				for n := atoi(next()); n > 0; n-- {
					fails[atoi(next())] = true
				}
				var cbs, ixs []int
				err := ap.ForAllExpiredFlowRecordsDo(func(key intermediate.FlowKey, rec *intermediate.AggregationFlowRecord) error {
					k := aggKeyID(key)
					cbs = append(cbs, k)
					// the item heap.Pop just returned for this flow (the lock is held here)
					ix := -9
					for _, f := range ap.VerifSnapshotLocked().Flows {
						if f.Key == key {
							ix = f.ItemIndex
						}
					}
					ixs = append(ixs, ix)
					if fails[k] {
						return fmt.Errorf("export failed for key %d", k)
					}
					return nil
				})
				_, post := aggSnapshot(ap, c, false)
				picks := aggPicks(pre, post, cbs)
				var sb strings.Builder
				fmt.Fprintf(&sb, "s %s cb %d", ShowBool(err != nil), len(cbs))
				for _, k := range cbs {
					fmt.Fprintf(&sb, " %d", k)
				}
				fmt.Fprintf(&sb, " pk %d", len(picks))
				for _, k := range picks {
					fmt.Fprintf(&sb, " %d", k)
				}
				fmt.Fprintf(&sb, " ix %d", len(ixs))
				for _, x := range ixs {
					fmt.Fprintf(&sb, " %d", x)
				}
				return sb.String(), false
			}
			panic("bad op " + op)
		}()
		if panicked {
			out.WriteString("PANIC")
			return out.String()
		}
		s, sn := aggSnapshot(ap, c, false)
		pre = sn
		out.WriteString(res + " " + s + " ; ")
	}
	return strings.TrimSpace(out.String())
}

// aggPicks reconstructs the order in which the scan popped queue items: the callbacks are
// observed directly; the not-ready items it popped are those whose retry counter or
// deadlines changed or that vanished without a callback. They are merged by their deadline before the scan
// (not-ready first among equal deadlines, callbacks keeping their observed order); the model
// accepts the sequence only if every pick was a minimal due item when it was taken.
func aggPicks(pre, post intermediate.VerifSnap, cbs []int) []int {
	type ent struct {
		k     int
		dl    int64
		ready bool
		ord   int
	}
	dl := map[int]int64{}
	// a not-ready item is also known to have been popped when its deadlines were re-armed
	preQ, postQ := map[int][2]int64{}, map[int][2]int64{}
	for _, s := range pre.Queue {
		a, i := int64(s.Active.Sub(aggEpoch)), int64(s.Inactive.Sub(aggEpoch))
		preQ[aggKeyID(s.Key)] = [2]int64{a, i}
		if i < a {
			a = i
		}
		dl[aggKeyID(s.Key)] = a
	}
	for _, s := range post.Queue {
		postQ[aggKeyID(s.Key)] = [2]int64{int64(s.Active.Sub(aggEpoch)), int64(s.Inactive.Sub(aggEpoch))}
	}
	postF := map[int]intermediate.VerifFlow{}
	for _, f := range post.Flows {
		postF[aggKeyID(f.Key)] = f
	}
	var es []ent
	for _, f := range pre.Flows {
		k := aggKeyID(f.Key)
		if f.ReadyToSend {
			continue
		}
		pf, ok := postF[k]
		if !ok || pf.Retries != f.Retries || postQ[k] != preQ[k] {
			es = append(es, ent{k, dl[k], false, k})
		}
	}
	sort.Slice(es, func(i, j int) bool { return es[i].k < es[j].k })
	for i, k := range cbs {
		es = append(es, ent{k, dl[k], true, 1000 + i})
	}
	sort.SliceStable(es, func(i, j int) bool {
		if es[i].dl != es[j].dl {
			return es[i].dl < es[j].dl
		}
		if es[i].ready != es[j].ready {
			return !es[i].ready
		}
		return es[i].ord < es[j].ord
	})
	out := make([]int, len(es))
	for i, e := range es {
		out[i] = e.k
	}
	return out
}

func aggReplay(env *Env, prop string) bool {
	if len(env.Replay) == 0 {
		return false
	}
	for _, l := range env.Replay {
		t := strings.Fields(l)
		c := t[1:]
		for i, x := range c {
			if x == "|" {
				c = c[:i]
				break
			}
		}
		env.Emit(prop+" "+strings.Join(c, " "), aggRunCase(c))
	}
	return true
}

// ---- value pools -------------------------------------------------------------------------

func hexs(s string) string {
	if s == "" {
		return "-"
	}
	return hex.EncodeToString([]byte(s))
}

// aggRandValue draws a value token for field fi; empty values are frequent on purpose.
func aggRandValue(r *Rng, fi int) string {
	ie := aggElement(aggFields[fi])
	empty := r.Intn(3) == 0
	switch ie.DataType {
	case entities.String:
		if empty {
			return "-"
		}
		return hexs([]string{"a", "pod", "ns1", "node-2", "x y"}[r.Intn(5)])
	case entities.Unsigned8:
		if empty {
			return "0"
		}
		return strconv.Itoa(1 + r.Intn(4))
	case entities.Unsigned16:
		if empty {
			return "0"
		}
		return strconv.Itoa([]int{1, 80, 4739, 65535}[r.Intn(4)])
	case entities.DateTimeSeconds:
		return strconv.Itoa([]int{0, 1, 10, 11, 100, 4294967295}[r.Intn(6)])
	case entities.Unsigned64:
		return strconv.Itoa(r.Intn(3))
	case entities.Signed32:
		if empty {
			return "0"
		}
		return strconv.Itoa([]int{-1, 1, 50000, -2147483648, 2147483647}[r.Intn(5)])
	case entities.Ipv4Address:
		switch r.Intn(8) {
		case 0:
			return "nil"
		case 1, 2:
			return "00000000"
		case 3:
			return "00000000000000000000ffff00000000" // v4-mapped 0.0.0.0 (To4 -> 0.0.0.0)
		case 4:
			return "00000000000000000000ffff0a000001"
		}
		return hex.EncodeToString([]byte{10, 96, byte(r.Intn(3)), byte(1 + r.Intn(3))})
	case entities.Ipv6Address:
		switch r.Intn(8) {
		case 0:
			return "nil"
		case 1, 2:
			return "00000000000000000000000000000000"
		case 3:
			return "00000000" // 4-byte zero: To16 is ::ffff:0.0.0.0, not "::"
		}
		b := make([]byte, 16)
		b[0], b[1], b[15] = 0x20, 0x01, byte(1+r.Intn(3))
		return hex.EncodeToString(b)
	}
	panic("type")
}

// aggRecVals builds the value tokens of one record over template T.
// kind: 0 intra-node, 1 to-external, 2 inter-node from source, 3 inter-node from destination,
// 4 inter-node egress drop (source), 5 inter-node egress reject, 6 inter-node ingress reject
// (destination), 7 inter-node ingress drop (destination; still needs correlation), 8 random.
func aggRecVals(r *Rng, T []int, kind int) string {
	v := map[int]string{}
	for _, fi := range T {
		v[fi] = aggRandValue(r, fi)
	}
	set := func(fi int, s string) {
		if _, ok := v[fi]; ok {
			v[fi] = s
		}
	}
	// the Pod behind an address may be replaced or renamed while the 5-tuple is reused: a node's
	// records of one flow do not always name the same Pod
	name := func(base string) string {
		if r.Intn(4) == 0 {
			return hexs(base + []string{"-new", "b", "-7f9"}[r.Intn(3)])
		}
		return hexs(base)
	}
	srcSide := func() { set(1, name("pod1")); set(2, "-"); set(7, "-"); set(8, "-") }
	dstSide := func() { set(1, "-"); set(2, name("pod2")); set(5, "-"); set(6, "-") }
	switch kind {
	case 0:
		set(0, "1")
		set(1, hexs("pod1"))
		set(2, hexs("pod2"))
	case 1:
		set(0, "3")
		srcSide()
	case 2:
		set(0, "2")
		set(3, strconv.Itoa([]int{0, 1, 2}[r.Intn(3)]))
		set(4, strconv.Itoa(r.Intn(2)))
		srcSide()
	case 3:
		set(0, "2")
		set(3, strconv.Itoa([]int{0, 1, 2}[r.Intn(3)]))
		set(4, strconv.Itoa(r.Intn(2)))
		dstSide()
	case 4:
		set(0, "2")
		set(3, "0")
		set(4, "2")
		srcSide()
	case 5:
		set(0, "2")
		set(3, "0")
		set(4, "3")
		srcSide()
	case 6:
		set(0, "2")
		set(3, "3")
		set(4, "0")
		dstSide()
	case 7:
		set(0, "2")
		set(3, "2")
		set(4, "0")
		dstSide()
	case 9: // inter-node, every combination of the two rule actions, either side
		set(0, "2")
		set(3, strconv.Itoa(r.Intn(4)))
		set(4, strconv.Itoa(r.Intn(4)))
		if r.Bool() {
			srcSide()
		} else {
			dstSide()
		}
	}
	out := make([]string, len(T))
	for i, fi := range T {
		out[i] = v[fi]
	}
	return strings.Join(out, " ")
}

func aggInts(xs []int) string {
	s := strconv.Itoa(len(xs))
	for _, x := range xs {
		s += " " + strconv.Itoa(x)
	}
	return s
}

func aggHeader(A, I int64, MR int, ME int64, T, CF []int) string {
	return fmt.Sprintf("P %d %d %d %d T %s CF %s", A, I, MR, ME, aggInts(T), aggInts(CF))
}

var aggFullT = []int{0, 1, 2, 3, 4, 5, 6, 7, 8, 9, 10, 11, 12, 13, 14}
var aggFullCF = []int{1, 5, 6, 2, 7, 8, 9, 10, 11, 3, 4, 12}
var aggSmallT = []int{0, 1, 2, 3, 4}
var aggSmallCF = []int{1, 2, 3, 4}

// aggRandTemplate picks a template (always containing the five fields the correlation logic
// reads by name, unless drop is set) and a correlate-field list.
func aggRandTemplate(r *Rng) ([]int, []int) {
	switch r.Intn(4) {
	case 0:
		return aggSmallT, aggSmallCF
	case 1:
		return aggFullT, aggFullCF
	}
	T := []int{}
	for _, fi := range r.Perm(len(aggFields)) {
		if fi <= 4 || r.Bool() {
			T = append(T, fi)
		}
	}
	CF := []int{}
	for _, fi := range r.Perm(len(aggFields)) {
		if r.Intn(3) != 0 {
			CF = append(CF, fi) // may name fields absent from the template
		}
	}
	return T, CF
}

func (r *Rng) Perm(n int) []int {
	p := make([]int, n)
	for i := range p {
		p[i] = i
	}
	for i := n - 1; i > 0; i-- {
		j := r.Intn(i + 1)
		p[i], p[j] = p[j], p[i]
	}
	return p
}

// aggDeltas: time steps that hit the boundaries deadline-1, deadline, deadline+1.
func aggDeltas(A, I int64) []int64 {
	return []int64{0, 1, A - 1, A, A + 1, I - 1, I, I + 1, I - A, 2 * A, A + I}
}

func runC06(env *Env) {
	registry.LoadRegistry()
	if aggReplay(env, "C06") {
		return
	}
	// util.go seeds by adding seed*gamma to a Weyl sequence, so the streams of nearby seeds are
	// shifts of each other and data-dependent generators re-synchronise; start from a scrambled state
	r := NewRng(env.Rng.U64() ^ 0xC06)
	liveMR := intermediate.MaxRetries
	liveME := int64(intermediate.MinExpiryTime)
	emit := func(class, c string) {
		env.Count(class)
		env.Emit("C06 "+c, aggRunCase(strings.Fields(c)))
	}
	// 1. exhaustive small histories over 2 keys (ready flows), boundary time steps, failing callbacks
	{
		A, I := int64(4), int64(6)
		T, CF := aggSmallT, aggSmallCF
		hdr := aggHeader(A, I, liveMR, liveME, T, CF)
		alpha := []string{}
		for k := 0; k < 2; k++ {
			alpha = append(alpha, fmt.Sprintf("rec %d 1 %s %s 0 0", k, hexs("p1"), hexs("p2")))
		}
		alpha = append(alpha, fmt.Sprintf("rec 2 2 %s - 0 0", hexs("p1"))) // needs correlation: never ready here
		for _, d := range []int64{0, A - 1, A, I, I + 1} {
			alpha = append(alpha, fmt.Sprintf("adv %d", d))
		}
		alpha = append(alpha, "scan 0", "scan 1 0", "scan 2 0 1", "exp")
		depth := 3
		if env.Thorough() {
			depth = 4
		}
		var rec func(prefix []string, d int)
		rec = func(prefix []string, d int) {
			if d == 0 {
				emit("exhaustive/depth"+strconv.Itoa(depth), hdr+" "+strings.Join(prefix, " ")+" scan 0 exp")
				return
			}
			for _, a := range alpha {
				rec(append(prefix[:len(prefix):len(prefix)], a), d-1)
			}
		}
		rec(nil, depth)
	}
	// 2. random longer histories
	n := 900
	if env.Thorough() {
		n = 30000
	}
	for i := 0; i < n; i++ {
		A, I := int64(2+r.Intn(6)), int64(2+r.Intn(9))
		if r.Intn(6) == 0 {
			A, I = 100000000, 150000000
		}
		MR, ME := liveMR, liveME
		switch r.Intn(5) {
		case 0:
			MR = r.Intn(4)
		case 1:
			ME = int64(r.Intn(4))
		}
		T, CF := aggRandTemplate(r)
		ops := []string{}
		nk := 2 + r.Intn(3)
		ds := aggDeltas(A, I)
		for j, m := 0, 4+r.Intn(22); j < m; j++ {
			switch x := r.Intn(10); {
			case x < 4:
				kind := []int{0, 0, 1, 2, 3, 4, 6, 7}[r.Intn(8)]
				kw := "rec"
				if r.Intn(4) == 0 {
					kw = "msg"
				}
				ops = append(ops, fmt.Sprintf("%s %d %s", kw, r.Intn(nk), aggRecVals(r, T, kind)))
			case x < 7:
				d := ds[r.Intn(len(ds))]
				if d < 0 {
					d = 0
				}
				ops = append(ops, fmt.Sprintf("adv %d", d))
			case x < 9:
				fails := []int{}
				if r.Intn(3) == 0 {
					for k := 0; k < nk; k++ {
						if r.Bool() {
							fails = append(fails, k)
						}
					}
				}
				ops = append(ops, "scan "+aggInts(fails))
			default:
				ops = append(ops, "exp")
			}
		}
		ops = append(ops, "exp")
		emit("random", aggHeader(A, I, MR, ME, T, CF)+" "+strings.Join(ops, " "))
	}
	// 3. deep heaps: 5..14 flows armed at different times, so that up/down walk several levels
	// and Update re-sorts inner nodes; small template, ready and not-ready flows, failing callbacks
	n = 260
	if env.Thorough() {
		n = 6000
	}
	for i := 0; i < n; i++ {
		A, I := int64(3+r.Intn(9)), int64(3+r.Intn(12))
		T, CF := aggSmallT, aggSmallCF
		nk := 5 + r.Intn(10)
		MR := liveMR
		if r.Intn(3) == 0 {
			MR = r.Intn(3)
		}
		ops := []string{}
		for j, m := 0, 12+r.Intn(40); j < m; j++ {
			switch x := r.Intn(20); {
			case x < 11:
				kind := []int{0, 0, 0, 0, 1, 2, 3}[r.Intn(7)]
				ops = append(ops, fmt.Sprintf("rec %d %s", r.Intn(nk), aggRecVals(r, T, kind)))
			case x < 16:
				ops = append(ops, fmt.Sprintf("adv %d", r.Intn(int(I)+2)))
			case x < 19:
				fails := []int{}
				if r.Intn(3) == 0 {
					fails = append(fails, r.Intn(nk))
				}
				ops = append(ops, "scan "+aggInts(fails))
			default:
				ops = append(ops, "exp")
			}
		}
		ops = append(ops, fmt.Sprintf("adv %d", A+I), "scan 0", "exp")
		emit("deep-heap", aggHeader(A, I, MR, liveME, T, CF)+" "+strings.Join(ops, " "))
	}
	// 4. raw probes of container/heap + TimeToExpirePriorityQueue (Init, Push, Pop, Remove, Fix on
	// positions and on -1 / negative / beyond-the-end indices, Update of attached and detached items)
	n = 700
	if env.Thorough() {
		n = 20000
	}
	for i := 0; i < n; i++ {
		emit("heap-probe", hpGen(r))
	}
}
