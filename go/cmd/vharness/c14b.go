package main

// C14, further scenarios:
//
//	tcp half   the collector closes only ITS sending side (FIN) at a message boundary and keeps
//	           reading, so every write of the exporter still succeeds: only the periodic
//	           connection check can notice the close. The application keeps sending several times
//	           per check interval; the close must be noticed (a send fails) within 40 intervals.
//	udp json   SendJSONRecord over UDP with a 1 s template refresh: what reaches the peer is a
//	           stream of JSON objects; the background refresh must not put anything else into it.
//	           case "C14 json", obs "B <datagrams that are not JSON objects>".

import (
	"encoding/binary"
	"fmt"
	"io"
	"net"
	"sync"
	"sync/atomic"
	"time"

	"github.com/vmware/go-ipfix/pkg/entities"
	"github.com/vmware/go-ipfix/pkg/exporter"
)

func c14tcpHalf(env *Env, out *sync.Mutex, rng *Rng, closers int) {
	ln, err := net.Listen("tcp", "127.0.0.1:0")
	if err != nil {
		panic(err)
	}
	defer ln.Close()
	p := &c14peer{}
	stopAfter := int64(3 + rng.Intn(20))
	peerDone := make(chan struct{})
	go func() {
		defer close(peerDone)
		c, err := ln.Accept()
		if err != nil {
			return
		}
		defer c.Close()
		half := false
		hdr := make([]byte, 4)
		for {
			if !half && p.nall.Load() >= stopAfter {
				c.(*net.TCPConn).CloseWrite() // FIN at a message boundary; we keep reading
				half = true
			}
			if _, err := io.ReadFull(c, hdr); err != nil {
				if err != io.EOF {
					p.junk.Add(1)
				}
				return
			}
			l := int(binary.BigEndian.Uint16(hdr[2:]))
			if l < 4 {
				p.junk.Add(1)
				return
			}
			b := make([]byte, l)
			copy(b, hdr)
			if _, err := io.ReadFull(c, b[4:]); err != nil {
				p.junk.Add(int64(l))
				return
			}
			p.add(c14parse(b))
		}
	}()
	const interval = 50 * time.Millisecond
	ep, err := exporter.InitExportingProcess(exporter.ExporterInput{
		CollectorAddress: ln.Addr().String(), CollectorProtocol: "tcp", ObservationDomainID: 1,
		CheckConnInterval: interval})
	if err != nil {
		panic(err)
	}
	a := &c14app{ep: ep}
	a.sendTemplate()
	extra := ""
	var panics atomic.Int64
	// at least four sends in every check interval, until a send fails
	halfAt := time.Time{}
	noticed := waitFor(15*time.Second, func() bool {
		r := a.sendData(rng)
		if halfAt.IsZero() && p.nall.Load() >= stopAfter {
			halfAt = time.Now()
		}
		if !halfAt.IsZero() && time.Since(halfAt) > 40*interval*slowFactor() {
			return true
		}
		time.Sleep(10 * time.Millisecond)
		return r != "ok"
	})
	if !noticed || a.log[len(a.log)-1].res == "ok" {
		extra += " collector-side-close-not-noticed-within-40-check-intervals"
	}
	for i := 0; i < 10; i++ {
		a.sendData(rng)
	}
	c14closers(ep, closers, &panics).Wait()
	<-peerDone
	c14emit(env, out, "tcp", "half", closers, a, p, panics.Load(), extra)
}

func c14json(env *Env, out *sync.Mutex, rng *Rng) {
	conn, err := net.ListenUDP("udp", &net.UDPAddr{IP: net.IPv4(127, 0, 0, 1)})
	if err != nil {
		panic(err)
	}
	defer conn.Close()
	conn.SetReadBuffer(8 << 20)
	var jsonN, otherN atomic.Int64
	go func() {
		buf := make([]byte, 65536)
		for {
			n, _, err := conn.ReadFromUDP(buf)
			if err != nil {
				return
			}
			if n > 0 && buf[0] == '{' {
				jsonN.Add(1)
			} else {
				otherN.Add(1)
			}
		}
	}()
	ep, err := exporter.InitExportingProcess(exporter.ExporterInput{
		CollectorAddress: conn.LocalAddr().String(), CollectorProtocol: "udp", ObservationDomainID: 1,
		TempRefTimeout: 1, SendJSONRecord: true})
	if err != nil {
		panic(err)
	}
	a := &c14app{ep: ep}
	a.sendTemplate()
	a.sendTemplate()
	start := time.Now()
	for time.Since(start) < 2300*time.Millisecond { // two refresh ticks
		a.sendData(rng)
		time.Sleep(15 * time.Millisecond)
	}
	ep.CloseConnToCollector()
	time.Sleep(30 * time.Millisecond)
	out.Lock()
	env.Emit("C14 json", fmt.Sprintf("B %d", otherN.Load()))
	env.Count("udp json")
	if jsonN.Load() > 0 {
		env.Count("udp json: stream had JSON records")
	}
	out.Unlock()
}

// c14burst: the application registers new templates densely (one every ~50 us) in a window around
// the first refresh tick, so that the refresh goroutine walks the template map while it is being
// extended. Nothing is compared: the scenario exists for the race detector (bin/c14_race) and for
// the runtime's own concurrent-map check. case "C14 burst", obs "B ok".
func c14burst(env *Env, out *sync.Mutex) {
	conn, err := net.ListenUDP("udp", &net.UDPAddr{IP: net.IPv4(127, 0, 0, 1)})
	if err != nil {
		panic(err)
	}
	defer conn.Close()
	conn.SetReadBuffer(8 << 20)
	go func() {
		buf := make([]byte, 65536)
		for {
			if _, _, err := conn.ReadFromUDP(buf); err != nil {
				return
			}
		}
	}()
	t0 := time.Now()
	ep, err := exporter.InitExportingProcess(exporter.ExporterInput{
		CollectorAddress: conn.LocalAddr().String(), CollectorProtocol: "udp", ObservationDomainID: 1, TempRefTimeout: 1})
	if err != nil {
		panic(err)
	}
	a := &c14app{ep: ep}
	for i := 0; i < 50; i++ {
		a.sendTemplate()
	}
	time.Sleep(time.Until(t0.Add(880 * time.Millisecond)))
	n := 0
	for time.Since(t0) < 1200*time.Millisecond && n < 4000 {
		a.sendTemplate()
		n++
		time.Sleep(50 * time.Microsecond)
	}
	time.Sleep(time.Until(t0.Add(1350 * time.Millisecond)))
	ep.CloseConnToCollector()
	out.Lock()
	env.Emit("C14 burst", "B ok")
	env.Count("udp burst of template registrations across a refresh tick")
	out.Unlock()
}

// c14tcpSlow: a collector that applies back-pressure - it reads nothing for 400 ms while the
// application sends several megabytes, so that application writes block in the kernel across
// many connection-check ticks (50 ms). The background check must not disturb them: no send may
// fail and the stream must stay whole. Scenario "tcp slow".
func c14tcpSlow(env *Env, out *sync.Mutex, rng *Rng) {
	ln, err := net.Listen("tcp", "127.0.0.1:0")
	if err != nil {
		panic(err)
	}
	defer ln.Close()
	p := &c14peer{}
	peerDone := make(chan struct{})
	go func() {
		defer close(peerDone)
		c, err := ln.Accept()
		if err != nil {
			return
		}
		defer c.Close()
		c.(*net.TCPConn).SetReadBuffer(64 << 10)
		time.Sleep(400 * time.Millisecond)
		hdr := make([]byte, 4)
		for {
			if _, err := io.ReadFull(c, hdr); err != nil {
				if err != io.EOF {
					p.junk.Add(1)
				}
				return
			}
			l := int(binary.BigEndian.Uint16(hdr[2:]))
			if l < 4 {
				p.junk.Add(1)
				return
			}
			b := make([]byte, l)
			copy(b, hdr)
			if _, err := io.ReadFull(c, b[4:]); err != nil {
				p.junk.Add(int64(l))
				return
			}
			p.add(c14parse(b))
		}
	}()
	ep, err := exporter.InitExportingProcess(exporter.ExporterInput{
		CollectorAddress: ln.Addr().String(), CollectorProtocol: "tcp", ObservationDomainID: 1,
		CheckConnInterval: 50 * time.Millisecond})
	if err != nil {
		panic(err)
	}
	a := &c14app{ep: ep}
	a.sendTemplate()
	var panics atomic.Int64
	start := time.Now()
	for i := 0; i < 400 && time.Since(start) < 3*time.Second; i++ {
		a.sendDataN(3000) // 24 kB per message
	}
	c14closers(ep, 1, &panics).Wait()
	<-peerDone
	c14emit(env, out, "tcp", "slow", 1, a, p, panics.Load(), "")
}

func (a *c14app) sendDataN(n int) string {
	tid := a.tids[0]
	set := entities.NewSet(false)
	set.PrepareSet(entities.Data, tid)
	a.next++
	id := a.next
	for i := 0; i < n; i++ {
		set.AddRecord(c14elems(id+uint64(i)<<40), tid)
	}
	_, err := a.ep.SendSet(set)
	res := c14class(err)
	a.log = append(a.log, c14entry{'D', tid, n, id, res})
	return res
}
