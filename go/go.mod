module verif/harness

go 1.23.0

toolchain go1.23.5

require (
	github.com/IBM/sarama v1.43.3
	github.com/pion/dtls/v2 v2.2.12
	github.com/vmware/go-ipfix v0.0.0
	google.golang.org/protobuf v1.34.2
	k8s.io/klog/v2 v2.130.1
)

require (
	github.com/davecgh/go-spew v1.1.2-0.20180830191138-d8f796af33cc // indirect
	github.com/eapache/go-resiliency v1.7.0 // indirect
	github.com/eapache/go-xerial-snappy v0.0.0-20230731223053-c322873962e3 // indirect
	github.com/eapache/queue v1.1.0 // indirect
	github.com/go-logr/logr v1.4.2 // indirect
	github.com/golang/snappy v0.0.4 // indirect
	github.com/hashicorp/errwrap v1.1.0 // indirect
	github.com/hashicorp/go-multierror v1.1.1 // indirect
	github.com/hashicorp/go-uuid v1.0.3 // indirect
	github.com/jcmturner/aescts/v2 v2.0.0 // indirect
	github.com/jcmturner/dnsutils/v2 v2.0.0 // indirect
	github.com/jcmturner/gofork v1.7.6 // indirect
	github.com/jcmturner/gokrb5/v8 v8.4.4 // indirect
	github.com/jcmturner/rpc/v2 v2.0.3 // indirect
	github.com/klauspost/compress v1.17.9 // indirect
	github.com/pierrec/lz4/v4 v4.1.21 // indirect
	github.com/pion/logging v0.2.2 // indirect
	github.com/pion/transport/v2 v2.2.10 // indirect
	github.com/rcrowley/go-metrics v0.0.0-20201227073835-cf1acfcdf475 // indirect
	golang.org/x/crypto v0.27.0 // indirect
	golang.org/x/net v0.29.0 // indirect
	golang.org/x/sys v0.25.0 // indirect
)

replace github.com/vmware/go-ipfix => /repo
