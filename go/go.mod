module verif/harness

go 1.23.0

toolchain go1.23.5

require (
	github.com/IBM/sarama v1.43.3
	github.com/pion/dtls/v2 v2.2.12
	github.com/vmware/go-ipfix v0.0.0
	google.golang.org/protobuf v1.34.2
	k8s.io/klog/v2 v2.130.1
)

require (
	github.com/go-logr/logr v1.4.2 // indirect
	github.com/pion/logging v0.2.2 // indirect
	github.com/pion/transport/v2 v2.2.10 // indirect
	golang.org/x/crypto v0.27.0 // indirect
	golang.org/x/net v0.29.0 // indirect
	golang.org/x/sys v0.25.0 // indirect
)

replace github.com/vmware/go-ipfix => /repo
