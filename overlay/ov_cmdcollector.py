"""Overlay plugin: ADD the C20 driver to cmd/collector (package main). Nothing of the original
package is replaced: the added file's init() runs only when VERIF_DRIVER=C20 is set, drives
addIPFIXMessage / flowRecordHandler / resetRecordHandler (httptest) with case lines read from
stdin, prints one observation line per case and exits before main() parses any flag."""
import os, shutil

def entries(repo, outdir):
    here = os.path.dirname(os.path.abspath(__file__))
    src = os.path.join(here, "cmdcollector_driver.go.tmpl")
    dst = os.path.join(outdir, "cmdcollector_verif_driver.go")
    shutil.copyfile(src, dst)
    target = os.path.join(repo, "cmd", "collector", "verif_driver_overlay.go")
    if os.path.exists(target):
        raise SystemExit("overlay target already exists in the repository: " + target)
    # second added file: the concurrent scenarios of bin/c20_race (VERIF_DRIVER=C20RACE)
    src2 = os.path.join(here, "cmdcollector_race.go.tmpl")
    dst2 = os.path.join(outdir, "cmdcollector_verif_race.go")
    shutil.copyfile(src2, dst2)
    target2 = os.path.join(repo, "cmd", "collector", "verif_race_overlay.go")
    if os.path.exists(target2):
        raise SystemExit("overlay target already exists in the repository: " + target2)
    return {target: dst, target2: dst2}
