#!/usr/bin/env python3
"""make_overlay.py <repo> <outdir>: build the `go build -overlay` file from the repository's
*current* sources. Every overlay/ov_*.py plugin exposes entries(repo, outdir) -> {path: replacement};
a path that does not exist in the repository adds a file to that package, an existing path is
replaced by a mechanical rewrite of the file as it is now (never a stored copy)."""
import sys, os, json, importlib.util, glob

def main():
    repo, outdir = sys.argv[1], sys.argv[2]
    os.makedirs(outdir, exist_ok=True)
    replace = {}
    here = os.path.dirname(os.path.abspath(__file__))
    for p in sorted(glob.glob(os.path.join(here, "ov_*.py"))):
        spec = importlib.util.spec_from_file_location(os.path.basename(p)[:-3], p)
        m = importlib.util.module_from_spec(spec)
        spec.loader.exec_module(m)
        replace.update(m.entries(repo, outdir))
    json.dump({"Replace": replace}, open(os.path.join(outdir, "overlay.json"), "w"), indent=1)

if __name__ == "__main__":
    main()
