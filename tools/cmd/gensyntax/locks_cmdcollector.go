package main

// locks-cmdcollector: lock / access table of the PACKAGE-LEVEL state of cmd/collector (the
// standalone collector's store `flowRecords`, guarded by the package-level `mutex`), for C20.
// Output: coq/Gen/LocksCmdCollector.v in the vocabulary of coq/Model/LockTab.v
//
//	cmdcollector_vars      : list field    every package-level variable (index, name, sync object?)
//	cmdcollector_v_<name>  : nat           its index
//	cmdcollector_accesses  : list access   one row per use of a package-level data variable: function,
//	                                       variable, read/write, mutexes held (package-level sync.Mutex /
//	                                       RWMutex variables; `defer Unlock` keeps the lock to the end
//	                                       of the function), phase (Init = package-level initialiser),
//	                                       the thread roots that reach the row
//	cmdcollector_methods   : list meth     per function: acquisition sites (the flag says "executed at
//	                                       most once per call": not in a loop, not in a literal; an
//	                                       enclosing if/switch is fine), whole-body critical sections
//	                                       (exactly one such acquisition of the mutex and every access
//	                                       and every call of a function that touches the state or takes
//	                                       the lock is made with it held), entry lockset, composite flag
//
// Self-contained on purpose (it shares no code with locks.go): variables are package-level
// *types.Var objects used through identifiers, not struct fields used through selectors.
//
// ALIASES. A slice / pointer / struct value derived from a shared variable still designates the
// shared backing store: `records := flowRecords[n:]` followed by `records[i]` after
// `mutex.Unlock()` reads the array that `flowRecords[0] = ""` writes. The translator therefore
// computes, flow-insensitively over the whole package, the set of local variables and parameters
// that may hold such a derived value (through := / = / var, slice / index / selector / & / * /
// conversion / composite literal / append(first argument), arguments of package-local calls and
// results of package-local functions that return a derived value). Every mention of such a local,
// other than as the plain left-hand side of an assignment or inside len()/cap(), is an access to
// the variable it is derived from, with the locks held AT THE MENTION; when it is passed to a call
// or is the base of an assigned index/selector/star expression the access is a write.
// Results of non-local calls are fresh (trusted: library functions do not return an alias of an
// argument) unless the result type is identical to the type of a derived argument.
//
// Fail closed (row with a_known = false, which fails lockset_ok): a derived value that is
// returned to a non-local caller through an escaping function, stored into another package-level
// variable, into memory reached through a parameter or into a map/slice element, or sent on a
// channel; TryLock; a lock operation on a mutex that is not a package-level variable (local
// alias, parameter, interface value, method value); a deferred Lock; `defer Unlock` in a loop; an
// unlock of a mutex the function does not hold; goto; a loop that changes the held set.
//
// Thread roots: a function that is never called statically (main) is RApi; a function whose
// value escapes (handed to mux.HandleFunc) is RFunc; every `go` statement is RGo; literals
// handed to non-local APIs are RCallback (RTimer for AfterFunc). Stored / deferred literals are
// analysed in place with nothing held.

import (
	"fmt"
	"go/ast"
	"go/token"
	"go/types"
	"os"
	"path/filepath"
	"sort"
	"strings"

	"golang.org/x/tools/go/packages"
)

const ccPkgPath = "github.com/vmware/go-ipfix/cmd/collector"

type ccLocks map[int]int // mutex variable index -> 1 read mode, 2 write mode

func (l ccLocks) copy() ccLocks {
	o := ccLocks{}
	for k, v := range l {
		o[k] = v
	}
	return o
}
func ccMeet(a, b ccLocks) ccLocks {
	o := ccLocks{}
	for k, v := range a {
		if w, ok := b[k]; ok {
			if w < v {
				v = w
			}
			o[k] = v
		}
	}
	return o
}
func ccJoin(a, b ccLocks) ccLocks {
	o := a.copy()
	for k, v := range b {
		if o[k] < v {
			o[k] = v
		}
	}
	return o
}
func ccEq(a, b ccLocks) bool {
	if len(a) != len(b) {
		return false
	}
	for k, v := range a {
		if b[k] != v {
			return false
		}
	}
	return true
}
func ccCoq(l ccLocks) string {
	keys := []int{}
	for k := range l {
		keys = append(keys, k)
	}
	sort.Ints(keys)
	parts := []string{}
	for _, k := range keys {
		m := "LW"
		if l[k] == 1 {
			m = "LR"
		}
		parts = append(parts, fmt.Sprintf("(%d, %s)", k, m))
	}
	return "[" + strings.Join(parts, "; ") + "]"
}

type ccAccess struct {
	v     int
	write bool
	locks ccLocks
	pos   token.Pos
	known bool
	note  string
}
type ccCall struct {
	callee *types.Func
	locks  ccLocks
	pos    token.Pos
}
type ccAcq struct {
	mutex, mode int
	top         bool
}
type ccNode struct {
	name     string
	kind     int // 0 declaration, 1 go, 2 timer, 3 callback
	ordinal  int
	fn       *types.Func
	body     *ast.BlockStmt
	call     *ast.CallExpr // `go f(x)`: the node's body is that call
	accesses []*ccAccess
	calls    []*ccCall
	acq      []ccAcq
	escaped  bool
	entry    ccLocks
	roots    map[string]string
}

type ccWorld struct {
	pkg     *packages.Package
	info    *types.Info
	fset    *token.FileSet
	vars    []*types.Var
	idx     map[*types.Var]int
	sync    []bool
	mutex   []bool
	nodes   []*ccNode
	byFunc  map[*types.Func]*ccNode
	decls   map[*types.Func]*ast.FuncDecl
	alias   map[*types.Var]int  // local variable / parameter -> shared variable it may be derived from
	retAl   map[*types.Func]int // package-local function -> shared variable its result may be derived from
	nGo     int
	nTimer  int
	nCb     int
	initPos map[int]token.Pos
}

func ccRefLike(t types.Type) bool {
	return ccRefLikeD(t, 0)
}
func ccRefLikeD(t types.Type, d int) bool {
	if d > 6 {
		return true
	}
	switch u := t.Underlying().(type) {
	case *types.Basic:
		return u.Kind() == types.UnsafePointer
	case *types.Slice, *types.Map, *types.Pointer, *types.Interface, *types.Signature, *types.Chan:
		return true
	case *types.Array:
		return ccRefLikeD(u.Elem(), d+1)
	case *types.Struct:
		for i := 0; i < u.NumFields(); i++ {
			if ccRefLikeD(u.Field(i).Type(), d+1) {
				return true
			}
		}
		return false
	}
	return true
}

func ccIsSync(t types.Type) (isSync, isMutex bool) {
	for {
		if p, ok := t.(*types.Pointer); ok {
			t = p.Elem()
			continue
		}
		break
	}
	if _, ok := t.Underlying().(*types.Chan); ok {
		return true, false
	}
	if n, ok := t.(*types.Named); ok && n.Obj().Pkg() != nil {
		switch n.Obj().Pkg().Path() {
		case "sync":
			return true, n.Obj().Name() == "Mutex" || n.Obj().Name() == "RWMutex"
		case "sync/atomic":
			return true, false
		}
	}
	return false, false
}

// sharedVar: is e an identifier that denotes a package-level variable of the package?
func (w *ccWorld) sharedVar(e ast.Expr) (int, bool) {
	id, ok := ast.Unparen(e).(*ast.Ident)
	if !ok {
		return 0, false
	}
	v, ok := w.info.Uses[id].(*types.Var)
	if !ok {
		return 0, false
	}
	i, ok := w.idx[v]
	return i, ok
}

func (w *ccWorld) localVar(e ast.Expr) *types.Var {
	id, ok := ast.Unparen(e).(*ast.Ident)
	if !ok {
		return nil
	}
	var o types.Object = w.info.Uses[id]
	if o == nil {
		o = w.info.Defs[id]
	}
	v, ok := o.(*types.Var)
	if !ok || v.IsField() {
		return nil
	}
	if _, shared := w.idx[v]; shared {
		return nil
	}
	if v.Parent() == nil || v.Parent() == v.Pkg().Scope() {
		return nil
	}
	return v
}

func (w *ccWorld) localFunc(o types.Object) *types.Func {
	f, ok := o.(*types.Func)
	if !ok {
		return nil
	}
	if _, ok := w.byFunc[f]; !ok {
		return nil
	}
	return f
}

func (w *ccWorld) callee(c *ast.CallExpr) types.Object {
	switch f := ast.Unparen(c.Fun).(type) {
	case *ast.Ident:
		return w.info.Uses[f]
	case *ast.SelectorExpr:
		if s := w.info.Selections[f]; s != nil {
			return s.Obj()
		}
		return w.info.Uses[f.Sel]
	}
	return nil
}

// derived: may the value of e designate (part of) the storage of a shared data variable?
func (w *ccWorld) derived(e ast.Expr) (int, bool) {
	switch x := e.(type) {
	case nil:
		return 0, false
	case *ast.ParenExpr:
		return w.derived(x.X)
	case *ast.Ident:
		if i, ok := w.sharedVar(x); ok {
			if w.sync[i] {
				return 0, false
			}
			return i, ccRefLike(w.vars[i].Type())
		}
		if v := w.localVar(x); v != nil {
			i, ok := w.alias[v]
			return i, ok
		}
	case *ast.SliceExpr:
		return w.derived(x.X)
	case *ast.IndexExpr:
		if i, ok := w.derived(x.X); ok {
			if t := w.info.TypeOf(e); t == nil || ccRefLike(t) {
				return i, true
			}
		}
	case *ast.SelectorExpr:
		if s := w.info.Selections[x]; s != nil && s.Kind() == types.FieldVal {
			if i, ok := w.derived(x.X); ok {
				if t := w.info.TypeOf(e); t == nil || ccRefLike(t) {
					return i, true
				}
			}
		}
	case *ast.StarExpr:
		if i, ok := w.derived(x.X); ok {
			if t := w.info.TypeOf(e); t == nil || ccRefLike(t) {
				return i, true
			}
		}
	case *ast.UnaryExpr:
		if x.Op == token.AND {
			if i, ok := w.sharedVar(x.X); ok && !w.sync[i] {
				return i, true
			}
			// &v[i], &v.f of a shared variable, &T{... derived ...}
			base := x.X
			for {
				switch b := ast.Unparen(base).(type) {
				case *ast.IndexExpr:
					base = b.X
					continue
				case *ast.SelectorExpr:
					if s := w.info.Selections[b]; s != nil && s.Kind() == types.FieldVal {
						base = b.X
						continue
					}
				}
				break
			}
			if i, ok := w.sharedVar(base); ok && !w.sync[i] {
				return i, true
			}
			return w.derived(x.X)
		}
	case *ast.TypeAssertExpr:
		return w.derived(x.X)
	case *ast.CompositeLit:
		for _, el := range x.Elts {
			if kv, ok := el.(*ast.KeyValueExpr); ok {
				el = kv.Value
			}
			if i, ok := w.derived(el); ok {
				return i, true
			}
		}
	case *ast.CallExpr:
		// conversion T(x)
		if tv, ok := w.info.Types[x.Fun]; ok && tv.IsType() && len(x.Args) == 1 {
			if i, ok := w.derived(x.Args[0]); ok {
				if t := w.info.TypeOf(e); t == nil || ccRefLike(t) {
					return i, true
				}
			}
			return 0, false
		}
		o := w.callee(x)
		if b, ok := o.(*types.Builtin); ok {
			if b.Name() == "append" && len(x.Args) > 0 {
				return w.derived(x.Args[0])
			}
			return 0, false
		}
		if f := w.localFunc(o); f != nil {
			i, ok := w.retAl[f]
			return i, ok
		}
		// non-local callee: fresh, unless it hands back something of the very type it was given
		rt := w.info.TypeOf(e)
		for _, a := range x.Args {
			if i, ok := w.derived(a); ok && rt != nil {
				at := w.info.TypeOf(a)
				if tup, isTup := rt.(*types.Tuple); isTup {
					for k := 0; k < tup.Len(); k++ {
						if at != nil && types.Identical(tup.At(k).Type(), at) {
							return i, true
						}
					}
				} else if at != nil && types.Identical(rt, at) {
					return i, true
				}
			}
		}
		if sel, ok := ast.Unparen(x.Fun).(*ast.SelectorExpr); ok {
			if s := w.info.Selections[sel]; s != nil && s.Kind() == types.MethodVal {
				if i, ok := w.derived(sel.X); ok && rt != nil {
					if rt2 := w.info.TypeOf(sel.X); rt2 != nil && types.Identical(rt, rt2) {
						return i, true
					}
				}
			}
		}
	}
	return 0, false
}

// lhsBaseLocal: the local variable at the base of an assignable expression (x, x.f, x[i], *x)
func (w *ccWorld) lhsBase(e ast.Expr) ast.Expr {
	for {
		switch b := ast.Unparen(e).(type) {
		case *ast.IndexExpr:
			e = b.X
		case *ast.SelectorExpr:
			if s := w.info.Selections[b]; s != nil && s.Kind() == types.FieldVal {
				e = b.X
			} else {
				return ast.Unparen(e)
			}
		case *ast.StarExpr:
			e = b.X
		case *ast.SliceExpr:
			e = b.X
		default:
			return ast.Unparen(e)
		}
	}
}

func (w *ccWorld) taint(v *types.Var, i int) bool {
	if v == nil {
		return false
	}
	if _, ok := w.alias[v]; ok {
		return false
	}
	w.alias[v] = i
	return true
}

// aliasPass: one round of the flow-insensitive propagation over the whole package
func (w *ccWorld) aliasPass() bool {
	changed := false
	for fn, d := range w.decls {
		fn := fn
		ast.Inspect(d.Body, func(n ast.Node) bool {
			switch x := n.(type) {
			case *ast.AssignStmt:
				if len(x.Lhs) == len(x.Rhs) {
					for k := range x.Lhs {
						if i, ok := w.derived(x.Rhs[k]); ok {
							if v := w.localVar(w.lhsBase(x.Lhs[k])); v != nil && w.taint(v, i) {
								changed = true
							}
						}
					}
				} else if len(x.Rhs) == 1 {
					if i, ok := w.derived(x.Rhs[0]); ok {
						for _, l := range x.Lhs {
							if t := w.info.TypeOf(l); t != nil && !ccRefLike(t) {
								continue
							}
							if v := w.localVar(w.lhsBase(l)); v != nil && w.taint(v, i) {
								changed = true
							}
						}
					}
				}
			case *ast.ValueSpec:
				for k, val := range x.Values {
					if i, ok := w.derived(val); ok && k < len(x.Names) && len(x.Names) == len(x.Values) {
						if v, ok := w.info.Defs[x.Names[k]].(*types.Var); ok && w.taint(v, i) {
							changed = true
						}
					}
				}
			case *ast.RangeStmt:
				if i, ok := w.derived(x.X); ok && x.Value != nil {
					if t := w.info.TypeOf(x.Value); t == nil || ccRefLike(t) {
						if v := w.localVar(x.Value); v != nil && w.taint(v, i) {
							changed = true
						}
					}
				}
			case *ast.CallExpr:
				if f := w.localFunc(w.callee(x)); f != nil {
					sig := f.Type().(*types.Signature)
					for k, a := range x.Args {
						if i, ok := w.derived(a); ok {
							pk := k
							if pk >= sig.Params().Len() {
								pk = sig.Params().Len() - 1
							}
							if pk >= 0 && w.taint(sig.Params().At(pk), i) {
								changed = true
							}
						}
					}
				}
			case *ast.ReturnStmt:
				// returns of nested literals are attributed to the enclosing declaration as well (conservative)
				for _, r := range x.Results {
					if i, ok := w.derived(r); ok {
						if _, had := w.retAl[fn]; !had {
							w.retAl[fn] = i
							changed = true
						}
					}
				}
			}
			return true
		})
	}
	return changed
}

// ------------------------------------------------------------------------------------ walker

type ccFrame struct{ deferred ccLocks }

type ccWalker struct {
	w         *ccWorld
	n         *ccNode
	inLit     bool // inside a func literal analysed in place
	loopDepth int
	depth     int
	branch    []ccLocks
}

func (k *ccWalker) unknown(pos token.Pos, why string) {
	k.n.accesses = append(k.n.accesses, &ccAccess{v: 0, write: true, locks: ccLocks{}, pos: pos, known: false, note: why})
}

func (k *ccWalker) add(i int, write bool, st ccLocks, pos token.Pos, note string) {
	if k.w.sync[i] {
		return
	}
	k.n.accesses = append(k.n.accesses, &ccAccess{v: i, write: write, locks: st.copy(), pos: pos, known: true, note: note})
}

// mention of an identifier in a reading position
func (k *ccWalker) ident(id *ast.Ident, write bool, st ccLocks) {
	if i, ok := k.w.sharedVar(id); ok {
		k.add(i, write, st, id.Pos(), "")
		return
	}
	if v := k.w.localVar(id); v != nil {
		if i, ok := k.w.alias[v]; ok {
			k.add(i, write, st, id.Pos(), "through "+id.Name+", derived from "+k.w.vars[i].Name())
		}
	}
}

// escape check: a derived value stored somewhere the alias pass cannot follow
func (k *ccWalker) stored(lhs ast.Expr, rhs ast.Expr, st ccLocks) {
	i, ok := k.w.derived(rhs)
	if !ok {
		return
	}
	base := k.w.lhsBase(lhs)
	if id, ok := base.(*ast.Ident); ok && id.Name == "_" {
		return
	}
	if j, ok := k.w.sharedVar(base); ok {
		if j == i && base == ast.Unparen(lhs) {
			return // flowRecords = flowRecords[1:], flowRecords = append(flowRecords, x)
		}
		k.unknown(lhs.Pos(), "a value derived from "+k.w.vars[i].Name()+" is stored into the package-level variable "+k.w.vars[j].Name())
		return
	}
	if v := k.w.localVar(base); v != nil {
		if _, isParamMem := ast.Unparen(lhs).(*ast.Ident); isParamMem {
			return // plain local (tainted by the alias pass)
		}
		// x.f = derived / x[i] = derived / *x = derived: fine when x is itself a local VALUE that
		// the alias pass tainted; through a pointer / slice / map the store reaches other memory
		if t := v.Type().Underlying(); t != nil {
			switch t.(type) {
			case *types.Struct, *types.Array:
				return
			}
		}
		if _, tainted := k.w.alias[v]; tainted {
			return // the container is tracked as an alias itself: every later mention is an access
		}
	}
	k.unknown(lhs.Pos(), "a value derived from "+k.w.vars[i].Name()+" is stored where it cannot be tracked")
}

func (k *ccWalker) lhs(e ast.Expr, st ccLocks) {
	switch x := e.(type) {
	case *ast.ParenExpr:
		k.lhs(x.X, st)
	case *ast.Ident:
		if i, ok := k.w.sharedVar(x); ok {
			k.add(i, true, st, x.Pos(), "")
		}
		// a plain local on the left-hand side is not an access
	case *ast.IndexExpr:
		k.lhsBaseWrite(x.X, st)
		k.expr(x.Index, st)
	case *ast.SelectorExpr:
		if s := k.w.info.Selections[x]; s != nil && s.Kind() == types.FieldVal {
			k.lhsBaseWrite(x.X, st)
			return
		}
		k.expr(x, st)
	case *ast.StarExpr:
		k.lhsBaseWrite(x.X, st)
	case *ast.SliceExpr:
		k.lhsBaseWrite(x.X, st)
	default:
		k.expr(e, st)
	}
}

// the base of an assigned index / field / star expression: a write through it
func (k *ccWalker) lhsBaseWrite(e ast.Expr, st ccLocks) {
	switch x := ast.Unparen(e).(type) {
	case *ast.Ident:
		k.ident(x, true, st)
	case *ast.IndexExpr:
		k.lhsBaseWrite(x.X, st)
		k.expr(x.Index, st)
	case *ast.SelectorExpr:
		if s := k.w.info.Selections[x]; s != nil && s.Kind() == types.FieldVal {
			k.lhsBaseWrite(x.X, st)
			return
		}
		k.expr(x, st)
	case *ast.StarExpr:
		k.lhsBaseWrite(x.X, st)
	case *ast.SliceExpr:
		k.lhsBaseWrite(x.X, st)
	default:
		k.expr(e, st)
	}
}

var ccLockOps = map[string]bool{"Lock": true, "Unlock": true, "RLock": true, "RUnlock": true, "TryLock": true, "TryRLock": true}

// lockOp: (is a sync lock operation, mutex variable index | -1 unresolvable | -2 another object's mutex field, name)
func (k *ccWalker) lockOp(c *ast.CallExpr) (bool, int, string) {
	sel, ok := ast.Unparen(c.Fun).(*ast.SelectorExpr)
	if !ok || !ccLockOps[sel.Sel.Name] {
		return false, 0, ""
	}
	f, ok := k.w.info.Uses[sel.Sel].(*types.Func)
	if !ok || f.Pkg() == nil || f.Pkg().Path() != "sync" {
		return false, 0, ""
	}
	if i, ok := k.w.sharedVar(sel.X); ok && k.w.mutex[i] {
		return true, i, sel.Sel.Name
	}
	if s, ok := ast.Unparen(sel.X).(*ast.SelectorExpr); ok {
		if ss := k.w.info.Selections[s]; ss != nil && ss.Kind() == types.FieldVal {
			if _, shared := k.w.derived(s.X); !shared {
				return true, -2, sel.Sel.Name
			}
		}
	}
	return true, -1, sel.Sel.Name
}

func (k *ccWalker) doLockOp(c *ast.CallExpr, idx int, name string, st ccLocks, fr *ccFrame, deferred bool) {
	if idx == -2 {
		return
	}
	if idx == -1 {
		k.unknown(c.Pos(), "lock operation "+name+" on a value that is not a package-level mutex variable")
		return
	}
	switch name {
	case "TryLock", "TryRLock":
		k.unknown(c.Pos(), name)
	case "Lock", "RLock":
		if deferred {
			k.unknown(c.Pos(), "deferred "+name)
			return
		}
		m := 2
		if name == "RLock" {
			m = 1
		}
		if _, held := st[idx]; held {
			k.unknown(c.Pos(), name+" of a mutex already held")
		}
		st[idx] = m
		k.n.acq = append(k.n.acq, ccAcq{idx, m, k.loopDepth == 0 && !k.inLit})
	case "Unlock", "RUnlock":
		if deferred {
			if k.loopDepth > 0 {
				k.unknown(c.Pos(), "defer "+name+" in a loop")
				return
			}
			fr.deferred[idx] = 2
			return
		}
		if _, held := st[idx]; !held {
			k.unknown(c.Pos(), name+" of a mutex not held by this function")
			return
		}
		delete(st, idx)
	}
}

func (k *ccWalker) newLit(lit *ast.FuncLit, kind int) *ccNode {
	base := k.n.name
	if i := strings.Index(base, "$"); i >= 0 {
		base = base[:i]
	}
	n := &ccNode{kind: kind, body: lit.Body, entry: ccLocks{}, fn: k.n.fn}
	switch kind {
	case 1:
		n.ordinal = k.w.nGo
		k.w.nGo++
		n.name = fmt.Sprintf("%s$go%d", base, n.ordinal)
	case 2:
		n.ordinal = k.w.nTimer
		k.w.nTimer++
		n.name = fmt.Sprintf("%s$timer%d", base, n.ordinal)
	default:
		n.ordinal = k.w.nCb
		k.w.nCb++
		n.name = fmt.Sprintf("%s$callback%d", base, n.ordinal)
	}
	k.w.nodes = append(k.w.nodes, n)
	return n
}

func (k *ccWalker) inlineLit(lit *ast.FuncLit, st ccLocks, outer *ccFrame, isDeferred bool) ccLocks {
	fr := &ccFrame{deferred: ccLocks{}}
	saveLoop, saveBranch, saveLit := k.loopDepth, k.branch, k.inLit
	k.loopDepth, k.branch, k.inLit = 0, nil, true
	k.depth++
	if isDeferred {
		// a deferred literal that unlocks a mutex it did not take is the enclosing function's deferred unlock
		for _, s := range lit.Body.List {
			if es, ok := s.(*ast.ExprStmt); ok {
				if c, ok := es.X.(*ast.CallExpr); ok {
					if is, idx, name := k.lockOp(c); is && idx >= 0 && (name == "Unlock" || name == "RUnlock") {
						if _, held := st[idx]; !held {
							st[idx] = 2
							outer.deferred[idx] = 2
						}
					}
				}
			}
		}
	}
	out, _ := k.block(lit.Body.List, st, fr)
	k.depth--
	k.loopDepth, k.branch, k.inLit = saveLoop, saveBranch, saveLit
	for m := range fr.deferred {
		delete(out, m)
	}
	return out
}

func (k *ccWalker) exprs(es []ast.Expr, st ccLocks) {
	for _, e := range es {
		k.expr(e, st)
	}
}

// argument of a call: a derived value (or the address of a shared variable) handed to a callee may
// be read AND written by it, unless the callee is known to only read (readOnlyCallee)
func (k *ccWalker) arg(a ast.Expr, st ccLocks, write bool) {
	if !write {
		k.expr(a, st)
		return
	}
	switch x := ast.Unparen(a).(type) {
	case *ast.Ident:
		if _, ok := k.w.derived(x); ok {
			k.ident(x, true, st)
			return
		}
	case *ast.SliceExpr:
		if _, ok := k.w.derived(x.X); ok {
			k.arg(x.X, st, true)
			k.expr(x.Low, st)
			k.expr(x.High, st)
			k.expr(x.Max, st)
			return
		}
	case *ast.UnaryExpr:
		if x.Op == token.AND {
			k.lhsBaseWrite(x.X, st)
			return
		}
	}
	k.expr(a, st)
}

// readOnlyCallee: non-local callees trusted not to modify what their arguments point to:
// io.Writer-shaped Write / WriteString methods ("Write must not modify the slice data, even
// temporarily"), and the functions of fmt, encoding/json (Marshal*), bytes, strings, strconv,
// k8s.io/klog.
func ccReadOnlyCallee(fn *types.Func) bool {
	if fn == nil {
		return false
	}
	sig, _ := fn.Type().(*types.Signature)
	if sig != nil && sig.Recv() != nil {
		switch fn.Name() {
		case "Write":
			if sig.Params().Len() == 1 && sig.Results().Len() == 2 {
				if sl, ok := sig.Params().At(0).Type().Underlying().(*types.Slice); ok {
					if b, ok := sl.Elem().Underlying().(*types.Basic); ok && b.Kind() == types.Byte {
						return true
					}
				}
			}
		case "WriteString":
			return true
		}
	}
	if fn.Pkg() == nil {
		return false
	}
	switch fn.Pkg().Path() {
	case "fmt", "bytes", "strings", "strconv", "k8s.io/klog/v2", "unicode/utf8":
		return sig == nil || sig.Recv() == nil
	case "encoding/json":
		return strings.HasPrefix(fn.Name(), "Marshal")
	}
	return false
}

func (k *ccWalker) call(c *ast.CallExpr, st ccLocks, fr *ccFrame) {
	if lit, ok := ast.Unparen(c.Fun).(*ast.FuncLit); ok {
		k.exprs(c.Args, st)
		out := k.inlineLit(lit, st.copy(), fr, false)
		for m := range st {
			if _, ok := out[m]; !ok {
				delete(st, m)
			}
		}
		for m, v := range out {
			st[m] = v
		}
		return
	}
	if is, idx, name := k.lockOp(c); is {
		k.doLockOp(c, idx, name, st, fr, false)
		return
	}
	// conversion
	if tv, ok := k.w.info.Types[c.Fun]; ok && tv.IsType() {
		k.exprs(c.Args, st)
		return
	}
	o := k.w.callee(c)
	if b, ok := o.(*types.Builtin); ok {
		switch b.Name() {
		case "len", "cap":
			// the header of a derived LOCAL is private; the header of the shared variable itself is shared
			for _, a := range c.Args {
				if v := k.w.localVar(a); v != nil {
					continue
				}
				k.expr(a, st)
			}
			return
		case "delete":
			if len(c.Args) > 0 {
				k.lhsBaseWrite(c.Args[0], st)
				k.exprs(c.Args[1:], st)
			}
			return
		case "copy":
			if len(c.Args) == 2 {
				k.lhsBaseWrite(c.Args[0], st)
				k.expr(c.Args[1], st)
			}
			return
		case "append":
			if len(c.Args) > 0 {
				// may write into the spare capacity of its first argument
				k.arg(c.Args[0], st, true)
				k.exprs(c.Args[1:], st)
			}
			return
		case "clear":
			for _, a := range c.Args {
				k.lhsBaseWrite(a, st)
			}
			return
		default:
			k.exprs(c.Args, st)
			return
		}
	}
	switch f := ast.Unparen(c.Fun).(type) {
	case *ast.Ident:
	case *ast.SelectorExpr:
		if s := k.w.info.Selections[f]; s != nil {
			if s.Kind() == types.MethodVal {
				// x.M(): a pointer-receiver method on an addressable shared / derived value may mutate it
				write := false
				if fn, ok := s.Obj().(*types.Func); ok {
					if sig, ok := fn.Type().(*types.Signature); ok && sig.Recv() != nil {
						_, ptrRecv := sig.Recv().Type().(*types.Pointer)
						write = ptrRecv
					}
				}
				if _, isD := k.w.derived(f.X); isD {
					write = true
				}
				if write {
					k.lhsBaseWrite(f.X, st)
				} else {
					k.expr(f.X, st)
				}
			} else {
				k.expr(f, st)
			}
		}
	default:
		k.expr(c.Fun, st)
	}
	local := k.w.localFunc(o)
	if local != nil {
		k.n.calls = append(k.n.calls, &ccCall{callee: local, locks: st.copy(), pos: c.Pos()})
	}
	fn, _ := o.(*types.Func)
	for _, a := range c.Args {
		if lit, ok := ast.Unparen(a).(*ast.FuncLit); ok {
			if local == nil {
				kind := 3
				if fn != nil && strings.Contains(fn.Name(), "AfterFunc") {
					kind = 2
				}
				ln := k.newLit(lit, kind)
				k.w.analyse(ln)
			} else {
				k.inlineLit(lit, ccLocks{}, fr, false)
			}
			continue
		}
		// a derived value handed to a package-local callee is followed there (its parameter is
		// tainted by the alias pass); handed to a non-local callee it is read and possibly written now
		k.arg(a, st, local == nil && !ccReadOnlyCallee(fn))
	}
}

func (k *ccWalker) expr(e ast.Expr, st ccLocks) {
	switch x := e.(type) {
	case nil:
	case *ast.Ident:
		if f := k.w.localFunc(k.w.info.Uses[x]); f != nil {
			k.w.byFunc[f].escaped = true // a function value that is not called here
			return
		}
		k.ident(x, false, st)
	case *ast.CallExpr:
		k.call(x, st, &ccFrame{deferred: ccLocks{}})
	case *ast.FuncLit:
		k.inlineLit(x, ccLocks{}, &ccFrame{deferred: ccLocks{}}, false)
	case *ast.SelectorExpr:
		if s := k.w.info.Selections[x]; s != nil {
			if s.Kind() == types.MethodVal {
				if f, ok := s.Obj().(*types.Func); ok && f.Pkg() != nil && f.Pkg().Path() == "sync" && ccLockOps[f.Name()] {
					k.unknown(x.Pos(), "method value of a lock operation")
				}
			}
			k.expr(x.X, st)
			return
		}
		// package-qualified identifier: pkg.Name
		if f := k.w.localFunc(k.w.info.Uses[x.Sel]); f != nil {
			k.w.byFunc[f].escaped = true
		}
	case *ast.UnaryExpr:
		if x.Op == token.AND {
			// address taken: a write (whoever receives the pointer may store through it)
			k.lhsBaseWrite(x.X, st)
			return
		}
		k.expr(x.X, st)
	case *ast.CompositeLit:
		for _, el := range x.Elts {
			if kv, ok := el.(*ast.KeyValueExpr); ok {
				if _, isStruct := k.w.info.TypeOf(x).Underlying().(*types.Struct); !isStruct {
					k.expr(kv.Key, st)
				}
				k.expr(kv.Value, st)
				continue
			}
			k.expr(el, st)
		}
	case *ast.ParenExpr:
		k.expr(x.X, st)
	case *ast.IndexExpr:
		k.expr(x.X, st)
		k.expr(x.Index, st)
	case *ast.IndexListExpr:
		k.expr(x.X, st)
	case *ast.SliceExpr:
		// re-slicing a derived LOCAL only computes a new private header; re-slicing the shared
		// variable reads the shared header
		if v := k.w.localVar(x.X); v == nil {
			k.expr(x.X, st)
		}
		k.expr(x.Low, st)
		k.expr(x.High, st)
		k.expr(x.Max, st)
	case *ast.StarExpr:
		k.expr(x.X, st)
	case *ast.BinaryExpr:
		k.expr(x.X, st)
		k.expr(x.Y, st)
	case *ast.KeyValueExpr:
		k.expr(x.Key, st)
		k.expr(x.Value, st)
	case *ast.TypeAssertExpr:
		k.expr(x.X, st)
	}
}

func (k *ccWalker) mergeInto(outs []ccLocks, st ccLocks) {
	if len(outs) == 0 {
		return
	}
	m := outs[0]
	for _, o := range outs[1:] {
		m = ccMeet(m, o)
	}
	for x := range st {
		delete(st, x)
	}
	for x, v := range m {
		st[x] = v
	}
}

func (k *ccWalker) block(stmts []ast.Stmt, st ccLocks, fr *ccFrame) (ccLocks, bool) {
	for _, s := range stmts {
		if k.stmt(s, st, fr) {
			return st, true
		}
	}
	return st, false
}

func (k *ccWalker) nested(body []ast.Stmt, st ccLocks, fr *ccFrame) (ccLocks, bool) {
	k.depth++
	o, t := k.block(body, st, fr)
	k.depth--
	return o, t
}

func (k *ccWalker) loop(body *ast.BlockStmt, st ccLocks, fr *ccFrame) {
	entry := st.copy()
	saved := k.branch
	k.branch = nil
	k.loopDepth++
	out, term := k.nested(body.List, st.copy(), fr)
	k.loopDepth--
	states := k.branch
	k.branch = saved
	if !term {
		states = append(states, out)
	}
	for _, s := range states {
		if !ccEq(s, entry) {
			k.unknown(body.Pos(), "the set of held mutexes changes across a loop iteration")
			break
		}
	}
	states = append(states, entry)
	k.mergeInto(states, st)
}

// plainAliasCopy: `x := y[a:b]` with y a derived local - pure propagation, no access
func (k *ccWalker) plainAliasCopy(rhs ast.Expr) bool {
	for {
		switch b := ast.Unparen(rhs).(type) {
		case *ast.SliceExpr:
			if _, hasIdx := k.w.derived(b.Low); hasIdx {
				return false
			}
			rhs = b.X
			continue
		case *ast.Ident:
			v := k.w.localVar(b)
			if v == nil {
				return false
			}
			_, ok := k.w.alias[v]
			return ok
		}
		return false
	}
}

func (k *ccWalker) stmt(s ast.Stmt, st ccLocks, fr *ccFrame) (terminated bool) {
	switch x := s.(type) {
	case nil:
	case *ast.ExprStmt:
		if c, ok := x.X.(*ast.CallExpr); ok {
			k.call(c, st, fr)
			if id, ok := c.Fun.(*ast.Ident); ok && id.Name == "panic" {
				if _, ok := k.w.info.Uses[id].(*types.Builtin); ok {
					return true
				}
			}
		} else {
			k.expr(x.X, st)
		}
	case *ast.AssignStmt:
		for i, r := range x.Rhs {
			if k.plainAliasCopy(r) {
				continue
			}
			k.expr(r, st)
			if len(x.Lhs) == len(x.Rhs) {
				k.stored(x.Lhs[i], r, st)
			} else {
				for _, l := range x.Lhs {
					k.stored(l, r, st)
				}
			}
		}
		for _, l := range x.Lhs {
			if x.Tok != token.ASSIGN && x.Tok != token.DEFINE {
				k.expr(l, st) // op= reads as well
			}
			k.lhs(l, st)
		}
	case *ast.IncDecStmt:
		k.expr(x.X, st)
		k.lhs(x.X, st)
	case *ast.DeclStmt:
		if gd, ok := x.Decl.(*ast.GenDecl); ok {
			for _, sp := range gd.Specs {
				if vs, ok := sp.(*ast.ValueSpec); ok {
					for _, v := range vs.Values {
						if !k.plainAliasCopy(v) {
							k.expr(v, st)
						}
					}
				}
			}
		}
	case *ast.SendStmt:
		k.expr(x.Chan, st)
		k.expr(x.Value, st)
		if i, ok := k.w.derived(x.Value); ok {
			k.unknown(x.Pos(), "a value derived from "+k.w.vars[i].Name()+" is sent on a channel")
		}
	case *ast.GoStmt:
		k.exprs(x.Call.Args, st)
		if lit, ok := ast.Unparen(x.Call.Fun).(*ast.FuncLit); ok {
			ln := k.newLit(lit, 1)
			k.w.analyse(ln)
		} else {
			base := k.n.name
			if i := strings.Index(base, "$"); i >= 0 {
				base = base[:i]
			}
			ln := &ccNode{kind: 1, entry: ccLocks{}, ordinal: k.w.nGo, name: fmt.Sprintf("%s$go%d", base, k.w.nGo), fn: k.n.fn}
			k.w.nGo++
			k.w.nodes = append(k.w.nodes, ln)
			sub := &ccWalker{w: k.w, n: ln}
			c2 := *x.Call
			c2.Args = nil
			sub.call(&c2, ccLocks{}, &ccFrame{deferred: ccLocks{}})
		}
	case *ast.DeferStmt:
		if is, idx, name := k.lockOp(x.Call); is {
			k.doLockOp(x.Call, idx, name, st, fr, true)
			return false
		}
		if lit, ok := ast.Unparen(x.Call.Fun).(*ast.FuncLit); ok {
			k.exprs(x.Call.Args, st)
			if k.loopDepth > 0 {
				pre := len(k.n.acq)
				k.inlineLit(lit, ccLocks{}, fr, true)
				if len(k.n.acq) != pre {
					k.unknown(x.Pos(), "defer of a locking literal in a loop")
				}
				return false
			}
			k.inlineLit(lit, ccLocks{}, fr, true)
			return false
		}
		// a deferred ordinary call runs at exit, with unknown locks: nothing held
		k.call(x.Call, ccLocks{}, fr)
	case *ast.ReturnStmt:
		k.exprs(x.Results, st)
		return true
	case *ast.BranchStmt:
		if x.Tok == token.GOTO {
			k.unknown(x.Pos(), "goto")
		}
		if x.Tok == token.FALLTHROUGH {
			return false
		}
		k.branch = append(k.branch, st.copy())
		return true
	case *ast.BlockStmt:
		_, t := k.nested(x.List, st, fr)
		return t
	case *ast.LabeledStmt:
		return k.stmt(x.Stmt, st, fr)
	case *ast.IfStmt:
		k.stmt(x.Init, st, fr)
		k.expr(x.Cond, st)
		var outs []ccLocks
		o1, t1 := k.nested(x.Body.List, st.copy(), fr)
		if !t1 {
			outs = append(outs, o1)
		}
		if x.Else != nil {
			o2 := st.copy()
			k.depth++
			t2 := k.stmt(x.Else, o2, fr)
			k.depth--
			if !t2 {
				outs = append(outs, o2)
			}
			if t1 && t2 {
				return true
			}
		} else {
			outs = append(outs, st.copy())
		}
		k.mergeInto(outs, st)
	case *ast.ForStmt:
		k.stmt(x.Init, st, fr)
		k.expr(x.Cond, st)
		if x.Post != nil {
			k.loopDepth++
			k.stmt(x.Post, st.copy(), fr)
			k.loopDepth--
		}
		k.loop(x.Body, st, fr)
	case *ast.RangeStmt:
		k.expr(x.X, st)
		if x.Tok == token.ASSIGN {
			if x.Key != nil {
				k.lhs(x.Key, st)
			}
			if x.Value != nil {
				k.lhs(x.Value, st)
			}
		}
		k.loop(x.Body, st, fr)
	case *ast.SwitchStmt, *ast.TypeSwitchStmt, *ast.SelectStmt:
		var body *ast.BlockStmt
		hasDefault := false
		switch y := x.(type) {
		case *ast.SwitchStmt:
			k.stmt(y.Init, st, fr)
			k.expr(y.Tag, st)
			body = y.Body
		case *ast.TypeSwitchStmt:
			k.stmt(y.Init, st, fr)
			k.stmt(y.Assign, st, fr)
			body = y.Body
		case *ast.SelectStmt:
			body = y.Body
			hasDefault = true
		}
		saved := k.branch
		k.branch = nil
		var outs []ccLocks
		for _, cl := range body.List {
			cs := st.copy()
			var list []ast.Stmt
			switch c := cl.(type) {
			case *ast.CaseClause:
				if c.List == nil {
					hasDefault = true
				}
				k.exprs(c.List, cs)
				list = c.Body
			case *ast.CommClause:
				k.depth++
				k.stmt(c.Comm, cs, fr)
				k.depth--
				list = c.Body
			}
			o, t := k.nested(list, cs, fr)
			if !t {
				outs = append(outs, o)
			}
		}
		inner := k.branch
		k.branch = append(saved, inner...)
		outs = append(outs, inner...)
		if !hasDefault || len(body.List) == 0 {
			outs = append(outs, st.copy())
		}
		if len(outs) == 0 {
			return true
		}
		k.mergeInto(outs, st)
	}
	return false
}

func (w *ccWorld) analyse(n *ccNode) {
	if n.body == nil {
		return
	}
	k := &ccWalker{w: w, n: n}
	k.block(n.body.List, ccLocks{}, &ccFrame{deferred: ccLocks{}})
	// a derived value returned by an ESCAPING / root function leaves the analysed code
}

// ------------------------------------------------------------------------------------ solve + emit

func (w *ccWorld) solve() {
	called := map[*ccNode]bool{}
	for _, n := range w.nodes {
		for _, c := range n.calls {
			called[w.byFunc[c.callee]] = true
		}
	}
	isRoot := func(n *ccNode) bool { return n.kind != 0 || n.escaped || !called[n] }
	top := ccLocks{}
	for i, m := range w.mutex {
		if m {
			top[i] = 2
		}
	}
	for _, n := range w.nodes {
		if isRoot(n) {
			n.entry = ccLocks{}
		} else {
			n.entry = top.copy()
		}
	}
	for changed := true; changed; {
		changed = false
		for _, n := range w.nodes {
			if isRoot(n) {
				continue
			}
			var acc ccLocks
			for _, m := range w.nodes {
				for _, c := range m.calls {
					if w.byFunc[c.callee] != n {
						continue
					}
					h := ccJoin(m.entry, c.locks)
					if acc == nil {
						acc = h
					} else {
						acc = ccMeet(acc, h)
					}
				}
			}
			if acc == nil {
				acc = ccLocks{}
			}
			if !ccEq(acc, n.entry) {
				n.entry = acc
				changed = true
			}
		}
	}
	for _, n := range w.nodes {
		n.roots = map[string]string{}
	}
	reach := func(start *ccNode, term, key string) {
		seen := map[*ccNode]bool{}
		todo := []*ccNode{start}
		for len(todo) > 0 {
			x := todo[len(todo)-1]
			todo = todo[:len(todo)-1]
			if seen[x] {
				continue
			}
			seen[x] = true
			x.roots[term] = key
			for _, c := range x.calls {
				todo = append(todo, w.byFunc[c.callee])
			}
		}
	}
	for _, n := range w.nodes {
		switch n.kind {
		case 0:
			if !called[n] && !n.escaped {
				reach(n, fmt.Sprintf("RApi %q", n.name), "0"+n.name)
			}
			if n.escaped {
				reach(n, fmt.Sprintf("RFunc %q", n.name), "1"+n.name)
			}
		case 1:
			reach(n, fmt.Sprintf("RGo %d %q", n.ordinal, n.name), fmt.Sprintf("2%04d", n.ordinal))
		case 2:
			reach(n, fmt.Sprintf("RTimer %d %q", n.ordinal, n.name), fmt.Sprintf("3%04d", n.ordinal))
		default:
			reach(n, fmt.Sprintf("RCallback %d %q", n.ordinal, n.name), fmt.Sprintf("4%04d", n.ordinal))
		}
	}
	// a derived value returned by a function whose callers are not all analysed leaves the table's scope
	for fn, i := range w.retAl {
		n := w.byFunc[fn]
		if n != nil && (n.escaped || !called[n]) {
			n.accesses = append(n.accesses, &ccAccess{v: 0, write: true, locks: ccLocks{}, pos: w.decls[fn].Pos(), known: false,
				note: "a value derived from " + w.vars[i].Name() + " is returned by a function with unknown callers"})
		}
	}
}

func ccBool(b bool) string {
	if b {
		return "true"
	}
	return "false"
}

func (w *ccWorld) emit() {
	fmt.Println("(* GENERATED by tools/cmd/gensyntax -gen locks-cmdcollector from cmd/collector. Do not edit. *)")
	fmt.Println("From Coq Require Import List String.")
	fmt.Println("From Verif.Model Require Import LockTab.")
	fmt.Println("Import ListNotations.")
	fmt.Println("Local Open Scope string_scope.")
	fmt.Println("Definition cmdcollector_vars : list field := [")
	for i, v := range w.vars {
		sep := ";"
		if i == len(w.vars)-1 {
			sep = ""
		}
		fmt.Printf("  MkField %d %q %s%s\n", i, v.Name(), ccBool(w.sync[i]), sep)
	}
	fmt.Println("].")
	for i, v := range w.vars {
		fmt.Printf("Definition cmdcollector_v_%s : nat := %d.\n", v.Name(), i)
	}
	relevant := map[*ccNode]bool{}
	acquires := map[*ccNode]map[int]bool{}
	for _, n := range w.nodes {
		acquires[n] = map[int]bool{}
		for _, a := range n.acq {
			acquires[n][a.mutex] = true
		}
		if len(n.accesses) > 0 || len(n.acq) > 0 {
			relevant[n] = true
		}
	}
	for changed := true; changed; {
		changed = false
		for _, n := range w.nodes {
			for _, c := range n.calls {
				cn := w.byFunc[c.callee]
				if relevant[cn] && !relevant[n] {
					relevant[n] = true
					changed = true
				}
				for m := range acquires[cn] {
					if !acquires[n][m] {
						acquires[n][m] = true
						changed = true
					}
				}
			}
		}
	}
	mutable := map[int]bool{}
	for _, n := range w.nodes {
		for _, a := range n.accesses {
			if a.known && a.write {
				mutable[a.v] = true
			}
		}
	}
	var rows []string
	// package-level initialisers: Init phase (they run before main)
	for i, v := range w.vars {
		if p, ok := w.initPos[i]; ok && !w.sync[i] {
			pp := w.fset.Position(p)
			rows = append(rows, fmt.Sprintf("  MkAcc %q %d %q true [] false PInit true [RApi \"init\"] %q",
				"init", i, v.Name(), fmt.Sprintf("%s:%d", filepath.Base(pp.Filename), pp.Line)))
		}
	}
	seen := map[string]bool{}
	for _, n := range w.nodes {
		var rts []string
		type kv struct{ term, key string }
		var ks []kv
		for term, key := range n.roots {
			ks = append(ks, kv{term, key})
		}
		sort.Slice(ks, func(i, j int) bool { return ks[i].key < ks[j].key })
		for _, x := range ks {
			rts = append(rts, x.term)
		}
		for _, a := range n.accesses {
			p := w.fset.Position(a.pos)
			pos := fmt.Sprintf("%s:%d", filepath.Base(p.Filename), p.Line)
			if a.note != "" {
				pos += " " + a.note
			}
			vname := w.vars[a.v].Name()
			if !a.known {
				vname = "?"
			}
			row := fmt.Sprintf("  MkAcc %q %d %q %s %s false PRun %s [%s] %q",
				n.name, a.v, vname, ccBool(a.write), ccCoq(ccJoin(n.entry, a.locks)), ccBool(a.known), strings.Join(rts, "; "), pos)
			if seen[row] {
				continue
			}
			seen[row] = true
			rows = append(rows, row)
		}
	}
	fmt.Printf("Definition cmdcollector_accesses : list access := [\n%s\n].\n", strings.Join(rows, ";\n"))
	var ms []string
	for _, n := range w.nodes {
		if !relevant[n] {
			continue
		}
		var acq []string
		count := map[int]int{}
		topOnly := map[int]bool{}
		mode := map[int]int{}
		for _, a := range n.acq {
			m := "LW"
			if a.mode == 1 {
				m = "LR"
			}
			acq = append(acq, fmt.Sprintf("(%d, %s, %s)", a.mutex, m, ccBool(a.top)))
			count[a.mutex]++
			topOnly[a.mutex] = a.top
			mode[a.mutex] = a.mode
		}
		whole := ccLocks{}
		for m, c := range count {
			if c != 1 || !topOnly[m] {
				continue
			}
			ok := true
			for _, a := range n.accesses {
				if !a.known {
					ok = false
				}
				if a.known && !mutable[a.v] {
					continue // a variable that is never written after initialisation needs no lock
				}
				if _, h := a.locks[m]; !h {
					ok = false
				}
			}
			for _, c := range n.calls {
				if relevant[w.byFunc[c.callee]] {
					if _, h := c.locks[m]; !h {
						ok = false
					}
				}
			}
			if ok {
				whole[m] = mode[m]
			}
		}
		comp := map[int]bool{}
		for _, c := range n.calls {
			held := ccJoin(n.entry, c.locks)
			for m := range acquires[w.byFunc[c.callee]] {
				if _, h := held[m]; !h {
					comp[m] = true
				}
			}
		}
		var compL []string
		for i := range w.mutex {
			if comp[i] {
				compL = append(compL, fmt.Sprint(i))
			}
		}
		ms = append(ms, fmt.Sprintf("  MkMeth %q false [%s] %s %s [%s] %s",
			n.name, strings.Join(acq, "; "), ccCoq(whole), ccCoq(n.entry), strings.Join(compL, "; "), ccBool(len(n.accesses) > 0)))
	}
	fmt.Printf("Definition cmdcollector_methods : list meth := [\n%s\n].\n", strings.Join(ms, ";\n"))
}

func genLocksCmdCollector(ps []*packages.Package) {
	var pkg *packages.Package
	for _, p := range ps {
		if p.PkgPath == ccPkgPath {
			pkg = p
		}
	}
	if pkg == nil {
		fmt.Fprintln(os.Stderr, "locks-cmdcollector: package", ccPkgPath, "not loaded")
		os.Exit(2)
	}
	w := &ccWorld{pkg: pkg, info: pkg.TypesInfo, fset: pkg.Fset, idx: map[*types.Var]int{}, byFunc: map[*types.Func]*ccNode{},
		decls: map[*types.Func]*ast.FuncDecl{}, alias: map[*types.Var]int{}, retAl: map[*types.Func]int{}, initPos: map[int]token.Pos{}}
	type fd struct {
		d    *ast.FuncDecl
		file string
	}
	var decls []fd
	type vd struct {
		v    *types.Var
		pos  token.Pos
		init bool
		file string
	}
	var vds []vd
	for _, f := range pkg.Syntax {
		name := filepath.Base(pkg.Fset.Position(f.Pos()).Filename)
		if strings.HasPrefix(name, "verif_") || strings.HasSuffix(name, "_test.go") {
			continue
		}
		for _, d := range f.Decls {
			switch d := d.(type) {
			case *ast.FuncDecl:
				if d.Body != nil {
					decls = append(decls, fd{d, name})
				}
			case *ast.GenDecl:
				if d.Tok != token.VAR {
					continue
				}
				for _, sp := range d.Specs {
					vs := sp.(*ast.ValueSpec)
					for _, id := range vs.Names {
						if v, ok := pkg.TypesInfo.Defs[id].(*types.Var); ok && id.Name != "_" {
							vds = append(vds, vd{v, id.Pos(), len(vs.Values) > 0, name})
						}
					}
				}
			}
		}
	}
	sort.Slice(vds, func(i, j int) bool {
		if vds[i].file != vds[j].file {
			return vds[i].file < vds[j].file
		}
		return vds[i].pos < vds[j].pos
	})
	for i, x := range vds {
		w.vars = append(w.vars, x.v)
		w.idx[x.v] = i
		s, m := ccIsSync(x.v.Type())
		w.sync = append(w.sync, s)
		w.mutex = append(w.mutex, m)
		if x.init {
			w.initPos[i] = x.pos
		}
	}
	sort.Slice(decls, func(i, j int) bool {
		if decls[i].file != decls[j].file {
			return decls[i].file < decls[j].file
		}
		return decls[i].d.Pos() < decls[j].d.Pos()
	})
	for _, d := range decls {
		fn := pkg.TypesInfo.Defs[d.d.Name].(*types.Func)
		name := fn.Name()
		if sig := fn.Type().(*types.Signature); sig.Recv() != nil {
			rt := sig.Recv().Type()
			if pt, ok := rt.(*types.Pointer); ok {
				rt = pt.Elem()
			}
			if nt, ok := rt.(*types.Named); ok {
				name = nt.Obj().Name() + "." + name
			}
		}
		n := &ccNode{name: name, kind: 0, fn: fn, body: d.d.Body, entry: ccLocks{}}
		w.nodes = append(w.nodes, n)
		w.byFunc[fn] = n
		w.decls[fn] = d.d
	}
	for i := 0; i < 50 && w.aliasPass(); i++ {
	}
	declNodes := append([]*ccNode{}, w.nodes...)
	for _, n := range declNodes {
		w.analyse(n)
	}
	w.solve()
	w.emit()
}
