package main

// T5, wait discipline (C14): for every target struct of locks.go that has a sync.WaitGroup field,
// emit into coq/Gen/Locks.v (vocabulary: coq/Model/WaitTab.v)
//
//	<short>_closers : list closer   functions that execute close(<channel field>) themselves or
//	                                through package-local calls (not through `go`), with, per exit
//	                                (return statement / end of body), the WaitGroup fields on which
//	                                Wait() has certainly been executed or deferred on every path
//	<short>_spawns  : list spawn    every go statement: WaitGroup fields certainly Add()ed before
//	                                it, WaitGroup fields with a top-level `defer wg.Done()` in the
//	                                goroutine's body
//
// Must-analysis over the statement structure: intersection at joins, a loop body may run zero
// times, a `defer wg.Wait()` counts from the point where it is executed, a call of a
// package-local function that waits on all of its exits counts as a Wait (fixpoint). Func
// literals that are not the operand of this go statement are not entered. goto / labelled
// break / continue make the function unclassified (c_known = false).

import (
	"fmt"
	"go/ast"
	"go/token"
	"go/types"
	"path/filepath"
	"sort"
	"strings"
)

type wset map[int]bool

func (s wset) copy() wset {
	o := wset{}
	for k, v := range s {
		if v {
			o[k] = true
		}
	}
	return o
}
func wmeet(a, b wset) wset {
	o := wset{}
	for k := range a {
		if a[k] && b[k] {
			o[k] = true
		}
	}
	return o
}
func wlist(s wset) string {
	var ks []int
	for k, v := range s {
		if v {
			ks = append(ks, k)
		}
	}
	sort.Ints(ks)
	var ps []string
	for _, k := range ks {
		ps = append(ps, fmt.Sprint(k))
	}
	return "[" + strings.Join(ps, "; ") + "]"
}

type wstate struct{ waited, added wset }

func (s wstate) copy() wstate { return wstate{s.waited.copy(), s.added.copy()} }
func wsmeet(a, b wstate) wstate {
	return wstate{wmeet(a.waited, b.waited), wmeet(a.added, b.added)}
}

type wexit struct {
	pos    token.Pos
	what   string
	waited wset
}
type wspawn struct {
	fn    string
	pos   token.Pos
	added wset
	done  wset
}

type waitWalker struct {
	t       *target
	info    *types.Info
	wgField map[int]bool
	summary map[*types.Func]wset // waits on all exits
	exits   []wexit
	spawns  []wspawn
	known   bool
	fname   string
	breaks  []wstate
}

func (w *waitWalker) field(e ast.Expr) (int, bool) {
	sel, ok := ast.Unparen(e).(*ast.SelectorExpr)
	if !ok {
		return 0, false
	}
	s := w.info.Selections[sel]
	if s == nil || s.Kind() != types.FieldVal {
		return 0, false
	}
	v, ok := s.Obj().(*types.Var)
	if !ok {
		return 0, false
	}
	i, ok := w.t.fieldIdx[v]
	return i, ok
}

// wgCall: x.<wg field>.<name>(...) with the method from package sync
func (w *waitWalker) wgCall(c *ast.CallExpr) (int, string, bool) {
	sel, ok := ast.Unparen(c.Fun).(*ast.SelectorExpr)
	if !ok {
		return 0, "", false
	}
	f, ok := w.info.Uses[sel.Sel].(*types.Func)
	if !ok || f.Pkg() == nil || f.Pkg().Path() != "sync" {
		return 0, "", false
	}
	i, ok := w.field(sel.X)
	if !ok || !w.wgField[i] {
		return 0, "", false
	}
	return i, f.Name(), true
}

func (w *waitWalker) localCallee(c *ast.CallExpr) *types.Func {
	var o types.Object
	switch f := ast.Unparen(c.Fun).(type) {
	case *ast.Ident:
		o = w.info.Uses[f]
	case *ast.SelectorExpr:
		if s := w.info.Selections[f]; s != nil {
			o = s.Obj()
		} else {
			o = w.info.Uses[f.Sel]
		}
	}
	fn, ok := o.(*types.Func)
	if !ok {
		return nil
	}
	if _, ok := w.t.byFunc[fn]; !ok {
		return nil
	}
	return fn
}

func (w *waitWalker) callEffect(c *ast.CallExpr, st wstate) {
	if i, name, ok := w.wgCall(c); ok {
		switch name {
		case "Wait":
			st.waited[i] = true
		case "Add":
			st.added[i] = true
		}
		return
	}
	if fn := w.localCallee(c); fn != nil {
		for k := range w.summary[fn] {
			st.waited[k] = true
		}
	}
}

// calls nested in an expression, in evaluation order as far as it matters here (func literals are not entered)
func (w *waitWalker) exprCalls(e ast.Node, st wstate) {
	if e == nil {
		return
	}
	ast.Inspect(e, func(n ast.Node) bool {
		switch x := n.(type) {
		case *ast.FuncLit:
			return false
		case *ast.CallExpr:
			for _, a := range x.Args {
				w.exprCalls(a, st)
			}
			w.exprCalls(x.Fun, st)
			w.callEffect(x, st)
			return false
		}
		return true
	})
}

func (w *waitWalker) goDone(g *ast.GoStmt) wset {
	done := wset{}
	var body *ast.BlockStmt
	if lit, ok := ast.Unparen(g.Call.Fun).(*ast.FuncLit); ok {
		body = lit.Body
	} else if fn := w.localCallee(g.Call); fn != nil {
		body = w.t.byFunc[fn].body
	}
	if body == nil {
		return done
	}
	for _, s := range body.List {
		d, ok := s.(*ast.DeferStmt)
		if !ok {
			continue
		}
		if i, name, ok := w.wgCall(d.Call); ok && name == "Done" {
			done[i] = true
		}
		// defer func() { ...; wg.Done() }()
		if lit, ok := ast.Unparen(d.Call.Fun).(*ast.FuncLit); ok {
			for _, s2 := range lit.Body.List {
				if es, ok := s2.(*ast.ExprStmt); ok {
					if c, ok := es.X.(*ast.CallExpr); ok {
						if i, name, ok := w.wgCall(c); ok && name == "Done" {
							done[i] = true
						}
					}
				}
			}
		}
	}
	return done
}

func (w *waitWalker) block(list []ast.Stmt, st wstate) (wstate, bool) {
	for _, s := range list {
		var term bool
		st, term = w.stmt(s, st)
		if term {
			return st, true
		}
	}
	return st, false
}

func (w *waitWalker) stmt(s ast.Stmt, st wstate) (wstate, bool) {
	switch x := s.(type) {
	case nil:
	case *ast.ExprStmt:
		w.exprCalls(x.X, st)
		if c, ok := x.X.(*ast.CallExpr); ok {
			if id, ok := c.Fun.(*ast.Ident); ok && id.Name == "panic" {
				if _, ok := w.info.Uses[id].(*types.Builtin); ok {
					return st, true
				}
			}
		}
	case *ast.AssignStmt:
		for _, r := range x.Rhs {
			w.exprCalls(r, st)
		}
		for _, l := range x.Lhs {
			w.exprCalls(l, st)
		}
	case *ast.IncDecStmt:
		w.exprCalls(x.X, st)
	case *ast.DeclStmt:
		w.exprCalls(x.Decl, st)
	case *ast.SendStmt:
		w.exprCalls(x.Chan, st)
		w.exprCalls(x.Value, st)
	case *ast.GoStmt:
		for _, a := range x.Call.Args {
			w.exprCalls(a, st)
		}
		w.spawns = append(w.spawns, wspawn{fn: w.fname, pos: x.Pos(), added: st.added.copy(), done: w.goDone(x)})
		st.added = wset{} // consumed
		// the goroutine's body: its own go statements
		if lit, ok := ast.Unparen(x.Call.Fun).(*ast.FuncLit); ok {
			sub := &waitWalker{t: w.t, info: w.info, wgField: w.wgField, summary: w.summary, known: true, fname: w.fname}
			sub.block(lit.Body.List, wstate{wset{}, wset{}})
			w.spawns = append(w.spawns, sub.spawns...)
		}
	case *ast.DeferStmt:
		// a deferred Wait / waiting callee runs at every exit reached from here on
		for _, a := range x.Call.Args {
			w.exprCalls(a, st)
		}
		if i, name, ok := w.wgCall(x.Call); ok {
			if name == "Wait" {
				st.waited[i] = true
			}
		} else if fn := w.localCallee(x.Call); fn != nil {
			for k := range w.summary[fn] {
				st.waited[k] = true
			}
		} else if lit, ok := ast.Unparen(x.Call.Fun).(*ast.FuncLit); ok {
			// defer func() { ... wg.Wait() ... }(): straight-line top-level calls only
			for _, s2 := range lit.Body.List {
				if es, ok := s2.(*ast.ExprStmt); ok {
					if c, ok := es.X.(*ast.CallExpr); ok {
						if i, name, ok := w.wgCall(c); ok && name == "Wait" {
							st.waited[i] = true
						} else if fn := w.localCallee(c); fn != nil {
							for k := range w.summary[fn] {
								st.waited[k] = true
							}
						}
					}
				}
			}
		}
	case *ast.ReturnStmt:
		for _, r := range x.Results {
			w.exprCalls(r, st)
		}
		w.exits = append(w.exits, wexit{x.Pos(), "return", st.waited.copy()})
		return st, true
	case *ast.BranchStmt:
		if x.Tok == token.GOTO || x.Label != nil {
			w.known = false
		}
		if x.Tok == token.FALLTHROUGH {
			return st, false
		}
		w.breaks = append(w.breaks, st.copy())
		return st, true
	case *ast.BlockStmt:
		return w.block(x.List, st)
	case *ast.LabeledStmt:
		return w.stmt(x.Stmt, st)
	case *ast.IfStmt:
		st, _ = w.stmt(x.Init, st)
		w.exprCalls(x.Cond, st)
		var outs []wstate
		o1, t1 := w.block(x.Body.List, st.copy())
		if !t1 {
			outs = append(outs, o1)
		}
		if x.Else != nil {
			o2, t2 := w.stmt(x.Else, st.copy())
			if !t2 {
				outs = append(outs, o2)
			}
		} else {
			outs = append(outs, st)
		}
		if len(outs) == 0 {
			return st, true
		}
		m := outs[0]
		for _, o := range outs[1:] {
			m = wsmeet(m, o)
		}
		return m, false
	case *ast.ForStmt, *ast.RangeStmt:
		var body *ast.BlockStmt
		infinite := false
		switch y := x.(type) {
		case *ast.ForStmt:
			st, _ = w.stmt(y.Init, st)
			w.exprCalls(y.Cond, st)
			body = y.Body
			infinite = y.Cond == nil
		case *ast.RangeStmt:
			w.exprCalls(y.X, st)
			body = y.Body
		}
		saved := w.breaks
		w.breaks = nil
		w.block(body.List, st.copy())
		inner := w.breaks
		w.breaks = saved
		// after the loop: the body may not have run (or left through break / continue): only
		// what held before the loop and at every break certainly holds. `for {}` without a break
		// is left only through return.
		if infinite && len(inner) == 0 {
			return st, true
		}
		m := st
		if infinite {
			m = inner[0]
		}
		for _, o := range inner {
			m = wsmeet(m, o)
		}
		m = wsmeet(m, st)
		return m, false
	case *ast.SwitchStmt, *ast.TypeSwitchStmt, *ast.SelectStmt:
		var body *ast.BlockStmt
		hasDefault := false
		switch y := x.(type) {
		case *ast.SwitchStmt:
			st, _ = w.stmt(y.Init, st)
			w.exprCalls(y.Tag, st)
			body = y.Body
		case *ast.TypeSwitchStmt:
			st, _ = w.stmt(y.Init, st)
			body = y.Body
		case *ast.SelectStmt:
			body = y.Body
			hasDefault = true
		}
		saved := w.breaks
		w.breaks = nil
		var outs []wstate
		for _, cl := range body.List {
			cs := st.copy()
			var list []ast.Stmt
			switch c := cl.(type) {
			case *ast.CaseClause:
				if c.List == nil {
					hasDefault = true
				}
				for _, e := range c.List {
					w.exprCalls(e, cs)
				}
				list = c.Body
			case *ast.CommClause:
				cs, _ = w.stmt(c.Comm, cs)
				list = c.Body
			}
			o, t := w.block(list, cs)
			if !t {
				outs = append(outs, o)
			}
		}
		// break inside a clause leaves the switch; continue concerns the enclosing loop: both are
		// merged here AND handed up (conservative)
		inner := w.breaks
		w.breaks = append(saved, inner...)
		outs = append(outs, inner...)
		if !hasDefault || len(body.List) == 0 {
			outs = append(outs, st)
		}
		if len(outs) == 0 {
			return st, true
		}
		m := outs[0]
		for _, o := range outs[1:] {
			m = wsmeet(m, o)
		}
		return m, false
	}
	return st, false
}

// directCloses: channel fields closed in body, not entering the bodies of go statements
func (t *target) directCloses(info *types.Info, body *ast.BlockStmt, w *waitWalker) wset {
	out := wset{}
	ast.Inspect(body, func(n ast.Node) bool {
		switch x := n.(type) {
		case *ast.GoStmt:
			return false
		case *ast.CallExpr:
			if id, ok := ast.Unparen(x.Fun).(*ast.Ident); ok && id.Name == "close" && len(x.Args) == 1 {
				if _, ok := info.Uses[id].(*types.Builtin); ok {
					if i, ok := w.field(x.Args[0]); ok {
						out[i] = true
					}
				}
			}
		}
		return true
	})
	return out
}

func (t *target) emitWaits(fset *token.FileSet) {
	info := t.pkg.TypesInfo
	wgField := map[int]bool{}
	for i := 0; i < t.st.NumFields(); i++ {
		ft := t.st.Field(i).Type()
		if p, ok := ft.(*types.Pointer); ok {
			ft = p.Elem()
		}
		if n, ok := ft.(*types.Named); ok && n.Obj().Pkg() != nil && n.Obj().Pkg().Path() == "sync" && n.Obj().Name() == "WaitGroup" {
			wgField[i] = true
		}
	}
	if len(wgField) == 0 {
		return
	}
	var decls []*node
	for _, n := range t.nodes {
		if n.kind == kDecl && n.body != nil && n.fn != nil {
			decls = append(decls, n)
		}
	}
	summary := map[*types.Func]wset{}
	type result struct {
		exits  []wexit
		spawns []wspawn
		known  bool
	}
	res := map[*node]*result{}
	analyse := func(n *node) *result {
		w := &waitWalker{t: t, info: info, wgField: wgField, summary: summary, known: true, fname: n.name}
		end, term := w.block(n.body.List, wstate{wset{}, wset{}})
		if !term {
			w.exits = append(w.exits, wexit{n.body.Rbrace, "end of body", end.waited.copy()})
		}
		return &result{w.exits, w.spawns, w.known}
	}
	for round := 0; round < 20; round++ {
		changed := false
		for _, n := range decls {
			r := analyse(n)
			res[n] = r
			var all wset
			for _, e := range r.exits {
				if all == nil {
					all = e.waited.copy()
				} else {
					all = wmeet(all, e.waited)
				}
			}
			if all == nil || !r.known {
				all = wset{}
			}
			if len(all) != len(summary[n.fn]) {
				summary[n.fn] = all
				changed = true
			}
		}
		if !changed {
			break
		}
	}
	// closes: direct, then through package-local static calls
	helper := &waitWalker{t: t, info: info, wgField: wgField}
	closes := map[*node]wset{}
	for _, n := range decls {
		closes[n] = t.directCloses(info, n.body, helper)
	}
	for changed := true; changed; {
		changed = false
		for _, n := range decls {
			for _, c := range n.calls {
				cn := t.byFunc[c.callee]
				for k := range closes[cn] {
					if !closes[n][k] {
						closes[n][k] = true
						changed = true
					}
				}
			}
		}
	}
	posStr := func(p token.Pos) string {
		pp := fset.Position(p)
		return fmt.Sprintf("%s:%d", filepath.Base(pp.Filename), pp.Line)
	}
	var crow []string
	for _, n := range decls {
		if len(closes[n]) == 0 {
			continue
		}
		r := res[n]
		var ex []string
		for _, e := range r.exits {
			ex = append(ex, fmt.Sprintf("MkExit %q %s", posStr(e.pos)+" "+e.what, wlist(e.waited)))
		}
		crow = append(crow, fmt.Sprintf("  MkCloser %q %s %s [%s] %s", n.name, coqBool(n.exported), wlist(closes[n]), strings.Join(ex, "; "), coqBool(r.known)))
	}
	fmt.Printf("Definition %s_closers : list closer := [\n%s\n].\n", t.short, strings.Join(crow, ";\n"))
	var srow []string
	ord := 0
	for _, n := range decls {
		for _, s := range res[n].spawns {
			srow = append(srow, fmt.Sprintf("  MkSpawn %q %d %s %s %q", s.fn, ord, wlist(s.added), wlist(s.done), posStr(s.pos)))
			ord++
		}
	}
	fmt.Printf("Definition %s_spawns : list spawn := [\n%s\n].\n", t.short, strings.Join(srow, ";\n"))
}
