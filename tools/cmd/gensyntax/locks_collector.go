package main

// locks-collector: a small field-access / lock table of collector.CollectingProcess for C12
// (builder I's own translator; to be reconciled with T5 in locks.go).
//
// For every method of the package and every goroutine / callback literal, each use of a field
// of *CollectingProcess is recorded with: the thread root that reaches it (API method, Start,
// each `go func` literal, function literals passed as arguments = timer callbacks), read or
// write, and the mutexes held at that point (Lock/RLock ... Unlock/RUnlock in statement order,
// `defer Unlock` = held to the end of the function, `func() { lock; defer unlock; ... }()`
// closures, package-local callees inlined with the caller's lock set). Fields whose type is a
// channel or comes from package sync are synchronisation objects and exempt. The constructor
// (initCollectingProcess, before any goroutine) is the Init phase. Anything the walker cannot
// classify (lock operations on something else than a field of the receiver, TryLock, a `go`
// statement in the constructor, defer of an unlock inside a loop) becomes an Unknown row,
// which fails lockset_ok.

import (
	"fmt"
	"go/ast"
	"go/token"
	"go/types"
	"sort"
	"strings"

	"golang.org/x/tools/go/packages"
)

type lcAccess struct {
	root    string
	field   string
	write   bool
	locks   map[string]bool // mutex field -> exclusive
	init    bool
	unknown string
	pos     string
}

type lcWalker struct {
	pkg     *packages.Package
	st      *types.Struct
	named   *types.Named
	funcs   map[*types.Func]*ast.FuncDecl
	rows    []lcAccess
	roots   map[string]bool
	multi   map[string]bool
	nlit    map[string]int
	exempt  map[string]bool
	mutexes map[string]bool
	gos     []lcGo
}

// isWgCall: <receiver>.wg.<name>(...)
func (w *lcWalker) isWgCall(call *ast.CallExpr, name string) bool {
	se, ok := call.Fun.(*ast.SelectorExpr)
	if !ok || se.Sel.Name != name {
		return false
	}
	f, ok := w.fieldOf(se.X)
	return ok && f == "wg"
}

// goDiscipline: is the goroutine started by g counted by the wait group (an Add before the go
// statement in the same function, a deferred Done at the top level of the literal)?
func (w *lcWalker) goDiscipline(c *lcCtx, g *ast.GoStmt, root string) {
	rec := lcGo{root: root, pos: w.pkg.Fset.Position(g.Pos()).String()}
	if c.fnBody != nil {
		ast.Inspect(c.fnBody, func(n ast.Node) bool {
			if _, ok := n.(*ast.FuncLit); ok {
				return false
			}
			if call, ok := n.(*ast.CallExpr); ok && call.Pos() < g.Pos() && w.isWgCall(call, "Add") {
				rec.addFirst = true
			}
			return true
		})
	}
	if fl, ok := g.Call.Fun.(*ast.FuncLit); ok {
		for _, st := range fl.Body.List {
			if d, ok := st.(*ast.DeferStmt); ok && w.isWgCall(d.Call, "Done") {
				rec.done = true
			}
		}
	}
	w.gos = append(w.gos, rec)
}

func (w *lcWalker) isCP(t types.Type) bool {
	if p, ok := t.(*types.Pointer); ok {
		t = p.Elem()
	}
	n, ok := t.(*types.Named)
	return ok && n.Obj() == w.named.Obj()
}

// fieldOf returns the field name when e is <expr of type *CollectingProcess>.<field>
func (w *lcWalker) fieldOf(e ast.Expr) (string, bool) {
	se, ok := e.(*ast.SelectorExpr)
	if !ok {
		return "", false
	}
	sel := w.pkg.TypesInfo.Selections[se]
	if sel == nil || sel.Kind() != types.FieldVal {
		return "", false
	}
	if !w.isCP(sel.Recv()) {
		return "", false
	}
	return se.Sel.Name, true
}

type lcGo struct {
	root     string
	addFirst bool
	done     bool
	pos      string
}

type lcCtx struct {
	fnBody *ast.BlockStmt
	root  string
	held  map[string]bool
	init  bool
	depth int
	stack map[*types.Func]bool
	loop  int
}

func (c lcCtx) clone() lcCtx {
	h := map[string]bool{}
	for k, v := range c.held {
		h[k] = v
	}
	c.held = h
	return c
}

func (w *lcWalker) add(c lcCtx, field string, write bool, pos token.Pos, unknown string) {
	if w.exempt[field] && unknown == "" {
		return
	}
	l := map[string]bool{}
	for k, v := range c.held {
		l[k] = v
	}
	w.rows = append(w.rows, lcAccess{c.root, field, write, l, c.init, unknown, w.pkg.Fset.Position(pos).String()})
}

// baseField strips index expressions / parens / stars to find the field a write lands in
func (w *lcWalker) baseField(e ast.Expr) (string, bool) {
	for {
		switch x := e.(type) {
		case *ast.IndexExpr:
			e = x.X
		case *ast.ParenExpr:
			e = x.X
		case *ast.StarExpr:
			e = x.X
		default:
			return w.fieldOf(e)
		}
	}
}

func (w *lcWalker) newRoot(parent string, kind string, multi bool) string {
	w.nlit[parent+kind]++
	r := fmt.Sprintf("%s.%s%d", parent, kind, w.nlit[parent+kind])
	w.roots[r] = true
	w.multi[r] = multi
	return r
}

func (w *lcWalker) lockCall(c *lcCtx, call *ast.CallExpr, deferred bool) bool {
	se, ok := call.Fun.(*ast.SelectorExpr)
	if !ok {
		return false
	}
	name := se.Sel.Name
	switch name {
	case "Lock", "Unlock", "RLock", "RUnlock", "TryLock", "TryRLock":
	default:
		return false
	}
	// is the receiver a sync mutex at all?
	tv := w.pkg.TypesInfo.TypeOf(se.X)
	if tv == nil || !strings.Contains(tv.String(), "sync.") {
		return false
	}
	f, ok := w.fieldOf(se.X)
	if !ok || !w.mutexes[f] {
		w.add(*c, "?", true, call.Pos(), "lock operation on something that is not a mutex field of the receiver")
		return true
	}
	switch name {
	case "Lock":
		c.held[f] = true
	case "RLock":
		c.held[f] = false
	case "Unlock", "RUnlock":
		if deferred {
			if c.loop > 0 {
				w.add(*c, f, true, call.Pos(), "deferred unlock inside a loop")
			}
			// held until the function returns
		} else {
			delete(c.held, f)
		}
	default:
		w.add(*c, f, true, call.Pos(), "TryLock")
	}
	return true
}

func (w *lcWalker) expr(c *lcCtx, e ast.Expr) {
	if e == nil {
		return
	}
	switch x := e.(type) {
	case *ast.FuncLit:
		// a literal that is not called on the spot: a callback (timer, condition function)
		nc := lcCtx{root: w.newRoot(c.root, "func", true), held: map[string]bool{}, stack: c.stack, depth: c.depth, fnBody: x.Body}
		w.block(&nc, x.Body)
		return
	case *ast.CallExpr:
		w.call(c, x, false)
		return
	case *ast.SelectorExpr:
		if f, ok := w.fieldOf(x); ok {
			w.add(*c, f, false, x.Pos(), "")
			w.expr(c, x.X)
			return
		}
	}
	ast.Inspect(e, func(n ast.Node) bool {
		if n == e {
			return true
		}
		if sub, ok := n.(ast.Expr); ok {
			switch sub.(type) {
			case *ast.FuncLit, *ast.CallExpr, *ast.SelectorExpr:
				w.expr(c, sub)
				return false
			}
		}
		return true
	})
}

func (w *lcWalker) call(c *lcCtx, call *ast.CallExpr, deferred bool) {
	if w.lockCall(c, call, deferred) {
		return
	}
	// delete(m, k): a write to m
	if id, ok := call.Fun.(*ast.Ident); ok && id.Name == "delete" && len(call.Args) == 2 {
		if f, ok := w.baseField(call.Args[0]); ok {
			w.add(*c, f, true, call.Pos(), "")
		} else {
			w.expr(c, call.Args[0])
		}
		w.expr(c, call.Args[1])
		return
	}
	// immediately invoked literal: runs here, with the locks held here
	if fl, ok := call.Fun.(*ast.FuncLit); ok {
		for _, a := range call.Args {
			w.expr(c, a)
		}
		nc := c.clone()
		if deferred {
			nc.held = map[string]bool{} // runs at function exit: assume nothing held
		}
		nc.fnBody = fl.Body
		w.block(&nc, fl.Body)
		return
	}
	for _, a := range call.Args {
		w.expr(c, a)
	}
	// package-local callee: inline with the caller's lock set
	var obj types.Object
	switch f := call.Fun.(type) {
	case *ast.Ident:
		obj = w.pkg.TypesInfo.Uses[f]
	case *ast.SelectorExpr:
		obj = w.pkg.TypesInfo.Uses[f.Sel]
		if _, isField := w.fieldOf(f); !isField {
			w.expr(c, f.X)
		} else {
			w.expr(c, f)
		}
	}
	if fn, ok := obj.(*types.Func); ok {
		if decl, ok := w.funcs[fn]; ok && decl.Body != nil && !c.stack[fn] && c.depth < 12 {
			nc := c.clone()
			nc.depth++
			nc.loop = 0
			nc.stack = map[*types.Func]bool{fn: true}
			for k := range c.stack {
				nc.stack[k] = true
			}
			nc.fnBody = decl.Body
			w.block(&nc, decl.Body)
		}
	}
}

func (w *lcWalker) block(c *lcCtx, b *ast.BlockStmt) {
	if b == nil {
		return
	}
	for _, s := range b.List {
		w.stmt(c, s)
	}
}

func (w *lcWalker) stmt(c *lcCtx, s ast.Stmt) {
	switch x := s.(type) {
	case nil:
	case *ast.ExprStmt:
		w.expr(c, x.X)
	case *ast.AssignStmt:
		for _, r := range x.Rhs {
			w.expr(c, r)
		}
		for _, l := range x.Lhs {
			if f, ok := w.baseField(l); ok {
				w.add(*c, f, true, l.Pos(), "")
				if ie, ok := l.(*ast.IndexExpr); ok {
					w.expr(c, ie.Index)
				}
			} else {
				w.expr(c, l)
			}
		}
	case *ast.IncDecStmt:
		if f, ok := w.baseField(x.X); ok {
			w.add(*c, f, true, x.Pos(), "")
		} else {
			w.expr(c, x.X)
		}
	case *ast.GoStmt:
		if c.init {
			w.add(*c, "?", true, x.Pos(), "go statement in the constructor")
		}
		if fl, ok := x.Call.Fun.(*ast.FuncLit); ok {
			for _, a := range x.Call.Args {
				w.expr(c, a)
			}
			nc := lcCtx{root: w.newRoot(c.root, "go", true), held: map[string]bool{}, stack: c.stack, depth: c.depth, fnBody: fl.Body}
			w.goDiscipline(c, x, nc.root)
			w.block(&nc, fl.Body)
		} else {
			nc := lcCtx{root: w.newRoot(c.root, "go", true), held: map[string]bool{}, stack: c.stack, depth: c.depth}
			w.call(&nc, x.Call, false)
		}
	case *ast.DeferStmt:
		w.call(c, x.Call, true)
	case *ast.BlockStmt:
		w.block(c, x)
	case *ast.IfStmt:
		w.stmt(c, x.Init)
		w.expr(c, x.Cond)
		w.block(c, x.Body)
		w.stmt(c, x.Else)
	case *ast.ForStmt:
		w.stmt(c, x.Init)
		w.expr(c, x.Cond)
		c.loop++
		w.block(c, x.Body)
		c.loop--
		w.stmt(c, x.Post)
	case *ast.RangeStmt:
		w.expr(c, x.X)
		c.loop++
		w.block(c, x.Body)
		c.loop--
	case *ast.ReturnStmt:
		for _, r := range x.Results {
			w.expr(c, r)
		}
	case *ast.SwitchStmt:
		w.stmt(c, x.Init)
		w.expr(c, x.Tag)
		w.block(c, x.Body)
	case *ast.TypeSwitchStmt:
		w.stmt(c, x.Init)
		w.stmt(c, x.Assign)
		w.block(c, x.Body)
	case *ast.CaseClause:
		for _, e := range x.List {
			w.expr(c, e)
		}
		for _, st := range x.Body {
			w.stmt(c, st)
		}
	case *ast.SelectStmt:
		w.block(c, x.Body)
	case *ast.CommClause:
		w.stmt(c, x.Comm)
		for _, st := range x.Body {
			w.stmt(c, st)
		}
	case *ast.SendStmt:
		w.expr(c, x.Chan)
		w.expr(c, x.Value)
	case *ast.DeclStmt:
		if gd, ok := x.Decl.(*ast.GenDecl); ok {
			for _, sp := range gd.Specs {
				if vs, ok := sp.(*ast.ValueSpec); ok {
					for _, v := range vs.Values {
						w.expr(c, v)
					}
				}
			}
		}
	case *ast.LabeledStmt:
		w.stmt(c, x.Stmt)
	}
}

func genLocksCollector(ps []*packages.Package) {
	var pkg *packages.Package
	for _, p := range ps {
		if strings.HasSuffix(p.PkgPath, "/pkg/collector") {
			pkg = p
		}
	}
	if pkg == nil {
		fmt.Println("(* package collector not found *)")
		return
	}
	obj := pkg.Types.Scope().Lookup("CollectingProcess")
	named := obj.Type().(*types.Named)
	st := named.Underlying().(*types.Struct)
	w := &lcWalker{pkg: pkg, st: st, named: named, funcs: map[*types.Func]*ast.FuncDecl{}, roots: map[string]bool{},
		multi: map[string]bool{}, nlit: map[string]int{}, exempt: map[string]bool{}, mutexes: map[string]bool{}}
	fields := []string{}
	for i := 0; i < st.NumFields(); i++ {
		f := st.Field(i)
		fields = append(fields, f.Name())
		ts := f.Type().String()
		if _, ok := f.Type().Underlying().(*types.Chan); ok {
			w.exempt[f.Name()] = true
		}
		if strings.HasPrefix(ts, "sync.") || strings.HasPrefix(ts, "sync/atomic.") {
			w.exempt[f.Name()] = true
			if strings.Contains(ts, "Mutex") {
				w.mutexes[f.Name()] = true
			}
		}
	}
	var decls []*ast.FuncDecl
	for _, f := range pkg.Syntax {
		for _, d := range f.Decls {
			if fd, ok := d.(*ast.FuncDecl); ok {
				if fn, ok := pkg.TypesInfo.Defs[fd.Name].(*types.Func); ok {
					w.funcs[fn] = fd
					decls = append(decls, fd)
				}
			}
		}
	}
	sort.Slice(decls, func(i, j int) bool { return decls[i].Name.Name < decls[j].Name.Name })
	// roots: the constructor (Init), Start (single instance), every other exported function or
	// method (API, possibly concurrent)
	for _, fd := range decls {
		name := fd.Name.Name
		isInit := name == "initCollectingProcess" || name == "InitCollectingProcess" || name == "VerifInitCollectingProcess"
		if !isInit && !ast.IsExported(name) {
			continue
		}
		if fd.Recv != nil && len(fd.Recv.List) == 1 {
			// methods of other types of the package (clocks, timers) are not roots of their own:
			// they are reached, if at all, through calls from the methods of CollectingProcess
			if !w.isCP(pkg.TypesInfo.TypeOf(fd.Recv.List[0].Type)) {
				continue
			}
		}
		fn := pkg.TypesInfo.Defs[fd.Name].(*types.Func)
		root := "api." + name
		if isInit {
			root = "init"
		}
		w.roots[root] = true
		w.multi[root] = !(name == "Start" || isInit)
		c := lcCtx{root: root, held: map[string]bool{}, init: isInit, stack: map[*types.Func]bool{fn: true}, fnBody: fd.Body}
		w.block(&c, fd.Body)
	}
	// composite literal of the struct in the constructor: Init writes of every field
	for _, f := range fields {
		w.rows = append(w.rows, lcAccess{"init", f, true, map[string]bool{}, true, "", "composite literal"})
	}
	// ---- emit ----
	fidx := map[string]int{}
	for i, f := range fields {
		fidx[f] = i
	}
	fidx["?"] = len(fields)
	roots := []string{}
	for r := range w.roots {
		roots = append(roots, r)
	}
	sort.Strings(roots)
	ridx := map[string]int{}
	for i, r := range roots {
		ridx[r] = i
	}
	midx := map[string]int{}
	mnames := []string{}
	for m := range w.mutexes {
		mnames = append(mnames, m)
	}
	sort.Strings(mnames)
	for i, m := range mnames {
		midx[m] = i
	}
	type key struct {
		root, field int
		write       bool
		locks       string
		init        bool
		unknown     bool
	}
	seen := map[key]bool{}
	fmt.Println("(* GENERATED by tools/cmd/gensyntax -gen locks-collector from pkg/collector. Do not edit. *)")
	fmt.Println("From Coq Require Import List Bool Arith.")
	fmt.Println("From Verif.Model Require Import LocksetI.")
	fmt.Println("Import ListNotations.")
	fmt.Printf("(* fields: ")
	for i, f := range fields {
		fmt.Printf("%d=%s ", i, f)
	}
	fmt.Printf("*)\n(* roots: ")
	for i, r := range roots {
		fmt.Printf("%d=%s ", i, r)
	}
	fmt.Printf("*)\n(* mutexes: ")
	for i, m := range mnames {
		fmt.Printf("%d=%s ", i, m)
	}
	fmt.Println("*)")
	fmt.Printf("Definition collector_nfields : nat := %d.\n", len(fields))
	fmt.Printf("Definition collector_exempt_fields : list nat := [")
	first := true
	for i, f := range fields {
		if w.exempt[f] {
			if !first {
				fmt.Printf("; ")
			}
			fmt.Printf("%d", i)
			first = false
		}
	}
	fmt.Println("].")
	fmt.Println("Definition collector_accesses : list access := [")
	out := []string{}
	for _, r := range w.rows {
		ls := []string{}
		for m, ex := range r.locks {
			ls = append(ls, fmt.Sprintf("(%d, %v)", midx[m], ex))
		}
		sort.Strings(ls)
		k := key{ridx[r.root], fidx[r.field], r.write, strings.Join(ls, "; "), r.init, r.unknown != ""}
		if seen[k] {
			continue
		}
		seen[k] = true
		cm := fmt.Sprintf("%s %s", r.root, r.field)
		if r.unknown != "" {
			cm += " UNKNOWN: " + r.unknown + " at " + r.pos[strings.LastIndex(r.pos, "/")+1:]
		}
		out = append(out, fmt.Sprintf("  mkAccess %d %d %v [%s] %v %v %v (* %s *)", k.root, k.field, k.write, k.locks, k.init, w.multi[r.root], k.unknown, cm))
	}
	fmt.Println(strings.Join(out, ";\n"))
	fmt.Println("].")
	// goroutines started below the roots of CollectingProcess: (root, wg.Add before the go
	// statement, deferred wg.Done in the literal)
	fmt.Println("Definition collector_goroutines : list (nat * bool * bool) := [")
	gl := []string{}
	gseen := map[string]bool{}
	for _, g := range w.gos {
		if strings.HasPrefix(g.root, "api.Verif") || gseen[g.root] {
			continue
		}
		gseen[g.root] = true
		gl = append(gl, fmt.Sprintf("  (%d, %v, %v) (* %s at %s *)", ridx[g.root], g.addFirst, g.done, g.root, g.pos[strings.LastIndex(g.pos, "/")+1:]))
	}
	fmt.Println(strings.Join(gl, ";\n"))
	fmt.Println("].")
}
