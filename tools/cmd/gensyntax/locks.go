package main

import "golang.org/x/tools/go/packages"

func genLocks(ps []*packages.Package) {}
