// T5: lock / field-access tables for the three concurrent structs (DESIGN.md 3.1).
//
// For AggregationProcess, CollectingProcess and ExportingProcess this walks every function of
// the struct's package (type-checked, -tags=verif, files named verif_* skipped) and emits
// coq/Gen/Locks.v with
//
//	<short>_fields    : list field    every field of the struct (index, name, synchronisation object?)
//	<short>_accesses  : list access   one row per use `x.f` of a data field: function, field,
//	                                  read/write, mutexes held (RLock = read mode; `defer Unlock`
//	                                  keeps the lock to the end of the function), atomic?, phase
//	                                  (Init = in the constructor before the first `go`), the thread
//	                                  roots that reach the row through the package-local call graph
//	<short>_methods   : list meth     per function: acquisition sites, whole-body critical sections,
//	                                  entry lockset, composite flag
//
// Everything is keyed on go/types objects (struct fields, *types.Func), never on names; names are
// carried only for reading. Analysis rules, all of them conservative for lockset_ok:
//   - locks are tracked through the statement structure; at a join the held set is the
//     intersection; a loop body must leave the held set unchanged;
//   - a helper's entry lockset is the intersection over its static call sites (fixpoint); every
//     exported function, every never-called function, every `go` body, every callback handed to a
//     non-local API and every escaping method value is a root with an empty entry lockset;
//   - func literals invoked on the spot are analysed in place; deferred and stored literals are
//     analysed in place with an EMPTY held set;
//   - constructs that cannot be classified (TryLock, a lock taken through an interface value, a
//     local alias or a method value, `defer` of a lock operation in a loop, an unlock of a lock
//     this function does not hold, goto, a loop that changes the held set) produce a row with
//     a_known = false, which fails lockset_ok (fail closed).
//
// Scope: the fields of the three structs. Heap objects reachable from them are covered only by
// the -race harnesses.
package main

import (
	"fmt"
	"go/ast"
	"go/token"
	"go/types"
	"os"
	"path/filepath"
	"sort"
	"strings"

	"golang.org/x/tools/go/packages"
)

type lmode int

const (
	modeR lmode = 1
	modeW lmode = 2
)

type lockset map[int]lmode

func (l lockset) copy() lockset {
	o := lockset{}
	for k, v := range l {
		o[k] = v
	}
	return o
}
func meet(a, b lockset) lockset {
	o := lockset{}
	for k, v := range a {
		if w, ok := b[k]; ok {
			if w < v {
				v = w
			}
			o[k] = v
		}
	}
	return o
}
func join(a, b lockset) lockset {
	o := a.copy()
	for k, v := range b {
		if o[k] < v {
			o[k] = v
		}
	}
	return o
}
func eqls(a, b lockset) bool {
	if len(a) != len(b) {
		return false
	}
	for k, v := range a {
		if b[k] != v {
			return false
		}
	}
	return true
}

type nodeKind int

const (
	kDecl nodeKind = iota
	kGo
	kTimer
	kCallback
)

type accessRow struct {
	field  int
	write  bool
	atomic bool
	locks  lockset // local
	pos    token.Pos
	known  bool
	note   string
}

type callSite struct {
	callee *types.Func
	locks  lockset
	pos    token.Pos
}

type acqSite struct {
	mutex int
	mode  lmode
	top   bool
}

type node struct {
	name     string
	kind     nodeKind
	ordinal  int // for go / timer / callback literals
	fn       *types.Func
	body     *ast.BlockStmt
	pos      token.Pos
	exported bool
	isCtor   bool
	spawnPos token.Pos // first go statement (or call that spawns); NoPos if none
	goPos    []token.Pos
	accesses []*accessRow
	calls    []*callSite
	acq      []acqSite
	escaped  bool // a method value of this function escapes
	entry    lockset
	roots    map[string]string // coq term -> sort key
}

type target struct {
	typeName string
	short    string
	pkgPath  string
	pkg      *packages.Package
	st       *types.Struct
	named    *types.Named
	fieldIdx map[*types.Var]int
	sync     []bool
	mutex    []bool
	nodes    []*node
	byFunc   map[*types.Func]*node
	nGo      int
	nTimer   int
	nCb      int
}

var lockTargets = []struct{ pkg, typ, short string }{
	{"github.com/vmware/go-ipfix/pkg/intermediate", "AggregationProcess", "aggregation"},
	{"github.com/vmware/go-ipfix/pkg/collector", "CollectingProcess", "collector"},
	{"github.com/vmware/go-ipfix/pkg/exporter", "ExportingProcess", "exporter"},
}

func isSyncType(t types.Type) (isSync, isMutex bool) {
	for {
		if p, ok := t.(*types.Pointer); ok {
			t = p.Elem()
			continue
		}
		break
	}
	if _, ok := t.Underlying().(*types.Chan); ok {
		return true, false
	}
	if n, ok := t.(*types.Named); ok && n.Obj().Pkg() != nil {
		switch n.Obj().Pkg().Path() {
		case "sync":
			return true, n.Obj().Name() == "Mutex" || n.Obj().Name() == "RWMutex"
		case "sync/atomic":
			return true, false
		}
	}
	return false, false
}

type frame struct {
	deferred lockset
}

type walker struct {
	t         *target
	n         *node
	info      *types.Info
	fset      *token.FileSet
	loopDepth int
	depth     int // statement nesting inside the function body (0 = top level)
	branch    []lockset
}

func (w *walker) unknown(pos token.Pos, why string) {
	w.n.accesses = append(w.n.accesses, &accessRow{field: 0, write: true, locks: lockset{}, pos: pos, known: false, note: why})
}

// fieldOf: is e (a selector) a use of a field of the target struct?
func (w *walker) fieldOf(e ast.Expr) (int, bool) {
	sel, ok := ast.Unparen(e).(*ast.SelectorExpr)
	if !ok {
		return 0, false
	}
	s := w.info.Selections[sel]
	if s == nil || s.Kind() != types.FieldVal {
		return 0, false
	}
	v, ok := s.Obj().(*types.Var)
	if !ok {
		return 0, false
	}
	i, ok := w.t.fieldIdx[v]
	return i, ok
}

func (w *walker) access(e ast.Expr, write, atomic bool, st lockset) {
	i, ok := w.fieldOf(e)
	if !ok {
		return
	}
	if w.t.sync[i] {
		return
	}
	w.n.accesses = append(w.n.accesses, &accessRow{field: i, write: write, atomic: atomic, locks: st.copy(), pos: e.Pos(), known: true})
}

// lhs: e is assigned to / mutated. Every target field on the access path is a write.
func (w *walker) lhs(e ast.Expr, st lockset) {
	switch x := e.(type) {
	case *ast.ParenExpr:
		w.lhs(x.X, st)
	case *ast.SelectorExpr:
		if _, ok := w.fieldOf(x); ok {
			w.access(x, true, false, st)
			w.expr(x.X, st)
			return
		}
		w.lhs(x.X, st)
	case *ast.IndexExpr:
		w.lhs(x.X, st)
		w.expr(x.Index, st)
	case *ast.StarExpr:
		w.lhs(x.X, st)
	case *ast.SliceExpr:
		w.lhs(x.X, st)
	case *ast.Ident:
	default:
		w.expr(e, st)
	}
}

func (w *walker) localFunc(o types.Object) *types.Func {
	f, ok := o.(*types.Func)
	if !ok || f.Pkg() == nil || f.Pkg().Path() != w.t.pkgPath {
		return nil
	}
	if _, ok := w.t.byFunc[f]; !ok {
		return nil
	}
	return f
}

var lockOps = map[string]bool{"Lock": true, "Unlock": true, "RLock": true, "RUnlock": true, "TryLock": true, "TryRLock": true}

// lockOp: is call a (R)Lock/(R)Unlock/Try* on something of sync mutex / Locker type?
// returns (is a lock operation, mutex field index or -1 if not a field of the target, name)
func (w *walker) lockOp(call *ast.CallExpr) (bool, int, string) {
	sel, ok := ast.Unparen(call.Fun).(*ast.SelectorExpr)
	if !ok || !lockOps[sel.Sel.Name] {
		return false, 0, ""
	}
	f, ok := w.info.Uses[sel.Sel].(*types.Func)
	if !ok || f.Pkg() == nil || f.Pkg().Path() != "sync" {
		return false, 0, ""
	}
	if i, ok := w.fieldOf(sel.X); ok && w.t.mutex[i] {
		return true, i, sel.Sel.Name
	}
	// a field of some other struct (another object's mutex) does not concern this table;
	// anything else (local alias, parameter, interface value) cannot be resolved.
	if s, ok := ast.Unparen(sel.X).(*ast.SelectorExpr); ok {
		if ss := w.info.Selections[s]; ss != nil && ss.Kind() == types.FieldVal {
			return true, -2, sel.Sel.Name
		}
	}
	return true, -1, sel.Sel.Name
}

func (w *walker) doLockOp(call *ast.CallExpr, idx int, name string, st lockset, fr *frame, deferred bool) {
	if idx == -2 {
		return
	}
	if idx == -1 {
		w.unknown(call.Pos(), "lock operation "+name+" on a value that is not a mutex field of the struct")
		return
	}
	switch name {
	case "TryLock", "TryRLock":
		w.unknown(call.Pos(), name)
	case "Lock", "RLock":
		if deferred {
			w.unknown(call.Pos(), "deferred "+name)
			return
		}
		m := modeW
		if name == "RLock" {
			m = modeR
		}
		if _, held := st[idx]; held {
			w.unknown(call.Pos(), name+" of a mutex already held")
		}
		st[idx] = m
		w.n.acq = append(w.n.acq, acqSite{idx, m, w.depth == 0 && w.loopDepth == 0})
	case "Unlock", "RUnlock":
		if deferred {
			if w.loopDepth > 0 {
				w.unknown(call.Pos(), "defer "+name+" in a loop")
				return
			}
			fr.deferred[idx] = modeW
			return
		}
		if _, held := st[idx]; !held {
			w.unknown(call.Pos(), name+" of a mutex not held by this function")
			return
		}
		delete(st, idx)
	}
}

func (w *walker) newLitNode(lit *ast.FuncLit, kind nodeKind) *node {
	n := &node{kind: kind, body: lit.Body, pos: lit.Pos(), entry: lockset{}}
	base := w.n.name
	if i := strings.Index(base, "$"); i >= 0 {
		base = base[:i]
	}
	switch kind {
	case kGo:
		n.ordinal = w.t.nGo
		w.t.nGo++
		n.name = fmt.Sprintf("%s$go%d", base, n.ordinal)
	case kTimer:
		n.ordinal = w.t.nTimer
		w.t.nTimer++
		n.name = fmt.Sprintf("%s$timer%d", base, n.ordinal)
	default:
		n.ordinal = w.t.nCb
		w.t.nCb++
		n.name = fmt.Sprintf("%s$callback%d", base, n.ordinal)
	}
	w.t.nodes = append(w.t.nodes, n)
	return n
}

// inlineLit analyses a func literal's body in place, in its own defer frame.
func (w *walker) inlineLit(lit *ast.FuncLit, st lockset, outerFr *frame, isDeferred bool) lockset {
	fr := &frame{deferred: lockset{}}
	saveLoop, saveBranch := w.loopDepth, w.branch
	w.loopDepth, w.branch = 0, nil
	w.depth++
	if isDeferred {
		// a deferred literal that unlocks a mutex it did not take is the enclosing function's deferred unlock
		for _, s := range lit.Body.List {
			if es, ok := s.(*ast.ExprStmt); ok {
				if c, ok := es.X.(*ast.CallExpr); ok {
					if is, idx, name := w.lockOp(c); is && idx >= 0 && (name == "Unlock" || name == "RUnlock") {
						if _, held := st[idx]; !held {
							st[idx] = modeW // balanced below by the explicit unlock
							outerFr.deferred[idx] = modeW
						}
					}
				}
			}
		}
	}
	out, _ := w.block(lit.Body.List, st, fr)
	w.depth--
	w.loopDepth, w.branch = saveLoop, saveBranch
	for k := range fr.deferred {
		delete(out, k)
	}
	return out
}

func (w *walker) exprs(es []ast.Expr, st lockset) {
	for _, e := range es {
		w.expr(e, st)
	}
}

func isAtomicFunc(f *types.Func) bool {
	return f != nil && f.Pkg() != nil && f.Pkg().Path() == "sync/atomic"
}

func (w *walker) call(c *ast.CallExpr, st lockset, fr *frame) {
	// func literal invoked on the spot
	if lit, ok := ast.Unparen(c.Fun).(*ast.FuncLit); ok {
		w.exprs(c.Args, st)
		out := w.inlineLit(lit, st.copy(), fr, false)
		for k := range st {
			if _, ok := out[k]; !ok {
				delete(st, k)
			}
		}
		for k, v := range out {
			st[k] = v
		}
		return
	}
	if is, idx, name := w.lockOp(c); is {
		w.doLockOp(c, idx, name, st, fr, false)
		return
	}
	var calleeObj types.Object
	switch f := ast.Unparen(c.Fun).(type) {
	case *ast.Ident:
		calleeObj = w.info.Uses[f]
		if b, ok := calleeObj.(*types.Builtin); ok {
			switch b.Name() {
			case "delete":
				if len(c.Args) > 0 {
					w.lhs(c.Args[0], st)
					w.exprs(c.Args[1:], st)
					return
				}
			case "close":
				w.exprs(c.Args, st)
				return
			}
		}
	case *ast.SelectorExpr:
		if s := w.info.Selections[f]; s != nil {
			calleeObj = s.Obj()
			if s.Kind() == types.MethodVal {
				// method call x.f.M(): pointer-receiver method on an addressable field value mutates the field
				if i, ok := w.fieldOf(f.X); ok {
					fn, _ := calleeObj.(*types.Func)
					write := false
					if fn != nil {
						if sig, ok := fn.Type().(*types.Signature); ok && sig.Recv() != nil {
							_, ptrRecv := sig.Recv().Type().(*types.Pointer)
							ft := w.t.st.Field(i).Type()
							_, fieldPtr := ft.(*types.Pointer)
							_, fieldIface := ft.Underlying().(*types.Interface)
							write = ptrRecv && !fieldPtr && !fieldIface
						}
					}
					if write {
						w.lhs(f.X, st)
					} else {
						w.expr(f.X, st)
					}
				} else {
					w.expr(f.X, st)
				}
			} else {
				w.expr(f, st) // call of a func-typed field
			}
		} else {
			calleeObj = w.info.Uses[f.Sel] // package-qualified function
		}
	default:
		w.expr(c.Fun, st)
	}
	fn, _ := calleeObj.(*types.Func)
	if isAtomicFunc(fn) {
		wr := !strings.HasPrefix(fn.Name(), "Load")
		for _, a := range c.Args {
			if u, ok := ast.Unparen(a).(*ast.UnaryExpr); ok && u.Op == token.AND {
				if _, ok := w.fieldOf(u.X); ok {
					w.access(u.X, wr, true, st)
					continue
				}
			}
			w.expr(a, st)
		}
		return
	}
	local := w.localFunc(calleeObj)
	if local != nil {
		w.n.calls = append(w.n.calls, &callSite{callee: local, locks: st.copy(), pos: c.Pos()})
	}
	nonLocal := local == nil
	for _, a := range c.Args {
		if lit, ok := ast.Unparen(a).(*ast.FuncLit); ok {
			if nonLocal {
				kind := kCallback
				if fn != nil && strings.Contains(fn.Name(), "AfterFunc") {
					kind = kTimer
				}
				ln := w.newLitNode(lit, kind)
				analyseBody(w.t, ln, w.info, w.fset)
			} else {
				w.inlineLit(lit, lockset{}, fr, false)
			}
			continue
		}
		w.expr(a, st)
	}
}

func (w *walker) expr(e ast.Expr, st lockset) {
	if e == nil {
		return
	}
	switch x := e.(type) {
	case *ast.CallExpr:
		w.call(x, st, &frame{deferred: lockset{}})
	case *ast.FuncLit:
		// stored / passed literal: same thread, unknown locks -> analysed with nothing held
		w.inlineLit(x, lockset{}, &frame{deferred: lockset{}}, false)
	case *ast.SelectorExpr:
		if s := w.info.Selections[x]; s != nil {
			switch s.Kind() {
			case types.FieldVal:
				if _, ok := w.fieldOf(x); ok {
					w.access(x, false, false, st)
				}
			case types.MethodVal:
				// a method value that is not called here
				if f, ok := s.Obj().(*types.Func); ok {
					if f.Pkg() != nil && f.Pkg().Path() == "sync" && lockOps[f.Name()] {
						w.unknown(x.Pos(), "method value of a lock operation")
					} else if lf := w.localFunc(f); lf != nil {
						w.t.byFunc[lf].escaped = true
					}
				}
			}
		}
		w.expr(x.X, st)
	case *ast.UnaryExpr:
		if x.Op == token.AND {
			if _, ok := w.fieldOf(x.X); ok {
				w.lhs(x.X, st) // address taken: treated as a write
				return
			}
		}
		w.expr(x.X, st)
	case *ast.CompositeLit:
		isTarget := false
		if tv, ok := w.info.Types[x]; ok {
			t := tv.Type
			if p, ok := t.(*types.Pointer); ok {
				t = p.Elem()
			}
			if n, ok := t.(*types.Named); ok && n.Obj() == w.t.named.Obj() {
				isTarget = true
			}
		}
		for i, el := range x.Elts {
			if kv, ok := el.(*ast.KeyValueExpr); ok {
				if isTarget {
					if id, ok := kv.Key.(*ast.Ident); ok {
						if v, ok := w.info.Uses[id].(*types.Var); ok {
							if fi, ok := w.t.fieldIdx[v]; ok && !w.t.sync[fi] {
								w.n.accesses = append(w.n.accesses, &accessRow{field: fi, write: true, locks: st.copy(), pos: kv.Pos(), known: true})
							}
						}
					}
				} else {
					w.expr(kv.Key, st)
				}
				w.expr(kv.Value, st)
				continue
			}
			if isTarget && i < w.t.st.NumFields() && !w.t.sync[i] {
				w.n.accesses = append(w.n.accesses, &accessRow{field: i, write: true, locks: st.copy(), pos: el.Pos(), known: true})
			}
			w.expr(el, st)
		}
		if isTarget {
			w.n.isCtor = true
		}
	case *ast.ParenExpr:
		w.expr(x.X, st)
	case *ast.IndexExpr:
		w.expr(x.X, st)
		w.expr(x.Index, st)
	case *ast.IndexListExpr:
		w.expr(x.X, st)
	case *ast.SliceExpr:
		w.expr(x.X, st)
		w.expr(x.Low, st)
		w.expr(x.High, st)
		w.expr(x.Max, st)
	case *ast.StarExpr:
		w.expr(x.X, st)
	case *ast.BinaryExpr:
		w.expr(x.X, st)
		w.expr(x.Y, st)
	case *ast.KeyValueExpr:
		w.expr(x.Key, st)
		w.expr(x.Value, st)
	case *ast.TypeAssertExpr:
		w.expr(x.X, st)
	}
}

func (w *walker) mergeInto(outs []lockset, st lockset) {
	// st := meet of outs (if any)
	if len(outs) == 0 {
		return
	}
	m := outs[0]
	for _, o := range outs[1:] {
		m = meet(m, o)
	}
	for k := range st {
		delete(st, k)
	}
	for k, v := range m {
		st[k] = v
	}
}

// block walks statements in order, mutating st; returns the state at the fall-through end and
// whether the end is unreachable (return / branch).
func (w *walker) block(stmts []ast.Stmt, st lockset, fr *frame) (lockset, bool) {
	for _, s := range stmts {
		if w.stmt(s, st, fr) {
			return st, true
		}
	}
	return st, false
}

func (w *walker) nested(body []ast.Stmt, st lockset, fr *frame) (lockset, bool) {
	w.depth++
	o, t := w.block(body, st, fr)
	w.depth--
	return o, t
}

func (w *walker) loop(body *ast.BlockStmt, st lockset, fr *frame) {
	entry := st.copy()
	saved := w.branch
	w.branch = nil
	w.loopDepth++
	out, term := w.nested(body.List, st.copy(), fr)
	w.loopDepth--
	states := w.branch
	w.branch = saved
	if !term {
		states = append(states, out)
	}
	for _, s := range states {
		if !eqls(s, entry) {
			w.unknown(body.Pos(), "the set of held mutexes changes across a loop iteration")
			break
		}
	}
	states = append(states, entry)
	w.mergeInto(states, st)
}

func (w *walker) stmt(s ast.Stmt, st lockset, fr *frame) (terminated bool) {
	switch x := s.(type) {
	case nil:
	case *ast.ExprStmt:
		if c, ok := x.X.(*ast.CallExpr); ok {
			w.call(c, st, fr)
			if id, ok := c.Fun.(*ast.Ident); ok && id.Name == "panic" {
				if _, ok := w.info.Uses[id].(*types.Builtin); ok {
					return true
				}
			}
		} else {
			w.expr(x.X, st)
		}
	case *ast.AssignStmt:
		w.exprs(x.Rhs, st)
		for _, l := range x.Lhs {
			w.lhs(l, st)
		}
	case *ast.IncDecStmt:
		w.lhs(x.X, st)
	case *ast.DeclStmt:
		if gd, ok := x.Decl.(*ast.GenDecl); ok {
			for _, sp := range gd.Specs {
				if vs, ok := sp.(*ast.ValueSpec); ok {
					w.exprs(vs.Values, st)
				}
			}
		}
	case *ast.SendStmt:
		w.expr(x.Chan, st)
		w.expr(x.Value, st)
	case *ast.GoStmt:
		w.n.goPos = append(w.n.goPos, x.Pos())
		w.exprs(x.Call.Args, st)
		if lit, ok := ast.Unparen(x.Call.Fun).(*ast.FuncLit); ok {
			ln := w.newLitNode(lit, kGo)
			analyseBody(w.t, ln, w.info, w.fset)
		} else {
			// go f(...): a thread whose body is that call
			ln := &node{kind: kGo, pos: x.Pos(), entry: lockset{}, ordinal: w.t.nGo, name: fmt.Sprintf("%s$go%d", w.n.name, w.t.nGo)}
			w.t.nGo++
			w.t.nodes = append(w.t.nodes, ln)
			sub := &walker{t: w.t, n: ln, info: w.info, fset: w.fset}
			c2 := *x.Call
			c2.Args = nil
			sub.call(&c2, lockset{}, &frame{deferred: lockset{}})
		}
	case *ast.DeferStmt:
		if is, idx, name := w.lockOp(x.Call); is {
			w.doLockOp(x.Call, idx, name, st, fr, true)
			return false
		}
		if lit, ok := ast.Unparen(x.Call.Fun).(*ast.FuncLit); ok {
			w.exprs(x.Call.Args, st)
			if w.loopDepth > 0 {
				// a deferred literal in a loop that touches locks cannot be placed
				pre := len(w.n.acq)
				w.inlineLit(lit, lockset{}, fr, true)
				if len(w.n.acq) != pre {
					w.unknown(x.Pos(), "defer of a locking literal in a loop")
				}
				return false
			}
			w.inlineLit(lit, lockset{}, fr, true)
			return false
		}
		// deferred ordinary call: runs at exit with unknown locks -> nothing held
		w.call(x.Call, lockset{}, fr)
	case *ast.ReturnStmt:
		w.exprs(x.Results, st)
		return true
	case *ast.BranchStmt:
		if x.Tok == token.GOTO {
			w.unknown(x.Pos(), "goto")
		}
		if x.Tok == token.FALLTHROUGH {
			return false
		}
		w.branch = append(w.branch, st.copy())
		return true
	case *ast.BlockStmt:
		_, t := w.nested(x.List, st, fr)
		return t
	case *ast.LabeledStmt:
		return w.stmt(x.Stmt, st, fr)
	case *ast.IfStmt:
		w.stmt(x.Init, st, fr)
		w.expr(x.Cond, st)
		var outs []lockset
		o1, t1 := w.nested(x.Body.List, st.copy(), fr)
		if !t1 {
			outs = append(outs, o1)
		}
		if x.Else != nil {
			o2 := st.copy()
			w.depth++
			t2 := w.stmt(x.Else, o2, fr)
			w.depth--
			if !t2 {
				outs = append(outs, o2)
			}
			if t1 && t2 {
				return true
			}
		} else {
			outs = append(outs, st.copy())
		}
		w.mergeInto(outs, st)
	case *ast.ForStmt:
		w.stmt(x.Init, st, fr)
		w.expr(x.Cond, st)
		if x.Post != nil {
			w.loopDepth++
			w.stmt(x.Post, st.copy(), fr)
			w.loopDepth--
		}
		w.loop(x.Body, st, fr)
	case *ast.RangeStmt:
		w.expr(x.X, st)
		if x.Tok == token.ASSIGN {
			if x.Key != nil {
				w.lhs(x.Key, st)
			}
			if x.Value != nil {
				w.lhs(x.Value, st)
			}
		}
		w.loop(x.Body, st, fr)
	case *ast.SwitchStmt, *ast.TypeSwitchStmt, *ast.SelectStmt:
		var body *ast.BlockStmt
		hasDefault := false
		switch y := x.(type) {
		case *ast.SwitchStmt:
			w.stmt(y.Init, st, fr)
			w.expr(y.Tag, st)
			body = y.Body
		case *ast.TypeSwitchStmt:
			w.stmt(y.Init, st, fr)
			w.stmt(y.Assign, st, fr)
			body = y.Body
		case *ast.SelectStmt:
			body = y.Body
			hasDefault = true // one of the clauses always runs
		}
		saved := w.branch
		w.branch = nil
		var outs []lockset
		for _, cl := range body.List {
			cs := st.copy()
			var list []ast.Stmt
			switch c := cl.(type) {
			case *ast.CaseClause:
				if c.List == nil {
					hasDefault = true
				}
				w.exprs(c.List, cs)
				list = c.Body
			case *ast.CommClause:
				w.depth++
				w.stmt(c.Comm, cs, fr)
				w.depth--
				list = c.Body
			}
			o, t := w.nested(list, cs, fr)
			if !t {
				outs = append(outs, o)
			}
		}
		// break / continue inside the clauses: break leaves the switch, continue concerns the
		// enclosing loop; both are merged here and handed up (conservative).
		inner := w.branch
		w.branch = append(saved, inner...)
		outs = append(outs, inner...)
		if !hasDefault || len(body.List) == 0 {
			outs = append(outs, st.copy())
		}
		if len(outs) == 0 {
			return true
		}
		w.mergeInto(outs, st)
	}
	return false
}

func analyseBody(t *target, n *node, info *types.Info, fset *token.FileSet) {
	if n.body == nil {
		return
	}
	w := &walker{t: t, n: n, info: info, fset: fset}
	fr := &frame{deferred: lockset{}}
	w.block(n.body.List, lockset{}, fr)
}

func (t *target) build(p *packages.Package) {
	t.pkg = p
	obj := p.Types.Scope().Lookup(t.typeName)
	if obj == nil {
		fmt.Fprintf(os.Stderr, "T5: type %s not found in %s\n", t.typeName, p.PkgPath)
		os.Exit(2)
	}
	t.named = obj.Type().(*types.Named)
	t.st = t.named.Underlying().(*types.Struct)
	t.fieldIdx = map[*types.Var]int{}
	for i := 0; i < t.st.NumFields(); i++ {
		f := t.st.Field(i)
		t.fieldIdx[f] = i
		s, m := isSyncType(f.Type())
		t.sync = append(t.sync, s)
		t.mutex = append(t.mutex, m)
	}
	t.byFunc = map[*types.Func]*node{}
	type fd struct {
		d    *ast.FuncDecl
		file string
	}
	var decls []fd
	for _, f := range p.Syntax {
		name := filepath.Base(p.Fset.Position(f.Pos()).Filename)
		if strings.HasPrefix(name, "verif_") || strings.HasSuffix(name, "_test.go") {
			continue
		}
		for _, d := range f.Decls {
			if d, ok := d.(*ast.FuncDecl); ok && d.Body != nil {
				decls = append(decls, fd{d, name})
			}
		}
	}
	sort.Slice(decls, func(i, j int) bool {
		if decls[i].file != decls[j].file {
			return decls[i].file < decls[j].file
		}
		return decls[i].d.Pos() < decls[j].d.Pos()
	})
	for _, d := range decls {
		fn := p.TypesInfo.Defs[d.d.Name].(*types.Func)
		name := fn.Name()
		if sig := fn.Type().(*types.Signature); sig.Recv() != nil {
			rt := sig.Recv().Type()
			if pt, ok := rt.(*types.Pointer); ok {
				rt = pt.Elem()
			}
			if nt, ok := rt.(*types.Named); ok && nt.Obj() != t.named.Obj() {
				name = nt.Obj().Name() + "." + name
			}
		}
		n := &node{name: name, kind: kDecl, fn: fn, body: d.d.Body, pos: d.d.Pos(), exported: fn.Exported(), entry: lockset{}}
		t.nodes = append(t.nodes, n)
		t.byFunc[fn] = n
	}
	declNodes := append([]*node{}, t.nodes...)
	for _, n := range declNodes {
		analyseBody(t, n, p.TypesInfo, p.Fset)
	}
}

func (t *target) solve() {
	// who is called statically
	called := map[*node]bool{}
	for _, n := range t.nodes {
		for _, c := range n.calls {
			called[t.byFunc[c.callee]] = true
		}
	}
	isRoot := func(n *node) bool {
		return n.kind != kDecl || n.exported || n.escaped || !called[n]
	}
	// entry locksets: descending fixpoint
	top := lockset{}
	for i, m := range t.mutex {
		if m {
			top[i] = modeW
		}
	}
	for _, n := range t.nodes {
		if isRoot(n) {
			n.entry = lockset{}
		} else {
			n.entry = top.copy()
		}
	}
	for changed := true; changed; {
		changed = false
		for _, n := range t.nodes {
			if isRoot(n) {
				continue
			}
			var acc lockset
			for _, m := range t.nodes {
				for _, c := range m.calls {
					if t.byFunc[c.callee] != n {
						continue
					}
					h := join(m.entry, c.locks)
					if acc == nil {
						acc = h
					} else {
						acc = meet(acc, h)
					}
				}
			}
			if acc == nil {
				acc = lockset{}
			}
			if !eqls(acc, n.entry) {
				n.entry = acc
				changed = true
			}
		}
	}
	// spawn positions (constructor phase)
	spawns := map[*node]bool{}
	for _, n := range t.nodes {
		if len(n.goPos) > 0 {
			spawns[n] = true
		}
	}
	for changed := true; changed; {
		changed = false
		for _, n := range t.nodes {
			if spawns[n] {
				continue
			}
			for _, c := range n.calls {
				if spawns[t.byFunc[c.callee]] {
					spawns[n] = true
					changed = true
				}
			}
		}
	}
	for _, n := range t.nodes {
		n.spawnPos = token.NoPos
		for _, p := range n.goPos {
			if n.spawnPos == token.NoPos || p < n.spawnPos {
				n.spawnPos = p
			}
		}
		for _, c := range n.calls {
			if spawns[t.byFunc[c.callee]] && (n.spawnPos == token.NoPos || c.pos < n.spawnPos) {
				n.spawnPos = c.pos
			}
		}
	}
	// roots and reachability
	for _, n := range t.nodes {
		n.roots = map[string]string{}
	}
	reach := func(start *node, term, key string) {
		seen := map[*node]bool{}
		todo := []*node{start}
		for len(todo) > 0 {
			x := todo[len(todo)-1]
			todo = todo[:len(todo)-1]
			if seen[x] {
				continue
			}
			seen[x] = true
			x.roots[term] = key
			for _, c := range x.calls {
				todo = append(todo, t.byFunc[c.callee])
			}
		}
	}
	for _, n := range t.nodes {
		switch n.kind {
		case kDecl:
			if n.exported || !called[n] {
				reach(n, fmt.Sprintf("RApi %q", n.name), "0"+n.name)
			}
			if n.escaped {
				reach(n, fmt.Sprintf("RFunc %q", n.name), "1"+n.name)
			}
		case kGo:
			reach(n, fmt.Sprintf("RGo %d %q", n.ordinal, n.name), fmt.Sprintf("2%04d", n.ordinal))
		case kTimer:
			reach(n, fmt.Sprintf("RTimer %d %q", n.ordinal, n.name), fmt.Sprintf("3%04d", n.ordinal))
		case kCallback:
			reach(n, fmt.Sprintf("RCallback %d %q", n.ordinal, n.name), fmt.Sprintf("4%04d", n.ordinal))
		}
	}
}

func coqLocks(l lockset) string {
	keys := []int{}
	for k := range l {
		keys = append(keys, k)
	}
	sort.Ints(keys)
	parts := []string{}
	for _, k := range keys {
		m := "LW"
		if l[k] == modeR {
			m = "LR"
		}
		parts = append(parts, fmt.Sprintf("(%d, %s)", k, m))
	}
	return "[" + strings.Join(parts, "; ") + "]"
}

func coqBool(b bool) string {
	if b {
		return "true"
	}
	return "false"
}

func (t *target) emit(fset *token.FileSet) {
	fmt.Printf("\n(* ---- %s (%s) ---- *)\n", t.typeName, t.pkgPath)
	fmt.Printf("Definition %s_fields : list field := [\n", t.short)
	for i := 0; i < t.st.NumFields(); i++ {
		sep := ";"
		if i == t.st.NumFields()-1 {
			sep = ""
		}
		fmt.Printf("  MkField %d %q %s%s\n", i, t.st.Field(i).Name(), coqBool(t.sync[i]), sep)
	}
	fmt.Println("].")
	for i := 0; i < t.st.NumFields(); i++ {
		fmt.Printf("Definition %s_f_%s : nat := %d.\n", t.short, t.st.Field(i).Name(), i)
	}
	// which nodes matter transitively (touch fields or take locks)
	relevant := map[*node]bool{}
	acquires := map[*node]map[int]bool{}
	for _, n := range t.nodes {
		acquires[n] = map[int]bool{}
		for _, a := range n.acq {
			acquires[n][a.mutex] = true
		}
		if len(n.accesses) > 0 || len(n.acq) > 0 {
			relevant[n] = true
		}
	}
	for changed := true; changed; {
		changed = false
		for _, n := range t.nodes {
			for _, c := range n.calls {
				cn := t.byFunc[c.callee]
				if relevant[cn] && !relevant[n] {
					relevant[n] = true
					changed = true
				}
				for m := range acquires[cn] {
					if !acquires[n][m] {
						acquires[n][m] = true
						changed = true
					}
				}
			}
		}
	}
	var rows []string
	for _, n := range t.nodes {
		var rts []string
		type kv struct{ term, key string }
		var ks []kv
		for term, key := range n.roots {
			ks = append(ks, kv{term, key})
		}
		sort.Slice(ks, func(i, j int) bool { return ks[i].key < ks[j].key })
		for _, k := range ks {
			rts = append(rts, k.term)
		}
		for _, a := range n.accesses {
			phase := "PRun"
			if n.isCtor && (n.spawnPos == token.NoPos || a.pos < n.spawnPos) {
				phase = "PInit"
			}
			p := fset.Position(a.pos)
			pos := fmt.Sprintf("%s:%d", filepath.Base(p.Filename), p.Line)
			if !a.known {
				pos += " " + a.note
				phase = "PRun"
			}
			fname := t.st.Field(a.field).Name()
			if !a.known {
				fname = "?"
			}
			rows = append(rows, fmt.Sprintf("  MkAcc %q %d %q %s %s %s %s %s [%s] %q",
				n.name, a.field, fname, coqBool(a.write), coqLocks(join(n.entry, a.locks)), coqBool(a.atomic),
				phase, coqBool(a.known), strings.Join(rts, "; "), pos))
		}
	}
	fmt.Printf("Definition %s_accesses : list access := [\n%s\n].\n", t.short, strings.Join(rows, ";\n"))
	var ms []string
	for _, n := range t.nodes {
		if !relevant[n] {
			continue
		}
		var acq []string
		count := map[int]int{}
		topOnly := map[int]bool{}
		mode := map[int]lmode{}
		for _, a := range n.acq {
			m := "LW"
			if a.mode == modeR {
				m = "LR"
			}
			acq = append(acq, fmt.Sprintf("(%d, %s, %s)", a.mutex, m, coqBool(a.top)))
			count[a.mutex]++
			topOnly[a.mutex] = a.top
			mode[a.mutex] = a.mode
		}
		whole := lockset{}
		for m, c := range count {
			if c != 1 || !topOnly[m] {
				continue
			}
			ok := true
			for _, a := range n.accesses {
				if !a.known {
					ok = false
				}
				if n.isCtor && (n.spawnPos == token.NoPos || a.pos < n.spawnPos) {
					continue
				}
				if _, h := a.locks[m]; !h {
					ok = false
				}
			}
			for _, c := range n.calls {
				if relevant[t.byFunc[c.callee]] {
					if _, h := c.locks[m]; !h {
						ok = false
					}
				}
			}
			if ok {
				whole[m] = mode[m]
			}
		}
		comp := map[int]bool{}
		for _, c := range n.calls {
			held := join(n.entry, c.locks)
			for m := range acquires[t.byFunc[c.callee]] {
				if _, h := held[m]; !h {
					comp[m] = true
				}
			}
		}
		var compL []string
		for i := range t.mutex {
			if comp[i] {
				compL = append(compL, fmt.Sprint(i))
			}
		}
		touches := false
		for _, a := range n.accesses {
			if !(n.isCtor && (n.spawnPos == token.NoPos || a.pos < n.spawnPos)) {
				touches = true
			}
		}
		ms = append(ms, fmt.Sprintf("  MkMeth %q %s [%s] %s %s [%s] %s",
			n.name, coqBool(n.exported), strings.Join(acq, "; "), coqLocks(whole), coqLocks(n.entry),
			strings.Join(compL, "; "), coqBool(touches)))
	}
	fmt.Printf("Definition %s_methods : list meth := [\n%s\n].\n", t.short, strings.Join(ms, ";\n"))
}

func genLocks(ps []*packages.Package) {
	fmt.Println("(* GENERATED by tools/cmd/gensyntax (T5) from the repository's type-checked syntax. Do not edit. *)")
	fmt.Println("From Coq Require Import List String.")
	fmt.Println("From Verif.Model Require Import LockTab WaitTab.")
	fmt.Println("Import ListNotations.")
	fmt.Println("Local Open Scope string_scope.")
	for _, lt := range lockTargets {
		var pkg *packages.Package
		for _, p := range ps {
			if p.PkgPath == lt.pkg {
				pkg = p
			}
		}
		if pkg == nil {
			fmt.Fprintf(os.Stderr, "T5: package %s not loaded\n", lt.pkg)
			os.Exit(2)
		}
		t := &target{typeName: lt.typ, short: lt.short, pkgPath: lt.pkg}
		t.build(pkg)
		t.solve()
		t.emit(pkg.Fset)
		t.emitWaits(pkg.Fset) // wait discipline tables (locks_wait.go), for structs with a WaitGroup
	}
}
