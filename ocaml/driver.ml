(* Generic driver: one input line -> Driver_core.run_line -> one output line. *)
open Driver_core

let ascii_of_char (c : char) : ascii =
  let n = Char.code c in
  let b i = (n lsr i) land 1 = 1 in
  Ascii (b 0, b 1, b 2, b 3, b 4, b 5, b 6, b 7)

let char_of_ascii (a : ascii) : char =
  match a with
  | Ascii (b0, b1, b2, b3, b4, b5, b6, b7) ->
    let v b i = if b then 1 lsl i else 0 in
    Char.chr (v b0 0 + v b1 1 + v b2 2 + v b3 3 + v b4 4 + v b5 5 + v b6 6 + v b7 7)

let coq_of_string (s : String.t) : string =
  let r = ref EmptyString in
  for i = String.length s - 1 downto 0 do
    r := String (ascii_of_char s.[i], !r)
  done;
  !r

let string_of_coq (s : string) : String.t =
  let b = Buffer.create 256 in
  let rec go = function
    | EmptyString -> ()
    | String (a, r) -> Buffer.add_char b (char_of_ascii a); go r
  in
  go s; Buffer.contents b

(* The extracted models recurse tens of thousands of frames deep (65535-byte payloads) while
   allocating; every minor collection scans the whole stack. A larger minor heap keeps the
   number of collections (and with it the running time) independent of the code layout. *)
let () = Gc.set { (Gc.get ()) with Gc.minor_heap_size = 8 * 1024 * 1024 }

let () =
  try
    while true do
      let line = input_line stdin in
      let out = string_of_coq (run_line (coq_of_string line)) in
      print_string out; print_char '\n'
    done
  with End_of_file -> ()
