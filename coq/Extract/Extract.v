(* Extraction of the executable models to OCaml. Only ExtrOcamlBasic is used (its Extract
   Inductive directives for bool, option, unit, list, prod, sumbool, sumor and its inlined
   andb/orb/negb/fst/snd); N, Z, positive, nat, byte, ascii and string remain Coq datatypes. *)
From Coq Require Extraction.
From Coq Require Import ExtrOcamlBasic.
From Verif.Driver Require Import Main.
Extraction "driver_core.ml" run_line.
