(* Outcomes of modelled Go code: normal return, error return, run-time panic, fuel exhausted *)
Inductive errkind :=
| ErrShort | ErrVersion | ErrNoTemplate | ErrUnknownIE | ErrSanity | ErrTooBig
| ErrEncode | ErrUnsupported | ErrSetType | ErrValue | ErrField | ErrZeroLen | ErrOther.

Inductive outcome (A : Type) :=
| Ok (a : A) | Err (e : errkind) | Panic | OutOfFuel.
Arguments Ok {A} a.
Arguments Err {A} e.
Arguments Panic {A}.
Arguments OutOfFuel {A}.

Definition obind {A B} (o : outcome A) (f : A -> outcome B) : outcome B :=
  match o with Ok a => f a | Err e => Err e | Panic => Panic | OutOfFuel => OutOfFuel end.
Definition omap {A B} (f : A -> B) (o : outcome A) : outcome B :=
  match o with Ok a => Ok (f a) | Err e => Err e | Panic => Panic | OutOfFuel => OutOfFuel end.
Notation "'do' x <- o ; f" := (obind o (fun x => f)) (at level 200, x pattern, o at level 100, f at level 200).

Definition errkind_eqb (a b : errkind) : bool :=
  match a, b with
  | ErrShort, ErrShort | ErrVersion, ErrVersion | ErrNoTemplate, ErrNoTemplate
  | ErrUnknownIE, ErrUnknownIE | ErrSanity, ErrSanity | ErrTooBig, ErrTooBig
  | ErrEncode, ErrEncode | ErrUnsupported, ErrUnsupported | ErrSetType, ErrSetType
  | ErrValue, ErrValue | ErrField, ErrField | ErrZeroLen, ErrZeroLen | ErrOther, ErrOther => true
  | _, _ => false
  end.
