(* Case-line syntax shared by the OCaml driver and the in-Coq evaluation:
   space-separated tokens, decimal numbers, hex byte strings. *)
From Coq Require Import List Bool Arith NArith ZArith Lia String Ascii.
From Coq Require Import DecimalString.
From Coq.Strings Require Import Byte.
From Verif.Base Require Import Bytes.
Import ListNotations.
Local Open Scope string_scope.
Local Open Scope bool_scope.

Fixpoint tokens_aux (s : string) (cur : string) : list string :=
  match s with
  | EmptyString => if String.eqb cur "" then [] else [cur]
  | String c r =>
      if Ascii.eqb c " "%char
      then (if String.eqb cur "" then tokens_aux r "" else cur :: tokens_aux r "")
      else tokens_aux r (cur ++ String c "")
  end.
Definition tokens (s : string) : list string := tokens_aux s "".

Fixpoint unwords (l : list string) : string :=
  match l with
  | [] => ""
  | [x] => x
  | x :: r => x ++ " " ++ unwords r
  end.

(* split a token list at the first "|" token *)
Fixpoint split_bar (l : list string) : list string * list string :=
  match l with
  | [] => ([], [])
  | x :: r => if String.eqb x "|" then ([], r)
              else let '(a, b) := split_bar r in (x :: a, b)
  end.

Definition parse_N (s : string) : option N :=
  match s with
  | EmptyString => None
  | _ => option_map N.of_uint (NilZero.uint_of_string s)
  end.
Definition show_N (n : N) : string := NilZero.string_of_uint (N.to_uint n).

Definition parse_Z (s : string) : option Z :=
  match s with
  | String "-"%char r => option_map (fun n => Z.opp (Z.of_N n)) (parse_N r)
  | _ => option_map Z.of_N (parse_N s)
  end.
Definition show_Z (z : Z) : string :=
  match z with
  | Zneg p => "-" ++ show_N (Npos p)
  | _ => show_N (Z.to_N z)
  end.

Definition parse_nat (s : string) : option nat := option_map N.to_nat (parse_N s).
Definition show_nat (n : nat) : string := show_N (N.of_nat n).

Definition hexdig (n : N) : ascii :=
  match n with
  | 0 => "0" | 1 => "1" | 2 => "2" | 3 => "3" | 4 => "4" | 5 => "5" | 6 => "6" | 7 => "7"
  | 8 => "8" | 9 => "9" | 10 => "a" | 11 => "b" | 12 => "c" | 13 => "d" | 14 => "e" | _ => "f"
  end%N%char.
Definition unhexdig (c : ascii) : option N :=
  let n := N_of_ascii c in
  if (48 <=? n)%N && (n <=? 57)%N then Some (n - 48)%N
  else if (97 <=? n)%N && (n <=? 102)%N then Some (n - 87)%N
  else None.

Fixpoint show_hex (l : list byte) : string :=
  match l with
  | [] => ""
  | b :: r => String (hexdig (b2n b / 16)) (String (hexdig (b2n b mod 16)) (show_hex r))
  end.
Fixpoint parse_hex (s : string) : option (list byte) :=
  match s with
  | EmptyString => Some []
  | String a (String b r) =>
      match unhexdig a, unhexdig b, parse_hex r with
      | Some x, Some y, Some l => Some (n2b (x * 16 + y) :: l)
      | _, _, _ => None
      end
  | _ => None
  end.

(* canonical rendering of a byte string in observations: "-" when empty, full hex up to 48
   bytes, otherwise #len:first-8-bytes:hash *)
Definition show_bytes (l : list byte) : string :=
  match l with
  | [] => "-"
  | _ => if Nat.leb (List.length l) 48 then show_hex l
         else "#" ++ show_nat (List.length l) ++ ":" ++ show_hex (firstn 8 l) ++ ":" ++ show_N (bhash l)
  end.

(* byte-string argument of a case: "hex <digits>" | "pat <len> <seed>" | "nil" | "-" (empty) *)
Definition parse_bytes_arg (l : list string) : option (list byte * list string) :=
  match l with
  | "hex" :: h :: r => option_map (fun b => (b, r)) (parse_hex h)
  | "-" :: r => Some ([], r)
  | "pat" :: n :: s :: r =>
      match parse_nat n, parse_N s with
      | Some n', Some s' => Some (pat n' s', r)
      | _, _ => None
      end
  | _ => None
  end.

Definition show_bool (b : bool) : string := if b then "T" else "F".

(* bytes of a Coq string (names) *)
Fixpoint bytes_of_string (s : string) : list byte :=
  match s with
  | EmptyString => []
  | String c r => n2b (N_of_ascii c) :: bytes_of_string r
  end.
Fixpoint string_of_bytes (l : list byte) : string :=
  match l with
  | [] => EmptyString
  | b :: r => String (ascii_of_N (b2n b)) (string_of_bytes r)
  end.
