(* Byte lists, big-endian integers, splice/copy semantics of Go slices. *)
From Coq Require Import List Arith NArith ZArith Lia.
From Coq.Strings Require Import Byte.
Import ListNotations.
Local Open Scope N_scope.

Definition b2n (b : byte) : N := Byte.to_N b.
Definition n2b (n : N) : byte :=
  match Byte.of_N (n mod 256) with Some b => b | None => x00 end.

Lemma b2n_n2b n : b2n (n2b n) = n mod 256.
Proof.
  unfold b2n, n2b. destruct (Byte.of_N (n mod 256)) eqn:E.
  - apply Byte.to_of_N in E. exact E.
  - apply Byte.of_N_None_iff in E.
    assert (n mod 256 < 256) by (apply N.mod_lt; lia). lia.
Qed.

Lemma b2n_lt b : b2n b < 256.
Proof. unfold b2n. pose proof (Byte.to_N_bounded b). lia. Qed.

Lemma n2b_b2n b : n2b (b2n b) = b.
Proof.
  unfold n2b, b2n. rewrite N.mod_small by (pose proof (Byte.to_N_bounded b); lia).
  now rewrite Byte.of_to_N.
Qed.

Definition blen (l : list byte) : N := N.of_nat (length l).

(* be k x : the k low-order bytes of x, most significant first
   (binary.BigEndian.PutUintNN after the Go conversion to the k-byte type). *)
Fixpoint be (k : nat) (x : N) : list byte :=
  match k with
  | O => []
  | S k' => n2b (x / 256 ^ N.of_nat k') :: be k' x
  end.

(* bed l : big-endian value of l (binary.BigEndian.UintNN on exactly those bytes) *)
Fixpoint bed (l : list byte) : N :=
  match l with
  | [] => 0
  | b :: r => b2n b * 256 ^ N.of_nat (length r) + bed r
  end.

(* Go's copy(dst[idx:], src) on a buffer of fixed length: copies min(len(dst)-idx, len(src)) *)
Definition splice (buf : list byte) (idx : nat) (src : list byte) : list byte :=
  firstn idx buf ++ firstn (length buf - idx) src ++ skipn (idx + length src) buf.

Definition zeros (n : nat) : list byte := repeat x00 n.

(* deterministic byte pattern shared by harness, driver and Coq (an LCG) *)
Fixpoint pat_aux (n : nat) (s : N) : list byte :=
  match n with
  | O => []
  | S n' => let s' := N.land (s * 1103515245 + 12345) 2147483647 in
            n2b (N.land (N.shiftr s' 16) 255) :: pat_aux n' s'
  end.
Definition pat (len : nat) (seed : N) : list byte := pat_aux len seed.

(* polynomial hash used in digests of long byte strings *)
Definition bhash (l : list byte) : N :=
  fold_left (fun h b => N.land (h * 31 + b2n b) 4294967295) l 7.
