(* C16 — Set and record builders: length bookkeeping, equivalence of the add paths, reuse.
   Only the property theorems; proofs are in Proofs/SetB_lemmas.v and Proofs/C16_lemmas.v. *)
From Coq Require Import List Bool Arith NArith ZArith String.
From Coq.Strings Require Import Byte.
From Verif.Base Require Import Bytes Outcome Str.
From Verif.Model Require Import IE Codec Record SetB Msg SetDec.
From Verif.Proofs Require Import SetB_lemmas C16_lemmas SetDec_lemmas C16dec_lemmas.
From Verif.Driver Require Import Show SetShow C16drv.
Import ListNotations.
Local Open Scope N_scope.

(* (a) for EVERY sequence of prepare/add/updatelen/reset operations (any order, any elements)
   the reported set length is 4 + the sum of the records' reported lengths *)
Theorem C16_length : forall ops,
  s_len (run new_set ops) = 4 + sum_rec_len (s_rrecs (run new_set ops)).
Proof. exact set_length_invariant. Qed.
Print Assumptions C16_length.

(* (b) every record's buffer is exactly its reported length (GetBuffer never fails; it can only
   panic, on an element whose Go kind contradicts its data type) ... *)
Theorem C16_record_buffers : forall ops r, In r (s_recs (run new_set ops)) ->
  match rec_buffer r with Ok b => blen b = rec_len r | Panic => True | _ => False end.
Proof. exact record_buffers_lemma. Qed.
Print Assumptions C16_record_buffers.

(* ... and the bytes serialized for the set are exactly its reported length *)
Theorem C16_serialize_length : forall ops bs,
  serialize (run new_set ops) = Ok bs -> blen bs = s_len (run new_set ops).
Proof. exact serialize_length_lemma. Qed.
Print Assumptions C16_serialize_length.

(* (b) CreateIPFIXMsg on any reachable set: refused exactly above MaxSocketMsgSize, otherwise
   message header ++ set header ++ record buffers and nothing else *)
Theorem C16_create_msg : forall ops obs seq t,
  let s := run new_set ops in
  all_buffers_ok s ->
  create_msg s obs seq t =
  if max_msg <? msg_hdr_len + s_len s then Err ErrTooBig
  else Ok ((be 2 10 ++ be 2 (msg_hdr_len + s_len s) ++ be 4 t ++ be 4 seq ++ be 4 obs)
           ++ s_hdr s ++ List.concat (map buf_of (s_recs s))).
Proof. exact create_msg_lemma. Qed.
Print Assumptions C16_create_msg.

(* (c) replacing the form of any adds (AddRecord / AddRecordWithExtraElements k>=0 /
   AddRecordV2) yields the identical set, hence byte-identical serialization *)
Theorem C16_add_forms : forall ops g,
  forms_hyp STemplate ops = true -> Forall (fun f => form_ok f = true) g ->
  run new_set (reform g ops) = run new_set ops.
Proof. exact add_forms_lemma. Qed.
Print Assumptions C16_add_forms.

(* (d) after ANY history followed by ResetSet, a sequence in well-formed order leaves the set
   with the same header, length and records as the same sequence on a new set (and the same
   type as soon as a PrepareSet has succeeded) *)
Theorem C16_reset_like_new : forall ops1 ops2,
  wf_order false ops2 = true ->
  sim (prep_state false ops2) (run new_set ops2) (run new_set (ops1 ++ OReset :: ops2)).
Proof. exact reset_like_new_lemma. Qed.
Print Assumptions C16_reset_like_new.

(* the per-case oracle (clauses a-d on every snapshot) holds on the model's observation of
   every case *)
Theorem C16_set_builder : forall ds,
  C16_holds_on ds [] [] (c16_items ds new_set [] []) = true.
Proof. exact C16_set_builder_lemma. Qed.
Print Assumptions C16_set_builder.

(* non-vacuity: the hypotheses are satisfiable by a non-trivial sequence, and without them the
   conclusions (c), (d) really fail (so the hypotheses are needed, not decorative) *)
Definition ex_e1 : ie * value := (mkIE "a" 7 Unsigned16 0 2, VU16 0).
Definition ex_e2 : ie * value := (mkIE "b" 9 String_ 29305 65535, VStr []).
Definition ex_d1 : ie * value := (mkIE "a" 7 Unsigned16 0 2, VU16 513).
Definition ex_d2 : ie * value := (mkIE "b" 9 String_ 29305 65535, VStr (pat 300 1)).
Definition ex_ops : list op :=
  [OPrepare STemplate 256; OAdd FV1 [ex_e1; ex_e2] 256; OUpdLen; OReset;
   OPrepare SData 256; OAdd (FExtra 2) [ex_d1; ex_d2] 256; OAdd FV2 [ex_d1; ex_d2] 256; OUpdLen].
Example C16_nonvacuous :
  wf_order false ex_ops = true /\ forms_hyp STemplate ex_ops = true /\
  s_len (run new_set ex_ops) = 614 /\
  omap blen (serialize (run new_set ex_ops)) = Ok 614.
Proof. vm_compute. repeat split. Qed.
Example C16_template_bytes :
  omap (fun s => s) (serialize (run new_set [OPrepare STemplate 256; OAdd FV1 [ex_e1; ex_e2] 256; OUpdLen]))
  = Ok [x00; x02; x00; x14;  x01; x00; x00; x02;  x00; x07; x00; x02;  x80; x09; xff; xff; x00; x00; x72; x79].
Proof. vm_compute. reflexivity. Qed.
(* V1 on a template set refuses a non-empty value, V2 does not: outside forms_hyp (c) fails *)
Example C16_forms_hyp_needed :
  let ops := [OPrepare STemplate 256; OAdd FV1 [ex_d1] 256] in
  forms_hyp STemplate ops = false /\
  s_len (run new_set (reform [FV2] ops)) <> s_len (run new_set ops).
Proof. vm_compute. split; [reflexivity|discriminate]. Qed.
(* a new set accepts adds without PrepareSet (type = zero value Template), a reset one does not *)
Example C16_wf_order_needed :
  let ops := [OAdd FV1 [ex_e1] 256] in
  wf_order false ops = false /\
  s_len (run new_set ops) <> s_len (run new_set (OReset :: ops)).
Proof. vm_compute. split; [reflexivity|discriminate]. Qed.

(* ---- the decoding variant of the builders (NewSet(true), used by the collector) ---- *)
(* A decoding set that is not a template set (prepared as a data set; any later operations
   except PrepareSet(Template)) keeps its length whatever is added with any of the three add
   forms, and every record it holds has length 0 and the nil buffer: nothing is encoded. *)
Theorem C16_dec_data_sets : forall ops s,
  d_type s <> STemplate -> no_tpl_prepare ops = true ->
  Forall (fun r => dr_len r = 0 /\ dr_buffer r = Ok []) (d_rrecs s) ->
  d_len (drun s ops) = d_len s /\
  Forall (fun r => dr_len r = 0 /\ dr_buffer r = Ok []) (d_rrecs (drun s ops)).
Proof. exact dec_data_sets. Qed.
Print Assumptions C16_dec_data_sets.

(* The length of a decoding set, for EVERY operation sequence: at least the sum of the present
   records' lengths, and equal to it until the first ResetSet (which clears type and records
   but not the length: the exporting side's law "4 + sum" does not hold for decoding sets). *)
Theorem C16_dec_length : forall ops,
  sum_dr_len (d_rrecs (drun dnew ops)) <= d_len (drun dnew ops) /\
  (has_reset ops = false -> d_len (drun dnew ops) = sum_dr_len (d_rrecs (drun dnew ops))).
Proof.
  exact (fun ops => conj (dec_length_ge ops dnew (N.le_refl 0))
                         (fun H => dec_length_eq ops dnew H eq_refl)).
Qed.
Print Assumptions C16_dec_length.

Theorem C16_dec_reset_keeps_length : forall s,
  d_len (fst (dstep s OReset)) = d_len s /\ d_rrecs (fst (dstep s OReset)) = [].
Proof. exact dec_reset_keeps_length. Qed.

(* the three add forms are interchangeable on a decoding set too *)
Theorem C16_dec_add_forms : forall ops g s,
  forms_hyp (d_type s) ops = true -> Forall (fun f => form_ok f = true) g ->
  drun s (reform g ops) = drun s ops.
Proof. exact dreform_run. Qed.
Print Assumptions C16_dec_add_forms.

(* the per-case oracle of the decoding cases holds on the model's observation of every case *)
Theorem C16_decoding_builder : forall ds,
  C16D_holds_on ds [] (c16d_items ds dnew []) = true.
Proof. exact C16_decoding_builder_lemma. Qed.
Print Assumptions C16_decoding_builder.

Example C16_dec_nonvacuous :
  let ops := [OPrepare SData 256; OAdd FV2 [ex_d1; ex_d2] 256; OAdd FV1 [ex_d1] 256] in
  d_len (drun dnew ops) = 0 /\ List.length (d_rrecs (drun dnew ops)) = 2%nat /\
  (* stale length after a reset of a decoding template set *)
  d_len (drun dnew [OPrepare STemplate 256; OAdd FV1 [ex_e1; ex_e2] 256; OReset]) = 16.
Proof. vm_compute. repeat split. Qed.
