From Verif.Driver Require Import C16drv.
