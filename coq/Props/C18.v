(* C18 - Encrypted transports authenticate the peer and never fall back to plaintext.
   PARTIAL by design: the decision logic of InitExportingProcess / createClientConfig /
   createServerConfig / the DTLS config literals is modelled and proved; crypto/tls and
   pion/dtls are trusted libraries, represented by an arbitrary `handshake` H constrained only by
   `handshake_contract now H` (their documented behaviour, Proofs/Tls_lemmas.v), which the check
   validates on every run with real handshakes over the property's full matrix.
   This file holds only the property theorems; the proofs are in Proofs/Tls_lemmas.v. *)
From Coq Require Import List Bool Arith NArith ZArith String.
From Verif.Gen Require Import TlsCfg.
From Verif.Model Require Import Tls.
From Verif.Proofs Require Import Tls_lemmas.
From Verif.Driver Require Import C18drv.
Import ListNotations.
Local Open Scope string_scope.

(* (1) TLS exporter: InitExportingProcess returns a connection only after a handshake, at TLS 1.2
   or later, with a TLS server whose certificate chains to the configured CAData, is within its
   validity period and matches ServerName - or the dialled host when ServerName is empty *)
Theorem C18_exporter_tls : forall now H, handshake_contract now H ->
  forall i t srv c,
    ei_tls i = Some t -> ei_proto i = "tcp" -> init_exporting_process H i srv = ROk c ->
    exists v sc, c = ConnTLS v /\ (c_tls_VersionTLS12 <= v)%N /\ (v <= ep_max srv)%N /\ ep_kind srv = KTls /\
      peer_cert srv = Some sc /\ chains_to (pool_of (et_ca t)) sc = true /\ valid_at now sc = true /\
      name_matches (tls_expected_name (et_server_name t) (ei_host i)) sc = true.
Proof. exact C18_exporter_tls_lemma. Qed.
Print Assumptions C18_exporter_tls.

(* (2) TLS collector with a client CA: messages of a peer are delivered only if it completed a
   TLS >= 1.2 handshake presenting a certificate that chains to that CA and is valid *)
Theorem C18_collector_client_ca : forall now H, handshake_contract now H ->
  forall c p cl k,
    ci_enc c = true -> ci_proto c = "tcp" -> ci_ca c = Some p -> collector_session H c cl = Some k ->
    exists v cc, k = ConnTLS v /\ (c_tls_VersionTLS12 <= v)%N /\ ep_kind cl = KTls /\
      peer_cert cl = Some cc /\ chains_to (pool_of p) cc = true /\ valid_at now cc = true.
Proof. exact C18_collector_client_ca_lemma. Qed.
Print Assumptions C18_collector_client_ca.

(* (3) DTLS exporter: refuses servers it cannot verify - chain and validity always, the name when
   a non-empty, non-IP ServerName is configured (what pion/dtls v2.2.12 implements) *)
Theorem C18_exporter_dtls : forall now H, handshake_contract now H ->
  forall i t srv c,
    ei_tls i = Some t -> ei_proto i = "udp" -> init_exporting_process H i srv = ROk c ->
    c = ConnDTLS /\ ep_kind srv = KDtls /\
    exists sc, peer_cert srv = Some sc /\ chains_to (pool_of (et_ca t)) sc = true /\ valid_at now sc = true /\
      (et_server_name t <> "" -> is_ip H (et_server_name t) = false -> name_matches (et_server_name t) sc = true).
Proof. exact C18_exporter_dtls_lemma. Qed.
Print Assumptions C18_exporter_dtls.

(* (4) with security settings present (TLSClientConfig non-nil / IsEncrypted true) nothing is sent
   over, or accepted from, an unencrypted session: the exporter holds a TLS or DTLS connection to
   a peer speaking that protocol, or no connection at all; the collector delivers only what came
   through a completed TLS (>= 1.2) or DTLS handshake; the decision is never Plain *)
Theorem C18_never_plain : forall now H, handshake_contract now H ->
  (forall i srv c, ei_tls i <> None -> init_exporting_process H i srv = ROk c ->
     (exists v, c = ConnTLS v /\ ep_kind srv = KTls) \/ (c = ConnDTLS /\ ep_kind srv = KDtls) \/ c = ConnNil) /\
  (forall c cl k, ci_enc c = true -> collector_session H c cl = Some k ->
     (exists v, k = ConnTLS v /\ (c_tls_VersionTLS12 <= v)%N /\ ep_kind cl = KTls) \/ (k = ConnDTLS /\ ep_kind cl = KDtls)) /\
  (forall proto, exporter_transport true proto <> TPlain) /\
  (forall proto, collector_transport true proto <> TPlain).
Proof. exact C18_never_plain_lemma. Qed.
Print Assumptions C18_never_plain.

(* (5) the connection the exporter ends up with is the one the decision table names *)
Theorem C18_decision : forall H i srv c,
  init_exporting_process H i srv = ROk c ->
  conn_transport c = exporter_transport (match ei_tls i with Some _ => true | None => false end) (ei_proto i).
Proof. exact C18_decision_lemma. Qed.
Print Assumptions C18_decision.

(* (6) the executable per-observation oracles (C18_holds_on = exporter_ok / collector_ok, applied
   by the driver to the implementation's observations) hold on everything the model can produce,
   for every handshake meeting the contract *)
Theorem C18_transport_security : forall now H, handshake_contract now H ->
  (forall i srv, exporter_ok now (is_ip H) i srv (init_exporting_process H i srv) = true) /\
  (forall c cl, collector_ok now c cl (collector_session H c cl) = true).
Proof. exact C18_oracles_lemma. Qed.
Print Assumptions C18_transport_security.

(* (7) the contract is satisfiable: the reference handshake the driver predicts with meets it *)
Theorem C18_contract_satisfiable : forall now, handshake_contract now (ref_handshake now).
Proof. exact ref_meets_contract. Qed.
Print Assumptions C18_contract_satisfiable.

(* (8) the regenerated syntax (every tls.Config / dtls.Config literal of the two packages) sets
   exactly the fields of the model's records, with the library constants the theorems rely on *)
Theorem C18_config_syntax : tlscfg_ok = true.
Proof. exact tlscfg_literals_ok. Qed.
Print Assumptions C18_config_syntax.

(* (9) "within its validity period" is exact: a certificate whose validity interval misses `now`
   by any amount, before or after (two minutes as well as an hour), is refused by the TLS
   exporter, the DTLS exporter, and the TLS collector that authenticates clients *)
Theorem C18_validity_exact : forall now H, handshake_contract now H ->
  (forall i t srv sc,
     ei_tls i = Some t -> ei_proto i = "tcp" \/ ei_proto i = "udp" ->
     peer_cert srv = Some sc -> (now < c_nb sc \/ c_na sc < now)%Z ->
     forall c, init_exporting_process H i srv <> ROk c) /\
  (forall c p cl cc,
     ci_enc c = true -> ci_proto c = "tcp" -> ci_ca c = Some p ->
     peer_cert cl = Some cc -> (now < c_nb cc \/ c_na cc < now)%Z ->
     collector_session H c cl = None).
Proof. exact C18_validity_exact_lemma. Qed.
Print Assumptions C18_validity_exact.

(* (10) a TLS collector that was given client-CA material out of which no certificate parses does
   not come up at all (Start returns before listening) and delivers nobody's messages - it never
   degrades to a listener without client authentication; whatever the handshake *)
Theorem C18_unusable_client_ca : forall c p,
  ci_enc c = true -> ci_proto c = "tcp" -> ci_ca c = Some p -> pool_of p = [] ->
  collector_listens c = false /\ forall H cl, collector_session H c cl = None.
Proof. exact C18_unusable_client_ca_lemma. Qed.
Print Assumptions C18_unusable_client_ca.

Example C18_constants_match_source :
  (c_tls_VersionTLS12 = 771 /\ c_tls_RequireAndVerifyClientCert = 4 /\ c_dtls_RequireExtendedMasterSecret = 1)%N.
Proof. repeat split; reflexivity. Qed.

(* non-vacuity: under the reference handshake a trusted cell completes (so the premises of (1)-(3)
   are reachable), and the forbidden ones do not *)
Example C18_nonvacuous_tls :
  c18_run ["hsR"; "tls"; "T"; "T"; "trusted"; "set"; "trusted"; "set"]
          ["init=ok"; "conn=tls"; "ver=772"; "delivered=T"]
  = "init=ok conn=tls ver=772 delivered=T | T T".
Proof. vm_compute. reflexivity. Qed.
Example C18_nonvacuous_dtls :
  c18_run ["hsR"; "dtls"; "T"; "T"; "trusted"; "unset"; "none"; "unset"]
          ["init=ok"; "conn=dtls"; "ver=-"; "delivered=T"]
  = "init=ok conn=dtls ver=- delivered=T | T T".
Proof. vm_compute. reflexivity. Qed.
Example C18_oracle_rejects_untrusted :
  c18_run ["hsE"; "tls"; "otherca"; "set"; "none"; "unset"; "13"]
          ["init=ok"; "conn=tls"; "ver=772"; "rx=T"]
  = "init=no conn=- ver=- rx=F | F T".
Proof. vm_compute. reflexivity. Qed.
Example C18_oracle_rejects_tls11 :
  c18_run ["hsE"; "tls"; "trusted"; "set"; "none"; "unset"; "11"]
          ["init=ok"; "conn=tls"; "ver=770"; "rx=T"]
  = "init=no conn=- ver=- rx=F | F T".
Proof. vm_compute. reflexivity. Qed.
Example C18_oracle_rejects_plain :
  c18_run ["hsR"; "tls"; "T"; "F"; "trusted"; "set"; "none"; "unset"]
          ["init=ok"; "conn=plain"; "ver=-"; "delivered=T"]
  = "init=no conn=- ver=- delivered=F | F T".
Proof. vm_compute. reflexivity. Qed.
Example C18_oracle_rejects_unauthenticated_client :
  c18_run ["hsC"; "tls"; "trusted"; "none"; "set"; "13"]
          ["hs=ok"; "ver=772"; "delivered=T"]
  = "hs=ok ver=772 delivered=F | F T".
Proof. vm_compute. reflexivity. Qed.

(* the validity boundary (time unit of the driver: minutes): a server certificate that becomes
   valid in two minutes / expired two minutes ago is predicted "refused", and a session with it is
   rejected by the oracle; likewise a client certificate that expired two minutes ago *)
Example C18_oracle_rejects_almostvalid :
  c18_run ["hsE"; "tls"; "almostvalid"; "set"; "none"; "unset"; "13"]
          ["init=ok"; "conn=tls"; "ver=772"; "rx=T"]
  = "init=no conn=- ver=- rx=F | F T".
Proof. vm_compute. reflexivity. Qed.
Example C18_oracle_rejects_justexpired_dtls :
  c18_run ["hsE"; "dtls"; "justexpired"; "set"; "none"; "unset"; "12"]
          ["init=ok"; "conn=dtls"; "ver=-"; "rx=T"]
  = "init=no conn=- ver=- rx=F | F T".
Proof. vm_compute. reflexivity. Qed.
Example C18_oracle_rejects_justexpired_client :
  c18_run ["hsC"; "tls"; "trusted"; "justexpired"; "set"; "12"]
          ["hs=ok"; "ver=771"; "delivered=T"]
  = "hs=no ver=- delivered=F | F T".
Proof. vm_compute. reflexivity. Qed.
(* host trust store: "otherca" is issued by the one CA of the harness process's host trust store;
   the prediction and the oracle do not depend on it (RootCAs is exactly CAData) *)
Example C18_oracle_rejects_host_root :
  c18_run ["hsE"; "tls"; "otherca"; "set"; "none"; "unset"; "12"]
          ["init=ok"; "conn=tls"; "ver=771"; "rx=T"]
  = "init=no conn=- ver=- rx=F | F T".
Proof. vm_compute. reflexivity. Qed.
(* unusable client-CA material: predicted "does not listen"; a delivery from a certificate-less
   (or any) client is rejected by the oracle *)
Example C18_unusable_ca_nolisten :
  c18_run ["hsC"; "tls"; "trusted"; "none"; "der"; "13"]
          ["hs=no"; "ver=-"; "delivered=F"; "nolisten"]
  = "hs=no ver=- delivered=F nolisten | T T".
Proof. vm_compute. reflexivity. Qed.
Example C18_oracle_rejects_unusable_ca_delivery :
  c18_run ["hsC"; "tls"; "trusted"; "none"; "keyfile"; "13"]
          ["hs=ok"; "ver=772"; "delivered=T"]
  = "hs=no ver=- delivered=F nolisten | F T".
Proof. vm_compute. reflexivity. Qed.
Example C18_oracle_rejects_unusable_ca_delivery_with_cert :
  c18_run ["hsR"; "tls"; "T"; "T"; "trusted"; "set"; "trusted"; "empty"]
          ["init=ok"; "conn=tls"; "ver=772"; "delivered=T"]
  = "init=no conn=- ver=- delivered=F nolisten | F T".
Proof. vm_compute. reflexivity. Qed.
