(* C06 - flow expiry: callbacks fire exactly at deadlines and no flow is ever stranded.
   Theorems only; the proofs are in Proofs/Expiry_lemmas.v. The model (Model/Expiry.v,
   variant Fixed) is the code after the "fix:" commit for defects F4/F5; the same statement
   is REFUTED for the faithful model of the code as found (variant Orig) below.
   A history is a list of ops {ORec k r, OAdv d, OScan fails picks, OExp}; [picks] is the
   sequence of queue items the heap handed out (any tie-breaking): a pick sequence that no
   heap could produce makes [scan] return None / [run] end with EndReject. *)
From Coq Require Import List Bool NArith ZArith String.
From Verif.Base Require Import Outcome.
From Coq Require Import Permutation.
From Verif.Model Require Import IE KMap Pq Corr Expiry ExpirySpec Heap HeapExpiry.
From Verif.Proofs Require Import KMap_lemmas Expiry_lemmas Progress_lemmas Heap_lemmas HeapRefine_lemmas.
Import ListNotations.
Local Open Scope Z_scope.

(* The whole property, as the oracle that is also applied to the implementation's traces:
   for every configuration with positive timeouts (any MaxRetries, MinExpiryTime, correlate
   fields), every history and every tie-breaking, after every op
   (I1) keys map = keys queue, no duplicates; (I2) callbacks = the ready due flows in deadline
   order, nothing due skipped; (I3) per-key effect of records and scans; (I4) after an
   error-free scan all deadlines are in the future; (I5) advertised expiry. *)
Theorem C06_expiry : forall P ops, wf_params P = true ->
  C06_holds_on P ops (fst (run Fixed P ops 0 init)) = true.
Proof. exact C06_expiry_lemma. Qed.
Print Assumptions C06_expiry.

(* (I1) as a Prop, for every state reached *)
Theorem C06_no_flow_stranded : forall P ops r s, wf_params P = true ->
  In (r, s) (fst (run Fixed P ops 0 init)) ->
  NoDup (km_keys (flows s)) /\ NoDup (km_keys (queue s)) /\
  forall k, km_find k (flows s) = None <-> km_find k (queue s) = None.
Proof. intros P ops r s WF I. exact (run_inv P WF ops 0 init Inv_init r s I). Qed.
Print Assumptions C06_no_flow_stranded.

(* (I2) *)
Theorem C06_callback_iff_due : forall P now fails picks s s' cbs, wf_params P = true -> Inv s ->
  scan Fixed P now fails picks s = Some (s', cbs, false) ->
  forall k, In k cbs <-> (ready_in s k = true /\ due_in s now k = true).
Proof. exact scan_callbacks_iff. Qed.
Print Assumptions C06_callback_iff_due.

(* the full post-condition of one scan (order of pops, completeness, per-key effect, (I4)) *)
Theorem C06_scan : forall P now fails picks s s' cbs err, wf_params P = true -> Inv s ->
  scan Fixed P now fails picks s = Some (s', cbs, err) ->
  scan_post P now fails picks s s' [] cbs err.
Proof. intros P now fails picks s s' cbs err WF HI H. exact (scan_loop_spec P now fails WF _ _ _ _ _ _ HI H). Qed.
Print Assumptions C06_scan.

(* (I3) what happens to a popped flow, branch by branch *)
Theorem C06_inactive_expiry_removes : forall P now fails k f d,
  f_ready f = true -> n_mem k fails = false -> (snd d <=? now) = true ->
  proc P now fails k (Some (flow_meta f), Some d) = (None, None).
Proof. exact proc_inactive. Qed.
Theorem C06_active_expiry_rearms : forall P now fails k f d,
  f_ready f = true -> n_mem k fails = false -> (snd d <=? now) = false ->
  proc P now fails k (Some (flow_meta f), Some d) = (Some (flow_meta f), Some (now + pA P, snd d)).
Proof. exact proc_active. Qed.
Theorem C06_failed_callback_keeps : forall P now fails k f d,
  f_ready f = true -> n_mem k fails = true ->
  proc P now fails k (Some (flow_meta f), Some d) = (Some (flow_meta f), Some d).
Proof. exact proc_fail. Qed.
Theorem C06_record_arms : forall P now k r pre post, Inv pre ->
  add_or_update P now k r pre = Ok post -> Inv post /\ check_rec P now k pre post = true.
Proof. exact check_rec_ok. Qed.
Print Assumptions C06_record_arms.

(* termination of the scan loop: at most one pop per queued item *)
Theorem C06_scan_terminates : forall P now fails picks s r, wf_params P = true -> Inv s ->
  scan Fixed P now fails picks s = Some r -> (List.length picks <= List.length (queue s))%nat.
Proof. exact scan_picks_bounded. Qed.

(* the abstract queue never blocks: from every state satisfying (I1) some pick sequence (take an
   item attaining the least deadline each time) is accepted, so the quantification over
   tie-breakings is over a non-empty set *)
Theorem C06_scan_never_blocks : forall P now fails s, wf_params P = true -> Inv s ->
  exists picks r, scan Fixed P now fails picks s = Some r.
Proof. exact scan_never_blocks. Qed.
Print Assumptions C06_scan_never_blocks.

(* (I5) the advertised expiry is MinExpiryTime + (earliest deadline - now) when non-negative,
   where the earliest deadline is a lower bound of, and attained by, the queued items *)
Theorem C06_expiry_advertised : forall P now s, get_expiry P now s = expiry_spec P now s.
Proof. exact expiry_spec_eq. Qed.
Theorem C06_earliest_is_least : forall q m, min_deadline q = Some m ->
  (forall it, In it q -> m <= deadline it) /\ exists it, In it q /\ deadline it = m.
Proof. intros q m H. split; [exact (min_deadline_le q m H)|exact (min_deadline_attained q m H)]. Qed.
Print Assumptions C06_earliest_is_least.

(* ---- the code as found violates (I1): defects F4 and F5 (DESIGN.md section 7) ---- *)
Definition P0 : params := mkParams 4 6 2 100000000 [].
(* F4: the callback fails -> the popped item is never pushed back *)
Definition ops_F4 : list op := [ORec 0%N []; OAdv 5; OScan [0%N] [0%N]].
(* F5: scan at exactly activeExpireTime == now: popped (After), not re-armed (Before) *)
Definition ops_F5 : list op := [ORec 0%N []; OAdv 4; OScan [] [0%N]].
(* F5 again at inactiveExpireTime == now: the callback runs twice in one scan, then the flow is stranded *)
Definition ops_F5i : list op := [ORec 0%N []; OAdv 3; ORec 0%N []; OAdv 6; OScan [] [0%N; 0%N]].

Definition refutes (ops : list op) : Prop :=
  wf_params P0 = true /\ snd (run Orig P0 ops 0 init) = EndOk /\
  C06_holds_on P0 ops (fst (run Orig P0 ops 0 init)) = false /\
  (* the final state holds flow 0 in the map with no queue entry *)
  match last (fst (run Orig P0 ops 0 init)) (RAdv, init) with
  | (_, s) => km_mem 0%N (flows s) = true /\ km_mem 0%N (queue s) = false
  end.
Theorem C06_refuted_F4 : exists ops, refutes ops.
Proof. exists ops_F4. vm_compute. repeat split. Qed.
Theorem C06_refuted_F5 : exists ops, refutes ops.
Proof. exists ops_F5. vm_compute. repeat split. Qed.
Theorem C06_refuted_F5_inactive : exists ops, refutes ops.
Proof. exists ops_F5i. vm_compute. repeat split. Qed.
(* the same histories on the repaired model satisfy the statement (instances of C06_expiry) *)
Example C06_repaired_on_witnesses :
  forallb (fun ops => C06_holds_on P0 ops (fst (run Fixed P0 ops 0 init)))
          [ops_F4; ops_F5; [ORec 0%N []; OAdv 3; ORec 0%N []; OAdv 6; OScan [] [0%N]]] = true.
Proof. vm_compute. reflexivity. Qed.

(* ---- non-vacuity: the hypotheses are satisfiable and accepted histories exist ---- *)
Definition rec_src : record :=
  [mkField "flowType" Unsigned8 (VU8 2); mkField "sourcePodName" String_ (VStr [Byte.x70]);
   mkField "destinationPodName" String_ (VStr [])].
Example C06_nonvacuous :
  let ops := [ORec 0%N []; ORec 1%N []; ORec 2%N rec_src; OAdv 4; OScan [1%N] [2%N; 0%N; 1%N]; OExp;
              OAdv 2; OScan [] [1%N; 0%N]; OAdv 2; OScan [] [2%N]; OAdv 4; OScan [] [2%N]; OExp] in
  wf_params P0 = true /\ snd (run Fixed P0 ops 0 init) = EndOk /\
  List.length (fst (run Fixed P0 ops 0 init)) = 13%nat.
Proof. vm_compute. repeat split. Qed.

(* ==== the EXACT array heap (Model/Heap.v: container/heap + priorityqueue.go, line by line) ====
   [heap_inv h] = [ordered h (length h)] (no child sorts before its parent) /\ [idx_ok h] (every
   slot's index field is its position). The multiset of items is [map h_data h] up to
   Permutation. None of the theorems below assumes anything about container/heap: it is modelled. *)

(* the order invariant in the words of container/heap: !h.Less(j, parent(j)) for every j > 0 *)
Theorem C06_heap_order_is_not_Less : forall h, ordered h (List.length h) <->
  forall j, (0 < j < List.length h)%nat -> pq_Less h j ((j - 1) / 2) = Ok false.
Proof. exact ordered_Less. Qed.

(* heap.Push: total (no panic, fuel suffices), keeps the invariant, adds exactly the pushed item *)
Theorem C06_heap_push : forall h x, heap_inv h ->
  exists h', heap_Push h x = Ok h' /\ heap_inv h' /\
    Permutation (map h_data h') (h_data x :: map h_data h) /\ List.length h' = S (List.length h).
Proof. exact heap_Push_spec. Qed.
Print Assumptions C06_heap_push.

(* heap.Pop on a non-empty heap: total, keeps the invariant, returns the root with index -1,
   removes exactly that item, and no item of the heap has an earlier minExpireTime *)
Theorem C06_heap_pop : forall h, heap_inv h -> h <> [] ->
  exists x h', heap_Pop h = Ok (x, h') /\ heap_inv h' /\ h_idx x = -1 /\
    h_data x = h_data (nth 0 h dummy) /\
    Permutation (h_data x :: map h_data h') (map h_data h) /\
    (forall y, In y h -> h_min x <= h_min y) /\
    S (List.length h') = List.length h.
Proof. exact heap_Pop_spec. Qed.
Print Assumptions C06_heap_pop.

(* heap.Fix at a valid index after the value there changed arbitrarily ([ord_except]: every
   pair not involving slot i is ordered, and i's parent is not above i's children) *)
Theorem C06_heap_fix : forall h i, (i < List.length h)%nat -> ord_except h (List.length h) i -> idx_ok h ->
  exists h', heap_Fix_nat h i = Ok h' /\ heap_inv h' /\
    Permutation (map h_data h') (map h_data h) /\ List.length h' = List.length h.
Proof. exact heap_Fix_nat_spec. Qed.
Print Assumptions C06_heap_fix.

(* what Go does with an index that is not a position: -1 (detached item): nothing;
   below -1 and at or beyond Len() (except 0 on the empty slice): run-time panic *)
Theorem C06_heap_fix_detached : forall h, heap_Fix h (-1) = Ok h.
Proof. exact heap_Fix_detached. Qed.
Theorem C06_heap_fix_negative : forall h i, i < -1 -> heap_Fix h i = Panic.
Proof. exact heap_Fix_negative. Qed.
Theorem C06_heap_fix_beyond : forall h i, (List.length h <= i)%nat -> (0 < i)%nat -> heap_Fix_nat h i = Panic.
Proof. exact heap_Fix_beyond. Qed.

(* pq.Update of the item of key k sitting in slot p: total, keeps the invariant, changes
   exactly that item's deadlines *)
Theorem C06_heap_update : forall h k p x a i, heap_inv h -> h_find k h = Some (p, x) ->
  exists h', pq_Update h k a i = Ok h' /\ heap_inv h' /\
    Permutation (map h_data h') (map h_data (set_nth p (h_set_times x a i) h)) /\
    List.length h' = List.length h.
Proof. exact pq_Update_spec. Qed.
Print Assumptions C06_heap_update.

(* heap.Remove at a valid index (not used by the repository; modelled and proved all the same) *)
Theorem C06_heap_remove : forall h i, heap_inv h -> (i < List.length h)%nat ->
  exists x h', heap_Remove h i = Ok (x, h') /\ heap_inv h' /\ h_idx x = -1 /\
    h_data x = h_data (nth i h dummy) /\
    Permutation (h_data x :: map h_data h') (map h_data h).
Proof. exact heap_Remove_spec. Qed.
Print Assumptions C06_heap_remove.

(* heap.Init (not used by the repository) establishes the invariant from ANY slice whose index
   fields are consistent, keeping the multiset *)
Theorem C06_heap_init : forall h, idx_ok h ->
  exists h', heap_Init h = Ok h' /\ heap_inv h' /\ Permutation (map h_data h') (map h_data h) /\
    List.length h' = List.length h.
Proof. exact heap_Init_spec. Qed.
Print Assumptions C06_heap_init.

(* up and down end within the fuel their callers give, on ANY slice *)
Theorem C06_heap_up_terminates : forall fuel h j, (j < List.length h)%nat -> (j < fuel)%nat ->
  exists h', hp_up fuel h j = Ok h' /\ List.length h' = List.length h.
Proof. exact hp_up_total. Qed.
Theorem C06_heap_down_terminates : forall fuel h i n, (n <= List.length h)%nat -> (n - i < fuel)%nat ->
  exists h' i', hp_down_loop fuel h i n = Ok (h', i') /\ List.length h' = List.length h.
Proof. exact hp_down_loop_total. Qed.

(* REFINEMENT, one pop: when the slice holds the abstract queue's items, heap.Pop hands out an
   item that the abstract queue accepts as a pick (present, and no other item sorts before it) *)
Theorem C06_heap_pop_is_accepted_pick : forall q h,
  NoDup (km_keys q) -> Permutation q (map h_data h) -> heap_inv h -> h <> [] ->
  exists x hp, heap_Pop h = Ok (x, hp) /\ h_idx x = -1 /\
    pop_pick (h_key x) q = Some ((h_act x, h_inact x), km_remove (h_key x) q) /\
    Permutation (km_remove (h_key x) q) (map h_data hp) /\ heap_inv hp.
Proof. exact pop_is_accepted_pick. Qed.
Print Assumptions C06_heap_pop_is_accepted_pick.

(* REFINEMENT, one scan: ForAllExpiredFlowRecordsDo on the array heap never panics or runs out
   of fuel, and the abstract scan accepts the heap's own pop sequence with the same callbacks,
   the same error flag and a related final state; every callback sees index -1 *)
Theorem C06_heap_scan_refines : forall P now fails s c, wf_params P = true -> Inv s -> R s c ->
  exists o s', cscan P now fails c = Ok o /\
    scan Fixed P now fails (so_picks o) s = Some (s', so_cbs o, so_err o) /\
    R s' (so_st o) /\ Forall (fun z => z = -1) (so_ix o).
Proof. exact cscan_refines. Qed.
Print Assumptions C06_heap_scan_refines.

(* REFINEMENT, whole histories: for every history, the run on the array heap ends like the
   abstract run along the heap's own picks ([heap_picks]), never EndReject; results are equal
   and states related step by step; and that run satisfies the C06 oracle. This replaces the
   former trusted assumption "container/heap hands out a minimal item". *)
Theorem C06_concrete_heap : forall P ops, wf_params P = true ->
  exists tr, run Fixed P (heap_picks P ops) 0 init = (tr, snd (crun P ops 0 cinit)) /\
    snd (crun P ops 0 cinit) <> EndReject /\
    Forall2 ent_rel tr (fst (crun P ops 0 cinit)) /\
    C06_holds_on P (heap_picks P ops) tr = true.
Proof. exact C06_concrete_heap_lemma. Qed.
Print Assumptions C06_concrete_heap.

(* every state of the run on the array heap: heap order, index fields = positions, one item per
   flow of the map and vice versa; every popped item seen by a callback has index -1 *)
Theorem C06_concrete_heap_states : forall P ops e, wf_params P = true -> In e (fst (crun P ops 0 cinit)) ->
  heap_inv (cheap (ce_st e)) /\ Forall (fun z => z = -1) (ce_ix e) /\
  NoDup (map h_key (cheap (ce_st e))) /\
  forall k, km_find k (cflows (ce_st e)) = None <-> h_find k (cheap (ce_st e)) = None.
Proof. exact crun_heap_inv. Qed.
Print Assumptions C06_concrete_heap_states.

(* non-vacuity: the history of C06_nonvacuous without any picks supplied; the heap finds them *)
Example C06_concrete_heap_nonvacuous :
  let ops := [ORec 0%N []; ORec 1%N []; ORec 2%N rec_src; OAdv 4; OScan [1%N] []; OExp;
              OAdv 2; OScan [] []; OAdv 2; OScan [] []; OAdv 4; OScan [] []; OExp] in
  snd (crun P0 ops 0 cinit) = EndOk /\ List.length (fst (crun P0 ops 0 cinit)) = 13%nat /\
  map (fun o => match o with OScan _ pk => pk | _ => [] end) (heap_picks P0 ops) =
    [[]; []; []; []; [0%N; 2%N; 1%N]; []; []; [1%N; 0%N]; []; [2%N]; []; [2%N]; []] /\
  C06_holds_on P0 (heap_picks P0 ops) (fst (run Fixed P0 (heap_picks P0 ops) 0 init)) = true.
Proof. vm_compute. repeat split. Qed.
