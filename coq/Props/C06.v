(* C06 - flow expiry: callbacks fire exactly at deadlines and no flow is ever stranded.
   Theorems only; the proofs are in Proofs/Expiry_lemmas.v. The model (Model/Expiry.v,
   variant Fixed) is the code after the "fix:" commit for defects F4/F5; the same statement
   is REFUTED for the faithful model of the code as found (variant Orig) below.
   A history is a list of ops {ORec k r, OAdv d, OScan fails picks, OExp}; [picks] is the
   sequence of queue items the heap handed out (any tie-breaking): a pick sequence that no
   heap could produce makes [scan] return None / [run] end with EndReject. *)
From Coq Require Import List Bool NArith ZArith String.
From Verif.Base Require Import Outcome.
From Verif.Model Require Import IE KMap Pq Corr Expiry ExpirySpec.
From Verif.Proofs Require Import KMap_lemmas Expiry_lemmas Progress_lemmas.
Import ListNotations.
Local Open Scope Z_scope.

(* The whole property, as the oracle that is also applied to the implementation's traces:
   for every configuration with positive timeouts (any MaxRetries, MinExpiryTime, correlate
   fields), every history and every tie-breaking, after every op
   (I1) keys map = keys queue, no duplicates; (I2) callbacks = the ready due flows in deadline
   order, nothing due skipped; (I3) per-key effect of records and scans; (I4) after an
   error-free scan all deadlines are in the future; (I5) advertised expiry. *)
Theorem C06_expiry : forall P ops, wf_params P = true ->
  C06_holds_on P ops (fst (run Fixed P ops 0 init)) = true.
Proof. exact C06_expiry_lemma. Qed.
Print Assumptions C06_expiry.

(* (I1) as a Prop, for every state reached *)
Theorem C06_no_flow_stranded : forall P ops r s, wf_params P = true ->
  In (r, s) (fst (run Fixed P ops 0 init)) ->
  NoDup (km_keys (flows s)) /\ NoDup (km_keys (queue s)) /\
  forall k, km_find k (flows s) = None <-> km_find k (queue s) = None.
Proof. intros P ops r s WF I. exact (run_inv P WF ops 0 init Inv_init r s I). Qed.
Print Assumptions C06_no_flow_stranded.

(* (I2) *)
Theorem C06_callback_iff_due : forall P now fails picks s s' cbs, wf_params P = true -> Inv s ->
  scan Fixed P now fails picks s = Some (s', cbs, false) ->
  forall k, In k cbs <-> (ready_in s k = true /\ due_in s now k = true).
Proof. exact scan_callbacks_iff. Qed.
Print Assumptions C06_callback_iff_due.

(* the full post-condition of one scan (order of pops, completeness, per-key effect, (I4)) *)
Theorem C06_scan : forall P now fails picks s s' cbs err, wf_params P = true -> Inv s ->
  scan Fixed P now fails picks s = Some (s', cbs, err) ->
  scan_post P now fails picks s s' [] cbs err.
Proof. intros P now fails picks s s' cbs err WF HI H. exact (scan_loop_spec P now fails WF _ _ _ _ _ _ HI H). Qed.
Print Assumptions C06_scan.

(* (I3) what happens to a popped flow, branch by branch *)
Theorem C06_inactive_expiry_removes : forall P now fails k f d,
  f_ready f = true -> n_mem k fails = false -> (snd d <=? now) = true ->
  proc P now fails k (Some (flow_meta f), Some d) = (None, None).
Proof. exact proc_inactive. Qed.
Theorem C06_active_expiry_rearms : forall P now fails k f d,
  f_ready f = true -> n_mem k fails = false -> (snd d <=? now) = false ->
  proc P now fails k (Some (flow_meta f), Some d) = (Some (flow_meta f), Some (now + pA P, snd d)).
Proof. exact proc_active. Qed.
Theorem C06_failed_callback_keeps : forall P now fails k f d,
  f_ready f = true -> n_mem k fails = true ->
  proc P now fails k (Some (flow_meta f), Some d) = (Some (flow_meta f), Some d).
Proof. exact proc_fail. Qed.
Theorem C06_record_arms : forall P now k r pre post, Inv pre ->
  add_or_update P now k r pre = Ok post -> Inv post /\ check_rec P now k pre post = true.
Proof. exact check_rec_ok. Qed.
Print Assumptions C06_record_arms.

(* termination of the scan loop: at most one pop per queued item *)
Theorem C06_scan_terminates : forall P now fails picks s r, wf_params P = true -> Inv s ->
  scan Fixed P now fails picks s = Some r -> (List.length picks <= List.length (queue s))%nat.
Proof. exact scan_picks_bounded. Qed.

(* the abstract queue never blocks: from every state satisfying (I1) some pick sequence (take an
   item attaining the least deadline each time) is accepted, so the quantification over
   tie-breakings is over a non-empty set *)
Theorem C06_scan_never_blocks : forall P now fails s, wf_params P = true -> Inv s ->
  exists picks r, scan Fixed P now fails picks s = Some r.
Proof. exact scan_never_blocks. Qed.
Print Assumptions C06_scan_never_blocks.

(* (I5) the advertised expiry is MinExpiryTime + (earliest deadline - now) when non-negative,
   where the earliest deadline is a lower bound of, and attained by, the queued items *)
Theorem C06_expiry_advertised : forall P now s, get_expiry P now s = expiry_spec P now s.
Proof. exact expiry_spec_eq. Qed.
Theorem C06_earliest_is_least : forall q m, min_deadline q = Some m ->
  (forall it, In it q -> m <= deadline it) /\ exists it, In it q /\ deadline it = m.
Proof. intros q m H. split; [exact (min_deadline_le q m H)|exact (min_deadline_attained q m H)]. Qed.
Print Assumptions C06_earliest_is_least.

(* ---- the code as found violates (I1): defects F4 and F5 (DESIGN.md section 7) ---- *)
Definition P0 : params := mkParams 4 6 2 100000000 [].
(* F4: the callback fails -> the popped item is never pushed back *)
Definition ops_F4 : list op := [ORec 0%N []; OAdv 5; OScan [0%N] [0%N]].
(* F5: scan at exactly activeExpireTime == now: popped (After), not re-armed (Before) *)
Definition ops_F5 : list op := [ORec 0%N []; OAdv 4; OScan [] [0%N]].
(* F5 again at inactiveExpireTime == now: the callback runs twice in one scan, then the flow is stranded *)
Definition ops_F5i : list op := [ORec 0%N []; OAdv 3; ORec 0%N []; OAdv 6; OScan [] [0%N; 0%N]].

Definition refutes (ops : list op) : Prop :=
  wf_params P0 = true /\ snd (run Orig P0 ops 0 init) = EndOk /\
  C06_holds_on P0 ops (fst (run Orig P0 ops 0 init)) = false /\
  (* the final state holds flow 0 in the map with no queue entry *)
  match last (fst (run Orig P0 ops 0 init)) (RAdv, init) with
  | (_, s) => km_mem 0%N (flows s) = true /\ km_mem 0%N (queue s) = false
  end.
Theorem C06_refuted_F4 : exists ops, refutes ops.
Proof. exists ops_F4. vm_compute. repeat split. Qed.
Theorem C06_refuted_F5 : exists ops, refutes ops.
Proof. exists ops_F5. vm_compute. repeat split. Qed.
Theorem C06_refuted_F5_inactive : exists ops, refutes ops.
Proof. exists ops_F5i. vm_compute. repeat split. Qed.
(* the same histories on the repaired model satisfy the statement (instances of C06_expiry) *)
Example C06_repaired_on_witnesses :
  forallb (fun ops => C06_holds_on P0 ops (fst (run Fixed P0 ops 0 init)))
          [ops_F4; ops_F5; [ORec 0%N []; OAdv 3; ORec 0%N []; OAdv 6; OScan [] [0%N]]] = true.
Proof. vm_compute. reflexivity. Qed.

(* ---- non-vacuity: the hypotheses are satisfiable and accepted histories exist ---- *)
Definition rec_src : record :=
  [mkField "flowType" Unsigned8 (VU8 2); mkField "sourcePodName" String_ (VStr [Byte.x70]);
   mkField "destinationPodName" String_ (VStr [])].
Example C06_nonvacuous :
  let ops := [ORec 0%N []; ORec 1%N []; ORec 2%N rec_src; OAdv 4; OScan [1%N] [2%N; 0%N; 1%N]; OExp;
              OAdv 2; OScan [] [1%N; 0%N]; OAdv 2; OScan [] [2%N]; OAdv 4; OScan [] [2%N]; OExp] in
  wf_params P0 = true /\ snd (run Fixed P0 ops 0 init) = EndOk /\
  List.length (fst (run Fixed P0 ops 0 init)) = 13%nat.
Proof. vm_compute. repeat split. Qed.
