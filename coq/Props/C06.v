(* C06 - flow expiry. Theorems only; proofs in Proofs/Expiry_lemmas.v. (under construction) *)
From Coq Require Import List Bool NArith ZArith String.
From Verif.Model Require Import KMap Pq Corr Expiry ExpirySpec.
