(* C20 — The standalone collector keeps a bounded, ordered window of rendered records.
   This file holds only the property theorems; the proofs are in Proofs/{Store,C20}_lemmas.v. *)
From Coq Require Import List Bool Arith NArith ZArith String Ascii.
From Verif.Base Require Import Bytes Outcome Str.
From Verif.Gen Require Import Consts.
From Verif.Model Require Import LockTab Conc IE Store StoreConc.
From Verif.Gen Require Import LocksCmdCollector.
From Verif.Proofs Require Import Store_lemmas C20_lemmas Conc_lemmas StoreConc_lemmas.
From Verif.Driver Require Import Show C20drv.
Import ListNotations.
Local Notation length := List.length.

(* the cap is the constant of cmd/collector, regenerated from the source on every run *)
Example C20_cap_matches_source : N.of_nat store_cap = c_cmd_collector_maxFlowRecords /\ c_cmd_collector_maxFlowRecords = 4096%N.
Proof. split; vm_compute; reflexivity. Qed.

(* (1) window: after EVERY history of arrivals / queries / resets (any length, any interleaving)
   the store is exactly the last [cap] entries rendered since the last successful reset, in
   arrival order (a suffix of the arrival list), and never longer than the cap *)
Theorem C20_window : forall evs : list event,
  run store_cap evs [] = lastn store_cap (arrivals evs []) /\
  (length (run store_cap evs []) <= store_cap)%nat /\
  exists older, arrivals evs [] = older ++ run store_cap evs [].
Proof. exact C20_window_lemma. Qed.
Print Assumptions C20_window.

(* the same for every positive cap, from any reachable state *)
Theorem C20_window_any_cap : forall cap evs acc, (1 <= cap)%nat ->
  run cap evs (lastn cap acc) = lastn cap (arrivals evs acc).
Proof. exact C20_window_any_cap_lemma. Qed.
Print Assumptions C20_window_any_cap.

(* (2) a GET with an acceptable count and format answers 200 with the last min(n, stored)
   entries of the store, in order; an absent count means all *)
Theorem C20_query : forall s c f, format_ok f = true -> count_meaning c <> CountBad ->
  exists n, query s "GET" c f = R200 (negb (String.eqb f "text")) (lastn n s) /\
    n = match count_meaning c with
        | CountN k => N.to_nat (N.min k (N.of_nat (length s)))
        | _ => length s
        end.
Proof. exact query_ok. Qed.
Print Assumptions C20_query.

(* ... identically in both formats (only the framing flag differs); absent format = json *)
Theorem C20_formats : forall s c l,
  (query s "GET" c "json" = R200 true l <-> query s "GET" c "text" = R200 false l) /\
  (query s "GET" c "" = query s "GET" c "json").
Proof. exact query_formats_agree. Qed.
Print Assumptions C20_formats.

(* (3) invalid method / count / format are refused (405 / 400 / 400); no query, valid or not,
   touches the store; a reset with a method other than POST is refused and changes nothing *)
Theorem C20_refused : forall cap s meth c f,
  (String.eqb meth "GET" = false -> query s meth c f = R405) /\
  (String.eqb meth "GET" = true -> count_meaning c = CountBad -> query s meth c f = R400) /\
  (String.eqb meth "GET" = true -> format_ok f = false -> query s meth c f = R400) /\
  step cap s (EQuery meth c f) = s /\
  (String.eqb meth "POST" = false -> reset s meth = (s, 405%N)).
Proof. exact C20_refused_lemma. Qed.
Print Assumptions C20_refused.

(* (4) POST /reset empties the store *)
Theorem C20_reset : forall s, reset s "POST" = ([], 200%N).
Proof. exact C20_reset_lemma. Qed.
Print Assumptions C20_reset.

(* (5) every field of every record of a message occurs in the message's entry as the line
   "    <name>: <text> \n"; for the 18 data types the library can decode (printed_dt: all but
   dateTimeMicro/Nanoseconds and the three list types, for which the collector never delivers a
   record and the renderer prints a fixed notice) <text> is the formatted value itself *)
Theorem C20_fields_data : forall m rs e, m_set m = DataSet rs -> render m = Ok e ->
  occurs (header m) e /\
  forall r f, In r rs -> In f r ->
    exists t, field_text f = Ok t /\ occurs (dline (df_name f) t) e /\
              (printed_dt (df_dt f) = true -> t = df_fmt f).
Proof. exact render_data_fields. Qed.
Print Assumptions C20_fields_data.

Theorem C20_fields_template : forall m rs, m_set m = TemplateSet rs ->
  exists e, render m = Ok e /\ occurs (header m) e /\
    forall r f, In r rs -> In f r -> occurs (tline f) e.
Proof. exact render_template_fields. Qed.
Print Assumptions C20_fields_template.

(* (6) the whole observation the harness compares: on every case (history with snapshots and
   queries) the step-by-step model of the Go code yields exactly what the window specification
   demands — the oracle applied to the implementation's observations is this same predicate *)
Theorem C20_trace : forall cs, C20_holds_on cs (model_obs store_cap cs) = true.
Proof. exact C20_trace_lemma. Qed.
Print Assumptions C20_trace.

(* (7) CONCURRENT USE. In the running program arrivals (message loop), records queries and resets
   (HTTP server goroutines, any number at once) overlap. What makes (1)-(6) apply is the lock
   discipline of the package-level mutex, an obligation on the table regenerated from the source
   on every run (tools/cmd/gensyntax/locks_cmdcollector.go -> Gen/LocksCmdCollector.v): every
   access to flowRecords - including every access THROUGH a slice / pointer value derived from it,
   e.g. `records := flowRecords[n:]` read after an Unlock - is classified and made with `mutex`
   held (lockset_ok for: main one goroutine, handlers any number, one goroutine per go statement),
   and every function that takes the mutex does so in one critical section covering all its
   accesses to mutable state; the table is not empty of such rows *)
Theorem C20_lock_discipline :
  lockset_ok cc_thr cc_multi cmdcollector_accesses = true /\
  forallb (holds_w cmdcollector_v_mutex) store_rows = true /\
  guarded_by cmdcollector_v_mutex store_rows = true /\
  forallb cc_meth_ok cmdcollector_methods = true /\
  store_table_nonvacuous = true.
Proof. exact store_lock_discipline_split. Qed.
Print Assumptions C20_lock_discipline.

Theorem C20_every_access_locked : forall a,
  In a cmdcollector_accesses -> a_field a = cmdcollector_v_flowRecords ->
  a_known a = true /\ exists l, In l (a_locks a) /\ fst l = cmdcollector_v_mutex /\ snd l = LW.
Proof. exact store_every_access_locked. Qed.
Print Assumptions C20_every_access_locked.

(* hence no data race on the package-level state in any execution described by the table *)
Theorem C20_race_free : forall tr,
  lock_wf tr -> consistent cc_thr cc_multi cmdcollector_accesses tr ->
  forall p3 t2 b r2 p2 t1 a r1 p1,
    tr = p3 ++ (t2, Acc b r2) :: p2 ++ (t1, Acc a r1) :: p1 ->
    t1 <> t2 -> racy a b = true -> ordered_between t1 t2 p2.
Proof. exact store_race_free. Qed.
Print Assumptions C20_race_free.

(* under that discipline (operation = invoke ; mutex.Lock ; its micro-steps one at a time ;
   Unlock = response): for every number of threads, every program of arrivals / queries / resets
   per thread, every schedule and every cut of the critical sections into micro-steps that
   composes to Store.step, the store once the lock holder finishes is the SEQUENTIAL run, in
   lock-acquisition order, of the operations that acquired the lock - so it is the window of the
   arrivals in that order, never longer than the cap - and the responses handed out so far are
   the sequential results (at most the holder's is pending) *)
Theorem C20_concurrent_window : forall micro : event -> list (store -> store),
  (forall e s, apply_all store (micro e) s = Store.step store_cap s e) ->
  forall progs sched,
    let g := store_conc_run store_cap micro progs sched in
    let order := lin event sresult (hist g) in
    finish store event sresult g = Store.run store_cap (events_in order) [] /\
    finish store event sresult g = lastn store_cap (arrivals (events_in order) []) /\
    (length (finish store event sresult g) <= store_cap)%nat /\
    exists pending, store_seq_results store_cap order [] = rels event sresult (hist g) ++ pending /\
                    (holder g = None -> pending = []) /\ (length pending <= 1)%nat.
Proof. exact (store_linearizable store_cap store_cap_pos). Qed.
Print Assumptions C20_concurrent_window.

(* every response handed out under any schedule is the sequential answer on the window of the
   arrivals linearized before it: for a records query, `query` on that window, to which C20_query /
   C20_formats / C20_refused apply verbatim *)
Theorem C20_concurrent_responses : forall micro : event -> list (store -> store),
  (forall e s, apply_all store (micro e) s = Store.step store_cap s e) ->
  forall progs sched i r,
    let g := store_conc_run store_cap micro progs sched in
    In (i, r) (rels event sresult (hist g)) ->
    exists before after, lin event sresult (hist g) = before ++ i :: after /\
      r = store_res store_cap (op_of i) (lastn store_cap (arrivals (events_in before) [])).
Proof. exact (store_responses store_cap store_cap_pos). Qed.
Print Assumptions C20_concurrent_responses.

(* the linearization respects real time (responded before invoked => earlier) and every thread's
   program order *)
Theorem C20_concurrent_real_time : forall (micro : event -> list (store -> store)) progs s1 s2 a r b,
  let g1 := store_conc_run store_cap micro progs s1 in
  let g2 := store_conc_run store_cap micro progs (s1 ++ s2) in
  In (ERel a r) (hist g1) -> ~ In (EInv b) (hist g1) -> In b (lin event sresult (hist g2)) ->
  exists l1 l2 l3, lin event sresult (hist g2) = l1 ++ a :: l2 ++ b :: l3.
Proof. exact (store_real_time store_cap). Qed.
Print Assumptions C20_concurrent_real_time.
Theorem C20_concurrent_program_order : forall (micro : event -> list (store -> store)) progs sched t,
  exists rest, proj event t (lin event sresult (hist (store_conc_run store_cap micro progs sched))) ++ rest = progs t.
Proof. exact (store_program_order store_cap). Qed.
Print Assumptions C20_concurrent_program_order.

(* the hypothesis on micro is satisfiable by the cut the Go code makes (eviction = blank slot 0 ;
   re-slice ; append: three separate writes) *)
Example C20_go_micro_ok : forall e s, apply_all store (go_micro store_cap e) s = Store.step store_cap s e.
Proof. exact (go_micro_ok store_cap store_cap_pos). Qed.
(* a concrete interleaving at cap 2: while the third arrival holds the lock and has only blanked
   slot 0 (store = [""; e2]), two queries are invoked and block; afterwards they answer 2 and 1
   entries of the window [e2; e3], never the blanked slot *)
Example C20_concurrent_example :
  holder exc_mid = Some 0 /\ map String.length (st exc_mid) = [0; String.length (hd EmptyString (entry_list (exc_msg 2)))] /\
  holder exc_final = None /\ st exc_final = [] /\
  map snd (rels event sresult (hist exc_final)) =
    [SArrived true; SArrived true; SArrived true;
     SAnswer (R200 false (entry_list (exc_msg 2) ++ entry_list (exc_msg 3)));
     SAnswer (R200 true (entry_list (exc_msg 3))); SResetStatus 200].
Proof. vm_compute. repeat split; reflexivity. Qed.

(* non-vacuity *)
Local Open Scope string_scope.
Definition ex_msg (q : N) : msg :=
  mkMsg 10 20 1000 "t" q 1 (DataSet [[mkDF "octetDeltaCount" Unsigned64 (VU64 5) "5"; mkDF "n" String_ (VStr []) ""]]).
Example C20_window_example :
  run 2 [EArrive (ex_msg 1); EArrive (ex_msg 2); EQuery "GET" "1" "text"; EArrive (ex_msg 3)] [] =
  flat_map entry_list [ex_msg 2; ex_msg 3] /\
  run 2 [EArrive (ex_msg 1); EReset "GET"; EReset "POST"; EArrive (ex_msg 3)] [] = entry_list (ex_msg 3).
Proof. vm_compute. split; reflexivity. Qed.
Example C20_count_examples :
  count_meaning "" = CountAll /\ count_meaning "007" = CountN 7 /\ count_meaning "-0" = CountN 0 /\
  count_meaning "+3" = CountN 3 /\ count_meaning "-1" = CountBad /\ count_meaning "1.5" = CountBad /\
  count_meaning "9223372036854775807" = CountN 9223372036854775807 /\
  count_meaning "9223372036854775808" = CountBad /\ count_meaning "+" = CountBad.
Proof. vm_compute. repeat split. Qed.
Example C20_query_example :
  query ["a"; "b"; "c"] "GET" "2" "text" = R200 false ["b"; "c"] /\
  query ["a"; "b"; "c"] "GET" "9" "" = R200 true ["a"; "b"; "c"] /\
  query ["a"; "b"; "c"] "GET" "0" "json" = R200 true [] /\
  query ["a"; "b"; "c"] "PUT" "2" "text" = R405 /\ query ["a"] "GET" "x" "text" = R400 /\
  query ["a"] "GET" "1" "xml" = R400.
Proof. vm_compute. repeat split. Qed.
Example C20_render_example :
  render (ex_msg 7) = Ok (header (ex_msg 7) ++ "DATA SET:" ++ nl ++ "  DATA RECORD-0:" ++ nl ++
                          "    octetDeltaCount: 5 " ++ nl ++ "    n:  " ++ nl).
Proof. vm_compute. reflexivity. Qed.
