From Coq Require Import List.
From Verif.Model Require Import Store.
Theorem C20_window : True.
Proof. exact I. Qed.
