(* C04 — Data is decoded with the right template: scoping, replacement, invalidation.
   Only the property theorems; proofs in Proofs/Templates_lemmas.v and Proofs/C04_lemmas.v.
   Model: Model/Decode.v (decode_packet, tm_add / tm_delete / tm_lookup); specification:
   Model/Templates.v (classify, last_valid). *)
From Coq Require Import List Bool Arith NArith ZArith String.
From Coq.Strings Require Import Byte.
From Verif.Base Require Import Bytes Outcome Str.
From Verif.Gen Require Import Consts.
From Verif.Model Require Import IE Codec Decode Templates.
From Verif.Proofs Require Import Decode_lemmas Templates_lemmas C04_lemmas.
From Verif.Driver Require Import Show DecShow C04drv.
Import ListNotations.
Local Open Scope N_scope.

(* For EVERY history of byte strings, registry and mode: the template table after the history,
   looked up at any (observation domain, template id), is last_valid of the history - the most
   recent template set for that key whose 4-byte record header (id, count) was readable: its
   fields if they were accepted, nothing if they were not (spec_lookup = last_valid over the
   classification of each packet). And a data set (any well-headed message whose set id is not
   2) is decoded with exactly that entry under (its domain, its set id), and rejected with
   "no template" when there is none. *)
Theorem C04_template_scope : forall (m : mode) (reg : list ie) (hist : list (list byte)),
  (forall d i, tm_lookup (run m reg hist) d i = spec_lookup m reg hist d i) /\
  (forall bytes, hdr_ok bytes = true -> N.eqb (wire_setid bytes) c_entities_TemplateSetID = false ->
     fst (decode_packet m reg (run m reg hist) bytes) =
     match spec_lookup m reg hist (wire_obs bytes) (wire_setid bytes) with
     | None => Err ErrNoTemplate
     | Some tpl => omap (DataMsg (wire_hdr bytes) (wire_setid bytes))
                        (decode_data_body (keep_of m) tpl (wire_body bytes))
     end).
Proof. exact C04_template_scope_lemma. Qed.
Print Assumptions C04_template_scope.

(* the table effect of one packet is the effect of its classification, whatever the table *)
Theorem C04_step_classify : forall m reg tm bytes,
  step m reg tm bytes = apply_tmsg tm (classify m reg bytes).
Proof. exact step_classify. Qed.
Print Assumptions C04_step_classify.

(* isolation: packets about another key - another observation domain, or another template id -
   or about no key at all (data, malformed) never change what (d, i) resolves to *)
Theorem C04_other_key_irrelevant : forall m reg tm bytes d i,
  key_of (classify m reg bytes) <> Some (d, i) ->
  tm_lookup (step m reg tm bytes) d i = tm_lookup tm d i.
Proof. exact other_key_irrelevant. Qed.
Theorem C04_other_domain_irrelevant : forall m reg tm bytes d i,
  wire_obs bytes <> d -> tm_lookup (step m reg tm bytes) d i = tm_lookup tm d i.
Proof. exact other_domain_irrelevant. Qed.
Theorem C04_other_id_irrelevant : forall m reg tm bytes d i,
  wire_tid bytes <> i -> tm_lookup (step m reg tm bytes) d i = tm_lookup tm d i.
Proof. exact other_id_irrelevant. Qed.
Print Assumptions C04_other_domain_irrelevant.

(* invalidation: after a template set that fails once its id was read, the key resolves to
   nothing and every data set for it is rejected - never decoded against the stale template *)
Theorem C04_bad_template_invalidates : forall m reg hist bytes,
  classify m reg bytes = TplBadAfterHdr (wire_obs bytes) (wire_tid bytes) ->
  spec_lookup m reg (hist ++ [bytes]) (wire_obs bytes) (wire_tid bytes) = None /\
  (forall data, hdr_ok data = true -> wire_obs data = wire_obs bytes -> wire_setid data = wire_tid bytes ->
     N.eqb (wire_setid data) c_entities_TemplateSetID = false ->
     fst (decode_packet m reg (run m reg (hist ++ [bytes])) data) = Err ErrNoTemplate).
Proof. exact bad_template_invalidates_lemma. Qed.
Print Assumptions C04_bad_template_invalidates.

(* the executable oracle (applied by the check to the implementation's per-packet outcomes)
   holds of the model on every history *)
Theorem C04_oracle : forall m pkts,
  C04_holds_hist m registry [] pkts (map fst (model_hist4 m registry [] pkts)) = true.
Proof. exact C04_oracle_lemma. Qed.
Print Assumptions C04_oracle.

(* non-vacuity *)
Definition c4_hdr (obs len setid0 setid1 : byte) : list byte :=
  [x00;x0a;x00;len; x00;x00;x00;x01; x00;x00;x00;x00; x00;x00;x00;obs; setid0;setid1;x00;x00].
Definition c4_tplA (obs : byte) : list byte :=    (* 256: sourceTransportPort, octetDeltaCount *)
  c4_hdr obs x20 x00 x02 ++ [x01;x00;x00;x02; x00;x07;x00;x02; x00;x01;x00;x08].
Definition c4_tplB (obs : byte) : list byte :=    (* 256: protocolIdentifier *)
  c4_hdr obs x1c x00 x02 ++ [x01;x00;x00;x01; x00;x04;x00;x01].
Definition c4_bad_after (obs : byte) : list byte :=  (* 256, count 1, field specifier cut short *)
  c4_hdr obs x1a x00 x02 ++ [x01;x00;x00;x01; x00;x04].
Definition c4_bad_before (obs : byte) : list byte := (* template set cut inside the record header *)
  c4_hdr obs x16 x00 x02 ++ [x01;x00].
Example C04_nonvacuous_classes :
  key_of (classify Strict registry (c4_tplA x01)) = Some (1, 256) /\
  classify Strict registry (c4_bad_after x01) = TplBadAfterHdr 1 256 /\
  classify Strict registry (c4_bad_before x01) = NoEffect.
Proof. vm_compute. repeat split. Qed.
Example C04_nonvacuous_history :
  let h := [c4_tplA x01; c4_tplB x02; c4_tplB x01; c4_bad_before x01; c4_bad_after x02] in
  option_map (@List.length ie) (spec_lookup Strict registry h 1 256) = Some 1%nat /\   (* replaced A by B *)
  spec_lookup Strict registry h 2 256 = None /\                                          (* invalidated *)
  option_map (@List.length ie) (tm_lookup (run Strict registry h) 1 256) = Some 1%nat /\
  tm_lookup (run Strict registry h) 2 256 = None /\
  List.length (run Strict registry h) = 1%nat.                                           (* domain 2 pruned *)
Proof. vm_compute. repeat split. Qed.
