(* C02 — Exporter output is well-formed RFC 7011 as judged by an independent decoder
   (Model/Rfc7011.v shares nothing with the codec model beyond be/bed).
   Only the property theorems; proofs in Proofs/Rfc_lemmas.v. *)
From Coq Require Import List Bool Arith NArith ZArith String.
From Coq.Strings Require Import Byte.
From Verif.Base Require Import Bytes Outcome Str.
From Verif.Model Require Import IE Codec Record SetB Msg Exporter Rfc7011.
From Verif.Proofs Require Import SetB_lemmas Exporter_lemmas C08_lemmas Rfc_lemmas RfcData_lemmas RfcApi_lemmas C09_oracle.
From Verif.Driver Require Import Show SetShow HistShow RfcCheck C02drv.
Import ListNotations.
Local Open Scope N_scope.

(* Header clause, for EVERY message SendSet puts on the wire (any set built by any operations,
   any state, any time): the independent parser accepts version 10, a length field equal to the
   number of bytes sent, exactly one set whose length field covers the rest, with the set id
   that PrepareSet wrote; what remains is the parse of the body (the record buffers). *)
Theorem C02_frame : forall widths st s t bytes,
  Inv s -> st_wf st -> r_wire (send_set cur st s t) = Some bytes ->
  rfc_parse widths bytes =
    after_frame widths (x_obs st) (seq_next (x_seq st) s) t (hdr_id s) (body_of s) /\
  blen bytes = 20 + blen (body_of s).
Proof. exact wellformed_frame. Qed.
Print Assumptions C02_frame.

(* Template sets, complete: every transmitted template set (any number of records, any
   elements with id < 2^15, any enterprise number, any length) parses to set id 2 and, per
   record, (template id, field count, one specifier per element with the enterprise bit and the
   4-byte enterprise number exactly for enterprise-specific elements). *)
Theorem C02_template_sets : forall widths st ops t bytes,
  let s := set_of ops in
  st_wf st -> r_wire (send_set cur st s t) = Some bytes ->
  hdr_id s = 2 -> Forall tpl_rec_ok (s_recs s) ->
  rfc_parse widths bytes =
    Some (mkWM 10 (blen bytes) (t mod 2 ^ 32) (seq_next (x_seq st) s mod 2 ^ 32) (x_obs st mod 2 ^ 32)
               2 (blen bytes - 16) (WTemplates (expected_templates s))).
Proof. exact wellformed_template_set. Qed.
Print Assumptions C02_template_sets.

Theorem C02_field_specifier : forall e rest,
  ie_id e < 32768 -> ie_ent e < 4294967296 -> ie_len e < 65536 ->
  parse_fspec (field_spec e ++ rest) = Some (rfc_fspec e, rest).
Proof. exact parse_fspec_spec. Qed.
Print Assumptions C02_field_specifier.

(* One field of a data record: on a well-typed value (wf_value: the Go kind is the element's
   data type, the number is in range of that type, the element has the type's width) the
   encoder writes the RFC 7011 6.1 octets of the value (rfc_value: big-endian at the type's
   width, two's complement, IEEE bits, 1/2 for booleans, 6/4/16 raw address octets, the bytes
   of strings and octet arrays), preceded exactly for a variable-length element by the
   section 7 prefix (one octet below 255, else 0xFF and two octets) - all 18 element kinds. *)
Theorem C02_field_octets : forall e v bs,
  wf_value e v = true -> enc e v = Some bs ->
  exists c, rfc_value e v = Some c /\ bs = rfc_field (ie_len e) c /\ field_fits (ie_len e) c.
Proof. exact enc_is_rfc. Qed.
Print Assumptions C02_field_octets.

(* ... and the independent parser, given the template's width, reads exactly those octets *)
Theorem C02_field_parse : forall w c rest,
  field_fits w c -> parse_field w (rfc_field w c ++ rest) = Some (c, rest).
Proof. exact parse_field_spec. Qed.
Print Assumptions C02_field_parse.

(* Data sets, complete: every transmitted data set (any number of records, built by any
   operations) whose records are well-typed records of one template with widths [ws] (some
   width non-zero: records of zero octets cannot be counted by any decoder) parses, with those
   widths, to set id = the id PrepareSet wrote and, per record and field, the RFC octets of the
   value given ([expected_data] = rfc_value of every value, in order). *)
Theorem C02_data_sets : forall widths st ops t bytes ws,
  let s := set_of ops in
  st_wf st -> r_wire (send_set cur st s t) = Some bytes ->
  256 <= hdr_id s -> widths (hdr_id s) = Some ws -> Exists (fun w => w <> 0) ws ->
  Forall (data_rec_ok ws) (s_recs s) ->
  exists d, expected_data s = Some d /\
  rfc_parse widths bytes =
    Some (mkWM 10 (blen bytes) (t mod 2 ^ 32) (seq_next (x_seq st) s mod 2 ^ 32) (x_obs st mod 2 ^ 32)
               (hdr_id s) (blen bytes - 16) (WData d)).
Proof. exact wellformed_data_set_tpl. Qed.
Print Assumptions C02_data_sets.

(* The same at the level of the API calls: PrepareSet(Data, tid), one add per record in any
   of the three forms (k >= 0), SendSet. For every template (widths ws, one of them non-zero),
   every list of well-typed records of it and every state in which the send succeeds, the
   independent parser, given ws for tid, returns set id tid and the RFC octets of every value. *)
Theorem C02_data_exchange : forall widths st tid frs t bytes ws,
  let s := set_of (OPrepare SData tid :: add_ops tid frs) in
  st_wf st -> r_wire (send_set cur st s t) = Some bytes ->
  256 <= tid < 65536 -> widths tid = Some ws -> Exists (fun w => w <> 0) ws ->
  Forall (fun fr => form_ok (fst fr) = true /\ wf_record (snd fr) = true /\ widths_of (snd fr) = ws) frs ->
  exists d, opt_all (map (fun fr => octets_of (snd fr)) frs) = Some d /\
  rfc_parse widths bytes =
    Some (mkWM 10 (blen bytes) (t mod 2 ^ 32) (seq_next (x_seq st) s mod 2 ^ 32) (x_obs st mod 2 ^ 32)
               tid (blen bytes - 16) (WData d)).
Proof. exact data_exchange. Qed.
Print Assumptions C02_data_exchange.

(* The headline: frame + template records + data records. Every message SendSet transmits
   for a set in scope (c02_scope: a template set of records within the specifier ranges, or a
   data set of well-typed records of the template known for its id) is accepted by the
   independent parser as version 10, length = bytes sent, one set covering the rest, the set
   id of the header, and the expected body. *)
Theorem C02_wellformed : forall widths st ops t bytes,
  let s := set_of ops in
  st_wf st -> r_wire (send_set cur st s t) = Some bytes -> c02_scope widths s ->
  exists body, expected_body s = Some body /\
  rfc_parse widths bytes =
    Some (mkWM 10 (blen bytes) (t mod 2 ^ 32) (seq_next (x_seq st) s mod 2 ^ 32) (x_obs st mod 2 ^ 32)
               (hdr_id s) (blen bytes - 16) body).
Proof. exact wellformed_message. Qed.
Print Assumptions C02_wellformed.

(* "set id 2 for templates and the template id for data": the id in the header of a set
   prepared once and then filled is the one PrepareSet was given *)
Theorem C02_set_id : forall ty id rest,
  forallb keeps_id rest = true ->
  hdr_id (set_of (OPrepare ty id :: rest)) =
  match ty with STemplate => 2 | SData => id mod 65536 | SUndefined => 0 end.
Proof. exact set_id_on_wire. Qed.
Print Assumptions C02_set_id.

(* non-vacuity of the data clause: a data set of two records (unsigned8, enterprise string, IPv4 given in its 16-byte form) under a registered template is sent and is
   in scope *)
Definition c02_u8 : ie := mkIE "x" 4 Unsigned8 0 1.
Definition c02_str : ie := mkIE "s" 13 String_ 29305 65535.
Definition c02_ip : ie := mkIE "a" 8 Ipv4Address 0 4.
Definition c02_st : exp := mkExp 7 0 [(300, ([c02_u8; c02_str; c02_ip], 6))] false.
Definition c02_ops : list op :=
  [OPrepare SData 300;
   OAdd FV1 [(c02_u8, VU8 5); (c02_str, VStr [x41; x42]); (c02_ip, VIP (Some (v4_prefix ++ [x0a; x00; x00; x01])))] 300;
   OAdd FV2 [(c02_u8, VU8 0); (c02_str, VStr []); (c02_ip, VIP (Some [x0a; x00; x00; x02]))] 300].
Example C02_data_nonvacuous :
  (exists bytes, r_wire (send_set cur c02_st (set_of c02_ops) 0) = Some bytes) /\
  c02_scope (fun _ => Some [1; 65535; 4]) (set_of c02_ops).
Proof.
  split.
  - vm_compute. eexists. reflexivity.
  - right. split; [vm_compute; discriminate|]. exists [1; 65535; 4]. split; [reflexivity|].
    split; [left; discriminate|].
    repeat (constructor; [repeat split; vm_compute; reflexivity|]). constructor.
Qed.

(* The per-case oracle of the check (C02_holds_on: every successful call whose bytes were
   reported in full returned their number, and for a set in scope the bytes satisfy rfc_demand -
   the independent parser's reading equals the expectation built from the case) holds on the
   model's own observation of EVERY case whose sets satisfy case_set_ok (Driver/RfcCheck.v: one
   PrepareSet per set, values of data records are Go values of their elements' kinds). *)
Theorem C02_oracle_on_model : forall c,
  forallb (fun ds => case_set_ok (set_of (ops_of ds))) (hc_sends c) = true ->
  C02_holds_on_h c (hist_model cur c) = true.
Proof. exact c02_oracle_on_model. Qed.
Print Assumptions C02_oracle_on_model.

(* non-vacuity / concrete evidence for the data clause: one template, two records with a
   string at the 255 boundary, signed and enterprise-specific elements *)
Definition c02_case : string :=
  "tcp 5 0 full S P T 300 A 1 300 3 7 6 0 2 i16 0 9 13 29305 65535 str - 4 19 0 16 ip nil ; S P D 300 A 1 300 3 7 6 0 2 i16 -2 9 13 29305 65535 str pat 255 3 4 19 0 16 ip hex 0a000001 A 2 300 3 7 6 0 2 i16 513 9 13 29305 65535 str hex 4142 4 19 0 16 ip hex 20010db8000000000000000000000001 ;".
Example C02_nonvacuous :
  match parse_hcase (tokens c02_case) with
  | Some c => let m := hist_model cur c in c02_wf_h c (fst m) && C02_holds_on_h c m
  | None => false
  end = true.
Proof. vm_compute. reflexivity. Qed.
