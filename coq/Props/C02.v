(* C02 — Exporter output is well-formed RFC 7011 as judged by an independent decoder
   (Model/Rfc7011.v shares nothing with the codec model beyond be/bed).
   Only the property theorems; proofs in Proofs/Rfc_lemmas.v. *)
From Coq Require Import List Bool Arith NArith ZArith String.
From Coq.Strings Require Import Byte.
From Verif.Base Require Import Bytes Outcome Str.
From Verif.Model Require Import IE Codec Record SetB Msg Exporter ExpObj Rfc7011.
From Verif.Proofs Require Import SetB_lemmas Exporter_lemmas C08_lemmas Rfc_lemmas RfcData_lemmas RfcApi_lemmas C09_oracle
  ExpObj_lemmas C02gen_lemmas Gen_oracle C02_refuted.
From Verif.Driver Require Import Show SetShow HistShow HistObj RfcCheck C02drv.
Import ListNotations.
Local Open Scope N_scope.

(* Header clause, for EVERY message SendSet puts on the wire (any set built by any operations,
   any state, any time): the independent parser accepts version 10, a length field equal to the
   number of bytes sent, exactly one set whose length field covers the rest, with the set id
   that PrepareSet wrote; what remains is the parse of the body (the record buffers). *)
Theorem C02_frame : forall widths st s t bytes,
  Inv s -> st_wf st -> r_wire (send_set cur st s t) = Some bytes ->
  rfc_parse widths bytes =
    after_frame widths (x_obs st) (seq_next (x_seq st) s) t (hdr_id s) (body_of s) /\
  blen bytes = 20 + blen (body_of s).
Proof. exact wellformed_frame. Qed.
Print Assumptions C02_frame.

(* ... and for every set state of a REUSED set object whose element objects may have changed
   since they were added (InvM: header of 4 bytes, set length = 4 + the record lengths recorded
   at add time - the invariant of every set object in every object-level history, C02_histories
   below): the frame is the same *)
Theorem C02_frame_any_set_state : forall widths st s t bytes,
  InvM s -> st_wf st -> r_wire (send_set cur st s t) = Some bytes ->
  rfc_parse widths bytes =
    after_frame widths (x_obs st) (seq_next (x_seq st) s) t (hdr_id s) (body_of s) /\
  blen bytes = 20 + blen (body_of s).
Proof. exact wellformed_frame_m. Qed.
Print Assumptions C02_frame_any_set_state.

(* Template sets, complete: every transmitted template set (any number of records, any
   elements with id < 2^15, any enterprise number, any length) parses to set id 2 and, per
   record, (template id, field count, one specifier per element with the enterprise bit and the
   4-byte enterprise number exactly for enterprise-specific elements). *)
Theorem C02_template_sets : forall widths st ops t bytes,
  let s := set_of ops in
  st_wf st -> r_wire (send_set cur st s t) = Some bytes ->
  hdr_id s = 2 -> Forall tpl_rec_ok (s_recs s) ->
  rfc_parse widths bytes =
    Some (mkWM 10 (blen bytes) (t mod 2 ^ 32) (seq_next (x_seq st) s mod 2 ^ 32) (x_obs st mod 2 ^ 32)
               2 (blen bytes - 16) (WTemplates (expected_templates s))).
Proof. exact wellformed_template_set. Qed.
Print Assumptions C02_template_sets.

Theorem C02_field_specifier : forall e rest,
  ie_id e < 32768 -> ie_ent e < 4294967296 -> ie_len e < 65536 ->
  parse_fspec (field_spec e ++ rest) = Some (rfc_fspec e, rest).
Proof. exact parse_fspec_spec. Qed.
Print Assumptions C02_field_specifier.

(* One field of a data record: on a well-typed value (wf_value: the Go kind is the element's
   data type, the number is in range of that type, the element has the type's width) the
   encoder writes the RFC 7011 6.1 octets of the value (rfc_value: big-endian at the type's
   width, two's complement, IEEE bits, 1/2 for booleans, 6/4/16 raw address octets, the bytes
   of strings and octet arrays), preceded exactly for a variable-length element by the
   section 7 prefix (one octet below 255, else 0xFF and two octets) - all 18 element kinds. *)
Theorem C02_field_octets : forall e v bs,
  wf_value e v = true -> enc e v = Some bs ->
  exists c, rfc_value e v = Some c /\ bs = rfc_field (ie_len e) c /\ field_fits (ie_len e) c.
Proof. exact enc_is_rfc. Qed.
Print Assumptions C02_field_octets.

(* ... and the independent parser, given the template's width, reads exactly those octets *)
Theorem C02_field_parse : forall w c rest,
  field_fits w c -> parse_field w (rfc_field w c ++ rest) = Some (c, rest).
Proof. exact parse_field_spec. Qed.
Print Assumptions C02_field_parse.

(* Data sets, complete: every transmitted data set (any number of records, built by any
   operations) whose records are well-typed records of one template with widths [ws] (some
   width non-zero: records of zero octets cannot be counted by any decoder) parses, with those
   widths, to set id = the id PrepareSet wrote and, per record and field, the RFC octets of the
   value given ([expected_data] = rfc_value of every value, in order). *)
Theorem C02_data_sets : forall widths st ops t bytes ws,
  let s := set_of ops in
  st_wf st -> r_wire (send_set cur st s t) = Some bytes ->
  256 <= hdr_id s -> widths (hdr_id s) = Some ws -> Exists (fun w => w <> 0) ws ->
  Forall (data_rec_ok ws) (s_recs s) ->
  exists d, expected_data s = Some d /\
  rfc_parse widths bytes =
    Some (mkWM 10 (blen bytes) (t mod 2 ^ 32) (seq_next (x_seq st) s mod 2 ^ 32) (x_obs st mod 2 ^ 32)
               (hdr_id s) (blen bytes - 16) (WData d)).
Proof. exact wellformed_data_set_tpl. Qed.
Print Assumptions C02_data_sets.

(* The same at the level of the API calls: PrepareSet(Data, tid), one add per record in any
   of the three forms (k >= 0), SendSet. For every template (widths ws, one of them non-zero),
   every list of well-typed records of it and every state in which the send succeeds, the
   independent parser, given ws for tid, returns set id tid and the RFC octets of every value. *)
Theorem C02_data_exchange : forall widths st tid frs t bytes ws,
  let s := set_of (OPrepare SData tid :: add_ops tid frs) in
  st_wf st -> r_wire (send_set cur st s t) = Some bytes ->
  256 <= tid < 65536 -> widths tid = Some ws -> Exists (fun w => w <> 0) ws ->
  Forall (fun fr => form_ok (fst fr) = true /\ wf_record (snd fr) = true /\ widths_of (snd fr) = ws) frs ->
  exists d, opt_all (map (fun fr => octets_of (snd fr)) frs) = Some d /\
  rfc_parse widths bytes =
    Some (mkWM 10 (blen bytes) (t mod 2 ^ 32) (seq_next (x_seq st) s mod 2 ^ 32) (x_obs st mod 2 ^ 32)
               tid (blen bytes - 16) (WData d)).
Proof. exact data_exchange. Qed.
Print Assumptions C02_data_exchange.

(* The headline: frame + template records + data records. Every message SendSet transmits
   for a set in scope (c02_scope: a template set of records within the specifier ranges, or a
   data set of well-typed records of the template known for its id) is accepted by the
   independent parser as version 10, length = bytes sent, one set covering the rest, the set
   id of the header, and the expected body. *)
Theorem C02_wellformed : forall widths st ops t bytes,
  let s := set_of ops in
  st_wf st -> r_wire (send_set cur st s t) = Some bytes -> c02_scope widths s ->
  exists body, expected_body s = Some body /\
  rfc_parse widths bytes =
    Some (mkWM 10 (blen bytes) (t mod 2 ^ 32) (seq_next (x_seq st) s mod 2 ^ 32) (x_obs st mod 2 ^ 32)
               (hdr_id s) (blen bytes - 16) body).
Proof. exact wellformed_message. Qed.
Print Assumptions C02_wellformed.

(* ---- set objects that are reused, element objects that are shared and changed, refresh ----
   (Model/ExpObj.v: the application's objects. A history is any sequence of: builder operations
   on a new or on an earlier set object - with or without ResetSet -, AddRecord with the element
   objects of an earlier AddRecord, SetXxxValue on element objects that records already hold,
   GetBuffer calls, SendSet, the refresh ticker, reconnects.) *)

(* the general message theorem: for ANY set state with the bookkeeping invariant whose template
   records have the builder's buffers - which is every set state any history can present to
   SendSet - a transmitted message in scope is well-formed. In scope (c02_scope_m): header id 2
   and template records within the specifier ranges, or a data set (PrepareSet(Data)), header
   id >= 256, whose records are data records of the template's widths with their CURRENT values
   well-typed. That a record's current values fill exactly the length it was added with is not
   a hypothesis: the repaired sanity check refuses the set otherwise (C02_refuted_reclen_orig). *)
Theorem C02_wellformed_any_set_state : forall widths st s t bytes,
  InvM s -> (forall r, In r (s_recs s) -> tshape r) ->
  st_wf st -> r_wire (send_set cur st s t) = Some bytes -> c02_scope_m widths s ->
  exists body, expected_body s = Some body /\
  rfc_parse widths bytes =
    Some (mkWM 10 (blen bytes) (t mod 2 ^ 32) (seq_next (x_seq st) s mod 2 ^ 32) (x_obs st mod 2 ^ 32)
               (hdr_id s) (blen bytes - 16) body).
Proof. exact wellformed_message_m. Qed.
Print Assumptions C02_wellformed_any_set_state.

(* every set state SendSet gets to see in any object-level history satisfies those invariants,
   the exporter state stays well-formed, and the call made is send_set on that state *)
Theorem C02_reachable_set_states : forall h w,
  WInv w -> Forall (out_ok cur) (grun cur w h).
Proof. exact grun_inv. Qed.
Print Assumptions C02_reachable_set_states.

(* together, for every history from any well-formed world (WInv_init: a fresh exporter): every
   message a SendSet writes for a set in scope is well-formed; a refresh of a UDP exporter whose
   registered templates are in scope (tpl_entry_ok: 256 <= id < 2^16, < 2^16 elements within the
   specifier ranges) writes one well-formed template message per registered template - set id 2,
   one record (id, one specifier per element), the UNCHANGED sequence number -, for a prefix of
   the map in the model's order and for all of it unless a send fails; each message depends on
   its own entry only (refresh_msg_ok), so the random iteration order of the Go map only
   permutes them; the exporter state afterwards is what it was *)
Theorem C02_histories : forall widths h w,
  WInv w -> Forall (out_wellformed widths) (grun cur w h).
Proof. exact histories_wellformed. Qed.
Print Assumptions C02_histories.

Theorem C02_refresh : forall widths t m st ss,
  st_wf st -> Forall tpl_entry_ok m -> (forall p, In p m -> In p (x_tpls st)) ->
  make_sets m = Ok ss ->
  let xs := send_all cur st ss t in
  exists k,
    Forall2 (fun p x => forall bytes, r_wire x = Some bytes -> refresh_msg_ok widths st t (fst p) (fst (snd p)) bytes)
            (firstn k m) xs /\
    (Forall (fun x => exists n, r_res x = Ok n) xs -> k = List.length m /\ last_state st xs = st).
Proof. exact refresh_messages. Qed.
Print Assumptions C02_refresh.

(* the histories of the theorems above (one fresh set per call, nothing shared) are the
   object-level histories in which every event opens a new set object *)
Theorem C02_plain_histories_are_a_special_case : forall fx h w,
  map sent_of (grun fx w (map plain_event h)) = map Some (run_hist fx (w_exp w) h).
Proof. exact grun_plain. Qed.
Print Assumptions C02_plain_histories_are_a_special_case.

(* On the faithful model of the code BEFORE the record-length repair the statement is false: the
   application reuses its element objects with a shorter string, the first record goes out with
   zero octets behind its fields (witness replayed on the real unrepaired code, corpus/C02) *)
Theorem C02_refuted_reclen_orig :
  c02_refutes (mkFixes true true true false true) case_shorter = true /\ c02_satisfies cur case_shorter = true.
Proof. split; [exact refuted_reclen|exact repaired_reclen]. Qed.
Print Assumptions C02_refuted_reclen_orig.

(* "set id 2 for templates and the template id for data": the id in the header of a set
   prepared once and then filled is the one PrepareSet was given *)
Theorem C02_set_id : forall ty id rest,
  forallb keeps_id rest = true ->
  hdr_id (set_of (OPrepare ty id :: rest)) =
  match ty with STemplate => 2 | SData => id mod 65536 | SUndefined => 0 end.
Proof. exact set_id_on_wire. Qed.
Print Assumptions C02_set_id.

(* non-vacuity of the data clause: a data set of two records (unsigned8, enterprise string, IPv4 given in its 16-byte form) under a registered template is sent and is
   in scope *)
Definition c02_u8 : ie := mkIE "x" 4 Unsigned8 0 1.
Definition c02_str : ie := mkIE "s" 13 String_ 29305 65535.
Definition c02_ip : ie := mkIE "a" 8 Ipv4Address 0 4.
Definition c02_st : exp := mkExp 7 0 [(300, ([c02_u8; c02_str; c02_ip], 6))] false.
Definition c02_ops : list op :=
  [OPrepare SData 300;
   OAdd FV1 [(c02_u8, VU8 5); (c02_str, VStr [x41; x42]); (c02_ip, VIP (Some (v4_prefix ++ [x0a; x00; x00; x01])))] 300;
   OAdd FV2 [(c02_u8, VU8 0); (c02_str, VStr []); (c02_ip, VIP (Some [x0a; x00; x00; x02]))] 300].
Example C02_data_nonvacuous :
  (exists bytes, r_wire (send_set cur c02_st (set_of c02_ops) 0) = Some bytes) /\
  c02_scope (fun _ => Some [1; 65535; 4]) (set_of c02_ops).
Proof.
  split.
  - vm_compute. eexists. reflexivity.
  - right. split; [vm_compute; discriminate|]. exists [1; 65535; 4]. split; [reflexivity|].
    split; [left; discriminate|].
    repeat (constructor; [repeat split; vm_compute; reflexivity|]). constructor.
Qed.

(* The per-case oracle of the check (C02_holds_on: every successful call whose bytes were
   reported in full returned their number, and for a set in scope the bytes satisfy rfc_demand -
   the independent parser's reading equals the expectation built from the case) holds on the
   model's own observation of EVERY case whose sets satisfy case_set_ok (Driver/RfcCheck.v: one
   PrepareSet per set, values of data records are Go values of their elements' kinds). *)
Theorem C02_oracle_on_model_h : forall c,
  forallb (fun ds => case_set_ok (set_of (ops_of ds))) (hc_sends c) = true ->
  C02_holds_on_h c (hist_model cur c) = true.
Proof. exact c02_oracle_on_model. Qed.
Print Assumptions C02_oracle_on_model_h.

(* The oracle of the check on object-level histories (C02_holds_on, Driver/C02drv.v: per SendSet
   as above, on the set as SendSet saw it; per refresh every message well-formed for the set
   MakeTemplateSet builds for some registered template; nothing stray at a reconnect) holds on
   the model's own observation of EVERY case within c02_wf: every set sent satisfies
   case_set_ok, no refresh with a template MakeTemplateSet cannot build, no panic. *)
Theorem C02_oracle_on_model : forall c,
  c02_wf c (fst (gmodel cur c)) = true -> C02_holds_on c (gmodel cur c) = true.
Proof. exact c02_oracle_on_model_g. Qed.
Print Assumptions C02_oracle_on_model.

(* non-vacuity / concrete evidence for the data clause: one template, two records with a
   string at the 255 boundary, signed and enterprise-specific elements *)
Definition c02_case : string :=
  "tcp 5 0 full S P T 300 A 1 300 3 7 6 0 2 i16 0 9 13 29305 65535 str - 4 19 0 16 ip nil ; S P D 300 A 1 300 3 7 6 0 2 i16 -2 9 13 29305 65535 str pat 255 3 4 19 0 16 ip hex 0a000001 A 2 300 3 7 6 0 2 i16 513 9 13 29305 65535 str hex 4142 4 19 0 16 ip hex 20010db8000000000000000000000001 ;".
Example C02_nonvacuous :
  match parse_hcase (tokens c02_case) with
  | Some c => let m := hist_model cur c in c02_wf_h c (fst m) && C02_holds_on_h c m
  | None => false
  end = true.
Proof. vm_compute. reflexivity. Qed.

(* non-vacuity of the object-level statements: one set object used for three messages with a
   reset in between and sent once more as it is; element objects reused with values of the same
   length (well-formed, both records carry the later values) and, after a GetBuffer, changed
   again (the cached bytes go out); a UDP refresh of two templates *)
Definition c02_gcase : string :=
  "udp 5 7 full S P T 300 A 1 300 2 5 13 0 65535 str - 6 2 0 2 u16 0 ; S P T 301 A 2 301 1 7 4 29305 8 u64 0 ; S P D 300 A 1 300 2 5 13 0 65535 str hex 616263 6 2 0 2 u16 4369 M 2 0 str hex 78797a M 2 1 u16 8738 AS 2 300 2 ; C 2 ; C 2 R P D 301 A X3 301 1 7 4 29305 8 u64 9 G M 5 0 u64 10 ; C 2 R P D 300 AS 1 300 2 ; W".
Example C02_general_nonvacuous :
  match parse_gcase (tokens c02_gcase) with
  | Some c => let m := gmodel cur c in
              c02_wf c (fst m) && C02_holds_on c m &&
              list_eqb String.eqb
                (map (fun o => match o with GOSend s => show_sres (so_res s) | GORefresh ws _ => show_nat (List.length ws) | GOReconn _ => "x"%string end) (fst m))
                ["r=ok:32"; "r=ok:32"; "r=ok:32"; "r=ok:32"; "r=ok:28"; "r=ok:26"; "2"]%string
  | None => false
  end = true.
Proof. vm_compute. reflexivity. Qed.
Example C02_world_nonvacuous : WInv (init_world (mkExp 7 0 [] true)).
Proof. apply WInv_init. reflexivity. Qed.
