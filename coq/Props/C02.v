(* C02 — Exporter output is well-formed RFC 7011 as judged by an independent decoder
   (Model/Rfc7011.v shares nothing with the codec model beyond be/bed).
   Only the property theorems; proofs in Proofs/Rfc_lemmas.v. *)
From Coq Require Import List Bool Arith NArith ZArith String.
From Coq.Strings Require Import Byte.
From Verif.Base Require Import Bytes Outcome Str.
From Verif.Model Require Import IE Codec Record SetB Msg Exporter Rfc7011.
From Verif.Proofs Require Import SetB_lemmas Exporter_lemmas C08_lemmas Rfc_lemmas.
From Verif.Driver Require Import Show SetShow HistShow RfcCheck C02drv.
Import ListNotations.
Local Open Scope N_scope.

(* Header clause, for EVERY message SendSet puts on the wire (any set built by any operations,
   any state, any time): the independent parser accepts version 10, a length field equal to the
   number of bytes sent, exactly one set whose length field covers the rest, with the set id
   that PrepareSet wrote; what remains is the parse of the body (the record buffers). *)
Theorem C02_frame : forall widths st s t bytes,
  Inv s -> st_wf st -> r_wire (send_set cur st s t) = Some bytes ->
  rfc_parse widths bytes =
    after_frame widths (x_obs st) (seq_next (x_seq st) s) t (hdr_id s) (body_of s) /\
  blen bytes = 20 + blen (body_of s).
Proof. exact wellformed_frame. Qed.
Print Assumptions C02_frame.

(* Template sets, complete: every transmitted template set (any number of records, any
   elements with id < 2^15, any enterprise number, any length) parses to set id 2 and, per
   record, (template id, field count, one specifier per element with the enterprise bit and the
   4-byte enterprise number exactly for enterprise-specific elements). *)
Theorem C02_template_sets : forall widths st ops t bytes,
  let s := set_of ops in
  st_wf st -> r_wire (send_set cur st s t) = Some bytes ->
  hdr_id s = 2 -> Forall tpl_rec_ok (s_recs s) ->
  rfc_parse widths bytes =
    Some (mkWM 10 (blen bytes) (t mod 2 ^ 32) (seq_next (x_seq st) s mod 2 ^ 32) (x_obs st mod 2 ^ 32)
               2 (blen bytes - 16) (WTemplates (expected_templates s))).
Proof. exact wellformed_template_set. Qed.
Print Assumptions C02_template_sets.

Theorem C02_field_specifier : forall e rest,
  ie_id e < 32768 -> ie_ent e < 4294967296 -> ie_len e < 65536 ->
  parse_fspec (field_spec e ++ rest) = Some (rfc_fspec e, rest).
Proof. exact parse_fspec_spec. Qed.
Print Assumptions C02_field_specifier.

(* NOT PROVED (partial): the data-record clause for all values,
     forall tpl recs, Forall (wf_record ..) recs -> send succeeds ->
       rfc_parse (widths of tpl) bytes = Some {.. WData (map (map rfc_value) recs)}
   i.e. parse_drecs over the concatenation of the record buffers returns the RFC 6.1 octets
   (rfc_value) of every value. What is missing is the per-type lemma
   enc e v = prefix ++ rfc_value e v for the 18 types; C02_frame reduces the clause to exactly
   that. The clause is checked on every run by the extracted rfc_parse on the REAL bytes of
   every data message (oracle rfc_demand), and on the model below for concrete sets. *)

(* non-vacuity / concrete evidence for the data clause: one template, two records with a
   string at the 255 boundary, signed and enterprise-specific elements *)
Definition c02_case : string :=
  "tcp 5 0 full S P T 300 A 1 300 3 7 6 0 2 i16 0 9 13 29305 65535 str - 4 19 0 16 ip nil ; S P D 300 A 1 300 3 7 6 0 2 i16 -2 9 13 29305 65535 str pat 255 3 4 19 0 16 ip hex 0a000001 A 2 300 3 7 6 0 2 i16 513 9 13 29305 65535 str hex 4142 4 19 0 16 ip hex 20010db8000000000000000000000001 ;".
Example C02_nonvacuous :
  match parse_hcase (tokens c02_case) with
  | Some c => let m := hist_model cur c in c02_wf c (fst m) && C02_holds_on c m
  | None => false
  end = true.
Proof. vm_compute. reflexivity. Qed.
