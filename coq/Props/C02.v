From Verif.Driver Require Import C02drv.
