(* C14 - exporter background activity and lifecycle never corrupt the stream.
   Theorems only (proofs in Proofs/ConcExporter_lemmas.v, ConcExporter_progress.v, C14_lemmas.v).

   Model (Model/ConcExporter.v): the application (one goroutine), the UDP refresher, the TCP
   connection checker, any number of closers; the environment fires ticks and closes the peer; a
   schedule is an arbitrary list of those actions; select with both branches ready takes either.
   A write puts one whole message on the wire atomically and fails once our side is closed; the
   steps of SendSet under the send mutex and the steps of closeConnToCollector are separate.
   `reach udp prog ncalls sched` is the state after `sched` from the initial state.
   Partial: Go scheduler / memory model, kernel sockets and promptness are runtime residue. *)
From Coq Require Import List Bool Arith NArith String.
From Verif.Model Require Import LockTab WaitTab Conc ConcExporter.
From Verif.Gen Require Import Locks.
From Verif.Proofs Require Import Conc_lemmas ConcExporter_lemmas ConcExporter_progress C14_lemmas.
Import ListNotations.

(* the wire is a sequence of whole messages whose headers are in wire order: every message
   carries the running count of data records (mod 2^32), for every schedule *)
Theorem C14_wire_wellformed : forall udp prog n sched, wire_seq_ok (wire (sh (reach udp prog n sched))).
Proof. exact exp_wire_wf. Qed.
Print Assumptions C14_wire_wellformed.

(* the application's messages appear in its order: they are exactly its successful sends, and its
   log follows its program *)
Theorem C14_app_order : forall udp prog n sched,
  let x := reach udp prog n sched in
  map m_set (filter (from 0) (wire (sh x))) = map fst (filter is_ok (app_log (sh x))) /\
  rev (map fst (app_log (sh x))) ++ pending (a_ph x) ++ sends (a_todo x) = sends prog.
Proof. exact exp_app_order. Qed.
Print Assumptions C14_app_order.

(* each refresh tick contributes exactly the templates registered before it: the refresher's
   messages are the rounds' templates; every completed round sent exactly its snapshot; a snapshot
   is the set of templates registered at that moment, and snapshots only grow *)
Theorem C14_refresh_rounds : forall udp prog n sched,
  let h := sh (reach udp prog n sched) in
  map m_set (filter (from 1) (wire h)) = map STemplate (flat_map r_sent (rounds h)) /\
  Forall (fun rd => r_complete rd = true -> rev (r_sent rd) = r_snap rd) (rounds h) /\
  chain (templates h) (rounds h).
Proof. exact exp_rounds. Qed.
Print Assumptions C14_refresh_rounds.
Theorem C14_refresh_snapshot : forall x c, refr x = RSnap ->
  rounds (sh (xstep x (AStep 1 c))) = MkRound (templates (sh x)) [] false :: rounds (sh x).
Proof. exact exp_snapshot. Qed.
Print Assumptions C14_refresh_snapshot.

(* after the first close has completed no write succeeds and no byte is written, whatever runs *)
Theorem C14_nothing_after_close : forall s2 x, closed (sh x) = true ->
  closed (sh (xrun x s2)) = true /\ wire (sh (xrun x s2)) = wire (sh x) /\
  filter is_ok (app_log (sh (xrun x s2))) = filter is_ok (app_log (sh x)).
Proof. exact exp_frozen. Qed.
Print Assumptions C14_nothing_after_close.

(* once a send has failed at the connection no later send succeeds *)
Theorem C14_sends_fail_monotonically : forall udp prog n sched, mono (app_log (sh (reach udp prog n sched))).
Proof. exact exp_mono. Qed.
Print Assumptions C14_sends_fail_monotonically.

(* close is idempotent from any thread: any number of closers, any number of calls - the stop
   channel is closed at most once (no double close panic), conn.Close runs at most once *)
Theorem C14_close_idempotent : forall udp prog n sched,
  let h := sh (reach udp prog n sched) in
  panicked h = false /\ n_stop h <= 1 /\ n_conn h <= 1 /\ (closed h = true -> stop_closed h = true /\ is_closed h = true).
Proof. exact exp_close_once. Qed.
Print Assumptions C14_close_idempotent.

(* after the first close has completed, under every fair schedule the background goroutines
   terminate, every CloseConnToCollector returns and the application finishes *)
Theorem C14_shutdown_terminates : forall udp prog ncalls bound sched rounds,
  (forall t, 3 + bound <= t -> ncalls t = 0) ->
  let x := reach udp prog ncalls sched in
  closed (sh x) = true ->
  Forall (fun r => incl (threads bound) r) rounds -> measure bound x <= List.length rounds ->
  terminated bound (prun xstate pstep x (List.concat rounds)) = true.
Proof. exact exp_shutdown. Qed.
Print Assumptions C14_shutdown_terminates.

(* over TCP: after the peer closed and the checker's tick saw it, the exporter is closing; unless
   another thread is in the middle of that same close the connection is closed - and then
   C14_nothing_after_close: every later SendSet fails *)
Theorem C14_peer_close_noticed : forall udp prog n sched,
  let x := reach udp prog n sched in
  noticed (sh x) = true -> chk x <> KClose CSwap ->
  is_closed (sh x) = true /\
  (closed (sh x) = true \/ exists w, winner (sh x) = Some w /\ cnorm (cph_of x w) <> 0).
Proof. exact exp_peer_noticed. Qed.
Print Assumptions C14_peer_close_noticed.

(* no data race on the fields of ExportingProcess: lockset_ok on the regenerated table (false
   before the F8/F11 repairs) + the generic lockset theorem *)
Theorem C14_lockset_ok : lockset_ok exp_thr exp_multi exporter_accesses = true.
Proof. exact exp_lockset_ok. Qed.
Print Assumptions C14_lockset_ok.
(* and the mutex that guards seqNumber is taken in one critical section that covers increment,
   message creation and write (the shape the model's SendSet has) *)
Theorem C14_send_discipline : guard_discipline exporter_f_seqNumber exporter_accesses exporter_methods = true.
Proof. exact exp_send_discipline. Qed.
Print Assumptions C14_send_discipline.
Theorem C14_race_free : forall tr,
  lock_wf tr -> consistent exp_thr exp_multi exporter_accesses tr ->
  forall p3 t2 b r2 p2 t1 a r1 p1,
    tr = p3 ++ (t2, Acc b r2) :: p2 ++ (t1, Acc a r1) :: p1 ->
    t1 <> t2 -> racy a b = true -> ordered_between t1 t2 p2.
Proof. exact exp_race_free. Qed.
Print Assumptions C14_race_free.

(* "Closing ... stops all background work, and no byte is written afterwards", for EVERY
   CloseConnToCollector call. Code side (regenerated table, Gen/Locks.v exporter_closers /
   exporter_spawns, tools/cmd/gensyntax/locks_wait.go): every exported function that closes the
   stop channel reaches each of its exits (every return statement, the end of the body) only
   after wg.Wait(), and every goroutine of the package is counted by wg (Add before the go
   statement, deferred Done) - an early `return` without the Wait, a dropped Wait, a dropped
   Add/Done break this obligation. *)
Theorem C14_wait_discipline : wait_discipline exporter_f_wg exporter_closers exporter_spawns = true.
Proof. exact exp_wait_discipline. Qed.
Print Assumptions C14_wait_discipline.
(* Model side, for every schedule: whenever any CloseConnToCollector call - first, repeated or
   concurrent, by the application or by any other goroutine - is about to return, wg = 0 and the
   refresher and the connection checker have terminated; in every continuation they stay
   terminated and put nothing on the wire any more *)
Theorem C14_close_returns_quiescent : forall udp prog n sched t s2,
  let x := reach udp prog n sched in
  close_returning x t ->
  wg (sh x) = 0 /\ refr (xrun x s2) = RDone /\ chk (xrun x s2) = KDone /\
  filter (from 1) (wire (sh (xrun x s2))) = filter (from 1) (wire (sh x)) /\
  filter (from 2) (wire (sh (xrun x s2))) = filter (from 2) (wire (sh x)).
Proof. exact exp_close_returns_quiescent. Qed.
Print Assumptions C14_close_returns_quiescent.
(* not vacuous: in the example run two closers are about to return from wg.Wait at step 50 *)
Example C14_close_returning_nonvacuous : close_returning ex_closing 3 /\ close_returning ex_closing 4.
Proof. exact ex_closing_returning. Qed.

(* ---- non-vacuity: a concrete interleaved run with a refresh round, racing closers, a failing
   sanity check and a send after close ---- *)
Example C14_run_nonvacuous :
  let h := sh ex_final in
  List.length (wire h) = 3 /\ List.length (filter (from 1) (wire h)) = 1 /\
  closed h = true /\ n_stop h = 1 /\ n_conn h = 1 /\ wg h = 0 /\
  map snd (rev (app_log h)) = [ROk; ROk; RErrCheck; RErrWrite; RErrWrite] /\
  terminated 2 ex_final = true.
Proof. vm_compute. repeat split; reflexivity. Qed.
Example C14_table_nonvacuous :
  List.length (filter (fun a => a_write a && negb (is_init a)) exporter_accesses) >= 4.
Proof. vm_compute. repeat constructor. Qed.
