(* C13 - the aggregation process is thread-safe: linearizable, no lost updates, race free.
   Theorems only (proofs in Proofs/Conc_lemmas.v and Proofs/ConcAgg_lemmas.v).

   Model: Model/Conc.v Section Mutex instantiated in Model/ConcAgg.v. Any number of threads
   (ingesting goroutines, the worker pool, scanners, queriers) run programs of operations; an
   operation is invoke ; a.mutex.Lock ; the micro-steps of its body one at a time ; Unlock =
   response; the schedule is an arbitrary list of thread ids. GRANULARITY: an operation is ONE
   critical section - AggregateMsgByFlowKey locks per record, so a message of n records is n
   operations of its thread. The sequential semantics `step` is universally quantified (the
   detailed sequential models are C05-C07's); `micro` is any cut of the bodies that composes
   to it.  What makes the model the code: C13_premises on the regenerated T5 table (every
   function that takes a.mutex has one critical section covering all its accesses and calls;
   only AggregateMsgByFlowKey calls lock-taking functions without the lock; every Run-phase
   access to a mutable field holds a.mutex in write mode; lockset_ok), and the race/linearizability
   harness on the real code. Partial: Go scheduler/memory model and sync.RWMutex are runtime residue. *)
From Coq Require Import List Bool Arith NArith String.
From Verif.Model Require Import LockTab Conc ConcAgg.
From Verif.Gen Require Import Locks.
From Verif.Proofs Require Import Conc_lemmas ConcAgg_lemmas.
Import ListNotations.

(* premises on the table regenerated from the repository's current tree *)
Theorem C13_premises :
  locks_whole_body agg_composite aggregation_methods = true /\
  lockset_ok agg_thr agg_multi aggregation_accesses = true /\
  guarded_by aggregation_f_mutex aggregation_accesses = true.
Proof. exact agg_premises_split. Qed.
Print Assumptions C13_premises.

(* for all threads, programs, schedules, cuts into micro-steps and sequential semantics: state and
   results equal the sequential execution in lock-acquisition order *)
Theorem C13_linearizable :
  forall (State Op Result : Type) (step : State -> Op -> State * Result)
         (micro : Op -> list (State -> State)),
    (forall o s, apply_all State (micro o) s = fst (step s o)) ->
    forall progs s0 sched,
      let g := agg_run State Op Result step micro progs s0 sched in
      finish State Op Result g = spec_state State Op Result step (lin Op Result (hist g)) s0 /\
      exists pending,
        spec_results State Op Result step (lin Op Result (hist g)) s0 = rels Op Result (hist g) ++ pending /\
        (holder g = None -> pending = []) /\ List.length pending <= 1.
Proof. exact agg_linearizable. Qed.
Print Assumptions C13_linearizable.

(* that order respects real time: responded before invoked => earlier in the linearization *)
Theorem C13_real_time :
  forall (State Op Result : Type) (step : State -> Op -> State * Result)
         (micro : Op -> list (State -> State)) progs s0 s1 s2 a r b,
    let g1 := agg_run State Op Result step micro progs s0 s1 in
    let g2 := agg_run State Op Result step micro progs s0 (s1 ++ s2) in
    In (ERel a r) (hist g1) -> ~ In (EInv b) (hist g1) -> In b (lin Op Result (hist g2)) ->
    exists l1 l2 l3, lin Op Result (hist g2) = l1 ++ a :: l2 ++ b :: l3.
Proof. exact agg_real_time. Qed.
Print Assumptions C13_real_time.

(* and every thread's program order *)
Theorem C13_program_order :
  forall (State Op Result : Type) (step : State -> Op -> State * Result)
         (micro : Op -> list (State -> State)) progs s0 sched t,
    exists rest, proj Op t (lin Op Result (hist (agg_run State Op Result step micro progs s0 sched))) ++ rest = progs t.
Proof. exact agg_program_order. Qed.
Print Assumptions C13_program_order.

(* no delta lost, none double-counted: for any commutative-sum projection of the sequential
   semantics, once all threads are done the state plus everything handed out holds the initial
   total plus the contribution of every operation of every thread, exactly once *)
Theorem C13_no_lost_no_double :
  forall (State Op Result : Type) (step : State -> Op -> State * Result)
         (micro : Op -> list (State -> State)),
    (forall o s, apply_all State (micro o) s = fst (step s o)) ->
    forall (total : State -> N) (out : Result -> N) (delta : Op -> N),
      (forall s o, (total (fst (step s o)) + out (snd (step s o)) = total s + delta o)%N) ->
      forall progs s0 sched threads,
        let g := agg_run State Op Result step micro progs s0 sched in
        NoDup threads -> (forall t, ~ In t threads -> progs t = []) ->
        quiescent State Op Result g threads ->
        (total (st g) + nsum (map (fun x => out (snd x)) (rels Op Result (hist g)))
         = total s0 + nsum (map (fun t => nsum (map delta (progs t))) threads))%N.
Proof. exact agg_no_lost_no_double. Qed.
Print Assumptions C13_no_lost_no_double.

(* no flow exported twice for one deadline: whatever the sequential semantics never exports
   twice is never exported twice under any schedule *)
Theorem C13_no_double_export :
  forall (State Op Result : Type) (step : State -> Op -> State * Result)
         (micro : Op -> list (State -> State)),
    (forall o s, apply_all State (micro o) s = fst (step s o)) ->
    forall (E : Type) (exports : Result -> list E) (s0 : State),
      (forall ops, NoDup (flat_map (fun x => exports (snd x)) (spec_results State Op Result step ops s0))) ->
      forall progs sched,
        NoDup (flat_map (fun x => exports (snd x))
                 (rels Op Result (hist (agg_run State Op Result step micro progs s0 sched)))).
Proof. exact agg_no_double_export. Qed.
Print Assumptions C13_no_double_export.

(* no data race on the fields of AggregationProcess in any execution described by the table *)
Theorem C13_race_free : forall tr,
  lock_wf tr -> consistent agg_thr agg_multi aggregation_accesses tr ->
  forall p3 t2 b r2 p2 t1 a r1 p1,
    tr = p3 ++ (t2, Acc b r2) :: p2 ++ (t1, Acc a r1) :: p1 ->
    t1 <> t2 -> racy a b = true -> ordered_between t1 t2 p2.
Proof. exact agg_race_free. Qed.
Print Assumptions C13_race_free.

(* ---- non-vacuity ---- *)
(* the hypothesis on micro is satisfiable with a genuinely non-atomic cut of the concrete reference *)
Example C13_micro_nonvacuous : forall o s, apply_all astate (ex_micro o) s = fst (agg_step s o).
Proof. exact ex_micro_ok. Qed.

(* a concrete interleaved run of three threads finishes, all seven operations are linearized,
   and the final state is the one of the sequential execution in that order *)
Example C13_run_nonvacuous :
  let g := agg_run astate aop ares agg_step ex_micro ex_progs [] ex_sched in
  holder g = None /\ List.length (lin aop ares (hist g)) = 7 /\ List.length (rels aop ares (hist g)) = 7 /\
  st g = spec_state astate aop ares agg_step (lin aop ares (hist g)) [].
Proof. vm_compute. repeat split; reflexivity. Qed.

(* the table really lists write accesses guarded by the mutex (the premises are not about an empty table) *)
Example C13_table_nonvacuous :
  List.length (filter (fun a => a_write a && negb (is_init a)) aggregation_accesses) >= 8 /\
  List.length (filter (fun m => match m_whole m with [] => false | _ => true end) aggregation_methods) >= 8.
Proof. vm_compute. split; repeat constructor. Qed.

(* the tie's checker accepts a linearizable history and rejects a lost update *)
Example C13_checker_accepts :
  lin_check ex_hist_ok [0; 1; 2] [(1, (12, 12, 12, 30))%N] = true.
Proof. vm_compute. reflexivity. Qed.
Example C13_checker_rejects_lost_update :
  forall w, In w [[0;1;2]; [1;0;2]; [0;2;1]; [1;2;0]; [2;0;1]; [2;1;0]] ->
            lin_check ex_hist_lost w [(1, (5, 5, 5, 20))%N] = false.
Proof. intros w H. repeat (destruct H as [<-|H]; [vm_compute; reflexivity|]). contradiction. Qed.
