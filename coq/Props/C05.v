(* C05: flow aggregation arithmetic - sums, latest values and throughput are conserved.
   Model: Model/Agg.v (addOrUpdateRecordInMap and everything below it); abstract specification:
   Proofs/Agg_spec.v (per-node accumulators + common part, spec_step). *)
From Coq Require Import List Bool NArith String.
From Verif.Gen Require Import Consts.
From Verif.Model Require Import Agg.
From Verif.Proofs Require Import Agg_spec Agg_lemmas C05_lemmas.
Import ListNotations.

(* Refinement: for every well-formed configuration and every history of records and resets in
   which each record has the template the code assumes and all records of a flow use the same
   template, the abstraction of flow k's aggregated record is the specification folded over the
   events of k (its own records, classified source / destination / single stream, and its resets). *)
Theorem C05_aggregation : forall c h k,
  wf_config c = true -> typed_history c h = true ->
  absf c (lookup (run c h) k) = spec_flow c (events_of c h k).
Proof. exact aggregation_refinement. Qed.
Print Assumptions C05_aggregation.

(* a record with another 5-tuple never changes flow k *)
Theorem C05_other_flows : forall c h r k,
  wf_config c = true -> typed_history c (h ++ [OpRec r]) = true -> typed_history c h = true ->
  rec_key r <> Some k ->
  absf c (lookup (run c (h ++ [OpRec r])) k) = absf c (lookup (run c h) k).
Proof. exact other_flows_unaffected. Qed.
Print Assumptions C05_other_flows.

(* the three building blocks, usable on any stored record (one lemma per Go function) *)
Theorem C05_aggregate_records : forall c inc ex fs fd,
  wf_config c = true -> typed_shape c (shape inc) = true -> stored_ok c (shape inc) ex ->
  exists ex', aggregate_records c inc ex fs fd = AOk ex' /\ shape ex' = shape ex /\
    abs c ex' = spec_agg c (abs c ex) fs fd (obs_of c inc) /\
    (forall n, ~ In n (all_names c) -> get ex' n = get ex n).
Proof. exact aggregate_refines. Qed.
Print Assumptions C05_aggregate_records.

(* a reset zeroes exactly the delta and throughput fields *)
Theorem C05_reset : forall c ex sh0,
  wf_config c = true -> typed_shape c sh0 = true -> stored_ok c sh0 ex ->
  exists ex', reset_stats c ex = AOk ex' /\ shape ex' = shape ex /\
    abs c ex' = spec_reset c (abs c ex) /\
    (forall n, ~ In n (all_names c) -> get ex' n = get ex n).
Proof. exact reset_refines. Qed.
Print Assumptions C05_reset.

(* the hypotheses are satisfiable: the configurations in use are well formed ... *)
Example C05_configs_wf :
  wf_config (std_config reg_antrea) = true /\ wf_config (ant_config reg_antrea) = true.
Proof. exact registry_configs_wf. Qed.
(* ... and the worked four-record inter-node history is well typed and yields the throughputs
   800, 1600, 600, 1169, the common delta switching from the source's 3000 to the destination's 2800 *)
Example C05_nonvacuous : wf_config ex_cfg = true /\ typed_history ex_cfg ex_history = true.
Proof. exact ex_history_typed. Qed.
Example C05_worked_history :
  ex_view 1 = Some ([800; 400], [800; 400], [0; 0], (1000, 1000, 0))%N /\
  ex_view 2 = Some ([1600; 800], [1600; 800], [0; 0], (3000, 3000, 0))%N /\
  ex_view 3 = Some ([1600; 800], [1600; 800], [600; 300], (3000, 3000, 900))%N /\
  ex_view 4 = Some ([1169; 584], [1600; 800], [1169; 584], (2800, 3000, 2800))%N.
Proof. exact ex_history_values. Qed.

(* the constants the model uses are the repository's *)
Example C05_consts_match_source :
  flow_type_inter_node = c_registry_FlowTypeInterNode /\
  rule_action_drop = c_registry_NetworkPolicyRuleActionDrop /\
  rule_action_reject = c_registry_NetworkPolicyRuleActionReject /\
  end_of_flow_reason = c_registry_EndOfFlowReason.
Proof. repeat split; reflexivity. Qed.
