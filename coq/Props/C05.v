(* C05: flow aggregation arithmetic - sums, latest values and throughput are conserved.
   Model: Model/Agg.v (addOrUpdateRecordInMap and everything below it); abstract specification:
   Proofs/Agg_spec.v (per-node accumulators + common part, spec_step). *)
From Coq Require Import List Bool NArith String.
From Verif.Gen Require Import Consts.
From Verif.Model Require Import Agg.
From Verif.Proofs Require Import Agg_spec Agg_lemmas Agg_closed C05_lemmas.
Import ListNotations.

(* Refinement: for every well-formed configuration and every history of records and resets in
   which each record has the template the code assumes and all records of a flow use equivalent
   templates - every field is found under its name with the same concrete kind in each of them; the
   ORDER of the fields is free (two nodes, or one exporter before and after a template change, may
   send the same fields in different orders; see C05_order_irrelevant below) -, the abstraction
   of flow k's aggregated record is the specification folded over the events of k (its own
   records, classified source / destination / single stream, and its resets). *)
Theorem C05_aggregation : forall c h k,
  wf_config c = true -> typed_history c h = true ->
  absf c (lookup (run c h) k) = spec_flow c (events_of c h k).
Proof. exact aggregation_refinement. Qed.
Print Assumptions C05_aggregation.

(* a record with another 5-tuple never changes flow k *)
Theorem C05_other_flows : forall c h r k,
  wf_config c = true -> typed_history c (h ++ [OpRec r]) = true -> typed_history c h = true ->
  rec_key r <> Some k ->
  absf c (lookup (run c (h ++ [OpRec r])) k) = absf c (lookup (run c h) k).
Proof. exact other_flows_unaffected. Qed.
Print Assumptions C05_other_flows.

(* the three building blocks, usable on any stored record (one lemma per Go function) *)
Theorem C05_aggregate_records : forall c inc ex fs fd,
  wf_config c = true -> typed_shape c (shape inc) = true -> stored_ok c (shape inc) ex ->
  exists ex', aggregate_records c inc ex fs fd = AOk ex' /\ shape ex' = shape ex /\
    abs c ex' = spec_agg c (abs c ex) fs fd (obs_of c inc) /\
    (forall n, ~ In n (all_names c) -> get ex' n = get ex n).
Proof. exact aggregate_refines. Qed.
Print Assumptions C05_aggregate_records.

(* a reset zeroes exactly the delta and throughput fields *)
Theorem C05_reset : forall c ex sh0,
  wf_config c = true -> typed_shape c sh0 = true -> stored_ok c sh0 ex ->
  exists ex', reset_stats c ex = AOk ex' /\ shape ex' = shape ex /\
    abs c ex' = spec_reset c (abs c ex) /\
    (forall n, ~ In n (all_names c) -> get ex' n = get ex n).
Proof. exact reset_refines. Qed.
Print Assumptions C05_reset.

(* ================================================================ the closed forms of the property statement
   Derived from C05_aggregation and spec_step alone (Proofs/Agg_closed.v).  Quantifier: every
   well-formed configuration c, every history h inside the exporter contract
     wf_history c h = typed_history c h  (the template the code assumes, equivalent templates per
                                          flow: the same fields by name and kind, in any order)
                   && for every flow: every record has end > start and uint64 counters, the flow's
                      correlation requirement is constant (a flow that needs no correlation is one
                      reporting stream feeding both nodes' fields), and per reporting node end
                      times strictly increase and totals do not decrease,
   every 5-tuple k with an aggregated record, f = the abstraction of that record (per-node
   accumulators nd SrcNode f / nd DstNode f and the common fields), evs = events_of c h k.
   Positions i index StatsElements; is_delta c i = the name contains "Delta". *)

(* (a) the record carries the latest end time: the maximum over all records of k, which is the end
   time of the latest reporter's record; each node's own end field is that of its latest record *)
Theorem C05_latest_end : forall c h k f,
  wf_config c = true -> wf_history c h = true -> absf c (lookup (run c h) k) = Some f ->
  f_end f = maxl (ends (events_of c h k)) /\
  (exists x, latest (events_of c h k) = Some x /\ f_end f = o_end (snd x)) /\
  (forall n, a_end (nd n f) = node_end n (events_of c h k)).
Proof. exact cor_latest_end. Qed.
Print Assumptions C05_latest_end.

(* (b) each total counter, per node: the value of the latest record that node sent (0: none yet) *)
Theorem C05_node_total_is_latest : forall c h k f,
  wf_config c = true -> wf_history c h = true -> absf c (lookup (run c h) k) = Some f ->
  forall n i, (i < nstats c)%nat -> is_delta c i = false ->
  nth i (a_stat (nd n f)) 0%N = node_total n i (events_of c h k).
Proof. exact cor_node_total. Qed.
Print Assumptions C05_node_total_is_latest.
(* (b) the common total, unconditionally: the code keeps max(common, incoming) whenever the incoming
   record carries the latest end time, so it is the maximum over the records that carried the
   latest end time on arrival (fronts) ... *)
Theorem C05_common_total_max : forall c h k f,
  wf_config c = true -> wf_history c h = true -> absf c (lookup (run c h) k) = Some f ->
  forall i, (i < nstats c)%nat -> is_delta c i = false ->
  nth i (f_stat f) 0%N = maxl (col i (fronts (events_of c h k))).
Proof. exact cor_common_total_max. Qed.
Print Assumptions C05_common_total_max.
(* ... and under the statement's flow-level "non-decreasing totals" (flow_mono: along the records
   that carry the latest end time on arrival, totals do not decrease) it is the value of the
   record with the latest end time *)
Theorem C05_common_total_is_latest : forall c h k f,
  wf_config c = true -> wf_history c h = true -> absf c (lookup (run c h) k) = Some f ->
  flow_mono c (events_of c h k) = true ->
  exists x, latest (events_of c h k) = Some x /\
  forall i, (i < nstats c)%nat -> is_delta c i = false -> nth i (f_stat f) 0%N = stat i (snd x).
Proof. exact cor_common_total_latest. Qed.
Print Assumptions C05_common_total_is_latest.

(* (c) each delta counter, per node: the sum (mod 2^64) over the records that node sent since the
   counters were last reset; the common delta is that sum for the latest reporter's node *)
Theorem C05_node_delta_is_sum : forall c h k f,
  wf_config c = true -> wf_history c h = true -> absf c (lookup (run c h) k) = Some f ->
  forall n i, (i < nstats c)%nat -> is_delta c i = true ->
  nth i (a_stat (nd n f)) 0%N = sum64 (col i (node_recs n (since_reset (events_of c h k)))).
Proof. exact cor_node_delta. Qed.
Print Assumptions C05_node_delta_is_sum.
Theorem C05_common_delta : forall c h k f,
  wf_config c = true -> wf_history c h = true -> absf c (lookup (run c h) k) = Some f ->
  forall i, (i < nstats c)%nat -> is_delta c i = true ->
  nth i (f_stat f) 0%N =
  sum64 (col i (node_recs (latest_node (events_of c h k)) (since_reset (events_of c h k)))).
Proof. exact cor_common_delta. Qed.
Print Assumptions C05_common_delta.

(* (d) throughput, per node (node_tp): [0; 0] when the node sent nothing since the last reset,
   otherwise (8 x growth of the octet total mod 2^64) / growth of the end time between the node's
   latest record and its previous one; the node's first record is measured from its flow start
   with growth = its total (see C05_throughput_reading).  The common pair follows the latest reporter *)
Theorem C05_node_throughput : forall c h k f,
  wf_config c = true -> wf_history c h = true -> absf c (lookup (run c h) k) = Some f ->
  forall n, a_tp (nd n f) = node_tp n (events_of c h k).
Proof. exact cor_node_tp. Qed.
Print Assumptions C05_node_throughput.
Theorem C05_common_throughput : forall c h k f,
  wf_config c = true -> wf_history c h = true -> absf c (lookup (run c h) k) = Some f ->
  f_tp f = node_tp (latest_node (events_of c h k)) (events_of c h k).
Proof. exact cor_common_tp. Qed.
Print Assumptions C05_common_throughput.
Theorem C05_throughput_reading : forall n evs,
  (forall o, node_recs n evs = [o] -> node_recs n (since_reset evs) <> [] ->
     node_tp n evs = [mul8 (o_oct o) / (o_end o - o_start o); mul8 (o_roct o) / (o_end o - o_start o)]%N) /\
  (forall l p o, node_recs n evs = l ++ [p; o] -> node_recs n (since_reset evs) <> [] ->
     node_tp n evs = [mul8 (o_oct o - o_oct p) / (o_end o - o_end p);
                      mul8 (o_roct o - o_roct p) / (o_end o - o_end p)]%N) /\
  (node_recs n (since_reset evs) = [] -> node_tp n evs = [0; 0]%N).
Proof. exact cor_throughput_reading. Qed.
Print Assumptions C05_throughput_reading.

(* the common fields follow the node that reported the latest end time *)
Theorem C05_common_follows_latest_reporter : forall c h k f,
  wf_config c = true -> wf_history c h = true -> absf c (lookup (run c h) k) = Some f ->
  f_end f = a_end (nd (latest_node (events_of c h k)) f) /\
  f_tp f = a_tp (nd (latest_node (events_of c h k)) f) /\
  forall i, (i < nstats c)%nat -> is_delta c i = true ->
    nth i (f_stat f) 0%N = nth i (a_stat (nd (latest_node (events_of c h k)) f)) 0%N.
Proof. exact cor_common_follows. Qed.
Print Assumptions C05_common_follows_latest_reporter.

(* (e) a reset clears the delta and throughput fields only ... *)
Theorem C05_reset_clears_only : forall c h k f,
  wf_config c = true -> wf_history c h = true -> absf c (lookup (run c h) k) = Some f ->
  exists f', absf c (lookup (run c (h ++ [OpReset k])) k) = Some f' /\
    (forall n, a_end (nd n f') = a_end (nd n f) /\ a_tp (nd n f') = [0; 0]%N /\
       forall i, (i < nstats c)%nat ->
         nth i (a_stat (nd n f')) 0%N = if is_delta c i then 0%N else nth i (a_stat (nd n f)) 0%N) /\
    f_end f' = f_end f /\ f_tp f' = [0; 0]%N /\ f_reason f' = f_reason f /\ f_tcp f' = f_tcp f /\
    (forall i, (i < nstats c)%nat -> nth i (f_stat f') 0%N = if is_delta c i then 0%N else nth i (f_stat f) 0%N).
Proof. exact cor_reset_clears. Qed.
Print Assumptions C05_reset_clears_only.
(* ... and after a reset of k the delta fields are the sums over the records since that reset *)
Theorem C05_delta_since_reset : forall c h1 h2 k f, wf_config c = true ->
  wf_history c (h1 ++ OpReset k :: h2) = true -> no_reset_of k h2 = true ->
  absf c (lookup (run c (h1 ++ OpReset k :: h2)) k) = Some f ->
  forall n i, (i < nstats c)%nat -> is_delta c i = true ->
    nth i (a_stat (nd n f)) 0%N = sum64 (col i (node_recs n (events_of c h2 k))).
Proof. exact cor_delta_since_reset. Qed.
Print Assumptions C05_delta_since_reset.

(* (f) exactly one flow record per distinct 5-tuple *)
Theorem C05_one_flow_per_key : forall c h, wf_config c = true -> typed_history c h = true ->
  List.length (run c h) = List.length (flow_keys h) /\
  forall k, lookup (run c h) k <> None <-> In k (flow_keys h).
Proof. exact cor_one_flow_per_key. Qed.
Print Assumptions C05_one_flow_per_key.

(* the hypotheses are satisfiable: the configurations in use are well formed ... *)
Example C05_configs_wf :
  wf_config (std_config reg_antrea) = true /\ wf_config (ant_config reg_antrea) = true.
Proof. exact registry_configs_wf. Qed.
(* ... and the worked four-record inter-node history is well typed and yields the throughputs
   800, 1600, 600, 1169, the common delta switching from the source's 3000 to the destination's 2800 *)
Example C05_nonvacuous : wf_config ex_cfg = true /\ typed_history ex_cfg ex_history = true.
Proof. exact ex_history_typed. Qed.
Example C05_worked_history :
  ex_view 1 = Some ([800; 400], [800; 400], [0; 0], (1000, 1000, 0))%N /\
  ex_view 2 = Some ([1600; 800], [1600; 800], [0; 0], (3000, 3000, 0))%N /\
  ex_view 3 = Some ([1600; 800], [1600; 800], [600; 300], (3000, 3000, 900))%N /\
  ex_view 4 = Some ([1169; 584], [1600; 800], [1169; 584], (2800, 3000, 2800))%N.
Proof. exact ex_history_values. Qed.

(* the constants the model uses are the repository's *)
Example C05_consts_match_source :
  flow_type_inter_node = c_registry_FlowTypeInterNode /\
  rule_action_drop = c_registry_NetworkPolicyRuleActionDrop /\
  rule_action_reject = c_registry_NetworkPolicyRuleActionReject /\
  end_of_flow_reason = c_registry_EndOfFlowReason.
Proof. repeat split; reflexivity. Qed.

(* the exporter contract is satisfiable: the worked history (and a variant with a reset) is inside
   it; a history whose source end time does not increase is outside *)
Example C05_contract_nonvacuous :
  wf_history ex_cfg ex_history = true /\ wf_history ex_cfg ex_history_reset = true /\
  wf_history ex_cfg [OpRec (ex_rec true 10 1000 1000); OpRec (ex_rec true 10 3000 2000)] = false.
Proof. exact ex_contract_examples. Qed.
(* the flow-level precondition of C05_common_total_is_latest is satisfiable, and it is needed: the
   worked history is inside the per-node contract, the destination reports the latest end time
   with octet total 2800 after the source's 3000, and the common octet total stays 3000 (= max) *)
Example C05_flow_mono_nonvacuous :
  wf_history ex_cfg (firstn 2 ex_history) = true /\
  flow_mono ex_cfg (events_of ex_cfg (firstn 2 ex_history) ex_key) = true.
Proof. exact ex_history_prefix_flow_mono. Qed.
Example C05_common_total_needs_flow_mono :
  flow_mono ex_cfg (events_of ex_cfg ex_history ex_key) = false /\
  option_map (fun fl => nth 2 (f_stat (abs ex_cfg (fl_rec fl))) 0%N) (lookup (run ex_cfg ex_history) ex_key) = Some 3000%N /\
  option_map (fun x : frec => stat 2 (snd x)) (latest (events_of ex_cfg ex_history ex_key)) = Some 2800%N.
Proof. exact ex_history_not_flow_mono. Qed.

(* ================================================================ the order of the fields is irrelevant
   typed_history (hence wf_history) compares the templates of the records of one flow by
   shape_equiv: every lookup by name gives the same kind in both.  For templates without duplicated
   names that is "the same set of (name, kind) fields", in particular every permutation ... *)
Theorem C05_equiv_is_same_field_set : forall a b : list (string * kind),
  NoDup (map fst a) -> NoDup (map fst b) ->
  (shape_equiv a b = true <-> forall f, In f a <-> In f b).
Proof. exact shape_equiv_nodup_iff. Qed.
Print Assumptions C05_equiv_is_same_field_set.
Theorem C05_order_irrelevant : forall r r' : record, NoDup (map fst r) -> Permutation.Permutation r r' ->
  shape_equiv (shape r) (shape r') = true /\ forall n, get r' n = get r n.
Proof. exact record_perm_equiv. Qed.
Print Assumptions C05_order_irrelevant.
(* ... and the hypothesis is weaker than the former "same template, field for field in the same order" *)
Theorem C05_hypothesis_weaker_than_same_order : forall c h,
  typed_history_ordered c h = true -> typed_history c h = true.
Proof. exact typed_history_ordered_incl. Qed.
Print Assumptions C05_hypothesis_weaker_than_same_order.

(* non-vacuity for mixed layouts: two records of one flow, the second with its fields in reverse
   order, are inside wf_history (and outside the former same-order hypothesis); the aggregated
   record is what the closed forms say - end 20, packet deltas 1000 + 2000 and 1 + 1, the totals of
   the latest record (reverse packet total 15, not the forward 30), throughput 8 x 2000 / 10 and
   8 x 1000 / 10 *)
Example C05_mixed_layout_nonvacuous :
  wf_history ex_cfg ex_mixed2 = true /\ typed_history_ordered ex_cfg ex_mixed2 = false /\
  ex_view_of ex_mixed2 =
    Some (20, [30; 3000; 3000; 15; 2; 1500], [1600; 800], [30; 3000; 3000; 15; 2; 1500], [0; 0; 0; 0; 0; 0])%N /\
  (let evs := events_of ex_cfg ex_mixed2 ex_key in
   maxl (ends evs) = 20%N /\ node_tp SrcNode evs = [1600; 800]%N /\
   node_delta SrcNode 1 evs = 3000%N /\ node_delta SrcNode 4 evs = 2%N /\
   map (fun i => node_total SrcNode i evs) [0; 2; 3; 5]%nat = [30; 3000; 15; 1500]%N).
Proof. exact ex_mixed2_ok. Qed.
(* the worked history sent in three layouts (as is, reversed, forward and reverse counters in each
   other's places) gives the same aggregated values as in one layout, and the stored record keeps
   the layout of the flow's first record *)
Example C05_mixed_layout_worked_history :
  wf_history ex_cfg ex_mixed4 = true /\ typed_history_ordered ex_cfg ex_mixed4 = false /\
  ex_view_of ex_mixed4 = ex_view_of ex_history /\
  option_map (fun fl => firstn 18 (map fst (fl_rec fl))) (lookup (run ex_cfg ex_mixed4) ex_key)
    = Some (map fst (ex_rec true 0 0 0)).
Proof. exact ex_mixed4_ok. Qed.
