(* C05: flow aggregation arithmetic (placeholder while the pipeline is brought up) *)
From Coq Require Import List Bool NArith String.
From Verif.Model Require Import Agg.
From Verif.Proofs Require Import Agg_spec.
Example C05_std_config_wf : forall reg, (forall n, reg n = true) -> wf_config (std_config reg) = true.
Proof. intros reg H. unfold wf_config. cbn. rewrite !H. reflexivity. Qed.
