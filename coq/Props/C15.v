(* C15 — Information-element value codec: exact round trip and length accounting.
   This file holds only the property theorems; the proofs are in Proofs/Codec_lemmas.v. *)
From Coq Require Import List Bool Arith NArith ZArith String.
From Coq.Strings Require Import Byte.
From Verif.Base Require Import Bytes Outcome Str.
From Verif.Model Require Import IE Codec.
From Verif.Proofs Require Import Bytes_lemmas Codec_lemmas C15_lemmas.
From Verif.Driver Require Import Show C15drv.
Import ListNotations.
Local Open Scope N_scope.

(* (1) every well-typed value has an encoding, of exactly the length the element reports *)
Theorem C15_length : forall e v, wf_value e v = true ->
  exists bs, enc e v = Some bs /\ N.of_nat (List.length bs) = elem_len e v.
Proof. exact C15_length_lemma. Qed.
Print Assumptions C15_length.

(* (2) the step-by-step model of dataRecord.GetBuffer writes exactly the concatenation of the
   field encodings, swallowing no error, for every well-typed record of any size *)
Theorem C15_record_buffer : forall els bs, wf_record els = true -> enc_all els = Some bs ->
  get_buffer els = Ok (bs, 0%nat) /\ N.of_nat (List.length bs) = record_len els.
Proof. exact C15_record_buffer_lemma. Qed.
Print Assumptions C15_record_buffer.

(* (3) decoding what was encoded returns the value and consumes exactly the encoding,
   whatever follows it *)
Theorem C15_roundtrip : forall e v bs rest, wf_value e v = true -> enc e v = Some bs ->
  decode_field e (bs ++ rest) = Ok (norm e v, rest).
Proof. exact decode_enc. Qed.
Print Assumptions C15_roundtrip.

(* (4) the 1-byte / 3-byte variable-length prefix rule, boundary at 255 and 65535 *)
Theorem C15_prefix : forall v,
  (List.length v < 255)%nat -> enc_var v = Some (n2b (N.of_nat (List.length v)) :: v).
Proof. exact C15_prefix_short_lemma. Qed.
Theorem C15_prefix_long : forall v,
  (255 <= List.length v)%nat -> N.of_nat (List.length v) <= 65535 ->
  enc_var v = Some (xff :: be 2 (N.of_nat (List.length v)) ++ v).
Proof. exact C15_prefix_long_lemma. Qed.
Theorem C15_prefix_toolong : forall v, 65535 < N.of_nat (List.length v) -> enc_var v = None.
Proof. exact C15_prefix_toolong_lemma. Qed.
Print Assumptions C15_prefix_long.

(* (5) the whole observation the harness compares: for every well-typed element/value the
   model of the Go code yields exactly what the specification demands *)
Theorem C15_codec : forall e v, wf_value e v = true ->
  C15_holds_on e v (c15_model e v) = true.
Proof. exact C15_codec_lemma. Qed.
Print Assumptions C15_codec.

(* wire forms per type are those of [enc] by definition; spot checks of the statement *)
Example C15_bool_wire e : ie_dt e = Boolean -> enc e (VBool true) = Some [x01] /\ enc e (VBool false) = Some [x02].
Proof. intros H. unfold enc. rewrite H. split; reflexivity. Qed.
Example C15_i16_wire e : ie_dt e = Signed16 -> enc e (VI16 (-2)) = Some [xff; xfe].
Proof. intros H. unfold enc. rewrite H. reflexivity. Qed.

(* non-vacuity: the hypotheses are satisfiable by non-trivial values *)
Example C15_nonvacuous :
  wf_value (mkIE "x" 1 Unsigned64 0 8) (VU64 18446744073709551615) = true /\
  wf_value (mkIE "s" 2 String_ 0 65535) (VStr (pat 300 7)) = true /\
  wf_value (mkIE "o" 3 OctetArray 0 5) (VOct (Some (pat 5 1))) = true /\
  wf_value (mkIE "i" 4 Signed32 0 4) (VI32 (-2147483648)) = true.
Proof. vm_compute. repeat split. Qed.
