From Verif.Driver Require Import C08drv.
