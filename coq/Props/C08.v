(* C08 — Exporter sequence numbers and header bookkeeping across a session.
   Only the property theorems; proofs in Proofs/Exporter_lemmas.v and Proofs/C08_lemmas.v. *)
From Coq Require Import List Bool Arith NArith ZArith String.
From Coq.Strings Require Import Byte.
From Verif.Base Require Import Bytes Outcome Str.
From Verif.Model Require Import IE Codec Record SetB Msg Exporter.
From Verif.Proofs Require Import SetB_lemmas Exporter_lemmas C08_lemmas C08_oracle.
From Verif.Driver Require Import Show SetShow HistShow C08drv.
Import ListNotations.
Local Open Scope N_scope.

(* For every history of SendSet calls (each building any set with any builder operations, at
   any time t) on a process whose counter is a uint32, if every call succeeds then the k-th
   call wrote exactly one message, whose first 16 bytes are version 10, its own total length,
   export time t (as uint32), the predicted sequence number and the configured observation
   domain; the call returned that message's size; and the size is 16 + the set length <= 65535.
   The predicted numbers are those of [expect]: the previous number plus the number of records
   when the set is a data set, modulo 2^32 — template sets add nothing. *)
Theorem C08_sequence : forall h st,
  st_wf st -> Forall sent_ok (run_hist cur st h) ->
  Forall2 (good_send (x_obs st)) (expect (x_seq st) h) (run_hist cur st h).
Proof. exact sequence_lemma. Qed.
Print Assumptions C08_sequence.

(* closed form: the k-th predicted number is (start + data records of calls 0..k) mod 2^32 *)
Theorem C08_closed_form : forall h q0,
  map fst (expect (u32 q0) h) =
  map (fun k => u32 (q0 + total (firstn (S k) h))) (seq 0 (List.length h)).
Proof. exact expect_sum. Qed.
Print Assumptions C08_closed_form.

Theorem C08_templates_do_not_count : forall s, s_type s = STemplate -> data_count s = 0.
Proof. exact data_count_template. Qed.
Print Assumptions C08_templates_do_not_count.

(* The per-case oracle of the check (C08_holds_on, Driver/C08drv.v: for every call up to the
   first failed one - reported count = bytes on the wire, version 10, length field = all bytes
   of the call, sequence number = previous + data records mod 2^32, observation domain; final
   counter = the predicted one) holds on the model's own observation of EVERY case: any
   transport, start counter, sets built by any operations. No hypothesis is needed: the oracle
   itself stops at the first failed attempt, as the statement does. The oracle is a function of
   the structured observation (list sobs * fobs); show_hist / parse_hobs only print / read it. *)
Theorem C08_oracle_on_model_h : forall c, C08_holds_on_h c (hist_model cur c) = true.
Proof. exact c08_oracle_on_model. Qed.
Print Assumptions C08_oracle_on_model_h.

(* non-vacuity: a session that crosses the 2^32 wrap, all calls succeed, numbers as predicted *)
Definition ex_u8 : ie := mkIE "x" 4 Unsigned8 0 1.
Definition ex_tpl : list op := [OPrepare STemplate 256; OAdd FV1 [(ex_u8, VU8 0)] 256].
Definition ex_data (n : nat) : list op := OPrepare SData 256 :: repeat (OAdd FV2 [(ex_u8, VU8 7)] 256) n.
Definition ex_hist : list event := [(ex_tpl, 1000); (ex_data 1, 1001); (ex_data 2, 1002); (ex_tpl, 1003); (ex_data 5, 1004)].
Definition ex_st : exp := mkExp 7 4294967293 [] false.
Example C08_nonvacuous :
  st_wf ex_st /\
  forallb (fun x => match r_res x with Ok _ => true | _ => false end) (run_hist cur ex_st ex_hist) = true /\
  map fst (expect (x_seq ex_st) ex_hist) = [4294967293; 4294967294; 0; 0; 5] /\
  map (fun x => match r_wire x with Some b => bed (firstn 4 (skipn 8 b)) | None => 99 end) (run_hist cur ex_st ex_hist)
    = [4294967293; 4294967294; 0; 0; 5].
Proof. vm_compute. repeat split. Qed.
