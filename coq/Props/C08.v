(* C08 — Exporter sequence numbers and header bookkeeping across a session.
   Only the property theorems; proofs in Proofs/Exporter_lemmas.v and Proofs/C08_lemmas.v. *)
From Coq Require Import List Bool Arith NArith ZArith String.
From Coq.Strings Require Import Byte.
From Verif.Base Require Import Bytes Outcome Str.
From Verif.Model Require Import IE Codec Record SetB Msg Exporter ExpObj.
From Verif.Proofs Require Import SetB_lemmas Exporter_lemmas C08_lemmas C08_oracle ExpObj_lemmas C08gen_lemmas.
From Verif.Driver Require Import Show SetShow HistShow HistObj C08drv.
Import ListNotations.
Local Open Scope N_scope.

Fixpoint list_eqb_s (a b : list string) : bool :=
  match a, b with
  | [], [] => true
  | x :: a', y :: b' => String.eqb x y && list_eqb_s a' b'
  | _, _ => false
  end.

(* For every history of SendSet calls (each building any set with any builder operations, at
   any time t) on a process whose counter is a uint32, if every call succeeds then the k-th
   call wrote exactly one message, whose first 16 bytes are version 10, its own total length,
   export time t (as uint32), the predicted sequence number and the configured observation
   domain; the call returned that message's size; and the size is 16 + the set length <= 65535.
   The predicted numbers are those of [expect]: the previous number plus the number of records
   when the set is a data set, modulo 2^32 — template sets add nothing. *)
Theorem C08_sequence : forall h st,
  st_wf st -> Forall sent_ok (run_hist cur st h) ->
  Forall2 (good_send (x_obs st)) (expect (x_seq st) h) (run_hist cur st h).
Proof. exact sequence_lemma. Qed.
Print Assumptions C08_sequence.

(* closed form: the k-th predicted number is (start + data records of calls 0..k) mod 2^32 *)
Theorem C08_closed_form : forall h q0,
  map fst (expect (u32 q0) h) =
  map (fun k => u32 (q0 + total (firstn (S k) h))) (seq 0 (List.length h)).
Proof. exact expect_sum. Qed.
Print Assumptions C08_closed_form.

Theorem C08_templates_do_not_count : forall s, s_type s = STemplate -> data_count s = 0.
Proof. exact data_count_template. Qed.
Print Assumptions C08_templates_do_not_count.

(* The per-case oracle of the check (C08_holds_on, Driver/C08drv.v: for every call up to the
   first failed one - reported count = bytes on the wire, version 10, length field = all bytes
   of the call, sequence number = previous + data records mod 2^32, observation domain; final
   counter = the predicted one) holds on the model's own observation of EVERY case: any
   transport, start counter, sets built by any operations. No hypothesis is needed: the oracle
   itself stops at the first failed attempt, as the statement does. The oracle is a function of
   the structured observation (list sobs * fobs); show_hist / parse_hobs only print / read it. *)
Theorem C08_oracle_on_model_h : forall c, C08_holds_on_h c (hist_model cur c) = true.
Proof. exact c08_oracle_on_model. Qed.
Print Assumptions C08_oracle_on_model_h.

(* ---- histories with reconnects (and everything else an application does with its objects) ----
   Object-level histories (Model/ExpObj.v): SendSet calls on new or reused set objects, shared
   and changed element objects, refreshes, and RECONNECTS: the exporting process is closed and
   a new one is created for the same collector address and observation domain; the new
   process starts with an empty template map and its own counter (0, or the value the verif
   hook sets). The statement is per exporting process: [seq_track acc outs] says that at every
   call, refresh and reconnect the counter of the CURRENT process is the predicted number
   [acc] = its start value + the data records of the data messages it has transmitted so far
   (mod 2^32), and that every successful call wrote exactly one message whose header carries
   version 10, its own length, the export time, the predicted number after it and the
   configured domain, and returned its size (good_send_g). Refreshed templates and calls refused
   by the checks that precede the counter update leave the number alone; a reconnect restarts
   the prediction at the new process's start value; after a failure that follows the counter
   update (size limit, write error) or a panic the process is outside the statement, as failed
   attempts are, until the next reconnect. *)
Theorem C08_sequence_per_process : forall h w acc,
  WInv w -> acc_inv acc (w_exp w) -> seq_track acc (grun cur w h).
Proof. exact seq_track_lemma. Qed.
Print Assumptions C08_sequence_per_process.

(* The oracle of the check on these histories (C08_holds_on, Driver/C08drv.v: the same
   accounting on the observation - per process, restarted at every reconnect, continued after
   refused calls, refresh messages carrying the current number) holds on the model's own
   observation of EVERY case; no hypothesis. *)
Theorem C08_oracle_on_model : forall c, C08_holds_on c (gmodel cur c) = true.
Proof. exact c08_oracle_on_model_g. Qed.
Print Assumptions C08_oracle_on_model.

(* non-vacuity: a session that crosses the 2^32 wrap, all calls succeed, numbers as predicted *)
Definition ex_u8 : ie := mkIE "x" 4 Unsigned8 0 1.
Definition ex_tpl : list op := [OPrepare STemplate 256; OAdd FV1 [(ex_u8, VU8 0)] 256].
Definition ex_data (n : nat) : list op := OPrepare SData 256 :: repeat (OAdd FV2 [(ex_u8, VU8 7)] 256) n.
Definition ex_hist : list event := [(ex_tpl, 1000); (ex_data 1, 1001); (ex_data 2, 1002); (ex_tpl, 1003); (ex_data 5, 1004)].
Definition ex_st : exp := mkExp 7 4294967293 [] false.
Example C08_nonvacuous :
  st_wf ex_st /\
  forallb (fun x => match r_res x with Ok _ => true | _ => false end) (run_hist cur ex_st ex_hist) = true /\
  map fst (expect (x_seq ex_st) ex_hist) = [4294967293; 4294967294; 0; 0; 5] /\
  map (fun x => match r_wire x with Some b => bed (firstn 4 (skipn 8 b)) | None => 99 end) (run_hist cur ex_st ex_hist)
    = [4294967293; 4294967294; 0; 0; 5].
Proof. vm_compute. repeat split. Qed.

(* non-vacuity with a reconnect: the second process counts from 0 although the first one stopped
   at 5 (+ 2^32 - 3); data for the first process's template is refused until it is sent again *)
Definition c08_gcase : string :=
  "tcp 7 4294967293 dig S P T 256 A 1 256 1 4 1 0 1 u8 0 ; S P D 256 N 5 A 2 256 1 4 1 0 1 u8 1 ; X - C 1 ; C 0 ; C 1 ; X 100 C 0 ; C 1 ;".
Example C08_reconnect_nonvacuous :
  match parse_gcase (tokens c08_gcase) with
  | Some c => let m := gmodel cur c in
              C08_holds_on c m &&
              list_eqb_s (map (fun o => match o with GOSend s => show_sres (so_res s) | GORefresh _ _ => "f"%string | GOReconn _ => "x"%string end) (fst m))
                ["r=ok:28"; "r=ok:25"; "x"; "r=err:notemplate"; "r=ok:28"; "r=ok:25"; "x"; "r=ok:28"; "r=ok:25"]%string &&
              N.eqb (fo_seq (snd m)) 105
  | None => false
  end = true.
Proof. vm_compute. reflexivity. Qed.
