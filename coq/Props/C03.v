(* C03 — Collector decoding is total and exact on arbitrary bytes.
   Only the property theorems; proofs in Proofs/Decode_lemmas.v and Proofs/C03_lemmas.v.
   Model: Model/Decode.v (decode_packet) over Model/Codec.v (the repaired record loop). *)
From Coq Require Import List Bool Arith NArith ZArith String.
From Coq.Strings Require Import Byte.
From Verif.Base Require Import Bytes Outcome Str.
From Verif.Gen Require Import Consts.
From Verif.Model Require Import IE Codec Decode.
From Verif.Proofs Require Import Decode_lemmas C03_lemmas.
From Verif.Driver Require Import Show DecShow C03drv.
Import ListNotations.
Local Open Scope N_scope.

(* The main statement. For EVERY history of byte strings [hist] a collector of any mode has
   processed (so: every template state reachable from accepted - or rejected - template sets,
   with the shipped registry, regenerated from the source), and EVERY byte string [bytes]:
   (1) decoding neither panics nor runs out of the fuel [length body + 1] of the record loop
       (decode_data_body in Model/Codec.v), and delivers at most [length body] records;
   (2) a data message's records are exactly the values of field extents [xss] that tile the
       set body: body = concat (raw extents) ++ pad, every record has the template's elements
       in order, every extent has its full declared width or the width its 1/3-byte prefix
       announces (record_ok / width_ok), the padding is shorter than the shortest record
       (or the body is empty), and every delivered value is decoded from exactly its extent
       (values_all; LenientDropUnknown omits the nameless elements after consuming them);
   (3) a template message's fields carry the element ids and enterprise numbers of the
       field specifiers on the wire, in order, [count] of them. *)
Theorem C03_total_exact : forall (m : mode) (hist : list (list byte)) (bytes : list byte),
  let tm := run m registry hist in
  let r := decode_packet m registry tm bytes in
  (fst r <> Panic /\ fst r <> OutOfFuel) /\
  (forall h tid rs, fst r = Ok (DataMsg h tid rs) ->
     exists tpl xss pad,
       tm_lookup tm (wire_obs bytes) (wire_setid bytes) = Some tpl /\
       wire_body bytes = List.concat (map raw_of_record xss) ++ pad /\
       (pad = [] \/ (List.length pad < min_record_len tpl)%nat) /\
       Forall (record_ok tpl) xss /\
       values_all (keep_of m) xss = Some rs /\
       (List.length rs <= List.length (wire_body bytes))%nat) /\
  (forall h tid es, fst r = Ok (TemplateMsg h tid es) ->
     exists wf,
       wire_fields (N.to_nat (wire_count bytes)) (skipn 24 bytes) = Some wf /\
       map (fun e => (ie_id e, ie_ent e)) es = map fst wf /\
       es = map (spec_elem registry) wf /\
       tid = wire_tid bytes /\ h = wire_hdr bytes /\ List.length es = N.to_nat (wire_count bytes)).
Proof. exact C03_total_exact_lemma. Qed.
Print Assumptions C03_total_exact.

(* The same three clauses for ANY registry and ANY template state that is safe (every
   fixed-width numeric element at least as long as its type: tm_safe), not only reachable ones. *)
Theorem C03_total : forall m reg tm bytes, tm_safe tm ->
  fst (decode_packet m reg tm bytes) <> Panic /\ fst (decode_packet m reg tm bytes) <> OutOfFuel.
Proof. exact decode_packet_total. Qed.
Print Assumptions C03_total.

Theorem C03_data_exact : forall m reg tm bytes h tid rs tm',
  decode_packet m reg tm bytes = (Ok (DataMsg h tid rs), tm') ->
  exists tpl xss pad,
    tm_lookup tm (wire_obs bytes) (wire_setid bytes) = Some tpl /\
    wire_body bytes = List.concat (map raw_of_record xss) ++ pad /\
    (pad = [] \/ (List.length pad < min_record_len tpl)%nat) /\
    Forall (record_ok tpl) xss /\
    values_all (keep_of m) xss = Some rs /\
    (List.length rs <= List.length (wire_body bytes))%nat.
Proof. exact C03_data_exact_lemma. Qed.
Print Assumptions C03_data_exact.

Theorem C03_template_exact : forall m reg tm bytes h tid es tm',
  decode_packet m reg tm bytes = (Ok (TemplateMsg h tid es), tm') ->
  exists wf,
    wire_fields (N.to_nat (wire_count bytes)) (skipn 24 bytes) = Some wf /\
    map (fun e => (ie_id e, ie_ent e)) es = map fst wf /\
    es = map (spec_elem reg) wf /\
    tid = wire_tid bytes /\ h = wire_hdr bytes /\ List.length es = N.to_nat (wire_count bytes).
Proof. exact C03_template_exact_lemma. Qed.
Print Assumptions C03_template_exact.

(* safety is an invariant of processing packets; the regenerated registry satisfies it *)
Theorem C03_safe_invariant : forall m reg tm bytes,
  reg_safe reg = true -> tm_safe tm -> tm_safe (step m reg tm bytes).
Proof. exact step_safe. Qed.
Theorem C03_registry_safe : reg_safe registry = true.
Proof. exact registry_safe. Qed.
Print Assumptions C03_safe_invariant.

(* the specification splitter and the step-by-step record loop define the same records *)
Theorem C03_spec_equiv : forall keep tpl body rs,
  decode_data_body keep tpl body = Ok rs <-> spec_data keep tpl body = Some rs.
Proof. exact C03_spec_equiv_lemma. Qed.
Print Assumptions C03_spec_equiv.

(* decode_packet refines the specification-level reading of the byte string (spec_packet:
   header fields by offset, field specifiers per RFC 7011 3.2, split_body): the same message,
   and an error exactly when the byte string denotes no message under the template state *)
Theorem C03_refines : forall m reg tm bytes, tm_safe tm ->
  match fst (decode_packet m reg tm bytes) with
  | Ok msg => spec_packet m reg tm bytes = Some msg
  | Err _ => spec_packet m reg tm bytes = None
  | Panic | OutOfFuel => False
  end.
Proof. exact decode_packet_refines. Qed.
Print Assumptions C03_refines.

(* the executable oracle (applied by the check to the implementation's observations) holds of
   the model on every history *)
Theorem C03_oracle : forall m pkts,
  C03_holds_hist m registry [] pkts (model_hist m registry [] pkts) = true.
Proof. exact C03_oracle_lemma. Qed.
Print Assumptions C03_oracle.

(* non-vacuity: a template set, then a data set with two records and one byte of padding;
   a zero-length-record template is reachable and makes a non-empty data set an error (F2);
   a short trailing fragment is padding, not a record (F1); an over-long prefix is an error (F3) *)
Definition ex_tpl : list byte :=   (* obs 1, template 256: sourceTransportPort(7,u16), octetDeltaCount(1,u64) *)
  [x00;x0a;x00;x20; x00;x00;x00;x01; x00;x00;x00;x00; x00;x00;x00;x01; x00;x02;x00;x10;
   x01;x00;x00;x02; x00;x07;x00;x02; x00;x01;x00;x08].
Definition ex_hdr (sid : byte) : list byte :=
  [x00;x0a;x00;x00; x00;x00;x00;x01; x00;x00;x00;x00; x00;x00;x00;x01; x01;sid;x00;x00].
Example C03_nonvacuous_data :
  match fst (decode_packet Keep registry (run Keep registry [ex_tpl])
                           (ex_hdr x00 ++ pat 20 3 ++ [x00])) with
  | Ok (DataMsg _ _ rs) => List.length rs = 2%nat
  | _ => False
  end.
Proof. vm_compute. reflexivity. Qed.
Example C03_nonvacuous_F1 :   (* 11-byte body: one record and a 1-byte fragment *)
  match fst (decode_packet Keep registry (run Keep registry [ex_tpl]) (ex_hdr x00 ++ pat 11 3)) with
  | Ok (DataMsg _ _ rs) => List.length rs = 1%nat
  | _ => False
  end.
Proof. vm_compute. reflexivity. Qed.
Definition ex_tpl0 : list byte :=   (* template 257 with zero fields *)
  [x00;x0a;x00;x18; x00;x00;x00;x01; x00;x00;x00;x00; x00;x00;x00;x01; x00;x02;x00;x08;
   x01;x01;x00;x00].
Example C03_nonvacuous_F2 :
  fst (decode_packet Keep registry (run Keep registry [ex_tpl0]) (ex_hdr x01 ++ [x05])) = Err ErrZeroLen.
Proof. vm_compute. reflexivity. Qed.
Definition ex_tpls : list byte :=   (* template 258: interfaceName(82, string) *)
  [x00;x0a;x00;x1c; x00;x00;x00;x01; x00;x00;x00;x00; x00;x00;x00;x01; x00;x02;x00;x0c;
   x01;x02;x00;x01; x00;x52;xff;xff].
Example C03_nonvacuous_F3 :
  fst (decode_packet Keep registry (run Keep registry [ex_tpls]) (ex_hdr x02 ++ [x05; x61; x62])) = Err ErrShort.
Proof. vm_compute. reflexivity. Qed.
