From Coq Require Import List Bool Arith NArith ZArith String.
From Verif.Model Require Import IE Codec Decode.
Theorem C03_placeholder : True. Proof. exact I. Qed.
