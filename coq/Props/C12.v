(* C12 — Collector under many clients: exactly-once, in order, clean shutdown.
   Theorems only; proofs in Proofs/ConcCollector_lemmas.v, Proofs/ConcTcp_lemmas.v,
   Proofs/ConcTcp2_lemmas.v, Model/LocksetI.v.  Model: Model/ConcCollector.v (interleaving
   semantics: a schedule is a list of thread ids, every theorem quantifies over ALL schedules,
   all numbers of clients and all per-client message lists).

   PARTIAL (see notes/C12.md): proved are the TCP/TLS delivery clauses (prefix at every moment,
   exactness when the reader ends on EOF / decode error or idles with nothing outstanding), the
   clients-map clause, the termination measure for both servers (every executed step of every
   thread decreases it, so no schedule runs for ever and Stop cannot be starved by a loop) and
   the lockset race-freedom criterion instantiated on the regenerated access table.
   NOT proved (kept as statements below, in comments): the wait-group equation and "some thread
   is enabled until all have terminated" (deadlock freedom after Stop), and the UDP
   order-preserving-subsequence invariant.  They are validated on every run by the guided model
   run (the model replays each observed trace and must terminate with wg = 0, no thread left,
   listener closed) and by the -race soak. *)
From Coq Require Import List Bool Arith String.
From Verif.Model Require Import ConcCollector LocksetI.
From Verif.Gen Require Import LocksCollector.
From Verif.Proofs Require Import ConcCollector_lemmas ConcTcp_lemmas ConcTcp2_lemmas.
From Verif.Driver Require Import C12drv.
Import ListNotations.

(* (1) TCP/TLS, every schedule, every moment: what the consumer has received from connection i
   is a prefix of what that connection's stream must deliver: in the order sent, each message
   at most once, nothing that was not sent, nothing after an undecodable message *)
Theorem C12_tcp_delivery_prefix : forall cfg dr sched i c cc,
  let s := t_run dr sched (t_init cfg) in
  nth_error (t_conns s) i = Some c -> nth_error cfg i = Some cc ->
  exists tail, spec false (number 0 (c_msgs cc)) = proj i (t_log s) ++ tail.
Proof. exact tcp_delivery_prefix_lemma. Qed.
Print Assumptions C12_tcp_delivery_prefix.

(* (2) exactly once: a reader that ended because the exporter closed (cleanly or in the middle
   of a frame) or sent something undecodable has delivered everything its stream owed *)
Theorem C12_tcp_exactly_once : forall cfg dr sched i c cc,
  let s := t_run dr sched (t_init cfg) in
  nth_error (t_conns s) i = Some c -> nth_error cfg i = Some cc ->
  (k_exit c = XEof \/ k_exit c = XFail) ->
  proj i (t_log s) = spec false (number 0 (c_msgs cc)).
Proof. exact tcp_delivery_exact_lemma. Qed.
Print Assumptions C12_tcp_exactly_once.

(* (3) before Stop these are the only two ways a reader ends (conn.Close by handleTCPClient only
   follows stopChan or doneCh) ... *)
Theorem C12_tcp_exit_natural : forall cfg dr sched i c,
  let s := t_run dr sched (t_init cfg) in
  nth_error (t_conns s) i = Some c -> t_stopped s = false -> r_exited (k_r c) = true ->
  k_exit c = XEof \/ k_exit c = XFail.
Proof. exact tcp_exit_natural_lemma. Qed.
Print Assumptions C12_tcp_exit_natural.

(* ... and a reader blocked in Read with nothing in flight has delivered everything *)
Theorem C12_tcp_idle_complete : forall cfg dr sched i c cc,
  let s := t_run dr sched (t_init cfg) in
  nth_error (t_conns s) i = Some c -> nth_error cfg i = Some cc ->
  k_r c = R0 -> k_queue c = [] -> k_unsent c = [] ->
  proj i (t_log s) = spec false (number 0 (c_msgs cc)).
Proof. exact tcp_idle_complete_lemma. Qed.
Print Assumptions C12_tcp_idle_complete.

(* (4) the connection count returns to zero once every handler has returned *)
Theorem C12_tcp_clients_zero : forall cfg dr sched,
  let s := t_run dr sched (t_init cfg) in
  (forall c, In c (t_conns s) -> h_reg (k_h c) = false) -> t_clients s = [].
Proof. exact tcp_clients_zero_lemma. Qed.
Print Assumptions C12_tcp_clients_zero.

(* (5) termination measure: every executed micro-step of every thread strictly decreases it -
   with or without a draining consumer, before or after Stop *)
Theorem C12_tcp_measure : forall dr s t s', t_step dr s t = Some s' -> t_mu s' < t_mu s.
Proof. exact t_mu_decreases. Qed.
Print Assumptions C12_tcp_measure.
Theorem C12_udp_measure : forall dr s t s', u_step dr s t = Some s' -> u_mu s' < u_mu s.
Proof. exact u_mu_decreases. Qed.
Print Assumptions C12_udp_measure.

(* (6) race freedom: the generic lockset theorem, and its premise on the table regenerated from
   pkg/collector on this run *)
Theorem C12_lockset_sound : forall tbl, lockset_ok tbl = true ->
  forall a b, In a tbl -> In b tbl -> conflict a b = true ->
    a_unknown a = false /\ a_unknown b = false /\
    ((a_init a = true \/ a_init b = true) \/
     exists m ea eb, In (m, ea) (a_locks a) /\ In (m, eb) (a_locks b) /\ (ea = true \/ eb = true)).
Proof. exact lockset_race_free. Qed.
Print Assumptions C12_lockset_sound.
Theorem C12_lockset_collector : lockset_ok collector_accesses = true.
Proof. vm_compute. reflexivity. Qed.
Print Assumptions C12_lockset_collector.

(* (7) every goroutine started below Start is counted by the wait group: a wg.Add precedes the go
   statement in the same function and the literal defers wg.Done (regenerated from the source;
   this is the model's assumption that wg counts exactly the live goroutines) *)
Theorem C12_goroutines_counted :
  forallb (fun g => snd (fst g) && snd g) collector_goroutines = true /\ 3 <= List.length collector_goroutines.
Proof. vm_compute. split; [reflexivity | repeat constructor]. Qed.
Print Assumptions C12_goroutines_counted.

(* NOT PROVED - full statements kept visible:
   C12_progress : forall cfg sched, let s := t_run true sched (t_init cfg) in
       t_all_done s = false -> exists t, t_step true s t <> None          (no thread left blocked)
   C12_all_done : ... t_all_done s = true -> t_wg s = 0 /\ t_clients s = [] /\ t_lis s = false
   C12_udp_order : forall cfg sched i, Sublist (proj i (u_log s)) (seqs read by the socket loop from i)
   and the same two for the UDP server. *)

(* the proviso "provided the consumer keeps draining" is needed: without it a reader stays blocked
   on messageChan, Stop never returns (wg > 0) and nothing is enabled *)
Example C12_stuck_without_consumer :
  let s := t_run false ([TStart; TStart; TStart; TStart; TClient 0; TAccept; TAccept; TAccept;
                         THandler 0; THandler 0; THandler 0; TClient 0; TReader 0; TStop; TStart; TStart;
                         TAccept; TAccept; THandler 0; THandler 0; THandler 0; THandler 0; TClient 0])
                 (t_init [mkCcfg [KT] EClose]) in
  t_all_done s = false /\
  forallb (fun t => match t_step false s t with None => true | Some _ => false end)
          [TStart; TAccept; TStop; THandler 0; TReader 0; TReaderErr 0; TClient 0] = true.
Proof. vm_compute. split; reflexivity. Qed.

(* non-vacuity: a run with two connections that ends with everything delivered, everything
   terminated, wg = 0 *)
Example C12_nonvacuous :
  c12_run (Verif.Base.Str.tokens "tcp quiet 2 close:tddxd hold:td"%string)
          (Verif.Base.Str.tokens "deliv 0 0 1 0 0 1 1 1 0 2 ; conns 1 ; stop ok ; left 0 ; port closed ; conns2 0 ; numrec 5"%string)
  = "deliv 0 0 1 0 0 1 1 1 0 2 ; conns 1 ; stop ok ; left 0 ; port closed ; conns2 0 ; numrec 5 | T T"%string.
Proof. vm_compute. reflexivity. Qed.
