(* C12 — Collector under many clients: exactly-once, in order, clean shutdown.
   Theorems only; proofs in Proofs/ConcCollector_lemmas.v, Proofs/ConcTcp_lemmas.v,
   Proofs/ConcTcp2_lemmas.v, Model/LocksetI.v.  Model: Model/ConcCollector.v (interleaving
   semantics: a schedule is a list of thread ids, every theorem quantifies over ALL schedules,
   all numbers of clients and all per-client message lists).

   Proved (see notes/C12.md): the TCP/TLS delivery clauses (prefix at every moment, exactness
   when the reader ends on EOF / decode error or idles with nothing outstanding), the clients-map
   clause, the UDP order-preserving at-most-once clause, the wait-group equation for both servers
   (wg = live registered goroutines + registrations whose `go` is still to come; wg = 0 iff all
   have returned), progress after Stop for both servers (with a draining consumer some thread is
   enabled until everything has terminated; every fair schedule terminates within t_mu / u_mu
   rounds with wg = 0, Stop returned, listener / socket closed, clients map empty - for UDP
   without the ticker), the termination measure, and the lockset race-freedom criterion on both
   regenerated access tables (collector-only translator and the common translator T5).
   Residue (tested, not proved): Go scheduler / memory model, channel / WaitGroup / RWMutex
   semantics as modelled, kernel sockets, promptness in wall-clock terms. *)
From Coq Require Import List Bool Arith String.
From Verif.Model Require Import ConcCollector LocksetI.
From Verif.Gen Require Import LocksCollector.
From Verif.Gen Require Locks.
From Verif.Model Require LockTab Conc.
From Verif.Proofs Require Import ConcCollector_lemmas ConcTcp_lemmas ConcTcp2_lemmas ConcCollFair_lemmas
  ConcTcp3_lemmas ConcUdp_lemmas ConcCollLocks_lemmas.
From Verif.Driver Require Import C12drv.
Import ListNotations.

(* (1) TCP/TLS, every schedule, every moment: what the consumer has received from connection i
   is a prefix of what that connection's stream must deliver: in the order sent, each message
   at most once, nothing that was not sent, nothing after an undecodable message *)
Theorem C12_tcp_delivery_prefix : forall cfg dr sched i c cc,
  let s := t_run dr sched (t_init cfg) in
  nth_error (t_conns s) i = Some c -> nth_error cfg i = Some cc ->
  exists tail, spec false (number 0 (c_msgs cc)) = proj i (t_log s) ++ tail.
Proof. exact tcp_delivery_prefix_lemma. Qed.
Print Assumptions C12_tcp_delivery_prefix.

(* (2) exactly once: a reader that ended because the exporter closed (cleanly or in the middle
   of a frame) or sent something undecodable has delivered everything its stream owed *)
Theorem C12_tcp_exactly_once : forall cfg dr sched i c cc,
  let s := t_run dr sched (t_init cfg) in
  nth_error (t_conns s) i = Some c -> nth_error cfg i = Some cc ->
  (k_exit c = XEof \/ k_exit c = XFail) ->
  proj i (t_log s) = spec false (number 0 (c_msgs cc)).
Proof. exact tcp_delivery_exact_lemma. Qed.
Print Assumptions C12_tcp_exactly_once.

(* (3) before Stop these are the only two ways a reader ends (conn.Close by handleTCPClient only
   follows stopChan or doneCh) ... *)
Theorem C12_tcp_exit_natural : forall cfg dr sched i c,
  let s := t_run dr sched (t_init cfg) in
  nth_error (t_conns s) i = Some c -> t_stopped s = false -> r_exited (k_r c) = true ->
  k_exit c = XEof \/ k_exit c = XFail.
Proof. exact tcp_exit_natural_lemma. Qed.
Print Assumptions C12_tcp_exit_natural.

(* ... and a reader blocked in Read with nothing in flight has delivered everything *)
Theorem C12_tcp_idle_complete : forall cfg dr sched i c cc,
  let s := t_run dr sched (t_init cfg) in
  nth_error (t_conns s) i = Some c -> nth_error cfg i = Some cc ->
  k_r c = R0 -> k_queue c = [] -> k_unsent c = [] ->
  proj i (t_log s) = spec false (number 0 (c_msgs cc)).
Proof. exact tcp_idle_complete_lemma. Qed.
Print Assumptions C12_tcp_idle_complete.

(* (4) the connection count returns to zero once every handler has returned *)
Theorem C12_tcp_clients_zero : forall cfg dr sched,
  let s := t_run dr sched (t_init cfg) in
  (forall c, In c (t_conns s) -> h_reg (k_h c) = false) -> t_clients s = [].
Proof. exact tcp_clients_zero_lemma. Qed.
Print Assumptions C12_tcp_clients_zero.

(* (5) termination measure: every executed micro-step of every thread strictly decreases it -
   with or without a draining consumer, before or after Stop *)
Theorem C12_tcp_measure : forall dr s t s', t_step dr s t = Some s' -> t_mu s' < t_mu s.
Proof. exact t_mu_decreases. Qed.
Print Assumptions C12_tcp_measure.
Theorem C12_udp_measure : forall dr s t s', u_step dr s t = Some s' -> u_mu s' < u_mu s.
Proof. exact u_mu_decreases. Qed.
Print Assumptions C12_udp_measure.

(* (6) race freedom: the generic lockset theorem, and its premise on the table regenerated from
   pkg/collector on this run *)
Theorem C12_lockset_sound : forall tbl, lockset_ok tbl = true ->
  forall a b, In a tbl -> In b tbl -> conflict a b = true ->
    a_unknown a = false /\ a_unknown b = false /\
    ((a_init a = true \/ a_init b = true) \/
     exists m ea eb, In (m, ea) (a_locks a) /\ In (m, eb) (a_locks b) /\ (ea = true \/ eb = true)).
Proof. exact lockset_race_free. Qed.
Print Assumptions C12_lockset_sound.
Theorem C12_lockset_collector : lockset_ok collector_accesses = true.
Proof. vm_compute. reflexivity. Qed.
Print Assumptions C12_lockset_collector.

(* (7) every goroutine started below Start is counted by the wait group: a wg.Add precedes the go
   statement in the same function and the literal defers wg.Done (regenerated from the source;
   this is the model's assumption that wg counts exactly the live goroutines) *)
Theorem C12_goroutines_counted :
  forallb (fun g => snd (fst g) && snd g) collector_goroutines = true /\ 3 <= List.length collector_goroutines.
Proof. vm_compute. split; [reflexivity | repeat constructor]. Qed.
Print Assumptions C12_goroutines_counted.

(* (8) the wait-group equation, TCP/TLS, every schedule, every moment: the counter equals the
   number of live goroutines registered with it (accept loop, handlers, readers) plus the
   registrations whose `go` statement has not been executed yet (Start between wg.Add and
   `go accept`, accept loop between wg.Add and `go handleTCPClient`, handler between wg.Add and
   `go reader`) ... *)
Theorem C12_tcp_wg_equation : forall cfg dr sched,
  let s := t_run dr sched (t_init cfg) in t_wg s = t_wg_live s + t_wg_pending s.
Proof. exact tcp_wg_equation_lemma. Qed.
Print Assumptions C12_tcp_wg_equation.
(* ... hence, once the address is published (the earliest moment Stop may be called), wg = 0
   exactly when the accept loop and every handler and reader have returned *)
Theorem C12_tcp_wg_zero_iff : forall cfg dr sched,
  let s := t_run dr sched (t_init cfg) in
  t_pub s = true ->
  (t_wg s = 0 <-> t_acc s = ADone /\ forall c, In c (t_conns s) -> conn_srv_live c = 0).
Proof. exact tcp_wg_zero_iff_lemma. Qed.
Print Assumptions C12_tcp_wg_zero_iff.
(* the same for UDP: socket loop + per-address client goroutines *)
Theorem C12_udp_wg_equation : forall cfg dr sched,
  let s := u_run dr sched (u_init cfg) in u_wg s = u_wg_live s + u_wg_pending s.
Proof. exact udp_wg_equation_lemma. Qed.
Print Assumptions C12_udp_wg_equation.
Theorem C12_udp_wg_zero_iff : forall cfg dr sched,
  let s := u_run dr sched (u_init cfg) in
  u_pub s = true ->
  (u_wg s = 0 <-> u_sock s = KDone /\ forall v, In v (u_cls s) -> v_pc v = VDone).
Proof. exact udp_wg_zero_iff_lemma. Qed.
Print Assumptions C12_udp_wg_zero_iff.

(* (9) progress after Stop, provided the consumer keeps draining (dr = true): in every reachable
   state in which not everything has terminated, some thread is enabled (no deadlock) ... *)
Theorem C12_tcp_progress : forall cfg sched,
  let s := t_run true sched (t_init cfg) in
  t_all_done s = false -> exists t, In t (tthreads (List.length cfg)) /\ t_step true s t <> None.
Proof. exact tcp_progress_lemma. Qed.
Print Assumptions C12_tcp_progress.
(* ... a terminated state means: Stop has returned, wg = 0, no goroutine of the process is left,
   the listener is closed, the clients map is empty ... *)
Theorem C12_tcp_all_done : forall cfg dr sched,
  let s := t_run dr sched (t_init cfg) in
  t_all_done s = true ->
  t_stop s = PDone /\ t_wg s = 0 /\ t_goroutines s = 0 /\ t_lis s = false /\ t_clients s = [].
Proof. exact tcp_all_done_lemma. Qed.
Print Assumptions C12_tcp_all_done.
(* ... and every fair schedule gets there: t_mu rounds, each scheduling every thread at least
   once (any order, any repetition), end terminated - i.e. Stop returns, with any number of
   clients connected, idle, mid-message or holding the connection open *)
Theorem C12_tcp_fair_terminates : forall cfg rounds,
  Forall (fun r => incl (tthreads (List.length cfg)) r) rounds ->
  t_mu (t_init cfg) <= List.length rounds ->
  t_all_done (t_run true (List.concat rounds) (t_init cfg)) = true.
Proof. exact tcp_fair_terminates_lemma. Qed.
Print Assumptions C12_tcp_fair_terminates.
(* the same for UDP; the thread list contains NO ticker event: shutdown does not rely on the
   per-address timeout (the closeClientChan handshake is what makes the select of
   handleUDPMessage non-blocking once a client goroutine has left) *)
Theorem C12_udp_progress : forall cfg sched,
  let s := u_run true sched (u_init cfg) in
  u_all_done s = false -> exists t, In t (uthreads (List.length cfg) (utotal cfg)) /\ u_step true s t <> None.
Proof. exact udp_progress_lemma. Qed.
Print Assumptions C12_udp_progress.
Theorem C12_udp_all_done : forall cfg dr sched,
  let s := u_run dr sched (u_init cfg) in
  u_all_done s = true ->
  u_stop s = PDone /\ u_wg s = 0 /\ u_goroutines s = 0 /\ u_open s = false /\ u_clients s = [].
Proof. exact udp_all_done_lemma. Qed.
Print Assumptions C12_udp_all_done.
Theorem C12_udp_fair_terminates : forall cfg rounds,
  Forall (fun r => incl (uthreads (List.length cfg) (utotal cfg)) r) rounds ->
  u_mu (u_init cfg) <= List.length rounds ->
  u_all_done (u_run true (List.concat rounds) (u_init cfg)) = true.
Proof. exact udp_fair_terminates_lemma. Qed.
Print Assumptions C12_udp_fair_terminates.

(* (10) UDP delivery, every schedule, every moment, draining or not: what the consumer received
   from address i is an order-preserving subsequence (Sub) of the datagrams the socket loop read
   from that address: nothing invented, nothing overtakes, each datagram at most once *)
Theorem C12_udp_order : forall cfg dr sched i,
  let s := u_run dr sched (u_init cfg) in
  Sub (proj i (u_log s)) (taken (u_addrs s) i).
Proof. exact udp_order_lemma. Qed.
Print Assumptions C12_udp_order.

(* ... and, with the per-address sequence numbering 0,1,2,.. of what the exporter sent, the
   delivered numbers of an address are a subsequence of 0..n-1: none delivered twice, none that
   was not sent, increasing *)
Theorem C12_udp_at_most_once : forall cfg dr sched i,
  let s := u_run dr sched (u_init cfg) in
  Sub (proj i (u_log s)) (seq 0 (match nth_error cfg i with Some cc => List.length (uc_msgs cc) | None => 0 end)) /\
  NoDup (proj i (u_log s)).
Proof. exact udp_at_most_once_lemma. Qed.
Print Assumptions C12_udp_at_most_once.

(* (11) race freedom on the table of the COMMON translator T5 (Gen/Locks.v collector_accesses,
   vocabulary Model/LockTab.v): every class may run in several instances and in parallel with
   every other, except Start (called once) *)
Theorem C12_lockset_collector_T5 : LockTab.lockset_ok coll_thr coll_multi Locks.collector_accesses = true.
Proof. exact coll_lockset_ok. Qed.
Print Assumptions C12_lockset_collector_T5.
Theorem C12_race_free_T5 : forall tr,
  Conc.lock_wf tr -> Conc.consistent coll_thr coll_multi Locks.collector_accesses tr ->
  forall p3 t2 b r2 p2 t1 a r1 p1,
    tr = (p3 ++ (t2, Conc.Acc b r2) :: p2 ++ (t1, Conc.Acc a r1) :: p1)%list ->
    t1 <> t2 -> Conc.racy a b = true -> Conc.ordered_between t1 t2 p2.
Proof. exact coll_race_free. Qed.
Print Assumptions C12_race_free_T5.

(* the proviso "provided the consumer keeps draining" is needed: without it a reader stays blocked
   on messageChan, Stop never returns (wg > 0) and nothing is enabled *)
Example C12_stuck_without_consumer :
  let s := t_run false ([TStart; TStart; TStart; TStart; TClient 0; TAccept; TAccept; TAccept;
                         THandler 0; THandler 0; THandler 0; TClient 0; TReader 0; TStop; TStart; TStart;
                         TAccept; TAccept; THandler 0; THandler 0; THandler 0; THandler 0; TClient 0])
                 (t_init [mkCcfg [KT] EClose]) in
  t_all_done s = false /\
  forallb (fun t => match t_step false s t with None => true | Some _ => false end)
          [TStart; TAccept; TStop; THandler 0; TReader 0; TReaderErr 0; TClient 0] = true.
Proof. vm_compute. split; reflexivity. Qed.

(* non-vacuity: a run with two connections that ends with everything delivered, everything
   terminated, wg = 0 *)
Example C12_nonvacuous :
  c12_run (Verif.Base.Str.tokens "tcp quiet 2 close:tddxd hold:td"%string)
          (Verif.Base.Str.tokens "deliv 0 0 1 0 0 1 1 1 0 2 ; conns 1 ; stop ok ; left 0 ; port closed ; conns2 0 ; numrec 5 ; garbled 0"%string)
  = "deliv 0 0 1 0 0 1 1 1 0 2 ; conns 1 ; stop ok ; left 0 ; port closed ; conns2 0 ; numrec 5 ; garbled 0 | T T"%string.
Proof. vm_compute. reflexivity. Qed.

(* non-vacuity of (10): a run in which the ticker fires between two datagrams of address 0: the
   second datagram is dropped on closeClientChan, the third is delivered by a new client
   goroutine - delivered [0;2] out of read [0;1;2], two goroutines created *)
Example C12_udp_order_nonvacuous :
  let s := u_run true ([UStart; UStart; UStart; UStart; USend 0; USock; USock; USock; UCl 0; UCl 0; UCl 0;
                        USend 0; USock; USock; UTick 0; UCl 0; UCl 0; USock;
                        USend 0; USock; USock; USock; UCl 1; UCl 1])
                 (u_init [mkUcfg [(KT, false); (KT, false); (KT, false)]]) in
  proj 0 (u_log s) = [0; 2] /\ taken (u_addrs s) 0 = [0; 1; 2] /\ List.length (u_cls s) = 2.
Proof. vm_compute. repeat split. Qed.

(* non-vacuity of (9): round-robin over all threads is a fair schedule; two connections (one
   holding until Stop, one cut in the middle of a frame) and two UDP exporters *)
Example C12_fair_nonvacuous :
  let cfg := [mkCcfg [KT; KD] EHold; mkCcfg [KT; KX; KD] ECut] in
  let s := t_run true (List.concat (repeat (tthreads 2) (t_mu (t_init cfg)))) (t_init cfg) in
  t_all_done s = true /\ t_wg s = 0 /\ t_stop s = PDone /\
  let ucfg := [mkUcfg [(KT, false); (KD, true); (KD, false)]; mkUcfg [(KD, false)]] in
  let u := u_run true (List.concat (repeat (uthreads 2 (utotal ucfg)) (u_mu (u_init ucfg)))) (u_init ucfg) in
  u_all_done u = true /\ u_wg u = 0 /\ u_stop u = PDone.
Proof. vm_compute. repeat split. Qed.
