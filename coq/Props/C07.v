(* C07 - inter-node correlation: withheld until both sides seen, merged field-complete.
   Theorems only; the proofs are in Proofs/Corr_lemmas.v. Model: Model/Corr.v (record level)
   and Model/Expiry.v (map/queue level, repaired variant); oracle: Model/CorrSpec.v. *)
From Coq Require Import List Bool NArith ZArith String.
From Coq.Strings Require Import Byte.
From Verif.Base Require Import Outcome.
From Verif.Model Require Import IE KMap Pq Corr Expiry ExpirySpec CorrSpec.
From Verif.Proofs Require Import KMap_lemmas Expiry_lemmas Corr_lemmas.
Import ListNotations.
Local Open Scope Z_scope.

(* The whole property as the oracle that is also applied to the implementation's traces: for
   every configuration with positive timeouts (any MaxRetries, any correlate-field list), every
   history of records (any arrival order and multiplicity, any field values), time steps and
   scans, and every tie-breaking of the heap, after every op:
   - a flow all of whose records agree on the correlation requirement and (when it is
     required) each come from exactly one node is ready iff records from both the source and
     the destination node have arrived since it was created; a flow that needs no correlation
     is ready at once, and filled unless it is inter-node;
   - at the moment of correlation the flow becomes filled and every field holds the incoming
     value if it is a configured correlate field of a supported type with a non-empty incoming
     value, the stored value otherwise; no other record changes the stored fields;
   - the callback runs on ready flows only; a not-ready flow popped by a scan is re-queued with
     one more retry or dropped once its retries exceed MaxRetries; scans, time steps and expiry
     queries never change readiness, the filled flag or the record of a held flow. *)
Theorem C07_correlation : forall P ops, wf_params P = true ->
  C07_holds_on P ops (fst (run Fixed P ops 0 init)) = true.
Proof. exact C07_correlation_lemma. Qed.
Print Assumptions C07_correlation.

(* correlateRecords, field by field *)
Theorem C07_merged_fields : forall cf inc ex rec', correlate cf inc ex = Ok rec' ->
  (forall n, option_map fd_val (get n rec') = merged_val cf inc ex n) /\
  List.length rec' = List.length ex.
Proof. exact correlate_get. Qed.
Print Assumptions C07_merged_fields.

(* a correlate field non-empty on either side is non-empty in the merged record *)
Theorem C07_nonempty_either_side : forall cf inc ex rec' n fi fe a b,
  correlate cf inc ex = Ok rec' -> In n cf ->
  get n inc = Some fi -> get n ex = Some fe -> fd_dt fe = fd_dt fi ->
  corr_nonempty (fd_dt fi) (fd_val fi) = Ok (Some a) ->
  corr_nonempty (fd_dt fi) (fd_val fe) = Ok (Some b) ->
  exists fm, get n rec' = Some fm /\ corr_nonempty (fd_dt fi) (fd_val fm) = Ok (Some (a || b)).
Proof. exact correlate_nonempty. Qed.
Print Assumptions C07_nonempty_either_side.

(* never exported half-filled: whatever the scan returns, every callback was on a ready flow *)
Theorem C07_callback_only_when_ready : forall P now fails picks s s' cbs err,
  wf_params P = true -> Inv s ->
  scan Fixed P now fails picks s = Some (s', cbs, err) -> forall k, In k cbs -> ready_in s k = true.
Proof. exact scan_callbacks_ready. Qed.
Print Assumptions C07_callback_only_when_ready.

(* retried a bounded number of times, then dropped: the effect of a pop on a not-ready flow *)
Theorem C07_retry : forall P now fails k f d,
  f_ready f = false -> (pMR P <? f_retries f + 1) = false ->
  proc P now fails k (Some (flow_meta f), Some d) =
  (Some (flow_meta (mkFlow (f_ready f) (f_retries f + 1) (f_filled f) (f_v4 f) (f_rec f))),
   Some (now + pA P, now + pI P)).
Proof. exact proc_retry. Qed.
Theorem C07_drop_after_max_retries : forall P now fails k f d,
  f_ready f = false -> (pMR P <? f_retries f + 1) = true ->
  proc P now fails k (Some (flow_meta f), Some d) = (None, None).
Proof. exact proc_drop. Qed.

(* ready at once: only inter-node flows are ever withheld, and not those denied at egress or
   rejected at ingress *)
Theorem C07_only_inter_node_waits : forall ft r,
  ft <> flow_type_inter_node -> is_correlation_required ft r = Ok false.
Proof. exact cr_only_inter_node. Qed.
Theorem C07_new_flow_ready : forall P now k r s s', add_or_update P now k r s = Ok s' ->
  km_find k (flows s) = None ->
  exists f, km_find k (flows s') = Some f /\ f_ready f = negb (spec_cr r) /\ f_retries f = 0 /\
            (spec_cr r = false -> f_filled f = negb (N.eqb (spec_ft r) flow_type_inter_node)).
Proof. exact new_flow_ready. Qed.
Print Assumptions C07_new_flow_ready.

Definition mk_rec (ft ing egr : N) (src dst : list byte) : record :=
  [mkField "flowType" Unsigned8 (VU8 ft); mkField "sourcePodName" String_ (VStr src);
   mkField "destinationPodName" String_ (VStr dst);
   mkField "ingressNetworkPolicyRuleAction" Unsigned8 (VU8 ing);
   mkField "egressNetworkPolicyRuleAction" Unsigned8 (VU8 egr);
   mkField "destinationServicePort" Unsigned16 (VU16 (if match dst with [] => true | _ => false end then 80 else 0))].
Definition pn : list byte := [x70].
Example C07_requirement_by_type_and_action :
  map spec_cr [mk_rec 1 0 0 pn pn;   (* intra-node *)
               mk_rec 3 0 0 pn [];   (* to external *)
               mk_rec 2 0 2 pn [];   (* inter-node, egress drop *)
               mk_rec 2 0 3 pn [];   (* inter-node, egress reject *)
               mk_rec 2 3 0 [] pn;   (* inter-node, ingress reject *)
               mk_rec 2 2 0 [] pn;   (* inter-node, ingress drop: still correlated *)
               mk_rec 2 0 0 pn [];   (* inter-node from source *)
               mk_rec 2 1 1 [] pn]   (* inter-node from destination *)
  = [false; false; false; false; false; true; true; true].
Proof. vm_compute. reflexivity. Qed.

(* non-vacuity: a history inside the hypotheses in which the source record waits through one
   retry round, the destination record correlates it, and it is then exported *)
Definition P1 : params := mkParams 4 6 2 0 ["sourcePodName"; "destinationPodName"; "destinationServicePort"]%string.
Definition ops1 : list op :=
  [ORec 0%N (mk_rec 2 0 0 pn []); ORec 0%N (mk_rec 2 0 0 pn []); OAdv 4; OScan [] [0%N];
   ORec 0%N (mk_rec 2 1 0 [] pn); OAdv 4; OScan [] [0%N];
   ORec 1%N (mk_rec 2 0 0 pn []); OAdv 4; OScan [] [0%N; 1%N]; OAdv 4; OScan [] [1%N]; OAdv 4; OScan [] [1%N]].
Example C07_nonvacuous :
  let tr := fst (run Fixed P1 ops1 0 init) in
  wf_params P1 = true /\ snd (run Fixed P1 ops1 0 init) = EndOk /\ List.length tr = 14%nat /\
  hyp_from ops1 tr [] = true /\
  (* flow 0: not ready after the two source records and one retry round, ready once the
     destination record arrives *)
  map (fun e => ready_in (snd e) 0%N) (firstn 5 tr) = [false; false; false; false; true] /\
  (* callbacks: none while waiting, then flow 0; flow 1 never gets its peer: two retries, then dropped *)
  match nth_error tr 3, nth_error tr 6, nth_error tr 11, nth_error tr 13 with
  | Some (RScan _ c1 _, _), Some (RScan _ c2 _, _), Some (RScan _ c3 _, s3), Some (RScan _ c4 _, s4) =>
      c1 = [] /\ c2 = [0%N] /\ c3 = [] /\ c4 = [] /\
      option_map f_retries (km_find 1%N (flows s3)) = Some 2 /\ km_mem 1%N (flows s4) = false
  | _, _, _, _ => False
  end.
Proof. vm_compute. repeat split. Qed.
