(* C10 - UDP template lifetime: usable for the TTL after the last refresh, then discarded,
   however expiry timers and their callbacks interleave with refreshes, replacements and
   invalidations. Theorems only; the model is Model/Ttl.v (addTemplate / deleteTemplateWithConds /
   the AfterFunc callback of pkg/collector/process.go over a clock with the documented
   time.Timer semantics), the proofs are in Proofs/Ttl_lemmas.v.
   `run ttl acts` is the state after an ARBITRARY action sequence: template / malformed template /
   data / clock advance / timer firing / callback reads the clock / callback deletes - every
   placement of firing and callback execution relative to the other actions is one such sequence.
   `last_accept acts k` and `g_now (grun acts)` are computed from the action sequence alone (time of
   the last valid template for k not followed by an invalidation; sum of the advances).
   ttl is arbitrary (the collector uses ttl_of_input > 0). *)
From Coq Require Import List Bool Arith NArith ZArith String.
From Verif.Base Require Import Str.
From Verif.Gen Require Import Consts.
From Verif.Model Require Import Ttl.
From Verif.Proofs Require Import Ttl_lemmas.
From Verif.Driver Require Import C10drv.
Import ListNotations.
Local Open Scope Z_scope.

(* Every theorem is for EVERY action sequence and EVERY clock granularity tk >= 0: tk is how far
   the clock moves on each clock read made by the collector's own goroutine, i.e. between
   `expiryTime = Now()+ttl` and the arming of the timer inside addTemplate (the real clock moves,
   a test clock does not). run / grun / last_accept are the tk = 0 instances. *)

(* the invariant (Ttl_lemmas.Inv: in-flight callbacks captured a time <= now; every stored template's
   timer is armed not before and at most tk after its expiry, or unarmed-with-an-expired-deadline
   and a callback in flight that will find it expired; armed timers belong to stored templates; the
   ghost ties expiry to the last acceptance) holds after every action sequence *)
Theorem C10_ttl : forall ttl tk acts, 0 <= tk -> Inv ttl (run_tick ttl tk acts).
Proof. exact run_tick_inv. Qed.
Print Assumptions C10_ttl.

(* P1 - no early drop: before t0 + ttl the template accepted at t0 is stored, with that expiry,
   and a data set for k is decoded *)
Theorem C10_no_early_drop : forall ttl tk acts k t0, 0 <= tk ->
  last_accept_tick tk acts k = Some t0 -> g_now (grun_tick tk acts) < t0 + ttl ->
  exists p, get_tpl k (run_tick ttl tk acts) = Some p /\ t_expiry p = t0 + ttl /\
            probe (run_tick ttl tk acts) k = Some (nrec (t_tag p)).
Proof. exact no_early_drop_lemma. Qed.
Print Assumptions C10_no_early_drop.

(* P1 for the schedule the property names ("however expiry timers interleave with refreshes"):
   after ANY history, a refresh for k followed by the completion of ANY expiry callback (fresh,
   stale, of this key or another, whatever time it read) leaves k stored with the refresh's
   lifetime. Harness action X places the refresh between the critical sections of the running
   callback and is judged against this sequence (Driver/C10drv.v). 2 * tk < ttl: the clock does
   not move by a whole lifetime inside one addTemplate (the collector's ttl is >= 1 s). *)
Theorem C10_refresh_during_callback : forall ttl tk acts k g c, 0 <= tk -> 2 * tk < ttl ->
  let t0 := g_now (grun_tick tk acts) in
  exists p, get_tpl k (run_tick ttl tk (acts ++ [ATemplate k g; ACbEnd c])) = Some p /\
            t_expiry p = t0 + ttl /\
            probe (run_tick ttl tk (acts ++ [ATemplate k g; ACbEnd c])) k = Some (nrec (t_tag p)).
Proof. exact refresh_during_callback_lemma. Qed.
Print Assumptions C10_refresh_during_callback.

(* whatever is stored is the last accepted template with the expiry that acceptance gave it *)
Theorem C10_stored_is_last_accept : forall ttl tk acts k p, 0 <= tk ->
  get_tpl k (run_tick ttl tk acts) = Some p ->
  exists t0, last_accept_tick tk acts k = Some t0 /\ t_expiry p = t0 + ttl /\ t0 <= g_now (grun_tick tk acts).
Proof. exact stored_is_last_accept_lemma. Qed.
Print Assumptions C10_stored_is_last_accept.

(* P2 - discarded: once t0 + ttl (+ tk) <= now and neither a due timer nor a callback in flight
   remains, k is gone; a key never accepted or invalidated since is gone at once *)
Theorem C10_discarded : forall ttl tk acts k, 0 <= tk -> quiescent (run_tick ttl tk acts) ->
  match last_accept_tick tk acts k with
  | Some t0 => t0 + ttl + tk <= g_now (grun_tick tk acts) -> get_tpl k (run_tick ttl tk acts) = None
  | None => True
  end.
Proof. exact discarded_lemma. Qed.
Print Assumptions C10_discarded.

Theorem C10_discarded_exact : forall ttl acts k, quiescent (run ttl acts) ->
  match last_accept acts k with
  | Some t0 => t0 + ttl <= g_now (grun acts) -> get_tpl k (run ttl acts) = None
  | None => True
  end.
Proof. exact discarded_exact_lemma. Qed.
Print Assumptions C10_discarded_exact.

Theorem C10_invalidated_gone : forall ttl tk acts k, 0 <= tk ->
  last_accept_tick tk acts k = None ->
  get_tpl k (run_tick ttl tk acts) = None /\ probe (run_tick ttl tk acts) k = None.
Proof. exact never_accepted_gone_lemma. Qed.
Print Assumptions C10_invalidated_gone.

(* P3 - every stored template has an expiry pending (its timer armed with a deadline in
   [expiry, expiry + tk], or unarmed with a callback of that timer in flight); at most one armed
   timer per key; a timer that is not the timer of a stored template (removed templates) is not
   armed *)
Theorem C10_timers : forall ttl tk acts, 0 <= tk -> let s := run_tick ttl tk acts in
  (forall k p, get_tpl k s = Some p ->
     (exists d, armed_of (t_timer p) s = Some d /\ t_expiry p <= d <= t_expiry p + tk) \/
     (armed_of (t_timer p) s = None /\ exists c, In c (inflight s) /\ c_timer c = t_timer p)) /\
  (forall t1 t2 tm1 tm2 d1 d2, get_timer t1 s = Some tm1 -> get_timer t2 s = Some tm2 ->
     tm_armed tm1 = Some d1 -> tm_armed tm2 = Some d2 -> tm_key tm1 = tm_key tm2 -> t1 = t2) /\
  (forall t d, armed_of t s = Some d -> exists k p, get_tpl k s = Some p /\ t_timer p = t).
Proof. exact timers_lemma. Qed.
Print Assumptions C10_timers.

(* ... with deadline = expiry exactly for a clock that stands still inside addTemplate *)
Theorem C10_timers_exact : forall ttl acts, let s := run ttl acts in
  (forall k p, get_tpl k s = Some p ->
     armed_of (t_timer p) s = Some (t_expiry p) \/
     (armed_of (t_timer p) s = None /\ exists c, In c (inflight s) /\ c_timer c = t_timer p)) /\
  (forall t1 t2 tm1 tm2 d1 d2, get_timer t1 s = Some tm1 -> get_timer t2 s = Some tm2 ->
     tm_armed tm1 = Some d1 -> tm_armed tm2 = Some d2 -> tm_key tm1 = tm_key tm2 -> t1 = t2) /\
  (forall t d, armed_of t s = Some d -> exists k p, get_tpl k s = Some p /\ t_timer p = t).
Proof. exact timers_exact_lemma. Qed.
Print Assumptions C10_timers_exact.

(* the per-trace boolean oracle (check_trace, applied by Driver/C10drv.C10_holds_on to the
   implementation's observation after every action) is true on the model's trace of every
   action sequence *)
Theorem C10_oracle_holds : forall ttl tk acts, 0 <= tk ->
  check_trace ttl tk ginit acts (trace ttl (init_tick tk) acts) = true.
Proof. exact oracle_holds. Qed.
Print Assumptions C10_oracle_holds.

(* the TTL the theorems are instantiated with is the repository's: seconds -> ns, 0 = default *)
Example C10_default_ttl_matches_source :
  ttl_of_input c_entities_TemplateTTL 0 = 1800 * 1000000000 /\ ttl_of_input c_entities_TemplateTTL 2 = 2000000000.
Proof. split; reflexivity. Qed.

(* ---- non-vacuity ---- *)
Definition k0 : key := (1%N, 256%N).
Definition T := 1000000000.

(* P1's hypotheses are satisfiable, also with a fired-but-pending callback around a refresh *)
Definition ex_race : list act :=
  [ATemplate k0 0; AAdvance T; AFire 0; ATemplate k0 1; ACbBegin 0; AAdvance (T - 1)].
Example C10_nonvacuous_P1 :
  last_accept ex_race k0 = Some T /\ g_now (grun ex_race) = 2 * T - 1 /\
  inflight (run T ex_race) = [mkCb 0 0 (Some T)] /\ armed_of 0 (run T ex_race) = Some (2 * T) /\
  probe (run T ex_race) k0 = Some 1%N.
Proof. vm_compute. repeat split; reflexivity. Qed.

(* ... and the stale callback then ends without removing the refreshed template *)
Example C10_stale_callback_harmless :
  get_tpl k0 (run T (ex_race ++ [ACbEnd 0])) = Some (mkTpl 1 (2 * T) 0) /\
  inflight (run T (ex_race ++ [ACbEnd 0])) = [].
Proof. vm_compute. split; reflexivity. Qed.

(* P2's hypotheses are satisfiable: a quiescent state past the lifetime *)
Definition ex_expire : list act := [ATemplate k0 0; AAdvance T; AFire 0; ACbBegin 0; ACbEnd 0].
Example C10_nonvacuous_P2 :
  last_accept ex_expire k0 = Some 0 /\ 0 + T <= g_now (grun ex_expire) /\
  timers (run T ex_expire) = [(0%nat, mkTimer k0 None)] /\ inflight (run T ex_expire) = [] /\
  get_tpl k0 (run T ex_expire) = None.
Proof. vm_compute. repeat split; try reflexivity. discriminate. Qed.

(* a stale callback of a removed-and-re-added key may only remove the new template once the new
   template's own lifetime is over (here: exactly at its expiry), and it stops the new timer *)
Definition ex_stale_delete : list act :=
  [ATemplate k0 0; AAdvance T; AFire 0; ABad k0; ATemplate k0 1; AAdvance T; ACbBegin 0; ACbEnd 0].
Example C10_stale_callback_late :
  get_tpl k0 (run T ex_stale_delete) = None /\ armed_of 1 (run T ex_stale_delete) = None /\
  last_accept ex_stale_delete k0 = Some T /\ g_now (grun ex_stale_delete) = 2 * T.
Proof. vm_compute. repeat split; reflexivity. Qed.

(* the driver's oracle accepts the model's own rendering of a trace (parser/printer sanity) *)
Example C10_oracle_roundtrip :
  let obs := tokens (show_trace (trace T init ex_stale_delete)) in
  C10_holds_on T 0 ex_stale_delete obs = true.
Proof. vm_compute. reflexivity. Qed.

(* with a moving clock (tk = 1) the timer is armed one tick after the expiry it enforces, the
   callback still finds the template expired, and the hypotheses of P2 are satisfiable *)
Example C10_nonvacuous_tick :
  armed_of 0 (run_tick T 1 [ATemplate k0 0]) = Some (T + 1) /\
  get_tpl k0 (run_tick T 1 [ATemplate k0 0]) = Some (mkTpl 0 T 0) /\
  last_accept_tick 1 ex_expire k0 = Some 0 /\ 0 + T + 1 <= g_now (grun_tick 1 ex_expire) /\
  inflight (run_tick T 1 ex_expire) = [] /\ get_tpl k0 (run_tick T 1 ex_expire) = None.
Proof. vm_compute. repeat split; try reflexivity. discriminate. Qed.

(* the refresh-during-callback schedule is reachable with the callback enabled and its deadline
   check passed (it read the clock at the deadline): without the refresh it deletes, with it it
   does not; X parses to that sequence *)
Definition ex_refresh_cb : list act := [ATemplate k0 0; AAdvance T; AFire 0; ACbBegin 0].
Example C10_nonvacuous_refresh_during_callback :
  get_tpl k0 (run T (ex_refresh_cb ++ [ACbEnd 0])) = None /\
  get_tpl k0 (run T (ex_refresh_cb ++ [ATemplate k0 0; ACbEnd 0])) = Some (mkTpl 0 (T + T) 0) /\
  c10_parse_acts (tokens "X 0 1 256 0") = Some [ATemplate (1%N, 256%N) 0%N; ACbEnd 0].
Proof. vm_compute. repeat split; reflexivity. Qed.
