(* C10 - UDP template lifetime: usable for the TTL after the last refresh, then discarded,
   however expiry timers and their callbacks interleave with refreshes, replacements and
   invalidations. Theorems only; the model is Model/Ttl.v (addTemplate / deleteTemplateWithConds /
   the AfterFunc callback of pkg/collector/process.go over a clock with the documented
   time.Timer semantics), the proofs are in Proofs/Ttl_lemmas.v.
   `run ttl acts` is the state after an ARBITRARY action sequence: template / malformed template /
   data / clock advance / timer firing / callback reads the clock / callback deletes - every
   placement of firing and callback execution relative to the other actions is one such sequence.
   `last_accept acts k` and `g_now (grun acts)` are computed from the action sequence alone (time of
   the last valid template for k not followed by an invalidation; sum of the advances).
   ttl is arbitrary (the collector uses ttl_of_input > 0). *)
From Coq Require Import List Bool Arith NArith ZArith String.
From Verif.Base Require Import Str.
From Verif.Gen Require Import Consts.
From Verif.Model Require Import Ttl.
From Verif.Proofs Require Import Ttl_lemmas.
From Verif.Driver Require Import C10drv.
Import ListNotations.
Local Open Scope Z_scope.

(* the invariant (Ttl_lemmas.Inv: in-flight callbacks captured a time <= now; every stored template's
   timer is armed at its expiry or unarmed-with-an-expired-deadline and a callback in flight that
   will find it expired; armed timers belong to stored templates; the ghost ties expiry to the
   last acceptance) holds after every action sequence *)
Theorem C10_ttl : forall ttl acts, Inv ttl (run ttl acts).
Proof. exact run_inv. Qed.
Print Assumptions C10_ttl.

(* P1 - no early drop: before t0 + ttl the template accepted at t0 is stored, with that expiry,
   and a data set for k is decoded *)
Theorem C10_no_early_drop : forall ttl acts k t0,
  last_accept acts k = Some t0 -> g_now (grun acts) < t0 + ttl ->
  exists p, get_tpl k (run ttl acts) = Some p /\ t_expiry p = t0 + ttl /\
            probe (run ttl acts) k = Some (nrec (t_tag p)).
Proof. exact no_early_drop_lemma. Qed.
Print Assumptions C10_no_early_drop.

(* whatever is stored is the last accepted template with the expiry that acceptance gave it *)
Theorem C10_stored_is_last_accept : forall ttl acts k p,
  get_tpl k (run ttl acts) = Some p ->
  exists t0, last_accept acts k = Some t0 /\ t_expiry p = t0 + ttl /\ t0 <= g_now (grun acts).
Proof. exact stored_is_last_accept_lemma. Qed.
Print Assumptions C10_stored_is_last_accept.

(* P2 - discarded: once t0 + ttl <= now and neither a due/armed-in-the-past timer nor a callback
   in flight remains, k is gone; a key never accepted or invalidated since is gone at once *)
Theorem C10_discarded : forall ttl acts k, quiescent (run ttl acts) ->
  match last_accept acts k with
  | Some t0 => t0 + ttl <= g_now (grun acts) -> get_tpl k (run ttl acts) = None
  | None => True
  end.
Proof. exact discarded_lemma. Qed.
Print Assumptions C10_discarded.

Theorem C10_invalidated_gone : forall ttl acts k,
  last_accept acts k = None -> get_tpl k (run ttl acts) = None /\ probe (run ttl acts) k = None.
Proof. exact never_accepted_gone_lemma. Qed.
Print Assumptions C10_invalidated_gone.

(* P3 - every stored template has an expiry pending (its timer armed with deadline = expiry, or
   unarmed with a callback of that timer in flight); at most one armed timer per key; a timer that
   is not the timer of a stored template (removed templates) is not armed *)
Theorem C10_timers : forall ttl acts, let s := run ttl acts in
  (forall k p, get_tpl k s = Some p ->
     armed_of (t_timer p) s = Some (t_expiry p) \/
     (armed_of (t_timer p) s = None /\ exists c, In c (inflight s) /\ c_timer c = t_timer p)) /\
  (forall t1 t2 tm1 tm2 d1 d2, get_timer t1 s = Some tm1 -> get_timer t2 s = Some tm2 ->
     tm_armed tm1 = Some d1 -> tm_armed tm2 = Some d2 -> tm_key tm1 = tm_key tm2 -> t1 = t2) /\
  (forall t d, armed_of t s = Some d -> exists k p, get_tpl k s = Some p /\ t_timer p = t).
Proof. exact timers_lemma. Qed.
Print Assumptions C10_timers.

(* the per-trace boolean oracle (check_trace, applied by Driver/C10drv.C10_holds_on to the
   implementation's observation after every action) is true on the model's trace of every
   action sequence *)
Theorem C10_oracle_holds : forall ttl acts,
  check_trace ttl ginit acts (trace ttl init acts) = true.
Proof. exact oracle_holds. Qed.
Print Assumptions C10_oracle_holds.

(* the TTL the theorems are instantiated with is the repository's: seconds -> ns, 0 = default *)
Example C10_default_ttl_matches_source :
  ttl_of_input c_entities_TemplateTTL 0 = 1800 * 1000000000 /\ ttl_of_input c_entities_TemplateTTL 2 = 2000000000.
Proof. split; reflexivity. Qed.

(* ---- non-vacuity ---- *)
Definition k0 : key := (1%N, 256%N).
Definition T := 1000000000.

(* P1's hypotheses are satisfiable, also with a fired-but-pending callback around a refresh *)
Definition ex_race : list act :=
  [ATemplate k0 0; AAdvance T; AFire 0; ATemplate k0 1; ACbBegin 0; AAdvance (T - 1)].
Example C10_nonvacuous_P1 :
  last_accept ex_race k0 = Some T /\ g_now (grun ex_race) = 2 * T - 1 /\
  inflight (run T ex_race) = [mkCb 0 0 (Some T)] /\ armed_of 0 (run T ex_race) = Some (2 * T) /\
  probe (run T ex_race) k0 = Some 1%N.
Proof. vm_compute. repeat split; reflexivity. Qed.

(* ... and the stale callback then ends without removing the refreshed template *)
Example C10_stale_callback_harmless :
  get_tpl k0 (run T (ex_race ++ [ACbEnd 0])) = Some (mkTpl 1 (2 * T) 0) /\
  inflight (run T (ex_race ++ [ACbEnd 0])) = [].
Proof. vm_compute. split; reflexivity. Qed.

(* P2's hypotheses are satisfiable: a quiescent state past the lifetime *)
Definition ex_expire : list act := [ATemplate k0 0; AAdvance T; AFire 0; ACbBegin 0; ACbEnd 0].
Example C10_nonvacuous_P2 :
  last_accept ex_expire k0 = Some 0 /\ 0 + T <= g_now (grun ex_expire) /\
  timers (run T ex_expire) = [(0%nat, mkTimer k0 None)] /\ inflight (run T ex_expire) = [] /\
  get_tpl k0 (run T ex_expire) = None.
Proof. vm_compute. repeat split; try reflexivity. discriminate. Qed.

(* a stale callback of a removed-and-re-added key may only remove the new template once the new
   template's own lifetime is over (here: exactly at its expiry), and it stops the new timer *)
Definition ex_stale_delete : list act :=
  [ATemplate k0 0; AAdvance T; AFire 0; ABad k0; ATemplate k0 1; AAdvance T; ACbBegin 0; ACbEnd 0].
Example C10_stale_callback_late :
  get_tpl k0 (run T ex_stale_delete) = None /\ armed_of 1 (run T ex_stale_delete) = None /\
  last_accept ex_stale_delete k0 = Some T /\ g_now (grun ex_stale_delete) = 2 * T.
Proof. vm_compute. repeat split; reflexivity. Qed.

(* the driver's oracle accepts the model's own rendering of a trace (parser/printer sanity) *)
Example C10_oracle_roundtrip :
  let obs := tokens (show_trace (trace T init ex_stale_delete)) in
  C10_holds_on T ex_stale_delete obs = true.
Proof. vm_compute. reflexivity. Qed.
