(* C01 — End-to-end fidelity: what an exporter is given is what a collector delivers.
   Only the property theorems; proofs in Proofs/E2E_lemmas.v (composition of the codec round
   trip C15, the message layout C16/C02, the template decoding C03 and the framing C11) and
   Proofs/C01_lemmas.v (the SendSet bookkeeping around them: C01_oracle) and
   Proofs/C01_chain_lemmas.v (histories of exchanges against one collector: C01_chain_oracle). *)
From Coq Require Import List Bool Arith NArith String.
From Coq.Strings Require Import Byte.
From Verif.Base Require Import Bytes Outcome.
From Verif.Model Require Import IE Codec Record SetB Msg Decode Frame E2E.
From Verif.Proofs Require Import Decode_roundtrip E2E_lemmas C01_lemmas C01_chain_lemmas.
From Verif.Driver Require Import C11drv C01single C01drv.
Import ListNotations.
Local Open Scope N_scope.

(* (1) the template message: whatever the collector's state, the bytes CreateIPFIXMsg lays out
   for a one-record template set of registry elements are decoded to exactly those elements
   (id, enterprise number, type, length, name - the registry's own element), in order, under
   the same observation domain and template id, and stored under that key *)
Theorem C01_template : forall obs q t tid tpl tb tm,
  tpl_ok tpl = true -> tpl_msg obs q t tid tpl = Ok tb ->
  decode_packet Strict registry tm tb =
    (Ok (TemplateMsg (mkHdr (blen tb) (t mod 4294967296) (q mod 4294967296) (obs mod 4294967296))
                     (tid mod 65536) tpl),
     tm_add tm (obs mod 4294967296) (tid mod 65536) tpl).
Proof. exact e2e_template. Qed.
Print Assumptions C01_template.

(* (2) the data message: any number of well-typed records for that template come back as the
   same number of records with every value bit-identical (addresses as their 4/16 raw bytes) *)
Theorem C01_data : forall obs q t tid tpl recs db tm,
  tpl_ok tpl = true -> recs_ok tpl recs = true -> 256 <= tid < 65536 ->
  data_msg obs q t tid recs = Ok db ->
  tm_lookup tm (obs mod 4294967296) tid = Some tpl ->
  decode_packet Strict registry tm db =
    (Ok (DataMsg (mkHdr (blen db) (t mod 4294967296) (q mod 4294967296) (obs mod 4294967296))
                 tid (map norm_rec recs)), tm).
Proof. exact e2e_data. Qed.
Print Assumptions C01_data.

(* (3) both, one after the other, into any collector state (UDP/DTLS: one datagram per message) *)
Theorem C01_end_to_end : forall obs q q' t t' tid tpl recs tb db tm,
  tpl_ok tpl = true -> recs_ok tpl recs = true -> 256 <= tid < 65536 ->
  tpl_msg obs q t tid tpl = Ok tb -> data_msg obs q' t' tid recs = Ok db ->
  let '(r1, tm1) := decode_packet Strict registry tm tb in
  let '(r2, tm2) := decode_packet Strict registry tm1 db in
  r1 = Ok (TemplateMsg (mkHdr (blen tb) (t mod 4294967296) (q mod 4294967296) (obs mod 4294967296)) tid tpl) /\
  r2 = Ok (DataMsg (mkHdr (blen db) (t' mod 4294967296) (q' mod 4294967296) (obs mod 4294967296)) tid
                   (map norm_rec recs)) /\
  tm2 = tm1.
Proof. exact e2e_exchange. Qed.
Print Assumptions C01_end_to_end.

(* (4) TCP/TLS: however the concatenation of the two messages is segmented, the reader delivers
   exactly those two messages and stays open *)
Theorem C01_tcp : forall obs q q' t t' tid tpl recs tb db tm segs,
  tpl_ok tpl = true -> recs_ok tpl recs = true -> 256 <= tid < 65536 ->
  tpl_msg obs q t tid tpl = Ok tb -> data_msg obs q' t' tid recs = Ok db ->
  List.concat segs = tb ++ db ->
  let st := fold_left (feed tmap msg c11_decode) segs (init tmap msg tm) in
  r_out _ _ st =
    [TemplateMsg (mkHdr (blen tb) (t mod 4294967296) (q mod 4294967296) (obs mod 4294967296)) tid tpl;
     DataMsg (mkHdr (blen db) (t' mod 4294967296) (q' mod 4294967296) (obs mod 4294967296)) tid (map norm_rec recs)] /\
  r_closed _ _ st = false.
Proof. exact e2e_tcp. Qed.
Print Assumptions C01_tcp.

(* (5) the observation the harness compares: inside the hypotheses (c01_hyp: registry template of
   supported types with a positive minimum record length, well-typed records for it, template
   id in 256..65535, one template record, observation domain below 2^32, both messages within
   65535 bytes - 65507 for the datagram transports) and with both messages within the receive
   buffer of pion/dtls when the transport is DTLS (dtls_fits), the model of two SendSet calls
   (sanity check of the data set against the registered templates, registration after the
   template send, sequence counter, UDP size limit) followed by the collector yields exactly
   the rendering of what the application handed over: both calls report the message lengths,
   two messages are delivered, same observation domain, template id, elements in order, same
   records with every value bit-identical *)
Theorem C01_oracle : forall c,
  c01_hyp c = true -> dtls_fits c = true -> c01_model c = c01_spec c.
Proof. exact c01_oracle. Qed.
Print Assumptions C01_oracle.

(* (6) without dtls_fits the statement is false for the code as it is (known finding F14): a
   data message of 8180 bytes over DTLS is reported as sent and never delivered *)
Theorem C01_refuted_dtls_big :
  exists c, c01_hyp c = true /\ dtls_fits c = false /\ C01_holds_on c (c01_model c) = false.
Proof. exact c01_refuted_dtls_big. Qed.
Print Assumptions C01_refuted_dtls_big.

(* (7) and so it is for a template set holding two template records (known finding F9): only the
   first is delivered and stored *)
Theorem C01_refuted_multi_template :
  exists c, tpl_ok (k_tpl c) = true /\ recs_ok (k_tpl c) (k_recs c) = true /\ k_ntpl c = 2%nat /\
            C01_holds_on c (c01_model c) = false.
Proof. exact c01_refuted_multi_template. Qed.
Print Assumptions C01_refuted_multi_template.

(* (8) histories: for EVERY chain of exchanges against one collector inside the hypotheses
   (chain_hyp: every exchange has a registry template of supported types with a positive minimum
   record length, well-typed records in every data set, template id in 256..65535, observation
   domain below 2^32, every message within 65535 bytes - 65507 over UDP, 8155 over DTLS) - any
   number of exchanges, any number of data sets and records per exchange, all transports, later
   exchanges free to REDEFINE an (observation domain, template id) of an earlier one with another
   template - the composed model (a fresh exporting process per exchange: SendSet of the template
   set, then of every data set, with the sanity checks, the registration and the sequence counter
   moving by the record counts; ONE collector whose template table persists over the whole
   chain, a stream transport stopping at the first undecodable message) yields exactly the
   rendering of what each exchange was given: every SendSet reports the message length, every
   exchange delivers its own template and, for every data set, its own records with every value
   bit-identical, decoded with the template in force - whatever earlier exchanges left in the
   collector's table. No hypothesis beyond chain_hyp is needed *)
Theorem C01_chain_oracle : forall c, chain_hyp c = true -> chain_model c = chain_spec c.
Proof. exact chain_oracle. Qed.
Print Assumptions C01_chain_oracle.

Example C01_nonvacuous :
  let tpl := [mkIE "sourceIPv4Address" 8 Ipv4Address 0 4; mkIE "octetDeltaCount" 1 Unsigned64 0 8] in
  tpl_ok tpl = true /\
  recs_ok tpl [[(mkIE "sourceIPv4Address" 8 Ipv4Address 0 4, VIP (Some [x0a; x00; x00; x01]));
                (mkIE "octetDeltaCount" 1 Unsigned64 0 8, VU64 18446744073709551615)]] = true.
Proof. vm_compute. split; reflexivity. Qed.

(* the hypotheses of C01_oracle are satisfiable, on every transport *)
Example C01_oracle_nonvacuous :
  let e1 := mkIE "sourceIPv4Address" 8 Ipv4Address 0 4 in
  let e2 := mkIE "octetDeltaCount" 1 Unsigned64 0 8 in
  forallb (fun tr =>
    let c := {| k_transport := tr; k_obs := 4294967295; k_tid := 65535; k_ntpl := 1; k_dsel := 0;
                k_tpl := [e1; e2];
                k_recs := [[(e1, VIP (Some [x0a; x00; x00; x01])); (e2, VU64 18446744073709551615)]] |} in
    c01_hyp c && dtls_fits c && String.eqb (c01_model c) (c01_spec c))
    ["tcp"; "udp"; "tls"; "dtls"]%string = true.
Proof. vm_compute. reflexivity. Qed.

(* the hypothesis of C01_chain_oracle is satisfiable, on every transport, by a chain whose second
   exchange redefines the first one's (domain 7, template id 256) with another template (two
   elements, then one), with several data sets per exchange; on it the oracle of the driver
   accepts the model's observation and the second exchange's records are delivered with the
   NEW template's element *)
Example C01_chain_oracle_nonvacuous :
  forallb (fun tr =>
    let c := chain_redefine tr in
    chain_hyp c && Nat.eqb (List.length (ch_ex c)) 2 &&
    match ch_ex c with
    | [a; b] => N.eqb (x_obsd a) (x_obsd b) && N.eqb (x_tid a) (x_tid b) &&
                negb (Nat.eqb (List.length (x_tpl a)) (List.length (x_tpl b)))
    | _ => false
    end &&
    String.eqb (chain_model c) (chain_spec c) && chain_holds_on c (chain_model c) &&
    contains " D:7:256 n=2 ; u64 6 ; u64 7 E 1/0/octetDeltaCount" (chain_model c))
    ["tcp"; "udp"; "tls"; "dtls"]%string = true.
Proof. vm_compute. reflexivity. Qed.
