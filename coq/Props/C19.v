(* C19 — Kafka publication: one framed protobuf message per data record, in order.
   This file holds only the property theorems; the proofs are in Proofs/{Proto,Kafka}_lemmas.v. *)
From Coq Require Import List Bool Arith NArith ZArith String.
From Coq.Strings Require Import Byte.
From Verif.Base Require Import Bytes Outcome Str.
From Verif.Gen Require Import Consts ProtoTab.
From Verif.Model Require Import IE Proto Kafka.
From Verif.Proofs Require Import Bytes_lemmas Proto_lemmas Kafka_lemmas C19_lemmas.
From Verif.Driver Require Import Show C19drv.
Import ListNotations.
Local Open Scope N_scope.
Local Notation length := List.length.

(* obligations on the regenerated tables (T4 / T2): both converters' field tables are schemas the
   model covers (uint32 / uint64 / string, increasing valid field numbers), the header fields and
   every mapped field exist with a kind wide enough for the element kind, and the consumer strips
   as many bytes as the producer prepends *)
Example C19_tables_wf : wf_convertor conv1 = true /\ wf_convertor conv2 = true.
Proof. split; vm_compute; reflexivity. Qed.
(* the element -> proto field mapping is the intended one (pinned by name, Model/Kafka.v) *)
Example C19_mapping_pinned :
  mapping_pinned proto_fields_FlowType1 hdr_fields_FlowType1 conv_rows_FlowType1 = true /\
  mapping_pinned proto_fields_FlowType2 hdr_fields_FlowType2 conv_rows_FlowType2 = true.
Proof. split; vm_compute; reflexivity. Qed.
(* ... so the converter the oracle judges against (targets looked up by the pinned names) is the
   regenerated one the theorems speak about *)
Example C19_spec_is_code : conv1_spec = conv1 /\ conv2_spec = conv2.
Proof. split; vm_compute; reflexivity. Qed.
Example C19_delimiter_matches_source : N.of_nat delimit_len = c_kafka_consumer_msgDelimitLen /\ delimit_len = 4%nat.
Proof. split; reflexivity. Qed.

(* (1) varint round trip, for ALL 64-bit values, whatever follows *)
Theorem C19_varint : forall n rest, n < 18446744073709551616 ->
  dec_varint (varint n ++ rest) = Some (n, rest).
Proof. exact dec_varint_varint. Qed.
Print Assumptions C19_varint.

(* (2) framing: 4 bytes are prepended, they are the big-endian payload length (mod 2^32: a
   payload below 4 GiB is announced exactly), and the consumer's slice recovers the payload *)
Theorem C19_frame : forall p,
  unframe (frame p) = Ok p /\ length (frame p) = (4 + length p)%nat /\
  bed (firstn 4 (frame p)) = N.of_nat (length p) mod 4294967296.
Proof. intros p. split; [apply unframe_frame|split; [apply frame_length|apply frame_prefix]]. Qed.
Print Assumptions C19_frame.

(* (3) protobuf round trip for every message of a covered schema whose values fit their Go types
   and whose strings (of any length) are valid UTF-8: Marshal succeeds and Unmarshal of the bytes
   gives back every field *)
Theorem C19_proto_roundtrip : forall sch st, wf_schema sch = true -> wf_struct sch st = true ->
  exists bs st', encode sch st = Some bs /\ decode sch bs = Some st' /\
    forall k kd, In (k, kd) sch -> getf kd k st' = getf kd k st.
Proof. exact proto_roundtrip. Qed.
Print Assumptions C19_proto_roundtrip.

(* (4) publication of any well-typed stream (no UTF-8 hypothesis): exactly the sends of the
   records of the data messages, in message order then record order, none for template
   messages, no panic; a record whose Marshal fails contributes nothing (this is F10) *)
Theorem C19_publish_order : forall c topic ms, forallb (msg_well_typed c) ms = true ->
  publish c topic ms = (flat_map (fun mr => sent c topic (fst mr) (snd mr)) (all_records ms), false).
Proof. exact publish_spec. Qed.
Print Assumptions C19_publish_order.

(* (5) the property. For every stream of template/data messages whose elements are well typed and
   whose strings are valid UTF-8 (the hypothesis the proof surfaces, finding F10): the producer
   emits, on the configured topic, exactly one Kafka message per data record, in order (Forall2
   against the list of all (message, record) pairs), each value being frame p for a payload p
   that decodes to the record's values and the message's export time / sequence number /
   observation domain / exporter address (expected_field) *)
Theorem C19_kafka : forall c topic ms,
  wf_convertor c = true -> stream_typed c ms = true -> stream_utf8 ms = true ->
  exists payloads,
    publish c topic ms = (map (fun p => (topic, frame p)) payloads, false) /\
    Forall2 (decodes_to c) (all_records ms) payloads.
Proof. exact kafka_publication. Qed.
Print Assumptions C19_kafka.

Theorem C19_count : forall c topic ms,
  wf_convertor c = true -> stream_typed c ms = true -> stream_utf8 ms = true ->
  length (fst (publish c topic ms)) = list_sum (map (fun m => length (records_of m)) ms) /\
  snd (publish c topic ms) = false /\
  forall km, In km (fst (publish c topic ms)) -> fst km = topic.
Proof. exact kafka_count. Qed.
Print Assumptions C19_count.

(* what a field must hold, spelled out: the converter's result on a well-typed record *)
Theorem C19_convert : forall c m r, well_typed_record c r = true ->
  exists st, convert c m r = Ok st /\ forall kd k, getf kd k st = expected_field c m r kd k.
Proof. exact convert_spec. Qed.
Print Assumptions C19_convert.

(* expected_field spelled out. Header: for both shipped converters, fields 1 / 2 / 3 / 33 of every
   flow message are the IPFIX message's export time, sequence number, observation domain and
   exporter address (no element is mapped onto them). Record: the value of the last element of
   the record that the converter maps to field k is what field k holds. *)
Theorem C19_header : forall m r,
  (expected_field conv1 m r KU32 1 = PU (k_time m) /\ expected_field conv1 m r KU32 2 = PU (k_seq m) /\
   expected_field conv1 m r KU32 3 = PU (k_dom m) /\ expected_field conv1 m r KStr 33 = PS (k_addr m)) /\
  (expected_field conv2 m r KU32 1 = PU (k_time m) /\ expected_field conv2 m r KU32 2 = PU (k_seq m) /\
   expected_field conv2 m r KU32 3 = PU (k_dom m) /\ expected_field conv2 m r KStr 33 = PS (k_addr m)).
Proof. exact header_fields_conv12. Qed.
Print Assumptions C19_header.

Theorem C19_record_field : forall c m r1 e r2 k kd,
  conv_lookup (cv_rows c) (e_name e) (kind_tag (e_val e)) = Mapped k ->
  forallb (fun e' => match conv_lookup (cv_rows c) (e_name e') (kind_tag (e_val e')) with
                     | Mapped k' => negb (N.eqb k' k) | _ => true end) r2 = true ->
  expected_field c m (r1 ++ e :: r2) kd k = elem_pval e.
Proof. exact record_field. Qed.
Print Assumptions C19_record_field.

(* (6) the oracle the check applies to the implementation's observations (sobs_ok: no panic, one
   Kafka message per record in order, topic, 4-byte length prefix = real size, the model's decoder
   on the payload and the consumer-side dump give the record's values and the header) holds on
   the model's own observation of EVERY case within the hypotheses. For the cases the driver
   parses, cs_conv is conv1 or conv2, for which the first two premises are C19_tables_wf and
   C19_spec_is_code. (The rendering/parsing of the observation line is outside this statement.) *)
Theorem C19_trace : forall cs,
  wf_convertor (cs_conv cs) = true -> cs_spec cs = cs_conv cs ->
  wf_case cs = true -> small_case cs = true ->
  sobs_ok cs (model_sobs cs) = true.
Proof. exact C19_trace_lemma. Qed.
Print Assumptions C19_trace.

(* the UTF-8 hypothesis is necessary: the faithful model drops the record (finding F10) *)
Local Open Scope string_scope.
Definition ex_bad : kmsg :=
  mkKMsg 1 2 3 [] (KData [[mkElem "sourcePodName" (VStr [xff]) []]]).
Example C19_utf8_needed :
  stream_typed conv1 [ex_bad] = true /\ stream_utf8 [ex_bad] = false /\
  publish conv1 "flows" [ex_bad] = ([], false) /\ List.length (all_records [ex_bad]) = 1%nat.
Proof. vm_compute. repeat split. Qed.

(* non-vacuity: a two-message stream (template, then data with two records, IPv4 and IPv6) satisfies the hypotheses *)
Definition ex_rec1 : krecord :=
  [mkElem "sourceIPv4Address" (VIP (Some [x0a; x00; x00; x01])) (bytes_of_string "10.0.0.1");
   mkElem "octetDeltaCount" (VU64 18446744073709551615) [];
   mkElem "sourcePodName" (VStr (bytes_of_string "pod-1")) [];
   mkElem "flowEndReason" (VU8 2) []].
Definition ex_rec2 : krecord :=
  [mkElem "destinationTransportPort" (VU16 443) []; mkElem "destinationTransportPort" (VU16 80) []].
Definition ex_stream : list kmsg :=
  [mkKMsg 5 6 7 (bytes_of_string "127.0.0.1") (KTemplate 1);
   mkKMsg 1000 4294967295 7 (bytes_of_string "127.0.0.1") (KData [ex_rec1; ex_rec2])].
Example C19_nonvacuous :
  stream_typed conv2 ex_stream = true /\ stream_utf8 ex_stream = true /\
  List.length (fst (publish conv2 "flows" ex_stream)) = 2%nat /\
  expected_field conv2 (nth 1 ex_stream ex_bad) ex_rec2 KU32 9 = PU 80 /\
  expected_field conv2 (nth 1 ex_stream ex_bad) ex_rec1 KU32 2 = PU 4294967295 /\
  expected_field conv2 (nth 1 ex_stream ex_bad) ex_rec1 KU64 14 = PU 18446744073709551615.
Proof. vm_compute. repeat split. Qed.
