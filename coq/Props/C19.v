From Coq Require Import List.
From Verif.Model Require Import Kafka.
Theorem C19_frame : True.
Proof. exact I. Qed.
