(* C17 — Unknown information elements: strict rejects, keep preserves, drop omits exactly.
   Only the property theorems; proofs in Proofs/Unknown_lemmas.v and Proofs/C17_lemmas.v.
   Model: Model/Decode.v (decode_packet in the three modes); definitions: Model/Unknown.v. *)
From Coq Require Import List Bool Arith NArith ZArith String.
From Coq.Strings Require Import Byte.
From Verif.Base Require Import Bytes Outcome Str.
From Verif.Gen Require Import Consts.
From Verif.Model Require Import IE Codec Decode Templates Unknown.
From Verif.Proofs Require Import Decode_lemmas Templates_lemmas Unknown_lemmas C17_lemmas.
From Verif.Driver Require Import Show DecShow C04drv C17drv.
Import ListNotations.
Local Open Scope N_scope.

(* For EVERY history, every safe registry (the regenerated one is: C03_registry_safe) and every
   template set [tpl_bytes] that a lenient collector accepts (spec_template Keep = Some: any
   number of fields, known and unknown - IANA or enterprise, fixed / variable / zero length -
   at any positions) with at least one element absent from the registry:
   strict rejects it and every data set for its key that follows; keep and drop accept it with
   the same table; and for every later packet, what drop delivers is what keep delivers with
   the nameless (= unknown, C17_named_iff_known) fields filtered out of every record. *)
Theorem C17_unknown : forall reg hist tpl_bytes h tid es,
  reg_safe reg = true ->
  spec_template Keep reg tpl_bytes = Some (h, tid, es) -> has_unknown reg tpl_bytes = true ->
  ((exists k, fst (decode_packet Strict reg (run Strict reg hist) tpl_bytes) = Err k) /\
   (forall data, hdr_ok data = true -> wire_obs data = wire_obs tpl_bytes ->
      wire_setid data = wire_tid tpl_bytes -> N.eqb (wire_setid data) c_entities_TemplateSetID = false ->
      fst (decode_packet Strict reg (run Strict reg (hist ++ [tpl_bytes])) data) = Err ErrNoTemplate)) /\
  (fst (decode_packet Keep reg (run Keep reg hist) tpl_bytes) = Ok (TemplateMsg h tid es) /\
   fst (decode_packet Drop reg (run Drop reg hist) tpl_bytes) = Ok (TemplateMsg h tid es) /\
   run Drop reg (hist ++ [tpl_bytes]) = run Keep reg (hist ++ [tpl_bytes])) /\
  (forall data,
     match fst (decode_packet Keep reg (run Keep reg (hist ++ [tpl_bytes])) data) with
     | Ok mk => fst (decode_packet Drop reg (run Drop reg (hist ++ [tpl_bytes])) data) = Ok (drop_view mk)
     | Err _ => exists k, fst (decode_packet Drop reg (run Drop reg (hist ++ [tpl_bytes])) data) = Err k
     | _ => False
     end).
Proof. exact C17_unknown_lemma. Qed.
Print Assumptions C17_unknown.

(* strict mode's exact outcome on such a template set, for any table: the "unknown element"
   error, and the key's entry deleted *)
Theorem C17_strict_rejects_exact : forall reg tm bytes h tid es,
  spec_template Keep reg bytes = Some (h, tid, es) -> has_unknown reg bytes = true ->
  decode_packet Strict reg tm bytes = (Err ErrUnknownIE, tm_delete tm (wire_obs bytes) (wire_tid bytes)).
Proof. exact strict_rejects_exact. Qed.
Print Assumptions C17_strict_rejects_exact.

(* keep: a delivered data message's records are the values of field extents tiling the set body
   (C03), and every field whose element is an octet array - every unknown element is one - is
   delivered as an octet array holding exactly the bytes of its extent (fixed length: the
   declared number of bytes; variable length: the bytes its 1/3-byte prefix announces) *)
Theorem C17_keep_exact_bytes : forall reg tm bytes h tid rs tm',
  decode_packet Keep reg tm bytes = (Ok (DataMsg h tid rs), tm') ->
  exists tpl xss pad,
    tm_lookup tm (wire_obs bytes) (wire_setid bytes) = Some tpl /\
    wire_body bytes = List.concat (map raw_of_record xss) ++ pad /\
    Forall (record_ok tpl) xss /\
    Forall2 (Forall2 field_bytes_ok) xss rs.
Proof. exact C17_keep_exact_bytes_lemma. Qed.
Print Assumptions C17_keep_exact_bytes.

(* the element a lenient collector makes of an unknown field specifier *)
Theorem C17_unknown_element : forall reg id ent wl,
  spec_known reg (id, ent, wl) = false -> spec_elem reg (id, ent, wl) = mkIE "" id OctetArray ent wl.
Proof. exact spec_elem_unknown. Qed.

(* drop = keep filtered, for any safe template state (not only after a particular template) *)
Theorem C17_drop_is_filtered_keep : forall reg tm bytes, tm_safe tm ->
  match fst (decode_packet Keep reg tm bytes) with
  | Ok mk => fst (decode_packet Drop reg tm bytes) = Ok (drop_view mk)
  | Err _ => exists k, fst (decode_packet Drop reg tm bytes) = Err k
  | _ => False
  end /\ snd (decode_packet Drop reg tm bytes) = snd (decode_packet Keep reg tm bytes).
Proof. exact C17_drop_is_filtered_keep_lemma. Qed.
Print Assumptions C17_drop_is_filtered_keep.

(* in every mode each known field decodes to the value it would have had without the unknown
   fields: a well-formed body (records only, no padding) read with the full template [tpl]
   yields, on its named fields, exactly what the template with the unknown elements removed
   (the one strict mode could hold) yields on the body with the unknown fields' bytes removed.
   Side condition: the reduced template is not degenerate (some known element remains). *)
Theorem C17_known_fields_unaffected : forall tpl body rs,
  decode_data_body all_fields tpl body = Ok rs ->
  (0 < min_record_len (filter named tpl))%nat ->
  forall xss, split_body (S (List.length body)) tpl body = Some (xss, []) ->
  decode_data_body (keep_of Strict) (filter named tpl)
    (List.concat (map (fun xs => raw_of_record (filter known_x xs)) xss))
  = Ok (map (filter named_f) rs).
Proof. exact known_fields_reduced. Qed.
Print Assumptions C17_known_fields_unaffected.

(* "nameless" is "not in the registry" for every element a template can hold; the regenerated
   registry satisfies the side condition (every decodable registry element has a name) *)
Theorem C17_named_iff_known : forall m reg bytes h tid es,
  reg_named reg = true -> spec_template m reg bytes = Some (h, tid, es) ->
  exists wf, wire_fields (N.to_nat (wire_count bytes)) (skipn 24 bytes) = Some wf /\
             es = map (spec_elem reg) wf /\ map named es = map (spec_known reg) wf.
Proof. exact template_named_iff_known. Qed.
Theorem C17_registry_named : reg_named registry = true.
Proof. exact registry_named. Qed.
Print Assumptions C17_named_iff_known.

(* the executable oracle (applied by the check to the implementation's observations of the
   three collectors) holds of the model on every packet history *)
Theorem C17_oracle : forall pkts,
  C17_holds_on registry pkts (model_mode Strict registry pkts) (model_mode Keep registry pkts)
               (model_mode Drop registry pkts) = true.
Proof. exact C17_oracle_lemma. Qed.
Print Assumptions C17_oracle.

(* non-vacuity: template 256 = [sourceTransportPort(7); unknown IANA id 999, 3 bytes;
   unknown enterprise 12345 id 5, variable length; protocolIdentifier(4)] *)
Definition c17_tpl : list byte :=
  [x00;x0a;x00;x2c; x00;x00;x00;x01; x00;x00;x00;x00; x00;x00;x00;x01; x00;x02;x00;x1c;
   x01;x00;x00;x04; x00;x07;x00;x02; x03;xe7;x00;x03; x80;x05;xff;xff; x00;x00;x30;x39; x00;x04;x00;x01].
Definition c17_data : list byte :=
  [x00;x0a;x00;x00; x00;x00;x00;x01; x00;x00;x00;x00; x00;x00;x00;x01; x01;x00;x00;x00;
   x12;x34; xaa;xbb;xcc; x02;xde;xad; x06].
Example C17_nonvacuous_hyp :
  has_unknown registry c17_tpl = true /\
  option_map (fun x => List.length (snd x)) (spec_template Keep registry c17_tpl) = Some 4%nat.
Proof. vm_compute. split; reflexivity. Qed.
Example C17_nonvacuous_keep :
  fst (decode_packet Keep registry (run Keep registry [c17_tpl]) c17_data) =
  Ok (DataMsg (mkHdr 0 1 0 1) 256
        [[(mkIE "sourceTransportPort" 7 Unsigned16 0 2, VU16 4660);
          (mkIE "" 999 OctetArray 0 3, VOct (Some [xaa; xbb; xcc]));
          (mkIE "" 5 OctetArray 12345 65535, VOct (Some [xde; xad]));
          (mkIE "protocolIdentifier" 4 Unsigned8 0 1, VU8 6)]]).
Proof. vm_compute. reflexivity. Qed.
Example C17_nonvacuous_drop_strict :
  fst (decode_packet Drop registry (run Drop registry [c17_tpl]) c17_data) =
  Ok (DataMsg (mkHdr 0 1 0 1) 256
        [[(mkIE "sourceTransportPort" 7 Unsigned16 0 2, VU16 4660);
          (mkIE "protocolIdentifier" 4 Unsigned8 0 1, VU8 6)]]) /\
  fst (decode_packet Strict registry (run Strict registry [c17_tpl]) c17_data) = Err ErrNoTemplate /\
  fst (decode_packet Strict registry [] c17_tpl) = Err ErrUnknownIE.
Proof. vm_compute. repeat split. Qed.
