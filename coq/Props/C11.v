(* C11 — TCP framing: same messages however the byte stream is segmented.
   Only the property theorems; proofs in Proofs/Frame_lemmas.v (generic in the decoder) and
   Proofs/C11_lemmas.v (the collector instance, decoder = Model/Decode.v decode_packet). *)
From Coq Require Import List Bool Arith NArith String.
From Coq.Strings Require Import Byte.
From Verif.Base Require Import Bytes Outcome.
From Verif.Model Require Import IE Codec Decode Frame.
From Verif.Proofs Require Import Frame_lemmas C11_lemmas.
From Verif.Driver Require Import C11drv.
Import ListNotations.

(* (1) segmentation independence, for ANY per-frame decoder that rejects the empty frame:
   feeding the reader any split of a stream delivers the same messages, ends in the same
   open/closed state and leaves the decoder in the same state as the unsplit stream *)
Theorem C11_segmentation_independent :
  forall (St M : Type) (decode : St -> list byte -> St * option M),
  (forall s, snd (decode s []) = None) ->
  forall segs s,
  same_delivery St M (fold_left (feed St M decode) segs (init St M s))
                     (whole St M decode s (List.concat segs)).
Proof. exact segmentation_independent. Qed.
Print Assumptions C11_segmentation_independent.

(* (2) a stream made of well-framed messages is cut exactly at the sender's message
   boundaries: each frame handed to the decoder is one whole message of the sender, never
   bytes of two; processing stops at the first undecodable one *)
Theorem C11_frames_exact :
  forall (St M : Type) (decode : St -> list byte -> St * option M),
  (forall s, snd (decode s []) = None) ->
  forall fs s, Forall wf_frame fs ->
  run_all St M decode s (List.concat fs) =
  (let '(s', ms, rest, c) := deliver St M decode s fs in (s', ms, List.concat rest, c)).
Proof. exact frames_exact. Qed.
Print Assumptions C11_frames_exact.

(* (3) the collector (strict mode, decoder = the model of decodePacket): any segmentation of
   the sender's messages *)
Theorem C11_tcp_framing : forall fs segs tm, Forall wf_frame fs -> List.concat segs = List.concat fs ->
  let st := fold_left (feed tmap msg c11_decode) segs (init tmap msg tm) in
  let '(tm', ms, rest, c) := deliver tmap msg c11_decode tm fs in
  r_out _ _ st = ms /\ r_closed _ _ st = c /\ r_dec _ _ st = tm'.
Proof. exact c11_tcp. Qed.
Print Assumptions C11_tcp_framing.

(* (4) the observation the harness compares: for every case (any cuts, any messages) the
   model's observation satisfies the oracle *)
Theorem C11_oracle : forall c, C11_holds_on c (c11_model c) = true.
Proof. exact C11_oracle_lemma. Qed.
Print Assumptions C11_oracle.

(* non-vacuity: a frame with a correct length field exists and is accepted by frame_len *)
Example C11_nonvacuous :
  wf_frame [x00; x0a; x00; x05; x01] /\ ~ wf_frame [x00; x0a; x00; x09; x01].
Proof. split; [reflexivity|]. intros H. discriminate H. Qed.
