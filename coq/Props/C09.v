From Verif.Driver Require Import C09drv.
