(* C09 — The exporter never emits an invalid, oversized or silently altered message.
   Only the property theorems; proofs in Proofs/C09_lemmas.v, witnesses in Proofs/C09_refuted.v. *)
From Coq Require Import List Bool Arith NArith ZArith String.
From Coq.Strings Require Import Byte.
From Verif.Base Require Import Bytes Outcome Str.
From Verif.Model Require Import IE Codec Record SetB Msg Exporter.
From Verif.Proofs Require Import SetB_lemmas Exporter_lemmas C08_lemmas C09_lemmas C09_refuted.
From Verif.Driver Require Import Show SetShow HistShow C09drv.
Import ListNotations.
Local Open Scope N_scope.

(* For every history mixing valid and invalid calls (any sets, built by any operations) on a
   process in which every registered template has been transmitted (W = template records on the
   wire so far; a fresh process: W = []), as long as no call panics: every call satisfies
   [c09_send] — (c) an error return wrote nothing; a success wrote exactly the reported bytes,
   (b) at most 65535; (a) a data set went out only under a set id for which a template record
   is earlier on the wire, with every record carrying that id and that template's field count;
   (e) and no transmitted record had a value whose encoding failed. [hist_ok] threads W through
   the history, so (d) every later call is under the same guarantee. *)
Theorem C09_no_invalid : forall h st W,
  st_wf st -> on_wire (x_tpls st) W -> Forall no_panic (run_hist cur st h) ->
  hist_ok W h (run_hist cur st h).
Proof. exact no_invalid_lemma. Qed.
Print Assumptions C09_no_invalid.

(* (c) on its own, for any state: an error return wrote nothing and left the templates alone *)
Theorem C09_error_writes_nothing : forall st s t k,
  r_res (send_set cur st s t) = Err k ->
  r_wire (send_set cur st s t) = None /\ x_tpls (r_st (send_set cur st s t)) = x_tpls st.
Proof. exact send_set_err_nothing. Qed.
Print Assumptions C09_error_writes_nothing.

(* On the faithful model of the code BEFORE the repairs the statement is false: witnesses
   (replayed on the real unrepaired code, see notes/C09.md; kept in corpus/C09) *)
Theorem C09_refuted_F6_orig : refutes orig case_f6 = true /\ refutes orig case_f6_mac = true.
Proof. exact refuted_F6. Qed.
Theorem C09_refuted_F7_orig : refutes orig case_f7 = true.
Proof. exact refuted_F7. Qed.
Theorem C09_refuted_F12_orig : refutes orig case_f12 = true.
Proof. exact refuted_F12. Qed.
Theorem C09_witnesses_repaired :
  satisfies cur case_f6 = true /\ satisfies cur case_f6_mac = true /\
  satisfies cur case_f7 = true /\ satisfies cur case_f12 = true.
Proof. exact repaired_all. Qed.
Theorem C09_each_repair_needed :
  refutes (mkFixes false true true) case_f6 = true /\
  refutes (mkFixes true false true) case_f7 = true /\
  refutes (mkFixes true true false) case_f12 = true.
Proof. exact each_repair_needed. Qed.
Print Assumptions C09_refuted_F12_orig.

(* non-vacuity: a fresh process satisfies the hypotheses; a mixed history without panics *)
Example C09_nonvacuous :
  st_wf (mkExp 1 0 [] false) /\ on_wire (x_tpls (mkExp 1 0 [] false)) [].
Proof. split; [reflexivity|apply on_wire_empty]. Qed.
