(* C09 — The exporter never emits an invalid, oversized or silently altered message.
   Only the property theorems; proofs in Proofs/C09_lemmas.v, witnesses in Proofs/C09_refuted.v. *)
From Coq Require Import List Bool Arith NArith ZArith String.
From Coq.Strings Require Import Byte.
From Verif.Base Require Import Bytes Outcome Str.
From Verif.Model Require Import IE Codec Record SetB Msg Exporter ExpObj.
From Verif.Proofs Require Import SetB_lemmas Exporter_lemmas C08_lemmas C09_lemmas C09_refuted C09_oracle
  ExpObj_lemmas C09gen_lemmas.
From Verif.Driver Require Import Show SetShow HistShow HistObj RfcCheck C09drv.
Import ListNotations.
Local Open Scope N_scope.

(* For every history mixing valid and invalid calls (any sets, built by any operations) on a
   process in which every registered template has been transmitted (W = template records on the
   wire so far; a fresh process: W = []), as long as no call panics: every call satisfies
   [c09_send] — (c) an error return wrote nothing; a success wrote exactly the reported bytes,
   (b) at most 65535; (a) a data set went out only under a set id for which a template record
   is earlier on the wire, with every record carrying that id and that template's field count;
   (e) and no transmitted record had a value whose encoding failed. [hist_ok] threads W through
   the history, so (d) every later call is under the same guarantee. *)
Theorem C09_no_invalid : forall h st W,
  st_wf st -> on_wire (x_tpls st) W -> Forall no_panic (run_hist cur st h) ->
  hist_ok W h (run_hist cur st h).
Proof. exact no_invalid_lemma. Qed.
Print Assumptions C09_no_invalid.

(* (c) on its own, for any state: an error return wrote nothing and left the templates alone *)
Theorem C09_error_writes_nothing : forall st s t k,
  r_res (send_set cur st s t) = Err k ->
  r_wire (send_set cur st s t) = None /\ x_tpls (r_st (send_set cur st s t)) = x_tpls st.
Proof. exact send_set_err_nothing. Qed.
Print Assumptions C09_error_writes_nothing.

(* The per-case oracle of the check (C09_holds_on, Driver/C09drv.v: per call (c) an error or
   panic wrote nothing; a success (b) wrote at most 65535 bytes, the count reported, (a) a data
   set only under a wire set id whose template record with every record's field count was sent
   earlier, every record with that id, (e) every transmitted value a value of its element, and
   (d)/(e) the transmitted bytes satisfy the RFC 7011 demand of C02 - independent parser, octets
   of every value - whenever they are reported in full) holds on the model's own observation
   of EVERY case within the hypotheses [c09_wf]: no call panics; each set was built with a single
   PrepareSet (records of the set's own kind, template header written by PrepareSet); every
   value of a data record is a Go value of its element's kind (kind = data type, number within
   the Go type, element width = the type's width) - values that are well-kinded but not
   encodable (address family, MAC / octet-array length, nil) are inside the hypotheses. The oracle
   is a function of the structured observation; show_hist / parse_hobs only print / read it. *)
Theorem C09_oracle_on_model_h : forall c,
  c09_wf_h c (fst (hist_model cur c)) = true -> C09_holds_on_h c (hist_model cur c) = true.
Proof. exact c09_oracle_on_model. Qed.
Print Assumptions C09_oracle_on_model_h.

(* ---- the same over object-level histories (Model/ExpObj.v) ----
   The application's set objects are reused - in particular the SAME set object is given to
   SendSet again, e.g. a retry after a refused call -, GetBuffer may have been called on the
   records before SendSet, element objects are shared and changed, templates are refreshed, the
   process reconnects. A data record's buffer and encode error are cached by the first
   GetBuffer (model: the record keeps the values it was encoded from; Model/ExpObj.v), so a set
   refused for a value that cannot be encoded is refused again, with nothing written.
   [hist_ok_g W outs]: every call satisfies c09_send for the template records W on the wire of
   the CURRENT process (empty again after a reconnect); every call of a refresh does too. *)
Theorem C09_no_invalid_any_history : forall h w W,
  WInv w -> on_wire (x_tpls (w_exp w)) W -> Forall no_panic_out (grun cur w h) ->
  hist_ok_g W (grun cur w h).
Proof. exact no_invalid_g. Qed.
Print Assumptions C09_no_invalid_any_history.

(* the oracle of the check on these histories holds on the model's own observation of every
   case within c09_wf (every set sent - as SendSet saw it - satisfies case_set_ok; no panic; the
   histories of this property contain no refresh) *)
Theorem C09_oracle_on_model : forall c,
  c09_wf c (fst (gmodel cur c)) = true -> C09_holds_on c (gmodel cur c) = true.
Proof. exact c09_oracle_on_model_g. Qed.
Print Assumptions C09_oracle_on_model.

(* On the faithful model of the code BEFORE the repairs the statement is false: witnesses
   (replayed on the real unrepaired code, see notes/C09.md; kept in corpus/C09) *)
Theorem C09_refuted_F6_orig : refutes orig case_f6 = true /\ refutes orig case_f6_mac = true.
Proof. exact refuted_F6. Qed.
Theorem C09_refuted_F7_orig : refutes orig case_f7 = true.
Proof. exact refuted_F7. Qed.
Theorem C09_refuted_F12_orig : refutes orig case_f12 = true.
Proof. exact refuted_F12. Qed.
Theorem C09_witnesses_repaired :
  satisfies cur case_f6 = true /\ satisfies cur case_f6_mac = true /\
  satisfies cur case_f7 = true /\ satisfies cur case_f12 = true.
Proof. exact repaired_all. Qed.
Theorem C09_each_repair_needed :
  refutes (mkFixes false true true true true) case_f6 = true /\
  refutes (mkFixes true false true true true) case_f7 = true /\
  refutes (mkFixes true true false true true) case_f12 = true.
Proof. exact each_repair_needed. Qed.
(* a value that cannot be encoded, in a data record of length 0, was dropped silently *)
Theorem C09_refuted_zero_length_record_orig :
  refutes (mkFixes true true true true false) case_zero_len = true /\ satisfies cur case_zero_len = true.
Proof. split; [exact refuted_zero_length_record|exact repaired_zero_length_record]. Qed.
Print Assumptions C09_refuted_F12_orig.

(* non-vacuity: a fresh process satisfies the hypotheses; a mixed history without panics *)
Example C09_nonvacuous :
  st_wf (mkExp 1 0 [] false) /\ on_wire (x_tpls (mkExp 1 0 [] false)) [].
Proof. split; [reflexivity|apply on_wire_empty]. Qed.

(* the hypotheses of C09_oracle_on_model hold for a mixed history: template, valid data,
   a data record with an IPv6 address in an IPv4 element (refused), an unknown template id *)
Definition c09_case : string :=
  "tcp 5 0 full S P T 300 A 1 300 2 7 6 0 2 i16 0 8 18 0 4 ip nil ; S P D 300 A 1 300 2 7 6 0 2 i16 -2 8 18 0 4 ip hex 0a000001 ; S P D 300 A 1 300 2 7 6 0 2 i16 5 8 18 0 4 ip hex 20010db8000000000000000000000001 ; S P D 301 A 1 301 2 7 6 0 2 i16 5 8 18 0 4 ip hex 0a000001 ;".
Example C09_oracle_nonvacuous :
  match parse_hcase (tokens c09_case) with
  | Some c => let m := hist_model cur c in
              c09_wf_h c (fst m) && C09_holds_on_h c m &&
              list_eqb String.eqb (map (fun o => show_sres (so_res o)) (fst m))
                       ["r=ok:32"; "r=ok:26"; "r=err:encode"; "r=err:notemplate"]%string
  | None => false
  end = true.
Proof. vm_compute. reflexivity. Qed.

(* non-vacuity of the object-level statement: an ill-typed set is refused, retried (refused
   again, also after an explicit GetBuffer), then reset and reused for a good record *)
Definition c09_gcase : string :=
  "tcp 1 0 full S P T 300 A 1 300 2 7 6 0 2 i16 0 8 18 0 4 ip nil ; S P D 300 A 1 300 2 7 6 0 2 i16 5 8 18 0 4 ip hex 20010db8000000000000000000000001 ; C 1 ; C 1 G ; C 1 R P D 300 A 1 300 2 7 6 0 2 i16 5 8 18 0 4 ip hex 0a000001 ; X - C 1 ; C 0 ; C 1 ;".
Example C09_general_nonvacuous :
  match parse_gcase (tokens c09_gcase) with
  | Some c => let m := gmodel cur c in
              c09_wf c (fst m) && C09_holds_on c m &&
              list_eqb String.eqb (map (fun o => match o with GOSend s => show_sres (so_res s) | GORefresh _ _ => "f"%string | GOReconn _ => "x"%string end) (fst m))
                       ["r=ok:32"; "r=err:encode"; "r=err:encode"; "r=err:encode"; "r=ok:26"; "x"; "r=err:notemplate"; "r=ok:32"; "r=ok:26"]%string
  | None => false
  end = true.
Proof. vm_compute. reflexivity. Qed.
