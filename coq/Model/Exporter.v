(* The exporting process (pkg/exporter/process.go): SendSet, dataRecSanityCheck, updateTemplate,
   createAndSendIPFIXMsg. State: observation domain, sequence counter (uint32), the templates
   map. The JSON mode is not modelled. [fixes] selects, per known defect, the behaviour of the
   code before / after its repair, so that the refutation witnesses can be stated on the
   faithful model of the unrepaired code; [cur] is the code as it is now. *)
From Coq Require Import List Bool Arith NArith ZArith Lia String.
From Coq.Strings Require Import Byte.
From Verif.Base Require Import Bytes Outcome.
From Verif.Gen Require Import Consts.
From Verif.Model Require Import IE Codec Record SetB Msg.
Import ListNotations.
Local Open Scope N_scope.
Local Notation length := List.length.

Record fixes := mkFixes {
  fx_encode : bool;    (* F6: a record whose encoding logged an error is refused *)
  fx_register : bool;  (* F7: templates are registered after a successful send, not before *)
  fx_setid : bool;     (* F12: a data record's template id must equal the set header id *)
  fx_reclen : bool;    (* a data record whose encoded fields do not fill its recorded length (the value of
                          a variable-length element became shorter after the add) counts as an encode error *)
  fx_zerolen : bool    (* a data record of length 0 is encoded (and its values checked) like any other *)
}.
Definition orig : fixes := mkFixes false false false false false.
Definition cur : fixes := mkFixes true true true true true.

Definition tmap := list (N * (list ie * N)).
Record exp := mkExp { x_obs : N; x_seq : N; x_tpls : tmap; x_udp : bool }.

Definition lookup_tpl (m : tmap) (id : N) : option (list ie * N) :=
  match find (fun p => N.eqb (fst p) id) m with Some p => Some (snd p) | None => None end.

(* updateTemplate: the first registration of an id wins *)
Definition update_template (m : tmap) (id : N) (els : list (ie * value)) (minlen : N) : tmap :=
  match lookup_tpl m id with
  | Some _ => m
  | None => (id, (map fst els, minlen)) :: m
  end.

(* dataRecSanityCheck *)
Definition sanity (fx : fixes) (m : tmap) (r : rec) : outcome unit :=
  match lookup_tpl m (rec_tid r) with
  | None => Err ErrNoTemplate
  | Some (ies, minlen) =>
      if negb (N.eqb (rec_fc r) (u16 (N.of_nat (length ies)))) then Err ErrSanity
      else
        do (b, nerr) <- rec_buffer_e_g (fx_zerolen fx) (fx_reclen fx) r;
        if blen b <? minlen then Err ErrSanity
        else if fx_encode fx && negb (Nat.eqb nerr 0) then Err ErrEncode
        else Ok tt
  end.

(* registration of every record of a template set, in order. GetMinDataRecordLen on a data
   record is a nil-interface call: panic (with the earlier records already registered) *)
Fixpoint register_all (m : tmap) (rs : list rec) : tmap * outcome unit :=
  match rs with
  | [] => (m, Ok tt)
  | r :: rest =>
      match rec_minlen r with
      | Ok ml => register_all (update_template m (rec_tid r) (rec_els r) ml) rest
      | Err k => (m, Err k) | Panic => (m, Panic) | OutOfFuel => (m, OutOfFuel)
      end
  end.

(* the per-record checks of a data set, in order; stops at the first failure.
   ErrField stands for "record template id differs from the set id" *)
Fixpoint check_all (fx : fixes) (m : tmap) (setid : N) (rs : list rec) : outcome unit :=
  match rs with
  | [] => Ok tt
  | r :: rest =>
      if fx_setid fx && negb (N.eqb (rec_tid r) setid) then Err ErrField
      else do _ <- sanity fx m r; check_all fx m setid rest
  end.

(* dataSetSanityCheck (the id in the set header must be a registered template), then the
   records. Before the F12 repair there was no check of the set header at all. *)
Definition check_set (fx : fixes) (m : tmap) (s : setb) : outcome unit :=
  if fx_setid fx then
    if Nat.ltb (length (s_hdr s)) 4 then Err ErrSanity
    else match lookup_tpl m (hdr_id s) with
         | None => Err ErrNoTemplate
         | Some _ => check_all fx m (hdr_id s) (s_recs s)
         end
  else check_all fx m (hdr_id s) (s_recs s).

(* largest UDP payload the loopback interface accepts in one datagram (IPv4): a larger Write
   fails with EMSGSIZE and nothing is sent. Kernel fact, measured by the harness. *)
Definition max_udp_payload : N := 65507.
Definition write_ok (udp : bool) (bytes : list byte) : bool :=
  if udp then blen bytes <=? max_udp_payload else true.

Definition with_seq (st : exp) (q : N) : exp := mkExp (x_obs st) q (x_tpls st) (x_udp st).
Definition with_tpls (st : exp) (m : tmap) : exp := mkExp (x_obs st) (x_seq st) m (x_udp st).

(* result of one SendSet call: new state, return value (bytes sent or error), what was written
   to the connection (ghost) *)
Record sent := mkSent { r_st : exp; r_res : outcome N; r_wire : option (list byte) }.

(* ErrOther stands for a failed Write *)
Definition send_set (fx : fixes) (st : exp) (s : setb) (t : N) : sent :=
  match s_type s with
  | SUndefined => mkSent st (Err ErrSetType) None
  | ty =>
      (* the loop over the records *)
      let '(st1, pre) :=
        match ty with
        | STemplate =>
            if fx_register fx then (st, Ok tt)
            else let '(m, o) := register_all (x_tpls st) (s_recs s) in (with_tpls st m, o)
        | _ => (st, check_set fx (x_tpls st) s)
        end in
      match pre with
      | Ok _ =>
          let s' := fst (step s OUpdLen) in
          (* createAndSendIPFIXMsg: the counter moves before the message is built *)
          let q := match ty with
                   | SData => u32 (x_seq st1 + u32 (N.of_nat (length (s_rrecs s))))
                   | _ => x_seq st1
                   end in
          let st2 := with_seq st1 q in
          match create_msg s' (x_obs st2) q t with
          | Ok bytes =>
              if write_ok (x_udp st2) bytes then
                match ty with
                | STemplate =>
                    if fx_register fx then
                      let '(m, o) := register_all (x_tpls st2) (s_recs s) in
                      match o with
                      | Ok _ => mkSent (with_tpls st2 m) (Ok (blen bytes)) (Some bytes)
                      | Err k => mkSent (with_tpls st2 m) (Err k) (Some bytes)
                      | Panic => mkSent (with_tpls st2 m) Panic (Some bytes)
                      | OutOfFuel => mkSent (with_tpls st2 m) OutOfFuel (Some bytes)
                      end
                    else mkSent st2 (Ok (blen bytes)) (Some bytes)
                | _ => mkSent st2 (Ok (blen bytes)) (Some bytes)
                end
              else mkSent st2 (Err ErrOther) None
          | Err k => mkSent st2 (Err k) None
          | Panic => mkSent st2 Panic None
          | OutOfFuel => mkSent st2 OutOfFuel None
          end
      | Err k => mkSent st1 (Err k) None
      | Panic => mkSent st1 Panic None
      | OutOfFuel => mkSent st1 OutOfFuel None
      end
  end.

(* a history: each event builds a set with builder operations and sends it at time t *)
Definition event := (list op * N)%type.
Definition set_of (ops : list op) : setb := run new_set ops.

Fixpoint run_hist (fx : fixes) (st : exp) (h : list event) : list sent :=
  match h with
  | [] => []
  | (ops, t) :: r =>
      let x := send_set fx st (set_of ops) t in
      x :: run_hist fx (r_st x) r
  end.

Definition final_state (st : exp) (xs : list sent) : exp :=
  match rev xs with x :: _ => r_st x | [] => st end.

(* ---- what a SendSet call leaves behind on the set object (sets are reused) ---- *)
(* UpdateLenInHeader is reached unless the type is undefined or a data-set check failed *)
Definition set_after_send (fx : fixes) (st : exp) (s : setb) : setb :=
  match s_type s with
  | SUndefined => s
  | STemplate =>
      if fx_register fx then fst (step s OUpdLen)
      else match snd (register_all (x_tpls st) (s_recs s)) with
           | Ok _ => fst (step s OUpdLen)
           | _ => s
           end
  | SData =>
      match check_set fx (x_tpls st) s with
      | Ok _ => fst (step s OUpdLen)
      | _ => s
      end
  end.

(* The number of leading records (Go order) on which GetBuffer ran during the call: a data
   record caches its buffer then (len(d.buffer) == d.len), so that later changes of its
   element objects no longer reach the wire. The sanity loop stops at the first record that
   fails; CreateIPFIXMsg encodes every record unless the size test fails first. *)
Fixpoint touched_data (fx : fixes) (m : tmap) (setid : N) (rs : list rec) : nat * bool :=
  match rs with
  | [] => (0%nat, true)
  | r :: rest =>
      if fx_setid fx && negb (N.eqb (rec_tid r) setid) then (0%nat, false)
      else match lookup_tpl m (rec_tid r) with
           | None => (0%nat, false)
           | Some (ies, _) =>
               if negb (N.eqb (rec_fc r) (u16 (N.of_nat (length ies)))) then (0%nat, false)
               else match sanity fx m r with
                    | Ok _ => let '(n, ok) := touched_data fx m setid rest in (S n, ok)
                    | _ => (1%nat, false)
                    end
           end
  end.
Definition touched (fx : fixes) (st : exp) (s : setb) : nat :=
  match s_type s with
  | SUndefined => 0%nat
  | STemplate =>
      if max_msg <? msg_hdr_len + s_len s then 0%nat else length (s_rrecs s)
  | SData =>
      if fx_setid fx && (Nat.ltb (length (s_hdr s)) 4 || match lookup_tpl (x_tpls st) (hdr_id s) with None => true | Some _ => false end)
      then 0%nat
      else
        let '(n, ok) := touched_data fx (x_tpls st) (hdr_id s) (s_recs s) in
        if ok then (if max_msg <? msg_hdr_len + s_len s then n else length (s_rrecs s)) else n
  end.

(* ---- template refresh (UDP): sendRefreshedTemplates ---- *)
(* entities.MakeTemplateSet(id, ies): NewSet, PrepareSet(Template, id), one zero-valued element
   per information element (DecodeAndCreateInfoElementWithValue(ie, nil): fails for the types
   the library cannot decode), AddRecord *)
Fixpoint zero_els (ies : list ie) : outcome (list (ie * value)) :=
  match ies with
  | [] => Ok []
  | e :: r => do v <- zero_value (ie_dt e); do t <- zero_els r; Ok ((e, v) :: t)
  end.
Definition make_template_set (id : N) (ies : list ie) : outcome setb :=
  let p := step new_set (OPrepare STemplate id) in
  do _ <- snd p;
  do els <- zero_els ies;
  let a := step (fst p) (OAdd FV1 els id) in
  do _ <- snd a;
  Ok (fst a).

(* one set per registered template. The code ranges over a Go map (random order): the model
   takes the order of its association list; [refresh_messages] (Proofs/Refresh_lemmas.v) shows
   that each message depends only on its own template, so the order only permutes them *)
Fixpoint make_sets (m : tmap) : outcome (list setb) :=
  match m with
  | [] => Ok []
  | (id, (ies, _)) :: r => do s <- make_template_set id ies; do t <- make_sets r; Ok (s :: t)
  end.
(* the sets are sent through SendSet one after the other; the first failure ends the refresh
   (and the goroutine closes the connection) *)
Fixpoint send_all (fx : fixes) (st : exp) (ss : list setb) (t : N) : list sent :=
  match ss with
  | [] => []
  | s :: r =>
      let x := send_set fx st s t in
      match r_res x with
      | Ok _ => x :: send_all fx (r_st x) r t
      | _ => [x]
      end
  end.
(* a failing MakeTemplateSet returns before anything is sent *)
Definition refresh (fx : fixes) (st : exp) (t : N) : outcome (list sent) :=
  do ss <- make_sets (x_tpls st); Ok (send_all fx st ss t).
