(* An independent reading of RFC 7011 (sections 3.1 message header, 3.3 set header, 3.2 field
   specifier, 3.4.1 template record, 3.4.3 data record, 6.1 encodings, 7 variable-length
   elements) as a parser for the one-set messages this exporter emits. Shares nothing with
   Model/Codec.v or the exporter model: only [be]/[bed]/[b2n] from Base/Bytes.v and the element
   / value types of Model/IE.v (as the vocabulary the expectation is phrased in). *)
From Coq Require Import List Bool Arith NArith ZArith Lia String.
From Coq.Strings Require Import Byte.
From Verif.Base Require Import Bytes.
From Verif.Model Require Import IE.
Import ListNotations.
Local Open Scope N_scope.
Local Notation length := List.length.

Definition obnd {A B} (o : option A) (f : A -> option B) : option B :=
  match o with Some a => f a | None => None end.
Notation "'let?' x := o 'in' f" := (obnd o (fun x => f)) (at level 200, x pattern, o at level 100, f at level 200).

(* the next n octets *)
Fixpoint rtake (n : nat) (l : list byte) : option (list byte * list byte) :=
  match n with
  | O => Some ([], l)
  | S n' => match l with
            | [] => None
            | b :: r => match rtake n' r with Some (a, rest) => Some (b :: a, rest) | None => None end
            end
  end.
(* an unsigned integer of k octets in network byte order *)
Definition ru (k : nat) (l : list byte) : option (N * list byte) :=
  match rtake k l with Some (a, r) => Some (bed a, r) | None => None end.

(* 3.2 field specifier: E bit, 15-bit element id, length, enterprise number iff E *)
Record fspec := mkFS { fs_ebit : bool; fs_id : N; fs_len : N; fs_pen : option N }.
Definition parse_fspec (l : list byte) : option (fspec * list byte) :=
  let? (x, r1) := ru 2 l in
  let? (ln, r2) := ru 2 r1 in
  if x <? 32768 then Some (mkFS false x ln None, r2)
  else let? (pen, r3) := ru 4 r2 in Some (mkFS true (x - 32768) ln (Some pen), r3).

Fixpoint parse_fspecs (n : nat) (l : list byte) : option (list fspec * list byte) :=
  match n with
  | O => Some ([], l)
  | S n' =>
      let? (f, r) := parse_fspec l in
      let? (fs, r') := parse_fspecs n' r in
      Some (f :: fs, r')
  end.

(* 3.4.1 template record: template id (>= 256), field count, the specifiers *)
Definition parse_trec (l : list byte) : option ((N * list fspec) * list byte) :=
  let? (tid, r1) := ru 2 l in
  let? (cnt, r2) := ru 2 r1 in
  if tid <? 256 then None
  else let? (fs, r3) := parse_fspecs (N.to_nat cnt) r2 in Some ((tid, fs), r3).

Fixpoint parse_trecs (fuel : nat) (l : list byte) : option (list (N * list fspec)) :=
  match fuel with
  | O => None
  | S f =>
      match l with
      | [] => Some []
      | _ => let? (t, r) := parse_trec l in
             let? ts := parse_trecs f r in Some (t :: ts)
      end
  end.

(* 7: a variable-length element carries its length in one octet, or 255 and two octets *)
Definition parse_field (w : N) (l : list byte) : option (list byte * list byte) :=
  if N.eqb w 65535 then
    let? (n1, r) := ru 1 l in
    if n1 <? 255 then rtake (N.to_nat n1) r
    else let? (n2, r2) := ru 2 r in rtake (N.to_nat n2) r2
  else rtake (N.to_nat w) l.

Fixpoint parse_drec (ws : list N) (l : list byte) : option (list (list byte) * list byte) :=
  match ws with
  | [] => Some ([], l)
  | w :: ws' =>
      let? (f, r) := parse_field w l in
      let? (fs, r') := parse_drec ws' r in
      Some (f :: fs, r')
  end.

Fixpoint parse_drecs (fuel : nat) (ws : list N) (l : list byte) : option (list (list (list byte))) :=
  match fuel with
  | O => None
  | S f =>
      match l with
      | [] => Some []
      | _ => let? (d, r) := parse_drec ws l in
             let? ds := parse_drecs f ws r in Some (d :: ds)
      end
  end.

Inductive wire_body :=
| WTemplates (l : list (N * list fspec))
| WData (l : list (list (list byte))).

Record wire_msg := mkWM { wm_version : N; wm_length : N; wm_time : N; wm_seq : N; wm_obs : N;
                          wm_setid : N; wm_setlen : N; wm_body : wire_body }.

(* 3.1 + 3.3: version 10, the length field is the number of octets of the message, exactly one
   set whose length covers the rest; set id 2 = template set, >= 256 = data set described by
   the template [widths id] (field lengths, 65535 = variable); everything else is refused *)
Definition rfc_parse (widths : N -> option (list N)) (bytes : list byte) : option wire_msg :=
  let? (ver, r1) := ru 2 bytes in
  let? (len, r2) := ru 2 r1 in
  let? (tm, r3) := ru 4 r2 in
  let? (sq, r4) := ru 4 r3 in
  let? (ob, r5) := ru 4 r4 in
  let? (sid, r6) := ru 2 r5 in
  let? (sln, body) := ru 2 r6 in
  if negb (N.eqb ver 10) then None
  else if negb (N.eqb len (N.of_nat (length bytes))) then None
  else if negb (N.eqb (sln + 16) len) then None
  else if N.eqb sid 2 then
    let? ts := parse_trecs (S (length body)) body in
    Some (mkWM ver len tm sq ob sid sln (WTemplates ts))
  else if 256 <=? sid then
    let? ws := widths sid in
    let? ds := parse_drecs (S (length body)) ws body in
    Some (mkWM ver len tm sq ob sid sln (WData ds))
  else None.

(* ---- 6.1: the octets of a value of each abstract data type ---- *)
Definition rfc_uint (k : nat) (n : N) : option (list byte) :=
  if n <? 256 ^ N.of_nat k then Some (be k n) else None.
Definition rfc_sint (k : nat) (z : Z) : option (list byte) :=
  let m := (256 ^ Z.of_nat k)%Z in
  if ((- (m / 2) <=? z) && (z <? m / 2))%Z
  then Some (be k (Z.to_N (if (0 <=? z)%Z then z else m + z)%Z))
  else None.

(* an IPv4 address given as 4 octets, or as the 16-octet IPv4-mapped IPv6 form ::ffff:a.b.c.d *)
Definition rfc_v4 (a : list byte) : option (list byte) :=
  match a with
  | [_; _; _; _] => Some a
  | [z0; z1; z2; z3; z4; z5; z6; z7; z8; z9; f0; f1; a0; a1; a2; a3] =>
      if N.eqb (bed [z0; z1; z2; z3; z4; z5; z6; z7; z8; z9]) 0 && N.eqb (bed [f0; f1]) 65535
      then Some [a0; a1; a2; a3] else None
  | _ => None
  end.
Definition rfc_v6 (a : list byte) : option (list byte) :=
  match a with
  | [a0; a1; a2; a3] => Some [x00; x00; x00; x00; x00; x00; x00; x00; x00; x00; xff; xff; a0; a1; a2; a3]
  | _ => if Nat.eqb (length a) 16 then Some a else None
  end.

(* the content octets of a field (without the variable-length prefix); None = the value is
   not a value of the element's type / length *)
Definition rfc_value (e : ie) (v : value) : option (list byte) :=
  match ie_dt e, v with
  | Unsigned8, VU8 n => rfc_uint 1 n
  | Unsigned16, VU16 n => rfc_uint 2 n
  | Unsigned32, VU32 n => rfc_uint 4 n
  | Unsigned64, VU64 n => rfc_uint 8 n
  | Signed8, VI8 z => rfc_sint 1 z
  | Signed16, VI16 z => rfc_sint 2 z
  | Signed32, VI32 z => rfc_sint 4 z
  | Signed64, VI64 z => rfc_sint 8 z
  | Float32, VF32 bits => rfc_uint 4 bits
  | Float64, VF64 bits => rfc_uint 8 bits
  | Boolean, VBool b => Some [if b then x01 else x02]
  | MacAddress, VMac (Some m) => if Nat.eqb (length m) 6 then Some m else None
  | String_, VStr s => if N.of_nat (length s) <=? 65535 then Some s else None
  | OctetArray, VOct o =>
      let b := match o with Some b => b | None => [] end in
      if N.eqb (ie_len e) 65535 then (if N.of_nat (length b) <=? 65535 then Some b else None)
      else if N.eqb (N.of_nat (length b)) (ie_len e) then Some b else None
  | DateTimeSeconds, VDts n => rfc_uint 4 n
  | DateTimeMilliseconds, VDtms n => rfc_uint 8 n
  | Ipv4Address, VIP (Some a) => rfc_v4 a
  | Ipv6Address, VIP (Some a) => rfc_v6 a
  | _, _ => None
  end.

(* 7: what precedes the content octets of a field in a data record whose template gives the
   element the width [w]: nothing for a fixed width; for the variable-length width 65535 the
   content length in one octet when it is below 255, otherwise 255 followed by the length in
   two octets *)
Definition rfc_prefix (w : N) (c : list byte) : list byte :=
  if N.eqb w 65535 then
    if Nat.ltb (length c) 255 then [n2b (N.of_nat (length c))]
    else xff :: be 2 (N.of_nat (length c))
  else [].
(* the content fits the width: exactly [w] octets, or at most 65535 for a variable-length one *)
Definition field_fits (w : N) (c : list byte) : Prop :=
  (w = 65535 -> N.of_nat (length c) <= 65535) /\ (w <> 65535 -> N.of_nat (length c) = w).
(* a data record on the wire: every field's prefix and content octets, in template order *)
Definition rfc_field (w : N) (c : list byte) : list byte := rfc_prefix w c ++ c.

(* 6.1 / 6.2: the width a template gives an element of each abstract data type (no
   reduced-size encoding: the exporter never uses it); octet arrays have any fixed width or
   are variable-length, strings are variable-length *)
Definition rfc_width_ok (e : ie) : bool :=
  match ie_dt e with
  | Unsigned8 | Signed8 | Boolean => N.eqb (ie_len e) 1
  | Unsigned16 | Signed16 => N.eqb (ie_len e) 2
  | Unsigned32 | Signed32 | Float32 | DateTimeSeconds | Ipv4Address => N.eqb (ie_len e) 4
  | Unsigned64 | Signed64 | Float64 | DateTimeMilliseconds => N.eqb (ie_len e) 8
  | MacAddress => N.eqb (ie_len e) 6
  | Ipv6Address => N.eqb (ie_len e) 16
  | String_ => N.eqb (ie_len e) 65535
  | OctetArray => ie_len e <=? 65535
  | _ => false
  end.

(* the field specifier RFC 7011 prescribes for an element *)
Definition rfc_fspec (e : ie) : fspec :=
  if N.eqb (ie_ent e) 0 then mkFS false (ie_id e) (ie_len e) None
  else mkFS true (ie_id e) (ie_len e) (Some (ie_ent e)).

Fixpoint opt_all {A} (l : list (option A)) : option (list A) :=
  match l with
  | [] => Some []
  | Some a :: r => match opt_all r with Some t => Some (a :: t) | None => None end
  | None :: _ => None
  end.
