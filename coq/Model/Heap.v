(* EXACT model of the expiry priority queue: Go's container/heap
   (/usr/lib/go-1.23/src/container/heap/heap.go: Init, Push, Pop, Remove, Fix, up, down),
   instantiated with pkg/intermediate/priorityqueue.go (TimeToExpirePriorityQueue: Len,
   minExpireTime, Less, Swap, Push, Pop, Peek, Update), line by line.

   The slice []*ItemToExpire is a list of items in ARRAY ORDER; slice positions are nat; the
   item's [index] field is a Z (Pop stores -1). Items are pointers in Go: an item is in the
   slice at most once and is identified here by its flow key (one item per flow).
   [Panic] = Go run-time panic (index out of range). Loops run on fuel ([OutOfFuel] is proved
   unreachable with the fuel given by the callers, Proofs/Heap_lemmas.v). *)
From Coq Require Import List Bool Arith NArith ZArith.
From Verif.Base Require Import Outcome.
From Verif.Model Require Import KMap Pq.
Import ListNotations.
Local Open Scope Z_scope.

(* type ItemToExpire struct { flowKey; flowRecord; activeExpireTime; inactiveExpireTime; index } *)
Record hitem := mkH { h_key : key; h_act : Z; h_inact : Z; h_idx : Z }.
Definition heap := list hitem.

Definition h_set_idx (x : hitem) (i : Z) : hitem := mkH (h_key x) (h_act x) (h_inact x) i.
Definition h_set_times (x : hitem) (a i : Z) : hitem := mkH (h_key x) a i (h_idx x).
(* the item as the abstract queue of Model/Pq.v sees it *)
Definition h_data (x : hitem) : item := (h_key x, (h_act x, h_inact x)).
(* if activeExpireTime.Before(inactiveExpireTime) { return active } else { return inactive } *)
Definition h_min (x : hitem) : Z := if h_act x <? h_inact x then h_act x else h_inact x.

(* pq[i] = x (in place; never called out of range) *)
Fixpoint set_nth {A} (n : nat) (x : A) (l : list A) : list A :=
  match l, n with
  | [], _ => []
  | _ :: r, O => x :: r
  | y :: r, S m => y :: set_nth m x r
  end.

(* ---- priorityqueue.go ---- *)
(* func (pq) Len() int *)
Definition pq_Len (h : heap) : nat := List.length h.

(* func (pq) minExpireTime(i int) time.Time *)
Definition pq_minExpireTime (h : heap) (i : nat) : outcome Z :=
  match nth_error h i with Some x => Ok (h_min x) | None => Panic end.

(* func (pq) Less(i, j int) bool { return pq.minExpireTime(i).Before(pq.minExpireTime(j)) } *)
Definition pq_Less (h : heap) (i j : nat) : outcome bool :=
  do a <- pq_minExpireTime h i;
  do b <- pq_minExpireTime h j;
  Ok (a <? b).

(* func (pq) Swap(i, j int) { pq[i], pq[j] = pq[j], pq[i]; pq[i].index = i; pq[j].index = j } *)
Definition pq_Swap (h : heap) (i j : nat) : outcome heap :=
  match nth_error h i, nth_error h j with
  | Some a, Some b =>
      Ok (set_nth j (h_set_idx a (Z.of_nat j)) (set_nth i (h_set_idx b (Z.of_nat i)) h))
  | _, _ => Panic
  end.

(* func (pq ptr) Push(x) { n := len(pq); item.index = n; pq = append(pq, item) } *)
Definition pq_Push (h : heap) (x : hitem) : heap := h ++ [h_set_idx x (Z.of_nat (List.length h))].

(* func (pq ptr) Pop() { n := len(pq); item := pq[n-1]; item.index = -1; pq = pq[0:n-1]; return item } *)
Definition pq_Pop (h : heap) : outcome (hitem * heap) :=
  match List.length h with
  | O => Panic
  | S m => match nth_error h m with
           | Some x => Ok (h_set_idx x (-1), firstn m h)
           | None => Panic
           end
  end.

(* func (pq) Peek() *ItemToExpire { return pq[0] } *)
Definition pq_Peek (h : heap) : outcome hitem :=
  match h with x :: _ => Ok x | [] => Panic end.

(* ---- container/heap ---- *)
(* func up(h, j) { for { i := (j - 1) / 2; if i == j || !h.Less(j, i) { break }; h.Swap(i, j); j = i } }
   (Go's (0-1)/2 = 0 by truncation, as is nat's (0-1)/2) *)
Fixpoint hp_up (fuel : nat) (h : heap) (j : nat) : outcome heap :=
  match fuel with
  | O => OutOfFuel
  | S f =>
      let i := ((j - 1) / 2)%nat in
      if Nat.eqb i j then Ok h
      else
        do lt <- pq_Less h j i;
        if negb lt then Ok h
        else do h' <- pq_Swap h i j; hp_up f h' i
  end.

(* func down(h, i0, n) bool {
     i := i0
     for { j1 := 2*i + 1; if j1 >= n || j1 < 0 { break }
           j := j1; if j2 := j1 + 1; j2 < n && h.Less(j2, j1) { j = j2 }
           if !h.Less(j, i) { break }
           h.Swap(i, j); i = j }
     return i > i0 }
   the loop returns the heap and the final i *)
Fixpoint hp_down_loop (fuel : nat) (h : heap) (i n : nat) : outcome (heap * nat) :=
  match fuel with
  | O => OutOfFuel
  | S f =>
      let j1 := (2 * i + 1)%nat in
      if (n <=? j1)%nat then Ok (h, i)
      else
        do lt21 <- (if (j1 + 1 <? n)%nat then pq_Less h (j1 + 1) j1 else Ok false);
        let j := if lt21 then (j1 + 1)%nat else j1 in
        do lt <- pq_Less h j i;
        if negb lt then Ok (h, i)
        else do h' <- pq_Swap h i j; hp_down_loop f h' j n
  end.

Definition hp_down (h : heap) (i0 n : nat) : outcome (heap * bool) :=
  do r <- hp_down_loop (S n) h i0 n;
  Ok (fst r, (i0 <? snd r)%nat).

(* func Init(h) { n := h.Len(); for i := n/2 - 1; i >= 0; i-- { down(h, i, n) } } *)
Fixpoint hp_init_loop (cnt : nat) (h : heap) (n : nat) : outcome heap :=
  match cnt with
  | O => Ok h
  | S i => do r <- hp_down h i n; hp_init_loop i (fst r) n
  end.
Definition heap_Init (h : heap) : outcome heap := hp_init_loop (pq_Len h / 2) h (pq_Len h).

(* func Push(h, x) { h.Push(x); up(h, h.Len()-1) } *)
Definition heap_Push (h : heap) (x : hitem) : outcome heap :=
  let h' := pq_Push h x in
  hp_up (pq_Len h') h' (pq_Len h' - 1).

(* func Pop(h) any { n := h.Len() - 1; h.Swap(0, n); down(h, 0, n); return h.Pop() }
   (on an empty heap n = -1 and Swap(0, -1) panics) *)
Definition heap_Pop (h : heap) : outcome (hitem * heap) :=
  match pq_Len h with
  | O => Panic
  | S n =>
      do h1 <- pq_Swap h 0 n;
      do r <- hp_down h1 0 n;
      pq_Pop (fst r)
  end.

(* func Remove(h, i) any { n := h.Len() - 1; if n != i { h.Swap(i, n); if !down(h, i, n) { up(h, i) } }; return h.Pop() } *)
Definition heap_Remove (h : heap) (i : nat) : outcome (hitem * heap) :=
  match pq_Len h with
  | O => Panic        (* n = -1 != i: Swap(i, -1) panics *)
  | S n =>
      if Nat.eqb n i then pq_Pop h
      else
        do h1 <- pq_Swap h i n;
        do r <- hp_down h1 i n;
        do h2 <- (if snd r then Ok (fst r) else hp_up (S i) (fst r) i);
        pq_Pop h2
  end.

(* func Fix(h, i) { if !down(h, i, h.Len()) { up(h, i) } }    for i >= 0.
   For i >= Len(): down breaks at once (2i+1 >= n) and returns false; up computes the parent
   (i-1)/2 != i unless i = 0, and Less(i, parent) indexes pq[i]: run-time panic - except
   i = 0 = Len(), where up breaks on i == j: nothing happens. The functions below do exactly that. *)
Definition heap_Fix_nat (h : heap) (i : nat) : outcome heap :=
  do r <- hp_down h i (pq_Len h);
  if snd r then Ok (fst r) else hp_up (S i) (fst r) i.

(* Fix with Go's int index. Negative indices:
   i = -1 (a detached item, index set by Pop): down: j1 = 2*(-1)+1 = -1 < 0: break, returns
     false (i > i0 is false); up: (-1-1)/2 = -1 == j: break. Nothing happens.
   i <= -2: down: j1 < 0: break, false; up: parent (i-1)/2 (truncated) > i, so not equal, and
     Less(i, parent) indexes pq[i] with i < 0: run-time panic. *)
Definition heap_Fix (h : heap) (i : Z) : outcome heap :=
  if 0 <=? i then heap_Fix_nat h (Z.to_nat i)
  else if i =? -1 then Ok h
  else Panic.

(* position of the item of flow key k in the slice (pointer identity = flow key) *)
Fixpoint h_find (k : key) (h : heap) : option (nat * hitem) :=
  match h with
  | [] => None
  | x :: r => if N.eqb (h_key x) k then Some (O, x)
              else match h_find k r with Some (p, y) => Some (S p, y) | None => None end
  end.

(* func (pq ptr) Update(item, flowKey, flowRecord, active, inactive) {
     item.flowKey = ..; item.flowRecord = ..; item.activeExpireTime = active;
     item.inactiveExpireTime = inactive; heap.Fix(pq, item.index) }
   The item is the one of flow key k. When it is in the slice its fields change in place and
   Fix runs on ITS index field (which is its position when the index fields are consistent).
   When it is detached (popped, index -1; never the case when addOrUpdateRecordInMap runs after
   the repair of F4) only the detached item changes and Fix(pq, -1) does nothing. *)
Definition pq_Update (h : heap) (k : key) (a i : Z) : outcome heap :=
  match h_find k h with
  | Some (p, x) => heap_Fix (set_nth p (h_set_times x a i) h) (h_idx x)
  | None => heap_Fix h (-1)
  end.

(* item.activeExpireTime as read by the caller of Update *)
Definition pq_active_of (h : heap) (k : key) : option Z :=
  match h_find k h with Some (_, x) => Some (h_act x) | None => None end.
