(* Information elements, data types and values (pkg/entities/ie.go, ie_value.go). *)
From Coq Require Import List Bool Arith NArith ZArith Lia String.
From Coq.Strings Require Import Byte.
From Verif.Base Require Import Bytes Outcome.
From Verif.Gen Require Import Consts TypeLen.
Import ListNotations.
Local Open Scope N_scope.
Local Notation length := List.length.

Inductive dtype :=
| OctetArray | Unsigned8 | Unsigned16 | Unsigned32 | Unsigned64
| Signed8 | Signed16 | Signed32 | Signed64 | Float32 | Float64 | Boolean
| MacAddress | String_ | DateTimeSeconds | DateTimeMilliseconds
| DateTimeMicroseconds | DateTimeNanoseconds | Ipv4Address | Ipv6Address
| BasicList | SubTemplateList | SubTemplateMultiList | InvalidDataType.

Definition all_dtypes : list dtype :=
  [OctetArray; Unsigned8; Unsigned16; Unsigned32; Unsigned64; Signed8; Signed16; Signed32;
   Signed64; Float32; Float64; Boolean; MacAddress; String_; DateTimeSeconds;
   DateTimeMilliseconds; DateTimeMicroseconds; DateTimeNanoseconds; Ipv4Address; Ipv6Address;
   BasicList; SubTemplateList; SubTemplateMultiList; InvalidDataType].

Definition dtype_code (d : dtype) : N :=
  match d with
  | OctetArray => 0 | Unsigned8 => 1 | Unsigned16 => 2 | Unsigned32 => 3 | Unsigned64 => 4
  | Signed8 => 5 | Signed16 => 6 | Signed32 => 7 | Signed64 => 8 | Float32 => 9
  | Float64 => 10 | Boolean => 11 | MacAddress => 12 | String_ => 13 | DateTimeSeconds => 14
  | DateTimeMilliseconds => 15 | DateTimeMicroseconds => 16 | DateTimeNanoseconds => 17
  | Ipv4Address => 18 | Ipv6Address => 19 | BasicList => 20 | SubTemplateList => 21
  | SubTemplateMultiList => 22 | InvalidDataType => 255
  end.

(* Obligation on the regenerated constants (T2): the enum the model uses is the code's enum. *)
Example dtype_codes_match_source :
  map dtype_code all_dtypes =
  [c_entities_OctetArray; c_entities_Unsigned8; c_entities_Unsigned16; c_entities_Unsigned32;
   c_entities_Unsigned64; c_entities_Signed8; c_entities_Signed16; c_entities_Signed32;
   c_entities_Signed64; c_entities_Float32; c_entities_Float64; c_entities_Boolean;
   c_entities_MacAddress; c_entities_String; c_entities_DateTimeSeconds;
   c_entities_DateTimeMilliseconds; c_entities_DateTimeMicroseconds;
   c_entities_DateTimeNanoseconds; c_entities_Ipv4Address; c_entities_Ipv6Address;
   c_entities_BasicList; c_entities_SubTemplateList; c_entities_SubTemplateMultiList;
   c_entities_InvalidDataType].
Proof. reflexivity. Qed.

Definition dtype_of_code (c : N) : dtype :=
  match find (fun d => N.eqb (dtype_code d) c) all_dtypes with
  | Some d => d | None => InvalidDataType
  end.

Definition dtype_eqb (a b : dtype) : bool := N.eqb (dtype_code a) (dtype_code b).
Lemma dtype_eqb_eq a b : dtype_eqb a b = true <-> a = b.
Proof. unfold dtype_eqb. split; [|intros ->; apply N.eqb_refl].
  destruct a, b; cbn; intros H; try reflexivity; discriminate. Qed.

Definition var_len : N := 65535.
Example var_len_matches_source : var_len = c_entities_VariableLength.
Proof. reflexivity. Qed.

(* default length of a data type: entities.InfoElementLength (T3) *)
Definition type_len (d : dtype) : N :=
  match find (fun r => N.eqb (fst r) (dtype_code d)) typelen_rows with
  | Some r => snd r | None => 0
  end.
Example type_len_table :
  map type_len all_dtypes =
  [65535; 1; 2; 4; 8; 1; 2; 4; 8; 4; 8; 1; 6; 65535; 4; 8; 8; 8; 4; 16; 65535; 65535; 65535; 0].
Proof. reflexivity. Qed.

Record ie := mkIE { ie_name : string; ie_id : N; ie_dt : dtype; ie_ent : N; ie_len : N }.

(* The concrete Go element kinds (one constructor per *XxxInfoElement struct).
   None in VOct/VMac/VIP is the nil slice. Floats are their IEEE bit patterns. *)
Inductive value :=
| VOct (v : option (list byte))
| VU8 (n : N) | VU16 (n : N) | VU32 (n : N) | VU64 (n : N)
| VI8 (z : Z) | VI16 (z : Z) | VI32 (z : Z) | VI64 (z : Z)
| VF32 (bits : N) | VF64 (bits : N)
| VBool (b : bool)
| VMac (v : option (list byte))
| VStr (s : list byte)
| VDts (n : N) | VDtms (n : N)
| VIP (v : option (list byte)).

Definition obytes (o : option (list byte)) : list byte :=
  match o with Some l => l | None => [] end.

(* getters: the base implementation panics ("accessing value of wrong data type") *)
Definition get_oct (v : value) : outcome (list byte) := match v with VOct o => Ok (obytes o) | _ => Panic end.
Definition get_u8 (v : value) : outcome N := match v with VU8 n => Ok n | _ => Panic end.
Definition get_u16 (v : value) : outcome N := match v with VU16 n => Ok n | _ => Panic end.
Definition get_u32 (v : value) : outcome N := match v with VU32 n | VDts n => Ok n | _ => Panic end.
Definition get_u64 (v : value) : outcome N := match v with VU64 n | VDtms n => Ok n | _ => Panic end.
Definition get_i8 (v : value) : outcome Z := match v with VI8 n => Ok n | _ => Panic end.
Definition get_i16 (v : value) : outcome Z := match v with VI16 n => Ok n | _ => Panic end.
Definition get_i32 (v : value) : outcome Z := match v with VI32 n => Ok n | _ => Panic end.
Definition get_i64 (v : value) : outcome Z := match v with VI64 n => Ok n | _ => Panic end.
Definition get_f32 (v : value) : outcome N := match v with VF32 n => Ok n | _ => Panic end.
Definition get_f64 (v : value) : outcome N := match v with VF64 n => Ok n | _ => Panic end.
Definition get_bool (v : value) : outcome bool := match v with VBool b => Ok b | _ => Panic end.
Definition get_mac (v : value) : outcome (list byte) := match v with VMac o => Ok (obytes o) | _ => Panic end.
Definition get_str (v : value) : outcome (list byte) := match v with VStr s => Ok s | _ => Panic end.
Definition get_ip (v : value) : outcome (list byte) := match v with VIP o => Ok (obytes o) | _ => Panic end.

(* IsValueEmpty per concrete kind (floats: bits of +0.0 or -0.0 compare equal to 0) *)
Definition is_empty (v : value) : bool :=
  match v with
  | VOct o | VMac o | VIP o => match o with None => true | Some _ => false end
  | VU8 n | VU16 n | VU32 n | VU64 n | VDts n | VDtms n => N.eqb n 0
  | VI8 z | VI16 z | VI32 z | VI64 z => Z.eqb z 0
  | VF32 b => N.eqb b 0 || N.eqb b 2147483648
  | VF64 b => N.eqb b 0 || N.eqb b 9223372036854775808
  | VBool b => negb b
  | VStr s => match s with [] => true | _ => false end
  end.

(* net.IP.To4 / To16 on raw bytes *)
Definition v4_prefix : list byte := zeros 10 ++ [xff; xff].
Fixpoint bytes_eqb (a b : list byte) : bool :=
  match a, b with
  | [], [] => true
  | x :: a', y :: b' => N.eqb (b2n x) (b2n y) && bytes_eqb a' b'
  | _, _ => false
  end.
Definition to4 (ip : list byte) : option (list byte) :=
  if Nat.eqb (length ip) 4 then Some ip
  else if Nat.eqb (length ip) 16 && bytes_eqb (firstn 12 ip) v4_prefix then Some (skipn 12 ip)
  else None.
Definition to16 (ip : list byte) : option (list byte) :=
  if Nat.eqb (length ip) 4 then Some (v4_prefix ++ ip)
  else if Nat.eqb (length ip) 16 then Some ip
  else None.

(* two's complement *)
Definition enc_int (k : nat) (z : Z) : list byte := be k (Z.to_N (z mod 256 ^ Z.of_nat k)%Z).
Definition dec_int (l : list byte) : Z :=
  let n := Z.of_N (bed l) in
  let m := (256 ^ Z.of_nat (length l))%Z in
  if (n <? m / 2)%Z then n else (n - m)%Z.

(* DecodeAndCreateInfoElementWithValue(element, nil): the zero value of each kind *)
Definition zero_value (d : dtype) : outcome value :=
  match d with
  | OctetArray => Ok (VOct None)
  | Unsigned8 => Ok (VU8 0) | Unsigned16 => Ok (VU16 0) | Unsigned32 => Ok (VU32 0) | Unsigned64 => Ok (VU64 0)
  | Signed8 => Ok (VI8 0) | Signed16 => Ok (VI16 0) | Signed32 => Ok (VI32 0)
  | Signed64 => Ok (VI64 0)
  | Float32 => Ok (VF32 0) | Float64 => Ok (VF64 0)
  | Boolean => Ok (VBool false)
  | MacAddress => Ok (VMac None)
  | String_ => Ok (VStr [])
  | DateTimeSeconds => Ok (VDts 0) | DateTimeMilliseconds => Ok (VDtms 0)
  | Ipv4Address | Ipv6Address => Ok (VIP None)
  | DateTimeMicroseconds | DateTimeNanoseconds => Err ErrUnsupported
  | _ => Err ErrUnsupported
  end.
