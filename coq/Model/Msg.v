(* exporter.CreateIPFIXMsg (pkg/exporter/msg.go) and the message header setters
   (pkg/entities/message.go): size test against MaxSocketMsgSize, header fields at offsets
   0/2/4/8/12 with the Go integer conversions (uint16 / uint32), copy of the set header and
   of every record buffer into a zeroed slice of msgLen bytes. *)
From Coq Require Import List Bool Arith NArith ZArith Lia String.
From Coq.Strings Require Import Byte.
From Verif.Base Require Import Bytes Outcome.
From Verif.Gen Require Import Consts.
From Verif.Model Require Import IE Codec Record SetB.
Import ListNotations.
Local Open Scope N_scope.
Local Notation length := List.length.

Definition max_msg : N := 65535.
Definition msg_hdr_len : N := 16.
Example msg_consts_match_source :
  max_msg = c_entities_MaxSocketMsgSize /\ msg_hdr_len = c_entities_MsgHeaderLength.
Proof. split; reflexivity. Qed.

(* NewMessage(false) + SetVersion(10), SetObsDomainID, SetMessageLen(uint16(msgLen)),
   SetExportTime(uint32(t.Unix())), SetSequenceNum — each a PutUintNN at a fixed offset of the
   16-byte header *)
Definition msg_header (obs seq t msglen : N) : outcome (list byte) :=
  do h1 <- put_at (zeros (N.to_nat msg_hdr_len)) 0 (be 2 10);
  do h2 <- put_at h1 12 (be 4 obs);
  do h3 <- put_at h2 2 (be 2 msglen);
  do h4 <- put_at h3 4 (be 4 t);
  put_at h4 8 (be 4 seq).

(* copy(bytesSlice[index:index+len], record.GetBuffer()) into a still-zero region:
   the window receives min(len, |buf|) bytes of buf and keeps zeros after them *)
Definition window (len : nat) (buf : list byte) : list byte :=
  firstn len buf ++ zeros (len - length buf).

(* the record loop: [room] = len(bytesSlice) - index. Slicing beyond the slice panics. The
   bytes at and after index have not been written yet (zeros), so the result of the loop is the
   concatenation of the windows followed by the untouched zeros. *)
Fixpoint copy_records (rs : list rec) (room : N) : outcome (list (list byte) * N) :=
  match rs with
  | [] => Ok ([], room)
  | r :: rest =>
      let len := rec_len r in
      if room <? len then Panic
      else
        do b <- rec_buffer r;
        do (ws, lft) <- copy_records rest (room - len);
        Ok (window (N.to_nat len) b :: ws, lft)
  end.

Definition create_msg (s : setb) (obs seq t : N) : outcome (list byte) :=
  let msglen := msg_hdr_len + s_len s in
  if max_msg <? msglen then Err ErrTooBig
  else
    do h <- msg_header obs seq t msglen;
    (* bytesSlice[:16] and bytesSlice[16:20] must be within make([]byte, msgLen) *)
    if msglen <? msg_hdr_len + set_header_len then Panic
    else
      do (ws, lft) <- copy_records (s_recs s) (msglen - msg_hdr_len - set_header_len);
      Ok (window 16 h ++ window 4 (s_hdr s) ++ List.concat ws ++ zeros (N.to_nat lft)).
