(* Exporter histories at the level of the OBJECTS an application works with: set objects that are
   reused across SendSet calls (PrepareSet, AddRecord.., SendSet, ResetSet, PrepareSet, ... - or
   sent again without a reset), element objects (InfoElementWithValue) that are shared between
   the application and the records they were added to (AddRecord keeps the interface values,
   AddRecordV2 the slice: a SetXxxValue on an element object is seen by every record that holds
   it, until that record's GetBuffer has run and cached the bytes), and the template refresh of
   a UDP exporter. [Exporter.run_hist] (one fresh set per send, no sharing) is the special case
   in which every event opens a new set object and nothing is shared or changed.

   State per set object: the builder state (SetB.setb; the element lists of its records are the
   CURRENT values of the element objects, or - for a data record whose buffer is cached - the
   values at the time the buffer was made, which determine the cached bytes and the cached
   encode error) and, per record, which element objects it holds and whether its buffer is
   cached. *)
From Coq Require Import List Bool Arith NArith ZArith Lia String.
From Coq.Strings Require Import Byte.
From Verif.Base Require Import Bytes Outcome.
From Verif.Gen Require Import Consts.
From Verif.Model Require Import IE Codec Record SetB Msg Exporter.
Import ListNotations.
Local Open Scope N_scope.
Local Notation length := List.length.

(* per record (newest first, like s_rrecs): the pool entry of its element objects, if the
   history can refer to them, and "GetBuffer has run" *)
Definition rmeta := (option nat * bool)%type.
Record oset := mkO { o_set : setb; o_meta : list rmeta }.
Definition new_oset : oset := mkO new_set [].

(* exporter, set objects (in the order they were created), element objects (one entry per
   AddRecord call of the history that created fresh objects: their current values) *)
Record world := mkW { w_exp : exp; w_objs : list oset; w_pool : list (list (ie * value)) }.

Inductive gop :=
| GOp (o : op) (rep : nat)                  (* builder operation; an add makes fresh element objects (pool entry) *)
| GShared (f : addform) (tag : nat) (id : N) (* AddRecord*(the element objects of pool entry tag, id) *)
| GMut (tag j : nat) (v : value)             (* SetXxxValue(v) on element j of pool entry tag *)
| GBuf.                                      (* the application calls GetBuffer() on every record of the set *)

Inductive gevent :=
| GSend (obj : option nat) (ops : list gop) (t : N)  (* on a new set object / on object obj: ops, then SendSet at time t *)
| GRefresh (t : N)                                   (* the refresh ticker fires at time t *)
| GReconnect (q : N).  (* CloseConnToCollector, then a NEW exporting process for the same collector and
                          observation domain (counter set to q through the verif hook; 0 without it): the
                          application keeps its set and element objects *)

(* ---- one builder operation on a set object ---- *)
Definition obj_step (o : oset) (p : op) (tag : option nat) : oset :=
  let r := step (o_set o) p in
  match p with
  | OAdd _ _ _ =>
      match snd r with
      | Ok _ => mkO (fst r) ((tag, false) :: o_meta o)
      | _ => mkO (fst r) (o_meta o)
      end
  | OReset => mkO (fst r) []
  | _ => mkO (fst r) (o_meta o)
  end.
(* "N <count> A ..": the add is repeated with fresh element objects each time; the history can
   refer to those of the last repetition *)
Fixpoint obj_step_n (o : oset) (p : op) (tag : option nat) (n : nat) : oset :=
  match n with
  | O => o
  | S O => obj_step o p tag
  | S n' => obj_step_n (obj_step o p None) p tag n'
  end.

(* ---- a value of an element object changes ---- *)
Fixpoint mut_recs (tag j : nat) (v : value) (rs : list rec) (ms : list rmeta) : list rec :=
  match rs, ms with
  | r :: rs', (Some t, cached) :: ms' =>
      (if Nat.eqb t tag && (negb (rec_is_data r) || negb cached) then rec_set_val j v r else r)
      :: mut_recs tag j v rs' ms'
  | r :: rs', (None, _) :: ms' => r :: mut_recs tag j v rs' ms'
  | _, _ => rs
  end.
Definition mut_set (tag j : nat) (v : value) (o : oset) : oset :=
  let s := o_set o in
  mkO (mkSet (s_hdr s) (s_type s) (mut_recs tag j v (s_rrecs s) (o_meta o)) (s_len s)) (o_meta o).

Fixpoint upd_nth {A} (k : nat) (f : A -> A) (l : list A) : list A :=
  match l, k with
  | [], _ => []
  | x :: r, O => f x :: r
  | x :: r, S k' => x :: upd_nth k' f r
  end.

(* GetBuffer on every record: the buffers (and the encode errors) are cached from now on *)
Definition obj_getbuf (o : oset) : oset := mkO (o_set o) (map (fun m => (fst m, true)) (o_meta o)).

Definition with_objs (w : world) (l : list oset) : world := mkW (w_exp w) l (w_pool w).

(* one operation of an event that works on set object k *)
Definition apply_gop (w : world) (k : nat) (g : gop) : world :=
  match g with
  | GOp p rep =>
      match p with
      | OAdd _ els _ =>
          let tag := length (w_pool w) in
          mkW (w_exp w) (upd_nth k (fun o => obj_step_n o p (Some tag) (Nat.max rep 1)) (w_objs w))
              (w_pool w ++ [els])
      | _ => with_objs w (upd_nth k (fun o => obj_step o p None) (w_objs w))
      end
  | GShared f tag id =>
      match nth_error (w_pool w) tag with
      | Some els => with_objs w (upd_nth k (fun o => obj_step o (OAdd f els id) (Some tag)) (w_objs w))
      | None => w
      end
  | GMut tag j v =>
      mkW (w_exp w) (map (mut_set tag j v) (w_objs w)) (upd_nth tag (set_nth_val j v) (w_pool w))
  | GBuf => with_objs w (upd_nth k obj_getbuf (w_objs w))
  end.

(* ---- SendSet on a set object ---- *)
(* the n oldest records (the first n in Go order) have their buffers cached now *)
Definition mark_first (n : nat) (ms : list rmeta) : list rmeta :=
  map (fun m => (fst m, true)) (firstn n ms) ++ skipn n ms.
Definition freeze (n : nat) (ms : list rmeta) : list rmeta :=
  rev_append (mark_first n (rev_append ms [])) [].   (* rev, in linear time *)

Inductive gout :=
| OSent (st : exp) (s : setb) (t : N) (x : sent)           (* state before, the set as SendSet saw it, the call *)
| ORefresh (st : exp) (t : N) (r : outcome (list sent))
| OReconn (st : exp) (q : N).                               (* the state of the process that was closed *)

Definition last_state (st : exp) (xs : list sent) : exp :=
  match rev xs with x :: _ => r_st x | [] => st end.

Definition gstep (fx : fixes) (w : world) (e : gevent) : world * gout :=
  match e with
  | GSend obj ops t =>
      let '(w1, k) := match obj with
                      | None => (with_objs w (w_objs w ++ [new_oset]), length (w_objs w))
                      | Some k => (w, k)
                      end in
      let w2 := fold_left (fun w g => apply_gop w k g) ops w1 in
      let o := nth k (w_objs w2) new_oset in
      let st := w_exp w2 in
      let s := o_set o in
      let x := send_set fx st s t in
      let o' := mkO (set_after_send fx st s) (freeze (touched fx st s) (o_meta o)) in
      (mkW (r_st x) (upd_nth k (fun _ => o') (w_objs w2)) (w_pool w2), OSent st s t x)
  | GRefresh t =>
      let st := w_exp w in
      let r := if x_udp st then refresh fx st t else Ok [] in
      (mkW (match r with Ok xs => last_state st xs | _ => st end) (w_objs w) (w_pool w), ORefresh st t r)
  | GReconnect q =>
      let st := w_exp w in
      (* InitExportingProcess: sequence number 0 (then the hook), empty template map *)
      (mkW (mkExp (x_obs st) (u32 q) [] (x_udp st)) (w_objs w) (w_pool w), OReconn st q)
  end.

Fixpoint grun (fx : fixes) (w : world) (h : list gevent) : list gout :=
  match h with
  | [] => []
  | e :: r => let '(w', o) := gstep fx w e in o :: grun fx w' r
  end.
Fixpoint gfinal (fx : fixes) (w : world) (h : list gevent) : world :=
  match h with
  | [] => w
  | e :: r => gfinal fx (fst (gstep fx w e)) r
  end.

(* both at once (the driver runs a history once) *)
Fixpoint grun2 (fx : fixes) (w : world) (h : list gevent) : list gout * world :=
  match h with
  | [] => ([], w)
  | e :: r => let '(w', o) := gstep fx w e in let '(os, wf) := grun2 fx w' r in (o :: os, wf)
  end.
Lemma grun2_spec fx h : forall w, grun2 fx w h = (grun fx w h, gfinal fx w h).
Proof.
  induction h as [|e r IH]; intros w; [reflexivity|]. cbn [grun2 grun gfinal].
  destruct (gstep fx w e) as [w' o]. cbn [fst]. now rewrite IH.
Qed.

Definition init_world (st : exp) : world := mkW st [] [].

(* the histories of Exporter.run_hist: every event a new set object, plain builder operations *)
Definition plain_event (ev : event) : gevent := GSend None (map (fun o => GOp o 1) (fst ev)) (snd ev).
