(* Abstract model of pkg/intermediate/priorityqueue.go (TimeToExpirePriorityQueue driven by
   container/heap): a queue is a list of items (key, (active, inactive)) in no particular
   order; the heap order is abstracted to "Peek/Pop return SOME item whose minExpireTime is
   minimal". Which one is chosen by the caller ([pop_pick k]: the implementation's choice,
   checked to be minimal), so every statement proved over this model holds for every
   tie-breaking of the real heap. Times are Z nanoseconds from the virtual epoch. Flow keys
   are indices into the harness's pool of 5-tuples. *)
From Coq Require Import List Bool NArith ZArith Lia.
From Verif.Model Require Import KMap.
Import ListNotations.
Local Open Scope Z_scope.

Definition key := N.
Definition dl := (Z * Z)%type.             (* activeExpireTime, inactiveExpireTime *)
Definition item := (key * dl)%type.
Definition pq := kmap dl.

Definition it_key (it : item) : key := fst it.
Definition it_active (it : item) : Z := fst (snd it).
Definition it_inactive (it : item) : Z := snd (snd it).

(* minExpireTime: active if active.Before(inactive) else inactive *)
Definition dl_min (d : dl) : Z := if fst d <? snd d then fst d else snd d.
Definition deadline (it : item) : Z := dl_min (snd it).

(* no item sorts strictly before d (Less = minExpireTime(i).Before(minExpireTime(j))) *)
Definition is_min (d : dl) (q : pq) : bool :=
  forallb (fun x => negb (deadline x <? dl_min d)) q.

(* Peek followed by heap.Pop, the implementation having chosen the item of key k:
   None when that item is absent or is not minimal (then it is not a behaviour of any heap) *)
Definition pop_pick (k : key) (q : pq) : option (dl * pq) :=
  match km_find k q with
  | Some d => let r := km_remove k q in if is_min d r then Some (d, r) else None
  | None => None
  end.

(* heap.Push *)
Definition pq_push (k : key) (d : dl) (q : pq) : pq := km_push k d q.

(* pq.Update(item, key, record, item.active, inactive) + heap.Fix(pq, item.index); when the
   item is not in the queue (index -1) heap.Fix does nothing *)
Definition pq_set_inactive (k : key) (i : Z) (q : pq) : pq :=
  match km_find k q with
  | Some d => km_set k (fst d, i) q
  | None => q
  end.

(* minExpireTime(0): the deadline of the top item = the least deadline in the queue *)
Fixpoint min_deadline (q : pq) : option Z :=
  match q with
  | [] => None
  | it :: r => match min_deadline r with
               | None => Some (deadline it)
               | Some m => Some (Z.min (deadline it) m)
               end
  end.
