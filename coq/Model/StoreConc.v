(* StoreConc: CONCURRENT use of the standalone collector's store (cmd/collector/collector.go), C20.

   In the running program the three operations of Model/Store.v are not called from one thread:
   arrivals come from the message loop (`go signalHandler`), records queries and resets from the
   HTTP server's goroutines, any number at a time. What makes the sequential theorems of
   Props/C20.v apply is the lock discipline of the package-level `mutex`:

   1. the code side, regenerated on every run by tools/cmd/gensyntax/locks_cmdcollector.go into
      Gen/LocksCmdCollector.v: every access to `flowRecords` - INCLUDING accesses through a slice
      or pointer value derived from it, such as `records := flowRecords[n:]` used after an
      Unlock - is listed with the mutexes held at that point. `store_lock_discipline` (below,
      decided by vm_compute) demands: every row classified (a_known), lockset_ok for the thread
      assignment below, every access to flowRecords made with `mutex` held, and every function
      that takes the mutex does so in ONE critical section covering all its accesses to mutable
      state ("the operation body runs between acquire and release");
   2. the model side: the mutex machine of Model/Conc.v (any number of threads, programs of
      operations, each operation = invoke ; acquire ; its micro-steps ONE AT A TIME ; release =
      response, arbitrary schedules) instantiated with Store.step as the sequential
      specification. `go_micro` is the cut the Go code makes (the eviction is three separate
      writes: blank slot 0, re-slice, append); the theorems hold for every cut that composes to
      Store.step.

   Operations that return before taking the lock (wrong method, bad count / format) are modelled
   as critical sections with no micro-step: their result does not depend on the store. *)
From Coq Require Import List Bool Arith NArith String.
From Verif.Base Require Import Outcome.
From Verif.Model Require Import LockTab Conc Store.
From Verif.Gen Require Import LocksCmdCollector.
Import ListNotations.
Local Notation length := List.length.

(* ---- thread classes of cmd/collector's roots ----
   main (RApi) is one goroutine; a function whose value escapes (the handlers given to
   mux.HandleFunc) runs on any number of goroutines at once; every `go` statement of the package
   is executed once (run() is called once), one goroutine each; callbacks handed to other
   packages may run anywhere, any number of times. *)
Definition cc_thr (r : root) : nat :=
  match r with
  | RApi _ => 0
  | RFunc _ => 1
  | RGo n _ => 10 + n
  | RTimer n _ => 1000 + n
  | RCallback n _ => 2000 + n
  end.
Definition cc_multi (c : nat) : bool := Nat.eqb c 1 || Nat.leb 1000 c.

(* the rows of the store variable *)
Definition store_rows : list access :=
  filter (fun a => Nat.eqb (a_field a) cmdcollector_v_flowRecords) cmdcollector_accesses.

(* every acquisition of a function is its one whole-body critical section; a function that calls
   lock-taking functions without holding the lock (the message loop) touches no state itself *)
Definition cc_meth_ok (m : meth) : bool :=
  forallb (fun q => snd q && existsb (fun w => Nat.eqb (fst w) (fst (fst q)) && lmode_eqb (snd w) (snd (fst q))) (m_whole m)) (m_acq m)
  && (match m_composite m with [] => true | _ => negb (m_touches m) end).

Definition holds_w (mu : nat) (a : access) : bool :=
  existsb (fun l => Nat.eqb (fst l) mu && is_w (snd l)) (a_locks a).

Definition store_lock_discipline : bool :=
  lockset_ok cc_thr cc_multi cmdcollector_accesses
  && forallb (holds_w cmdcollector_v_mutex) store_rows
  && guarded_by cmdcollector_v_mutex store_rows
  && forallb cc_meth_ok cmdcollector_methods.

(* the table is about something: flowRecords is written and read, from at least three functions,
   by at least two thread classes one of which is multi-instance *)
Fixpoint dedup (l : list string) : list string :=
  match l with [] => [] | x :: r => if mem_str x r then dedup r else x :: dedup r end.
Definition store_table_nonvacuous : bool :=
  Nat.leb 3 (length (filter a_write store_rows))
  && Nat.leb 3 (length (filter (fun a => negb (a_write a)) store_rows))
  && Nat.leb 3 (length (dedup (map a_func store_rows)))
  && existsb (fun a => existsb (fun r => cc_multi (cc_thr r)) (a_roots a)) store_rows
  && existsb (fun a => existsb (fun r => negb (cc_multi (cc_thr r))) (a_roots a)) store_rows
  && Nat.leb 3 (length (filter (fun m => match m_acq m with [] => false | _ => true end) cmdcollector_methods)).

(* ---- the store as an instance of the mutex machine ---- *)
Inductive sresult :=
| SArrived (stored : bool)        (* addIPFIXMessage returned (false: it panicked while rendering) *)
| SAnswer (r : resp)              (* flowRecordHandler's response *)
| SResetStatus (code : N).        (* resetRecordHandler's status *)

Definition store_res (cap : nat) (e : event) (s : store) : sresult :=
  match e with
  | EArrive m => SArrived (snd (arrive cap s m))
  | EQuery meth c f => SAnswer (query s meth c f)
  | EReset meth => SResetStatus (snd (reset s meth))
  end.

(* the critical sections as the Go code cuts them: three separate writes at the cap *)
Definition go_micro (cap : nat) (e : event) : list (store -> store) :=
  match e with
  | EArrive m =>
      match render m with
      | Ok x => [ (fun s => if Nat.leb cap (length s) then match s with [] => s | _ :: t => ""%string :: t end else s);  (* flowRecords[0] = "" *)
                  (fun s => if Nat.leb cap (length s) then tl s else s);                                               (* flowRecords = flowRecords[1:] *)
                  (fun s => s ++ [x])%list ]                                                                           (* flowRecords = append(flowRecords, x) *)
      | _ => []
      end
  | EQuery _ _ _ => []
  | EReset meth => if String.eqb meth "POST" then [fun _ => []] else []
  end.

Section StoreInstance.
  Variable cap : nat.
  (* any decomposition of the critical sections into micro-steps that composes to Store.step *)
  Variable micro : event -> list (store -> store).

  Definition store_conc_run (progs : nat -> list event) (sched : list nat) :=
    Conc.run store event sresult micro (store_res cap) (Conc.init store event sresult progs []) sched.

  (* sequential execution, with Store.step, of operation instances in a given order *)
  Definition events_in (ops : list (opid event)) : list event := map op_of ops.
  Fixpoint store_seq_results (ops : list (opid event)) (s : store) : list (opid event * sresult) :=
    match ops with
    | [] => []
    | i :: r => (i, store_res cap (op_of i) s) :: store_seq_results r (Store.step cap s (op_of i))
    end.
End StoreInstance.
