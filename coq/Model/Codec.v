(* Value codec: GetLength, encodeInfoElementValueToBuff, dataRecord.GetBuffer,
   DecodeAndCreateInfoElementWithValue, getFieldLength  (pkg/entities/ie.go, ie_value.go,
   record.go; pkg/collector/process.go). Faithful step-by-step models plus the clean
   specification-level encoding [enc] they are proved equal to on well-formed inputs. *)
From Coq Require Import List Bool Arith NArith ZArith Lia String.
From Coq.Strings Require Import Byte.
From Verif.Base Require Import Bytes Outcome.
From Verif.Model Require Import IE.
Import ListNotations.
Local Open Scope N_scope.
Local Notation length := List.length.

(* ---- GetLength (three implementations: base, octet array, string) ---- *)
Definition var_prefixed_len (n : nat) : N := if Nat.ltb n 255 then N.of_nat n + 1 else N.of_nat n + 3.
Definition elem_len (e : ie) (v : value) : N :=
  match v with
  | VOct o => if ie_len e <? var_len then ie_len e else var_prefixed_len (length (obytes o))
  | VStr s => var_prefixed_len (length s)
  | _ => ie_len e
  end.

(* ---- slice writes ---- *)
(* binary.BigEndian.PutUintNN(buffer[index:], x) / copy(buffer[index:index+1], ..): panics
   unless the whole width fits *)
Definition put_at (buf : list byte) (idx : nat) (src : list byte) : outcome (list byte) :=
  if Nat.leb (idx + length src) (length buf) then Ok (splice buf idx src) else Panic.
(* copy(buffer[index:], v): truncating; panics only if index > len(buffer) *)
Definition copy_at (buf : list byte) (idx : nat) (src : list byte) : outcome (list byte) :=
  if Nat.leb idx (length buf) then Ok (splice buf idx src) else Panic.

(* variable-length form used for strings and variable-length octet arrays *)
Definition encode_var_at (buf : list byte) (idx : nat) (v : list byte) : outcome (list byte) :=
  if Nat.ltb (length v) 255 then
    do b1 <- put_at buf idx [n2b (N.of_nat (length v))];
    copy_at b1 (idx + 1) v
  else if (N.of_nat (length v) <=? 65535) then
    do b1 <- put_at buf idx [xff];
    do b2 <- put_at b1 (idx + 1) (be 2 (N.of_nat (length v)));
    copy_at b2 (idx + 3) v
  else Err ErrEncode.

(* encodeInfoElementValueToBuff(element, buffer, index) *)
Definition encode_at (e : ie) (v : value) (buf : list byte) (idx : nat) : outcome (list byte) :=
  if Nat.ltb (length buf) (idx + N.to_nat (elem_len e v)) then Err ErrEncode else
  match ie_dt e with
  | OctetArray =>
      do o <- get_oct v;
      if ie_len e <? var_len then
        if negb (N.eqb (N.of_nat (length o)) (ie_len e)) then Err ErrEncode
        else copy_at buf idx o
      else encode_var_at buf idx o
  | Unsigned8 => do n <- get_u8 v; put_at buf idx (be 1 n)
  | Unsigned16 => do n <- get_u16 v; put_at buf idx (be 2 n)
  | Unsigned32 => do n <- get_u32 v; put_at buf idx (be 4 n)
  | Unsigned64 => do n <- get_u64 v; put_at buf idx (be 8 n)
  | Signed8 => do z <- get_i8 v; put_at buf idx (enc_int 1 z)
  | Signed16 => do z <- get_i16 v; put_at buf idx (enc_int 2 z)
  | Signed32 => do z <- get_i32 v; put_at buf idx (enc_int 4 z)
  | Signed64 => do z <- get_i64 v; put_at buf idx (enc_int 8 z)
  | Float32 => do n <- get_f32 v; put_at buf idx (be 4 n)
  | Float64 => do n <- get_f64 v; put_at buf idx (be 8 n)
  | Boolean => do b <- get_bool v; put_at buf idx [if b then x01 else x02]
  | DateTimeSeconds => do n <- get_u32 v; put_at buf idx (be 4 n)
  | DateTimeMilliseconds => do n <- get_u64 v; put_at buf idx (be 8 n)
  | DateTimeMicroseconds | DateTimeNanoseconds => Err ErrUnsupported
  | MacAddress =>
      do m <- get_mac v;
      if negb (Nat.eqb (length m) (N.to_nat (elem_len e v))) then Err ErrEncode   (* len(v) != element.GetLength() *)
      else copy_at buf idx m
  | Ipv4Address =>
      do ip <- get_ip v;
      match to4 ip with Some a => copy_at buf idx a | None => Err ErrEncode end
  | Ipv6Address =>
      do ip <- get_ip v;
      match to16 ip with Some a => copy_at buf idx a | None => Err ErrEncode end
  | String_ => do s <- get_str v; encode_var_at buf idx s
  | _ => Err ErrUnsupported
  end.

(* dataRecord: len accumulated by AddInfoElement, GetBuffer encodes lazily, logging
   (not returning) encode errors. Result: buffer and the number of swallowed errors (ghost). *)
Definition record_len (els : list (ie * value)) : N :=
  fold_left (fun a ev => a + elem_len (fst ev) (snd ev)) els 0.

Fixpoint get_buffer_loop (els : list (ie * value)) (buf : list byte) (idx : nat) (nerr : nat)
  : outcome (list byte * nat) :=
  match els with
  | [] => Ok (buf, nerr)
  | (e, v) :: r =>
      match encode_at e v buf idx with
      | Ok b' => get_buffer_loop r b' (idx + N.to_nat (elem_len e v)) nerr
      | Err _ => get_buffer_loop r buf (idx + N.to_nat (elem_len e v)) (S nerr)
      | Panic => Panic
      | OutOfFuel => OutOfFuel
      end
  end.
(* (since the repair "data record of length zero: encode its elements once" a record of length 0
   is encoded like any other, into an empty buffer; before it, the nil buffer counted as
   already encoded: Record.get_buffer_g with its first flag off) *)
Definition get_buffer (els : list (ie * value)) : outcome (list byte * nat) :=
  get_buffer_loop els (zeros (N.to_nat (record_len els))) 0 0.

(* ---- specification-level encoding ---- *)
Definition enc_var (v : list byte) : option (list byte) :=
  if Nat.ltb (length v) 255 then Some (n2b (N.of_nat (length v)) :: v)
  else if (N.of_nat (length v) <=? 65535) then Some (xff :: be 2 (N.of_nat (length v)) ++ v)
  else None.

Definition enc (e : ie) (v : value) : option (list byte) :=
  match ie_dt e, v with
  | OctetArray, VOct o =>
      if ie_len e <? var_len
      then (if N.eqb (N.of_nat (length (obytes o))) (ie_len e) then Some (obytes o) else None)
      else enc_var (obytes o)
  | Unsigned8, VU8 n => Some (be 1 n)
  | Unsigned16, VU16 n => Some (be 2 n)
  | Unsigned32, VU32 n => Some (be 4 n)
  | Unsigned64, VU64 n => Some (be 8 n)
  | Signed8, VI8 z => Some (enc_int 1 z)
  | Signed16, VI16 z => Some (enc_int 2 z)
  | Signed32, VI32 z => Some (enc_int 4 z)
  | Signed64, VI64 z => Some (enc_int 8 z)
  | Float32, VF32 n => Some (be 4 n)
  | Float64, VF64 n => Some (be 8 n)
  | Boolean, VBool b => Some [if b then x01 else x02]
  | DateTimeSeconds, VDts n => Some (be 4 n)
  | DateTimeMilliseconds, VDtms n => Some (be 8 n)
  | MacAddress, VMac (Some m) => if Nat.eqb (length m) 6 then Some m else None
  | Ipv4Address, VIP (Some a) => to4 a
  | Ipv6Address, VIP (Some a) => to16 a
  | String_, VStr s => enc_var s
  | _, _ => None
  end.

(* ---- decoding ---- *)
(* len(buf) < n, walking at most n cells (Buffer.Len() is O(1) in Go; keeps the model linear) *)
Fixpoint short (buf : list byte) (n : nat) : bool :=
  match n, buf with
  | O, _ => false
  | S _, [] => true
  | S n', _ :: r => short r n'
  end.

(* the k leading bytes, as binary.BigEndian.UintNN(value) reads them: panics when short *)
Definition lead (k : nat) (l : list byte) : outcome (list byte) :=
  if Nat.leb k (length l) then Ok (firstn k l) else Panic.

(* DecodeAndCreateInfoElementWithValue(element, value) for a non-nil value slice *)
Definition decode_value (e : ie) (val : list byte) : outcome value :=
  match ie_dt e with
  | OctetArray => Ok (VOct (match val with [] => None | _ => Some val end))
  | Unsigned8 => do l <- lead 1 val; Ok (VU8 (bed l))
  | Unsigned16 => do l <- lead 2 val; Ok (VU16 (bed l))
  | Unsigned32 => do l <- lead 4 val; Ok (VU32 (bed l))
  | Unsigned64 => do l <- lead 8 val; Ok (VU64 (bed l))
  | Signed8 => do l <- lead 1 val; Ok (VI8 (dec_int l))
  | Signed16 => do l <- lead 2 val; Ok (VI16 (dec_int l))
  | Signed32 => do l <- lead 4 val; Ok (VI32 (dec_int l))
  | Signed64 => do l <- lead 8 val; Ok (VI64 (dec_int l))
  | Float32 => do l <- lead 4 val; Ok (VF32 (bed l))
  | Float64 => do l <- lead 8 val; Ok (VF64 (bed l))
  | Boolean => do l <- lead 1 val; Ok (VBool (N.eqb (bed l) 1))
  | DateTimeSeconds => do l <- lead 4 val; Ok (VDts (bed l))
  | DateTimeMilliseconds => do l <- lead 8 val; Ok (VDtms (bed l))
  | DateTimeMicroseconds | DateTimeNanoseconds => Err ErrUnsupported
  | MacAddress => Ok (VMac (Some val))
  | Ipv4Address | Ipv6Address => Ok (VIP (Some val))
  | String_ => Ok (VStr val)
  | _ => Err ErrUnsupported
  end.

(* getFieldLength: the 1/3-byte variable-length prefix; an unreadable prefix is an error *)
Definition field_len (buf : list byte) : outcome (nat * list byte) :=
  match buf with
  | [] => Err ErrShort
  | b :: r =>
      if b2n b <? 255 then Ok (N.to_nat (b2n b), r)
      else match r with
           | h :: l :: r' => Ok (N.to_nat (bed [h; l]), r')
           | _ => Err ErrShort
           end
  end.

(* one field of a data record as decodeDataSet reads it: width from the template (or the
   prefix), truncated fields are errors, then the per-type decoder *)
Definition decode_field (e : ie) (buf : list byte) : outcome (value * list byte) :=
  do (n, r) <- (if N.eqb (ie_len e) var_len then field_len buf else Ok (N.to_nat (ie_len e), buf));
  if short r n then Err ErrShort
  else do v <- decode_value e (firstn n r); Ok (v, skipn n r).

(* what a decoded value is expected to be, given what was encoded: addresses come back as
   the 4/16 raw bytes (Go's own notion of "the same address": To4/To16), empty octet arrays
   come back as nil *)
Definition norm (e : ie) (v : value) : value :=
  match ie_dt e, v with
  | OctetArray, VOct o => VOct (match obytes o with [] => None | l => Some l end)
  | Ipv4Address, VIP (Some a) => VIP (Some (match to4 a with Some x => x | None => a end))
  | Ipv6Address, VIP (Some a) => VIP (Some (match to16 a with Some x => x | None => a end))
  | _, _ => v
  end.

(* well-formedness: the concrete kind matches the data type, numbers are in range of the Go
   type, the element length is the type's default (or a fixed octet-array length) *)
Definition in_range_z (k : nat) (z : Z) : bool :=
  ((- (256 ^ Z.of_nat k / 2) <=? z) && (z <? 256 ^ Z.of_nat k / 2))%Z.
Definition wf_value (e : ie) (v : value) : bool :=
  match ie_dt e, v with
  | OctetArray, VOct o =>
      if ie_len e <? var_len then N.eqb (N.of_nat (length (obytes o))) (ie_len e)
      else N.eqb (ie_len e) var_len && (N.of_nat (length (obytes o)) <=? 65535)
  | Unsigned8, VU8 n => (n <? 2 ^ 8) && N.eqb (ie_len e) 1
  | Unsigned16, VU16 n => (n <? 2 ^ 16) && N.eqb (ie_len e) 2
  | Unsigned32, VU32 n => (n <? 2 ^ 32) && N.eqb (ie_len e) 4
  | Unsigned64, VU64 n => (n <? 2 ^ 64) && N.eqb (ie_len e) 8
  | Signed8, VI8 z => in_range_z 1 z && N.eqb (ie_len e) 1
  | Signed16, VI16 z => in_range_z 2 z && N.eqb (ie_len e) 2
  | Signed32, VI32 z => in_range_z 4 z && N.eqb (ie_len e) 4
  | Signed64, VI64 z => in_range_z 8 z && N.eqb (ie_len e) 8
  | Float32, VF32 n => (n <? 2 ^ 32) && N.eqb (ie_len e) 4
  | Float64, VF64 n => (n <? 2 ^ 64) && N.eqb (ie_len e) 8
  | Boolean, VBool _ => N.eqb (ie_len e) 1
  | DateTimeSeconds, VDts n => (n <? 2 ^ 32) && N.eqb (ie_len e) 4
  | DateTimeMilliseconds, VDtms n => (n <? 2 ^ 64) && N.eqb (ie_len e) 8
  | MacAddress, VMac (Some m) => Nat.eqb (length m) 6 && N.eqb (ie_len e) 6
  | Ipv4Address, VIP (Some a) => (match to4 a with Some _ => true | None => false end) && N.eqb (ie_len e) 4
  | Ipv6Address, VIP (Some a) => (match to16 a with Some _ => true | None => false end) && N.eqb (ie_len e) 16
  | String_, VStr s => (N.of_nat (length s) <=? 65535) && N.eqb (ie_len e) var_len
  | _, _ => false
  end.

(* a whole data record at specification level *)
Fixpoint enc_all (els : list (ie * value)) : option (list byte) :=
  match els with
  | [] => Some []
  | (e, v) :: r =>
      match enc e v, enc_all r with
      | Some a, Some b => Some (a ++ b)
      | _, _ => None
      end
  end.
Definition wf_record (els : list (ie * value)) : bool :=
  forallb (fun ev => wf_value (fst ev) (snd ev)) els.

(* decodeDataSet's inner loop over the template for one record (no unknown-element dropping) *)
Fixpoint decode_fields (tpl : list ie) (buf : list byte) : outcome (list value * list byte) :=
  match tpl with
  | [] => Ok ([], buf)
  | e :: r =>
      do (v, rest) <- decode_field e buf;
      do (vs, rest') <- decode_fields r rest;
      Ok (v :: vs, rest')
  end.

(* decodeDataSet: the record loop (after the repair): stop when fewer bytes remain than the
   shortest possible record; zero-length-record templates are rejected when data is present.
   [keep e] decides whether a decoded field is delivered (LenientDropUnknown drops nameless
   elements after their bytes were consumed). *)
Definition min_field_len (e : ie) : nat := if N.eqb (ie_len e) var_len then 1%nat else N.to_nat (ie_len e).
Definition min_record_len (tpl : list ie) : nat := fold_right (fun e a => (min_field_len e + a)%nat) 0%nat tpl.

Fixpoint decode_fields_k (keep : ie -> bool) (tpl : list ie) (buf : list byte)
  : outcome (list (ie * value) * list byte) :=
  match tpl with
  | [] => Ok ([], buf)
  | e :: r =>
      do (v, rest) <- decode_field e buf;
      do (vs, rest') <- decode_fields_k keep r rest;
      Ok ((if keep e then (e, v) :: vs else vs), rest')
  end.

Fixpoint decode_records (fuel : nat) (keep : ie -> bool) (tpl : list ie) (buf : list byte)
  : outcome (list (list (ie * value))) :=
  match fuel with
  | O => OutOfFuel
  | S f =>
      if short buf (min_record_len tpl) then Ok []
      else
        do (vs, rest) <- decode_fields_k keep tpl buf;
        do rs <- decode_records f keep tpl rest;
        Ok (vs :: rs)
  end.

Definition decode_data_body (keep : ie -> bool) (tpl : list ie) (buf : list byte)
  : outcome (list (list (ie * value))) :=
  if Nat.eqb (min_record_len tpl) 0 then
    match buf with [] => Ok [] | _ => Err ErrZeroLen end
  else decode_records (S (length buf)) keep tpl buf.
