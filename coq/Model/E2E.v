(* End to end: what an application hands to the exporter (a template, then data records for
   it, built with PrepareSet / AddRecord and sent with SendSet -> UpdateLenInHeader ->
   CreateIPFIXMsg) and what the collector (decodePacket, strict mode) makes of those bytes. *)
From Coq Require Import List Bool Arith NArith ZArith String.
From Coq.Strings Require Import Byte.
From Verif.Base Require Import Bytes Outcome.
From Verif.Model Require Import IE Codec Record SetB Msg Decode.
Import ListNotations.
Local Open Scope N_scope.

(* DecodeAndCreateInfoElementWithValue(ie, nil): the value-less elements of a template record *)
Definition zero_of (d : dtype) : value := match zero_value d with Ok v => v | _ => VU8 0 end.
Definition zero_els (tpl : list ie) : list (ie * value) := map (fun e => (e, zero_of (ie_dt e))) tpl.

(* the builder calls of the application, followed by SendSet's UpdateLenInHeader *)
Definition tpl_ops (tid : N) (tpl : list ie) : list op :=
  [OPrepare STemplate tid; OAdd FV1 (zero_els tpl) tid; OUpdLen].
Definition data_ops (tid : N) (recs : list (list (ie * value))) : list op :=
  OPrepare SData tid :: map (fun r => OAdd FV1 r tid) recs ++ [OUpdLen].

Definition tpl_msg (obs seq t tid : N) (tpl : list ie) : outcome (list byte) :=
  create_msg (SetB.run new_set (tpl_ops tid tpl)) obs seq t.
Definition data_msg (obs seq t tid : N) (recs : list (list (ie * value))) : outcome (list byte) :=
  create_msg (SetB.run new_set (data_ops tid recs)) obs seq t.

(* hypotheses of the end-to-end statement, as booleans *)
Definition ie_eqb (a b : ie) : bool :=
  String.eqb (ie_name a) (ie_name b) && N.eqb (ie_id a) (ie_id b) && dtype_eqb (ie_dt a) (ie_dt b) &&
  N.eqb (ie_ent a) (ie_ent b) && N.eqb (ie_len a) (ie_len b).
Definition in_registry (e : ie) : bool :=
  match reg_lookup registry (ie_id e) (ie_ent e) with Some e' => ie_eqb e' e | None => false end.
Definition supported_dt (d : dtype) : bool :=
  match d with
  | OctetArray | Unsigned8 | Unsigned16 | Unsigned32 | Unsigned64 | Signed8 | Signed16
  | Signed32 | Signed64 | Float32 | Float64 | Boolean | MacAddress | String_
  | DateTimeSeconds | DateTimeMilliseconds | Ipv4Address | Ipv6Address => true
  | _ => false
  end.
(* a template drawn from the registry, supported data types only *)
Definition tpl_ok (tpl : list ie) : bool :=
  forallb (fun e => in_registry e && supported_dt (ie_dt e)) tpl &&
  Nat.ltb 0 (min_record_len tpl) && (N.of_nat (List.length tpl) <? 65536).
Fixpoint list_ie_eqb (a b : list ie) : bool :=
  match a, b with
  | [], [] => true
  | x :: a', y :: b' => ie_eqb x y && list_ie_eqb a' b'
  | _, _ => false
  end.
(* every record is for that template (same elements, in order) and well typed *)
Definition recs_ok (tpl : list ie) (recs : list (list (ie * value))) : bool :=
  forallb (fun r => list_ie_eqb (map fst r) tpl && wf_record r) recs.
