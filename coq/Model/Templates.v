(* Template scoping (C04): what a packet does to the template table, as a specification-level
   classification of the byte string, and the history specification last_valid. *)
From Coq Require Import List Bool Arith NArith ZArith String.
From Coq.Strings Require Import Byte.
From Verif.Base Require Import Bytes Outcome.
From Verif.Gen Require Import Consts.
From Verif.Model Require Import IE Codec Decode.
Import ListNotations.
Local Open Scope N_scope.

(* the template-table meaning of a packet *)
Inductive tmsg :=
| TplOk (d i : N) (fs : list ie)     (* a template set whose first record decoded *)
| TplBadAfterHdr (d i : N)           (* a template set whose 4-byte record header (id, count) was
                                        readable but whose field specifiers were not accepted *)
| NoEffect.                          (* anything else: data sets, short / non-v10 messages,
                                        template sets cut before the record header was complete *)

(* a template set with a readable record header *)
Definition tpl_hdr_readable (bytes : list byte) : bool :=
  hdr_ok bytes && N.eqb (wire_setid bytes) c_entities_TemplateSetID && negb (short bytes 24).

Definition classify (m : mode) (reg : list ie) (bytes : list byte) : tmsg :=
  if tpl_hdr_readable bytes then
    match spec_template m reg bytes with
    | Some (_, _, es) => TplOk (wire_obs bytes) (wire_tid bytes) es
    | None => TplBadAfterHdr (wire_obs bytes) (wire_tid bytes)
    end
  else NoEffect.

Definition key_of (t : tmsg) : option (N * N) :=
  match t with TplOk d i _ | TplBadAfterHdr d i => Some (d, i) | NoEffect => None end.

Definition apply_tmsg (tm : tmap) (t : tmsg) : tmap :=
  match t with
  | TplOk d i fs => tm_add tm d i fs
  | TplBadAfterHdr d i => tm_delete tm d i
  | NoEffect => tm
  end.

(* the most recent template message for (d, i) whose record header was readable, newest first:
   Some fields if its fields decoded, None if they did not, None if there never was one *)
Fixpoint last_valid (h : list tmsg) (d i : N) : option (list ie) :=
  match h with
  | [] => None
  | TplOk d' i' fs :: h' => if N.eqb d' d && N.eqb i' i then Some fs else last_valid h' d i
  | TplBadAfterHdr d' i' :: h' => if N.eqb d' d && N.eqb i' i then None else last_valid h' d i
  | NoEffect :: h' => last_valid h' d i
  end.

(* the specification of the table after a history of packets (oldest first) *)
Definition spec_lookup (m : mode) (reg : list ie) (hist : list (list byte)) (d i : N) : option (list ie) :=
  last_valid (rev (map (classify m reg) hist)) d i.
