(* C18 - encrypted transports.  Model of the decision logic in
     pkg/exporter/process.go   InitExportingProcess (TLS / DTLS / plain branches), createClientConfig
     pkg/collector/tcp.go      startTCPServer, createServerConfig
     pkg/collector/udp.go      startUDPServer (DTLS listener)
   crypto/tls and pion/dtls are NOT modelled: the handshake is a parameter (`handshake`) and the
   theorems (Proofs/Tls_lemmas.v) hold for every handshake that meets the documented contract of
   the two libraries.  `ref_handshake` is an executable reference that meets the contract; the
   driver uses it to predict the outcome of every cell of the handshake matrix.

   Abstractions (see notes/C18.md): a certificate is (key id, issuer key id, validity interval,
   SAN list); a PEM blob is the list of certificates that parse out of it ([] = nothing parses);
   a pool is a list of key ids; chains are one link deep (leaf issued directly by a root, or the
   leaf itself in the pool - what x509.Verify accepts); names match by equality. *)
From Coq Require Import List Bool Arith NArith ZArith String Ascii.
From Verif.Gen Require Import TlsCfg.
Import ListNotations.
Local Open Scope string_scope.
Local Open Scope bool_scope.

(* ---------------------------------------------------------------- certificates *)
Record cert := { c_id : N; c_issuer : N; c_nb : Z; c_na : Z; c_sans : list string }.
Definition pem := list cert.
Definition pool := list N.
Definition pool_of (p : pem) : pool := map c_id p.
Definition memN (x : N) (l : list N) : bool := existsb (N.eqb x) l.
Definition chains_to (p : pool) (c : cert) : bool := memN (c_issuer c) p || memN (c_id c) p.
Definition valid_at (now : Z) (c : cert) : bool := (c_nb c <=? now)%Z && (now <=? c_na c)%Z.
Definition name_matches (n : string) (c : cert) : bool := existsb (String.eqb n) (c_sans c).

(* tls.X509KeyPair(certPEM, keyPEM): the first certificate, provided a key parses and it is the
   key of that certificate *)
Definition x509_key_pair (cs : pem) (key : option N) : option cert :=
  match cs, key with
  | c :: _, Some k => if N.eqb k (c_id c) then Some c else None
  | _, _ => None
  end.

(* ---------------------------------------------------------------- configurations
   One record field per tls.Config / dtls.Config field the code sets; every other field of the
   real struct is zero (checked on the real value by reflection, and on the composite literals
   by Gen/TlsCfg.v). *)
Record tls_config := {
  tc_certificates : list cert;     (* Certificates *)
  tc_root_cas : option pool;       (* RootCAs (None = nil = host roots) *)
  tc_server_name : string;         (* ServerName *)
  tc_client_auth : N;              (* ClientAuth *)
  tc_client_cas : option pool;     (* ClientCAs *)
  tc_min_version : N               (* MinVersion *)
}.
Record dtls_config := {
  dc_certificates : list cert;
  dc_root_cas : option pool;
  dc_server_name : string;
  dc_client_auth : N;
  dc_client_cas : option pool;
  dc_ems : N                       (* ExtendedMasterSecret *)
}.

Inductive tls_err := EParseRoot | EKeyPair | EDial.
Inductive res (A : Type) := ROk (a : A) | RErr (e : tls_err).
Arguments ROk {A} a.
Arguments RErr {A} e.

(* ---------------------------------------------------------------- exporter *)
Record exp_tls := {               (* ExporterTLSClientConfig *)
  et_server_name : string;
  et_ca : pem;                    (* CAData *)
  et_cert : option pem;           (* CertData; None = nil slice *)
  et_key : option N               (* KeyData; None = no key parses *)
}.
Record exp_input := {
  ei_proto : string;              (* CollectorProtocol *)
  ei_host : string;               (* host part of CollectorAddress *)
  ei_tls : option exp_tls         (* TLSClientConfig *)
}.

(* createClientConfig *)
Definition create_client_config (t : exp_tls) : res tls_config :=
  match et_ca t with
  | [] => RErr EParseRoot
  | _ =>
      match et_cert t with
      | None => ROk {| tc_certificates := []; tc_root_cas := Some (pool_of (et_ca t));
                       tc_server_name := et_server_name t; tc_client_auth := 0; tc_client_cas := None;
                       tc_min_version := c_tls_VersionTLS12 |}
      | Some cs =>
          match x509_key_pair cs (et_key t) with
          | None => RErr EKeyPair
          | Some c => ROk {| tc_certificates := [c]; tc_root_cas := Some (pool_of (et_ca t));
                             tc_server_name := et_server_name t; tc_client_auth := 0; tc_client_cas := None;
                             tc_min_version := c_tls_VersionTLS12 |}
          end
      end
  end.

(* the dtls.Config literal in InitExportingProcess: client certificate and key are ignored *)
Definition dtls_client_config (t : exp_tls) : res dtls_config :=
  match et_ca t with
  | [] => RErr EParseRoot
  | _ => ROk {| dc_certificates := []; dc_root_cas := Some (pool_of (et_ca t));
                dc_server_name := et_server_name t; dc_client_auth := 0; dc_client_cas := None;
                dc_ems := c_dtls_RequireExtendedMasterSecret |}
  end.

(* ---------------------------------------------------------------- collector *)
Record coll_input := {
  ci_proto : string;
  ci_enc : bool;                  (* IsEncrypted *)
  ci_ca : option pem;             (* CACert; None = nil *)
  ci_cert : pem;                  (* ServerCert *)
  ci_key : option N               (* ServerKey *)
}.

(* createServerConfig *)
Definition create_server_config (c : coll_input) : res tls_config :=
  match x509_key_pair (ci_cert c) (ci_key c) with
  | None => RErr EKeyPair
  | Some k =>
      match ci_ca c with
      | None => ROk {| tc_certificates := [k]; tc_root_cas := None; tc_server_name := "";
                       tc_client_auth := 0; tc_client_cas := None; tc_min_version := c_tls_VersionTLS12 |}
      | Some [] => RErr EParseRoot
      | Some p => ROk {| tc_certificates := [k]; tc_root_cas := None; tc_server_name := "";
                         tc_client_auth := c_tls_RequireAndVerifyClientCert;
                         tc_client_cas := Some (pool_of p); tc_min_version := c_tls_VersionTLS12 |}
      end
  end.

(* the dtls.Config literal in startUDPServer: ClientCAs is the pool of the server certificate
   itself, ClientAuth stays NoClientCert, CACert is not used *)
Definition dtls_server_config (c : coll_input) : res dtls_config :=
  match x509_key_pair (ci_cert c) (ci_key c) with
  | None => RErr EKeyPair
  | Some k => ROk {| dc_certificates := [k]; dc_root_cas := None; dc_server_name := "";
                     dc_client_auth := 0; dc_client_cas := Some (pool_of (ci_cert c));
                     dc_ems := c_dtls_RequireExtendedMasterSecret |}
  end.

(* ---------------------------------------------------------------- transport decision *)
Inductive transport := TTLS | TDTLS | TPlain | TNoConn.

(* exporter: (TLSClientConfig present?, CollectorProtocol) *)
Definition exporter_transport (has_tls : bool) (proto : string) : transport :=
  if has_tls then
    if proto =? "tcp" then TTLS else if proto =? "udp" then TDTLS else TNoConn
  else TPlain.

(* collector: (IsEncrypted, Protocol) ; TNoConn = Start() returns without listening *)
Definition collector_transport (enc : bool) (proto : string) : transport :=
  if proto =? "tcp" then (if enc then TTLS else TPlain)
  else if proto =? "udp" then (if enc then TDTLS else TPlain)
  else TNoConn.

(* ---------------------------------------------------------------- peers and the handshake *)
Inductive ekind := KTls | KDtls | KPlainTcp | KPlainUdp | KAbsent.
Definition ekind_eqb (a b : ekind) : bool :=
  match a, b with
  | KTls, KTls | KDtls, KDtls | KPlainTcp, KPlainTcp | KPlainUdp, KPlainUdp | KAbsent, KAbsent => true
  | _, _ => false
  end.

(* what is at the other end of the wire: any endpoint, described by what matters to a handshake *)
Record endpoint := {
  ep_kind : ekind;                (* what it speaks *)
  ep_certs : list cert;           (* the certificate it presents (head), if any *)
  ep_roots : option pool;         (* as a client: roots it verifies against; None = does not verify *)
  ep_name : string;               (* as a client: name it expects; "" = no name check *)
  ep_client_auth : N;             (* as a server *)
  ep_client_cas : option pool;    (* as a server *)
  ep_min : N;
  ep_max : N                      (* highest protocol version it speaks, TLS numbering; DTLS 1.0 ~ TLS 1.1, DTLS 1.2 ~ TLS 1.2 *)
}.
Definition peer_cert (e : endpoint) : option cert := hd_error (ep_certs e).

(* crypto/tls, pion/dtls and the socket layer, as far as the model is concerned *)
Record handshake := {
  tls_dial : tls_config -> string -> endpoint -> option N;   (* tls.Dial to host: Some v = completed at version v *)
  tls_serve : tls_config -> endpoint -> option N;            (* tls listener: Some v = this peer's data reaches the application *)
  dtls_dial : dtls_config -> endpoint -> bool;
  dtls_serve : dtls_config -> endpoint -> bool;
  plain_dial : string -> endpoint -> bool;                   (* net.Dial(proto, addr) succeeds *)
  plain_serve : string -> endpoint -> bool;                  (* an unencrypted listener gets IPFIX messages from this peer *)
  is_ip : string -> bool                                     (* net.ParseIP(s) != nil *)
}.

Inductive conn := ConnTLS (v : N) | ConnDTLS | ConnPlain | ConnNil.
Definition conn_transport (c : conn) : transport :=
  match c with ConnTLS _ => TTLS | ConnDTLS => TDTLS | ConnPlain => TPlain | ConnNil => TNoConn end.

(* InitExportingProcess up to the construction of the ExportingProcess: the connection it holds *)
Definition init_exporting_process (H : handshake) (i : exp_input) (srv : endpoint) : res conn :=
  match ei_tls i with
  | Some t =>
      if ei_proto i =? "tcp" then
        match create_client_config t with
        | RErr e => RErr e
        | ROk cfg =>
            match tls_dial H cfg (ei_host i) srv with
            | Some v => ROk (ConnTLS v)
            | None => RErr EDial
            end
        end
      else if ei_proto i =? "udp" then
        match dtls_client_config t with
        | RErr e => RErr e
        | ROk cfg => if dtls_dial H cfg srv then ROk ConnDTLS else RErr EDial
        end
      else ROk ConnNil          (* neither branch taken: conn stays nil, no error *)
  | None => if plain_dial H (ei_proto i) srv then ROk ConnPlain else RErr EDial
  end.

(* CollectingProcess.Start: Some k = messages of this peer are delivered, over a connection of kind k *)
Definition collector_session (H : handshake) (c : coll_input) (cl : endpoint) : option conn :=
  if ci_proto c =? "tcp" then
    if ci_enc c then
      match create_server_config c with
      | RErr _ => None
      | ROk cfg => option_map ConnTLS (tls_serve H cfg cl)
      end
    else if plain_serve H "tcp" cl then Some ConnPlain else None
  else if ci_proto c =? "udp" then
    if ci_enc c then
      match dtls_server_config c with
      | RErr _ => None
      | ROk cfg => if dtls_serve H cfg cl then Some ConnDTLS else None
      end
    else if plain_serve H "udp" cl then Some ConnPlain else None
  else None.

(* CollectingProcess.Start comes up as an endpoint at all: startTCPServer returns before
   tls.Listen when createServerConfig fails (key pair, or CACert non-nil from which no certificate
   parses: "failed to parse root certificate"), startUDPServer returns before dtls.Listen when
   the key pair fails; any other protocol string: Start does nothing.  false = no socket is ever
   opened, GetAddress stays nil, nobody can be served. *)
Definition collector_listens (c : coll_input) : bool :=
  if ci_proto c =? "tcp" then
    if ci_enc c then match create_server_config c with ROk _ => true | RErr _ => false end else true
  else if ci_proto c =? "udp" then
    if ci_enc c then match dtls_server_config c with ROk _ => true | RErr _ => false end else true
  else false.

(* client-CA material was supplied but no certificate parses out of it *)
Definition unusable_ca (c : coll_input) : bool :=
  match ci_ca c with Some [] => true | _ => false end.

(* ---------------------------------------------------------------- the property, per observation
   (the bodies of the theorems; applied by the driver to the implementation's observations) *)
Definition tls_expected_name (server_name host : string) : string :=
  if server_name =? "" then host else server_name.

Definition exporter_ok (now : Z) (isip : string -> bool) (i : exp_input) (srv : endpoint) (r : res conn) : bool :=
  match r, ei_tls i with
  | RErr _, _ => true
  | ROk _, None => true                    (* no security settings: nothing is demanded *)
  | ROk c, Some t =>
      match c with
      | ConnPlain => false
      | ConnNil => true                    (* no connection at all: nothing can be sent *)
      | ConnTLS v =>
          ekind_eqb (ep_kind srv) KTls && (c_tls_VersionTLS12 <=? v)%N &&
          match peer_cert srv with
          | Some sc => chains_to (pool_of (et_ca t)) sc && valid_at now sc &&
                       name_matches (tls_expected_name (et_server_name t) (ei_host i)) sc
          | None => false
          end
      | ConnDTLS =>
          ekind_eqb (ep_kind srv) KDtls &&
          match peer_cert srv with
          | Some sc => chains_to (pool_of (et_ca t)) sc && valid_at now sc &&
                       (if (et_server_name t =? "") || isip (et_server_name t) then true
                        else name_matches (et_server_name t) sc)
          | None => false
          end
      end
  end.

Definition collector_ok (now : Z) (c : coll_input) (cl : endpoint) (k : option conn) : bool :=
  match k with
  | None => true
  | Some k =>
      if ci_enc c then
        match k with
        | ConnTLS v =>
            ekind_eqb (ep_kind cl) KTls && (c_tls_VersionTLS12 <=? v)%N &&
            match ci_ca c with
            | None => true
            | Some p => match peer_cert cl with
                        | Some cc => chains_to (pool_of p) cc && valid_at now cc
                        | None => false
                        end
            end
        | ConnDTLS => ekind_eqb (ep_kind cl) KDtls
        | _ => false
        end
      else true
  end.

(* ---------------------------------------------------------------- reference handshake
   An executable handshake that meets the contract (Proofs/Tls_lemmas.v, ref_meets_contract) and
   moreover completes whenever the contract allows: the prediction for the matrix cells. *)
Definition neg_version (cmin cmax smin smax : N) : option N :=
  let v := N.min cmax smax in
  if (cmin <=? v)%N && (smin <=? v)%N then Some v else None.

Definition verifies (now : Z) (roots : pool) (name : string) (sc : option cert) : bool :=
  match sc with
  | None => false
  | Some c => chains_to roots c && valid_at now c && (if name =? "" then true else name_matches name c)
  end.

(* a peer acting as client: verifies unless it has no roots configured *)
Definition peer_accepts_server (now : Z) (cl : endpoint) (sc : option cert) : bool :=
  match ep_roots cl with
  | None => match sc with Some _ => true | None => false end
  | Some p => verifies now p (ep_name cl) sc
  end.

Definition server_accepts_client (now : Z) (auth : N) (cas : option pool) (cc : option cert) : bool :=
  if (auth =? c_tls_RequireAndVerifyClientCert)%N then
    match cc, cas with
    | Some c, Some p => chains_to p c && valid_at now c
    | _, _ => false
    end
  else true.

(* (client completes, server completes) ; in TLS 1.3 the client completes before the server has
   checked the client certificate *)
Definition ref_tls (cacc sacc : bool) (cmin cmax smin smax : N) : option N * option N :=
  match neg_version cmin cmax smin smax with
  | None => (None, None)
  | Some v =>
      ((if cacc && (sacc || (c_tls_VersionTLS13 <=? v)%N) then Some v else None),
       (if cacc && sacc then Some v else None))
  end.

Definition ref_is_ip (s : string) : bool :=
  let fix only_num (s : string) : bool :=
    match s with
    | EmptyString => true
    | String c r => (Ascii.eqb c "."%char || ((48 <=? Ascii.nat_of_ascii c)%nat && (Ascii.nat_of_ascii c <=? 57)%nat)) && only_num r
    end in
  let fix has_colon (s : string) : bool :=
    match s with
    | EmptyString => false
    | String c r => Ascii.eqb c ":"%char || has_colon r
    end in
  match s with
  | EmptyString => false
  | _ => only_num s || has_colon s
  end.

Definition dtls_expected_name (isip : string -> bool) (server_name : string) : string :=
  if isip server_name then "" else server_name.

Definition root_pool (r : option pool) : pool := match r with Some p => p | None => [] end.

Definition ref_handshake (now : Z) : handshake := {|
  tls_dial := fun cfg host srv =>
    (* crypto/tls: "either ServerName or InsecureSkipVerify must be specified" *)
    if tls_expected_name (tc_server_name cfg) host =? "" then None
    else if ekind_eqb (ep_kind srv) KTls then
      fst (ref_tls (verifies now (root_pool (tc_root_cas cfg)) (tls_expected_name (tc_server_name cfg) host) (peer_cert srv))
                   (server_accepts_client now (ep_client_auth srv) (ep_client_cas srv) (hd_error (tc_certificates cfg)))
                   (tc_min_version cfg) c_tls_VersionTLS13 (ep_min srv) (ep_max srv))
    else None;
  tls_serve := fun cfg cl =>
    if ekind_eqb (ep_kind cl) KTls then
      snd (ref_tls (peer_accepts_server now cl (hd_error (tc_certificates cfg)))
                   (server_accepts_client now (tc_client_auth cfg) (tc_client_cas cfg) (peer_cert cl))
                   (ep_min cl) (ep_max cl) (tc_min_version cfg) c_tls_VersionTLS13)
    else None;
  dtls_dial := fun cfg srv =>
    ekind_eqb (ep_kind srv) KDtls && (c_tls_VersionTLS12 <=? ep_max srv)%N &&
    verifies now (root_pool (dc_root_cas cfg)) (dtls_expected_name ref_is_ip (dc_server_name cfg)) (peer_cert srv) &&
    server_accepts_client now (ep_client_auth srv) (ep_client_cas srv) (hd_error (dc_certificates cfg));
  dtls_serve := fun cfg cl =>
    ekind_eqb (ep_kind cl) KDtls && (c_tls_VersionTLS12 <=? ep_max cl)%N &&
    peer_accepts_server now cl (hd_error (dc_certificates cfg)) &&
    server_accepts_client now (dc_client_auth cfg) (dc_client_cas cfg) (peer_cert cl);
  plain_dial := fun proto srv =>
    if (proto =? "tcp") || (proto =? "tcp4") then
      match ep_kind srv with KTls | KPlainTcp => true | _ => false end
    else (proto =? "udp") || (proto =? "udp4");
  plain_serve := fun proto cl =>
    if proto =? "tcp" then ekind_eqb (ep_kind cl) KPlainTcp else ekind_eqb (ep_kind cl) KPlainUdp;
  is_ip := ref_is_ip
|}.

(* the two real endpoints seen as each other's peer (cells with a real exporter AND a real collector) *)
Definition kind_of_transport (t : transport) (proto : string) : ekind :=
  match t with
  | TTLS => KTls
  | TDTLS => KDtls
  | TPlain => if (proto =? "tcp") || (proto =? "tcp4") then KPlainTcp
              else if (proto =? "udp") || (proto =? "udp4") then KPlainUdp else KAbsent
  | TNoConn => KAbsent
  end.

Definition endpoint_of_collector (c : coll_input) : endpoint :=
  let t := collector_transport (ci_enc c) (ci_proto c) in
  match t with
  | TTLS =>
      match create_server_config c with
      | ROk cfg => {| ep_kind := KTls; ep_certs := tc_certificates cfg; ep_roots := None; ep_name := "";
                      ep_client_auth := tc_client_auth cfg; ep_client_cas := tc_client_cas cfg;
                      ep_min := tc_min_version cfg; ep_max := c_tls_VersionTLS13 |}
      | RErr _ => {| ep_kind := KAbsent; ep_certs := []; ep_roots := None; ep_name := ""; ep_client_auth := 0;
                     ep_client_cas := None; ep_min := 0; ep_max := 0 |}
      end
  | TDTLS =>
      match dtls_server_config c with
      | ROk cfg => {| ep_kind := KDtls; ep_certs := dc_certificates cfg; ep_roots := None; ep_name := "";
                      ep_client_auth := dc_client_auth cfg; ep_client_cas := dc_client_cas cfg;
                      ep_min := c_tls_VersionTLS12; ep_max := c_tls_VersionTLS12 |}
      | RErr _ => {| ep_kind := KAbsent; ep_certs := []; ep_roots := None; ep_name := ""; ep_client_auth := 0;
                     ep_client_cas := None; ep_min := 0; ep_max := 0 |}
      end
  | _ => {| ep_kind := kind_of_transport t (ci_proto c); ep_certs := []; ep_roots := None; ep_name := "";
            ep_client_auth := 0; ep_client_cas := None; ep_min := 0; ep_max := 0 |}
  end.

Definition endpoint_of_exporter (isip : string -> bool) (i : exp_input) : endpoint :=
  let absent := {| ep_kind := KAbsent; ep_certs := []; ep_roots := None; ep_name := ""; ep_client_auth := 0;
                   ep_client_cas := None; ep_min := 0; ep_max := 0 |} in
  match ei_tls i with
  | None => {| ep_kind := kind_of_transport TPlain (ei_proto i); ep_certs := []; ep_roots := None; ep_name := "";
               ep_client_auth := 0; ep_client_cas := None; ep_min := 0; ep_max := 0 |}
  | Some t =>
      match exporter_transport true (ei_proto i) with
      | TTLS =>
          match create_client_config t with
          | ROk cfg => {| ep_kind := KTls; ep_certs := tc_certificates cfg; ep_roots := Some (root_pool (tc_root_cas cfg));
                          ep_name := tls_expected_name (tc_server_name cfg) (ei_host i);
                          ep_client_auth := 0; ep_client_cas := None;
                          ep_min := tc_min_version cfg; ep_max := c_tls_VersionTLS13 |}
          | RErr _ => absent
          end
      | TDTLS =>
          match dtls_client_config t with
          | ROk cfg => {| ep_kind := KDtls; ep_certs := dc_certificates cfg; ep_roots := Some (root_pool (dc_root_cas cfg));
                          ep_name := dtls_expected_name isip (dc_server_name cfg);
                          ep_client_auth := 0; ep_client_cas := None;
                          ep_min := c_tls_VersionTLS12; ep_max := c_tls_VersionTLS12 |}
          | RErr _ => absent
          end
      | _ => absent
      end
  end.
