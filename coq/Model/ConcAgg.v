(* ConcAgg: the aggregation process (pkg/intermediate/aggregate.go + worker.go) as an instance of
   the mutex machine of Model/Conc.v, for C13.

   Part 1 (Section AggInstance) is generic in the sequential semantics
        step : state -> op -> state * result
   of the aggregation operations (the detailed sequential models of addOrUpdateRecordInMap,
   ForAllExpiredFlowRecordsDo, ... belong to C05-C07; C13 is about their concurrent
   composition). Every operation is  a.mutex.Lock ; body ; a.mutex.Unlock  - that is what
   locks_whole_body / guarded_by / lockset_ok on the regenerated T5 table establish - and its
   body may be cut into any micro-steps `micro o` as long as they compose to `step`.
   GRANULARITY: one operation = one critical section. AggregateMsgByFlowKey(msg) is NOT one
   operation: it takes the lock once PER RECORD (addOrUpdateRecordInMap), so a message with n
   records is n consecutive Ingest operations of the calling thread, between which other
   threads' operations may be linearized.

   Part 2 is a small concrete sequential reference `agg_step` (per-flow delta sums, the
   stale-record skip rule, scan = export and delete everything that is expired, queries), which
   the C13 tie uses to check the real histories: the harness searches a linearization, the
   extracted checker `lin_check` validates it (permutation, real-time order, program order,
   every result and the final state reproduced by `agg_step`). *)
From Coq Require Import List Bool Arith NArith Lia String.
From Verif.Model Require Import LockTab Conc.
From Verif.Gen Require Import Locks.
Import ListNotations.

(* ------------------------------------------------------------------------------------------ *)
Section AggInstance.
  Variables State Op Result : Type.
  Variable step : State -> Op -> State * Result.
  (* any decomposition of the critical section into micro-steps that composes to step *)
  Variable micro : Op -> list (State -> State).
  Hypothesis micro_ok : forall o s, apply_all State (micro o) s = fst (step s o).

  Definition agg_res (o : Op) (s : State) : Result := snd (step s o).

  (* the concurrent system: threads = ingesting goroutines, pool workers, scanners, queriers *)
  Definition agg_run (progs : nat -> list Op) (s0 : State) (sched : list nat) :=
    run State Op Result micro agg_res (init State Op Result progs s0) sched.

  (* sequential execution of a list of operation instances with the specification step *)
  Definition spec_state (ops : list (opid Op)) (s : State) : State :=
    fold_left (fun s i => fst (step s (op_of i))) ops s.
  Fixpoint spec_results (ops : list (opid Op)) (s : State) : list (opid Op * Result) :=
    match ops with
    | [] => []
    | i :: r => (i, snd (step s (op_of i))) :: spec_results r (fst (step s (op_of i)))
    end.

  (* every thread has finished its program and nobody is in a critical section *)
  Definition quiescent (g : gstate State Op Result) (threads : list nat) : Prop :=
    holder g = None /\ forall t, In t threads -> exists k, pool g t = Idle k [].
End AggInstance.

(* ------------------------------------------------------------------------------------------ *)
(* Premises on the regenerated table (discharged by vm_compute in Proofs/ConcAgg_lemmas.v).
   Every root of the aggregation process may run on any number of goroutines. *)
Definition agg_thr (_ : root) : nat := 0.
Definition agg_multi (_ : nat) : bool := true.
Definition agg_composite : list string := ["AggregateMsgByFlowKey"%string].

Definition agg_premises : bool :=
  locks_whole_body agg_composite aggregation_methods
  && lockset_ok agg_thr agg_multi aggregation_accesses
  && guarded_by aggregation_f_mutex aggregation_accesses.

(* ------------------------------------------------------------------------------------------ *)
(* Part 2: concrete sequential reference used by the tie *)
Local Open Scope N_scope.

Definition two64 : N := 18446744073709551616.
Definition add64 (a b : N) : N := (a + b) mod two64.

Record flow := MkFlow {
  fl_end : N;       (* flowEndSeconds of the aggregated record *)
  fl_esrc : N;      (* flowEndSecondsFromSourceNode *)
  fl_edst : N;      (* flowEndSecondsFromDestinationNode *)
  fl_sd : N;        (* octetDeltaCountFromSourceNode *)
  fl_dd : N;        (* octetDeltaCountFromDestinationNode *)
  fl_cd : N }.      (* octetDeltaCount *)

Definition akey := N.
Definition astate := list (akey * flow).      (* association list, no duplicate keys *)

Inductive aop :=
| OIngest (k : akey) (start fin delta : N)    (* one data record for flow k (intra-node: both sides filled) *)
| ONum                                        (* GetNumFlows *)
| OGet (k : akey)                             (* GetRecords(&k), complete key *)
| OScan                                       (* ForAllExpiredFlowRecordsDo with every flow expired *)
| OExpiry                                     (* GetExpiryFromExpirePriorityQueue *)
| OAll.                                       (* ForAllRecordsDo *)

Inductive ares :=
| RUnit
| RNum (n : N)
| RRec (r : option (N * N * N * N))           (* cd, sd, dd, end *)
| RList (l : list (akey * (N * N * N * N)))   (* sorted by key *)
| RFlag (nonempty : bool).

Fixpoint alookup (s : astate) (k : akey) : option flow :=
  match s with [] => None | (k', f) :: r => if N.eqb k' k then Some f else alookup r k end.
Fixpoint aset (s : astate) (k : akey) (f : flow) : astate :=
  match s with
  | [] => [(k, f)]
  | (k', f') :: r => if N.eqb k' k then (k, f) :: r else (k', f') :: aset r k f
  end.

(* aggregateRecords for fillSrcStats = fillDstStats = true and StatsElements = [octetDeltaCount] *)
Definition ingest_existing (f : flow) (start fin delta : N) : flow :=
  let latest := fl_end f <=? fin in
  let fe := if latest then fin else fl_end f in
  let prev := if fl_edst f =? 0 then start else fl_edst f in        (* the destination-side call is the last one *)
  if fin <=? prev then MkFlow fe fin fin (fl_sd f) (fl_dd f) (fl_cd f)    (* stale: end-seconds updated, stats skipped *)
  else let sd := add64 delta (fl_sd f) in
       let dd := add64 delta (fl_dd f) in
       MkFlow fe fin fin sd dd (if latest then dd else fl_cd f).

Definition view (f : flow) : N * N * N * N := (fl_cd f, fl_sd f, fl_dd f, fl_end f).

Fixpoint insert_sorted (x : akey * (N * N * N * N)) (l : list (akey * (N * N * N * N))) :=
  match l with
  | [] => [x]
  | y :: r => if fst x <=? fst y then x :: l else y :: insert_sorted x r
  end.
Definition sorted_view (s : astate) : list (akey * (N * N * N * N)) :=
  fold_right (fun kf acc => insert_sorted (fst kf, view (snd kf)) acc) [] s.

Definition agg_step (s : astate) (o : aop) : astate * ares :=
  match o with
  | OIngest k start fin delta =>
      match alookup s k with
      | Some f => (aset s k (ingest_existing f start fin delta), RUnit)
      | None => (aset s k (MkFlow fin fin fin delta delta delta), RUnit)
      end
  | ONum => (s, RNum (N.of_nat (List.length s)))
  | OGet k => (s, RRec (option_map view (alookup s k)))
  | OScan => ([], RList (sorted_view s))
  | OExpiry => (s, RFlag (match s with [] => false | _ => true end))
  | OAll => (s, RList (sorted_view s))
  end.

(* ---- linearization certificate checker (executable; extracted) ---- *)
Local Close Scope N_scope.

Record hop := MkHop { h_thr : nat; h_idx : nat; h_op : aop; h_inv : N; h_resp : N; h_res : ares }.

Definition ares_eqb (a b : ares) : bool :=
  let v4 (x y : N * N * N * N) :=
    match x, y with (a1, a2, a3, a4), (b1, b2, b3, b4) => N.eqb a1 b1 && N.eqb a2 b2 && N.eqb a3 b3 && N.eqb a4 b4 end in
  let fix leq (x y : list (akey * (N * N * N * N))) :=
    match x, y with
    | [], [] => true
    | (k1, v1) :: r1, (k2, v2) :: r2 => N.eqb k1 k2 && v4 v1 v2 && leq r1 r2
    | _, _ => false
    end in
  match a, b with
  | RUnit, RUnit => true
  | RNum x, RNum y => N.eqb x y
  | RRec None, RRec None => true
  | RRec (Some x), RRec (Some y) => v4 x y
  | RList x, RList y => leq x y
  | RFlag x, RFlag y => Bool.eqb x y
  | _, _ => false
  end.

(* witness = positions (into the history list) in linearization order *)
Fixpoint nat_mem (n : nat) (l : list nat) : bool :=
  match l with [] => false | x :: r => Nat.eqb x n || nat_mem n r end.
Fixpoint nodup_nat (l : list nat) : bool :=
  match l with [] => true | x :: r => negb (nat_mem x r) && nodup_nat r end.
Definition is_perm (n : nat) (w : list nat) : bool :=
  Nat.eqb (List.length w) n && nodup_nat w && forallb (fun i => Nat.ltb i n) w.

(* real-time order and per-thread program order: no LATER element of the witness must precede an
   EARLIER one (b responded before a was invoked, or same thread with smaller index) *)
Fixpoint order_ok (hs : list hop) : bool :=
  match hs with
  | [] => true
  | a :: r =>
      forallb (fun b => negb (N.ltb (h_resp b) (h_inv a)) &&
                        negb (Nat.eqb (h_thr a) (h_thr b) && Nat.ltb (h_idx b) (h_idx a))) r
      && order_ok r
  end.

Fixpoint replay (hs : list hop) (s : astate) : bool * astate :=
  match hs with
  | [] => (true, s)
  | h :: r => let '(s', x) := agg_step s (h_op h) in
              if ares_eqb x (h_res h) then replay r s' else (false, s')
  end.

Definition pick (h : list hop) (w : list nat) : list hop :=
  flat_map (fun i => match nth_error h i with Some x => [x] | None => [] end) w.

(* the history h is linearizable w.r.t. agg_step from the empty state with witness w and ends in
   a state whose view is final *)
Definition lin_check (h : list hop) (w : list nat) (final : list (akey * (N * N * N * N))) : bool :=
  is_perm (List.length h) w &&
  (let hs := pick h w in
   order_ok hs &&
   (let '(ok, s) := replay hs [] in ok && ares_eqb (RList (sorted_view s)) (RList final))).
