(* Model of pkg/intermediate/aggregate.go: the flow aggregation arithmetic (property C05).

   Records are ordered (name, value) lists with FIRST-MATCH lookup, exactly like
   baseRecord.GetInfoElementWithValue; a "set" replaces the value of the first match (the Go code
   mutates the element found by that lookup in place).  Every function below mirrors the Go
   function of the same name branch by branch:
     - a getter applied to an element of the wrong concrete kind panics (baseInfoElement.GetXxxValue),
     - a method call on the nil element returned by a failed lookup panics,
     - error returns leave the record as mutated so far (AErr carries that record),
     - uint64 arithmetic wraps mod 2^64, the seconds are uint32,
     - the division by flowEndSecondsDiff panics when it is 0.
   The aggregation configuration (AggregationElements + CorrelateFields) is a parameter.
   NOT modelled: the JSON merge of "httpVals" (AUnmodelled). *)
From Coq Require Import List Bool Arith NArith ZArith String Ascii.
From Coq.Strings Require Import Byte.
From Verif.Base Require Import Bytes Outcome Str.
Import ListNotations.
Local Open Scope string_scope.
Local Open Scope N_scope.
Local Open Scope list_scope.

(* ---------------------------------------------------------------- values and records *)
(* the concrete element structs the aggregation code touches; AU32 stands for both
   Unsigned32InfoElement and DateTimeSecondsInfoElement (same getters/setters), AU64 for
   Unsigned64 / DateTimeMilliseconds; AIP4/AIP6 is an IPAddressInfoElement whose element has
   data type ipv4Address / ipv6Address; AOther is any other element kind *)
Inductive aval :=
| AU8 (n : N) | AU16 (n : N) | AU32 (n : N) | AU64 (n : N) | AI32 (z : Z)
| AStr (s : string) | AIP4 (b : list byte) | AIP6 (b : list byte) | AOther (code : N).

Inductive kind := KU8 | KU16 | KU32 | KU64 | KI32 | KStr | KIP4 | KIP6 | KOther.
Definition kind_of (v : aval) : kind :=
  match v with
  | AU8 _ => KU8 | AU16 _ => KU16 | AU32 _ => KU32 | AU64 _ => KU64 | AI32 _ => KI32
  | AStr _ => KStr | AIP4 _ => KIP4 | AIP6 _ => KIP6 | AOther _ => KOther
  end.
Definition kind_eqb (a b : kind) : bool :=
  match a, b with
  | KU8, KU8 | KU16, KU16 | KU32, KU32 | KU64, KU64 | KI32, KI32 | KStr, KStr
  | KIP4, KIP4 | KIP6, KIP6 | KOther, KOther => true
  | _, _ => false
  end.

Definition record := list (string * aval).

(* GetInfoElementWithValue: first element with that name *)
Fixpoint get (r : record) (n : string) : option aval :=
  match r with
  | [] => None
  | (m, v) :: t => if String.eqb m n then Some v else get t n
  end.
(* mutation of the element returned by GetInfoElementWithValue *)
Fixpoint set (r : record) (n : string) (v : aval) : record :=
  match r with
  | [] => []
  | (m, w) :: t => if String.eqb m n then (m, v) :: t else (m, w) :: set t n v
  end.

(* result of a piece of Go code that mutates the existing record: normal completion, error
   return (the record as mutated so far), panic, or a construct outside the model *)
Inductive ares (A : Type) :=
| AOk (a : A) | AErr (r : record) | APanic | AUnmodelled.
Arguments AOk {A} a.
Arguments AErr {A} r.
Arguments APanic {A}.
Arguments AUnmodelled {A}.
Definition abind {A B} (o : ares A) (f : A -> ares B) : ares B :=
  match o with AOk a => f a | AErr r => AErr r | APanic => APanic | AUnmodelled => AUnmodelled end.
Notation "'ado' x <- o ; f" := (abind o (fun x => f))
  (at level 200, x pattern, o at level 100, f at level 200).

(* typed getters: baseInfoElement.GetXxxValue panics unless overridden by the concrete kind *)
Definition get_u8 (v : aval) : ares N := match v with AU8 n => AOk n | _ => APanic end.
Definition get_u16 (v : aval) : ares N := match v with AU16 n => AOk n | _ => APanic end.
Definition get_u32 (v : aval) : ares N := match v with AU32 n => AOk n | _ => APanic end.
Definition get_u64 (v : aval) : ares N := match v with AU64 n => AOk n | _ => APanic end.
Definition get_i32 (v : aval) : ares Z := match v with AI32 n => AOk n | _ => APanic end.
Definition get_str (v : aval) : ares string := match v with AStr s => AOk s | _ => APanic end.
Definition get_ip (v : aval) : ares (list byte) :=
  match v with AIP4 b => AOk b | AIP6 b => AOk b | _ => APanic end.

(* x.SetXxxValue(..) on the element found under name n in r (nil element or wrong kind: panic) *)
Definition set_u8 (r : record) (n : string) (x : N) : ares record :=
  match get r n with Some (AU8 _) => AOk (set r n (AU8 x)) | _ => APanic end.
Definition set_u16 (r : record) (n : string) (x : N) : ares record :=
  match get r n with Some (AU16 _) => AOk (set r n (AU16 x)) | _ => APanic end.
Definition set_u32 (r : record) (n : string) (x : N) : ares record :=
  match get r n with Some (AU32 _) => AOk (set r n (AU32 x)) | _ => APanic end.
Definition set_u64 (r : record) (n : string) (x : N) : ares record :=
  match get r n with Some (AU64 _) => AOk (set r n (AU64 x)) | _ => APanic end.
Definition set_i32 (r : record) (n : string) (x : Z) : ares record :=
  match get r n with Some (AI32 _) => AOk (set r n (AI32 x)) | _ => APanic end.
Definition set_str (r : record) (n : string) (x : string) : ares record :=
  match get r n with Some (AStr _) => AOk (set r n (AStr x)) | _ => APanic end.
Definition set_ip (r : record) (n : string) (x : list byte) : ares record :=
  match get r n with
  | Some (AIP4 _) => AOk (set r n (AIP4 x))
  | Some (AIP6 _) => AOk (set r n (AIP6 x))
  | _ => APanic
  end.
(* the element under name n, dereferenced (nil: panic) and read as uint32 / uint64 *)
Definition rd_u32 (r : record) (n : string) : ares N :=
  match get r n with Some v => get_u32 v | None => APanic end.
Definition rd_u64 (r : record) (n : string) : ares N :=
  match get r n with Some v => get_u64 v | None => APanic end.

(* ResetValue of each concrete kind *)
Definition reset_val (v : aval) : aval :=
  match v with
  | AU8 _ => AU8 0 | AU16 _ => AU16 0 | AU32 _ => AU32 0 | AU64 _ => AU64 0 | AI32 _ => AI32 0%Z
  | AStr _ => AStr "" | AIP4 _ => AIP4 [] | AIP6 _ => AIP6 [] | AOther c => AOther c
  end.

(* strings.Contains *)
Fixpoint contains (sub s : string) : bool :=
  if String.prefix sub s then true
  else match s with EmptyString => false | String _ r => contains sub r end.

(* machine arithmetic *)
Definition W64 : N := 18446744073709551616.
Definition W32 : N := 4294967296.
Definition add64 (a b : N) : N := (a + b) mod W64.
Definition sub64 (a b : N) : N := (a mod W64 + W64 - b mod W64) mod W64.
Definition mul8 (a : N) : N := (a * 8) mod W64.

(* ---------------------------------------------------------------- configuration *)
Record agg_config := {
  c_nil : bool;                      (* AggregateElements == nil *)
  c_correlate : list string;         (* CorrelateFields *)
  c_nonstats : list string;          (* NonStatsElements *)
  c_stats : list string;             (* StatsElements *)
  c_src_stats : list string;         (* AggregatedSourceStatsElements *)
  c_dst_stats : list string;         (* AggregatedDestinationStatsElements *)
  c_flow_end : list string;          (* AntreaFlowEndSecondsElements *)
  c_tp : list string;                (* ThroughputElements *)
  c_src_tp : list string;            (* SourceThroughputElements *)
  c_dst_tp : list string;            (* DestinationThroughputElements *)
  c_reg : string -> bool             (* registry.GetInfoElement(name, AntreaEnterpriseID) succeeds *)
}.

(* InitAggregationProcess: the two length checks *)
Definition init_ok (c : agg_config) : bool :=
  c_nil c ||
  (Nat.eqb (List.length (c_stats c)) (List.length (c_src_stats c)) &&
   Nat.eqb (List.length (c_stats c)) (List.length (c_dst_stats c)) &&
   Nat.eqb (List.length (c_tp c)) (List.length (c_src_tp c)) &&
   Nat.eqb (List.length (c_tp c)) (List.length (c_dst_tp c))).

Fixpoint zip3 {A B C} (a : list A) (b : list B) (c : list C) : list (A * B * C) :=
  match a, b, c with
  | x :: a', y :: b', z :: c' => (x, y, z) :: zip3 a' b' c'
  | _, _, _ => []
  end.
Definition stat_triples (c : agg_config) := zip3 (c_stats c) (c_src_stats c) (c_dst_stats c).
Definition tp_triples (c : agg_config) := zip3 (c_tp c) (c_src_tp c) (c_dst_tp c).

(* constants of pkg/registry used by the code (checked against Gen/Consts.v in Props/C05.v) *)
Definition flow_type_inter_node : N := 2.
Definition rule_action_drop : N := 2.
Definition rule_action_reject : N := 3.
Definition end_of_flow_reason : N := 3.

(* ---------------------------------------------------------------- flow key *)
(* net.IP.String() is injective on the canonical form computed here (4-byte form of IPv4 and of
   IPv4-mapped 16-byte addresses, the 16 bytes otherwise, "<nil>" for the empty slice, "?hex"
   for any other length) - the flow key holds that string *)
Definition v4_mapped_prefix : list byte := [x00;x00;x00;x00;x00;x00;x00;x00;x00;x00;xff;xff]%byte.
Fixpoint bytes_eqb (a b : list byte) : bool :=
  match a, b with
  | [], [] => true
  | x :: a', y :: b' => Byte.eqb x y && bytes_eqb a' b'
  | _, _ => false
  end.
Definition ip_canon (b : list byte) : list byte :=
  if Nat.eqb (List.length b) 16 && bytes_eqb (firstn 12 b) v4_mapped_prefix then skipn 12 b else b.

Definition key := (list byte * list byte * N * N * N)%type.   (* src, dst, proto, sport, dport *)
Definition key_eqb (a b : key) : bool :=
  let '(s1, d1, p1, sp1, dp1) := a in
  let '(s2, d2, p2, sp2, dp2) := b in
  bytes_eqb s1 s2 && bytes_eqb d1 d2 && N.eqb p1 p2 && N.eqb sp1 sp2 && N.eqb dp1 dp2.

(* getFlowKeyFromRecord: returns (key, isIPv4) or an error *)
Definition flow_key_of (r : record) : ares (key * bool) :=
  match get r "sourceTransportPort" with
  | None => AErr []
  | Some v1 =>
  ado sp <- get_u16 v1;
  match get r "destinationTransportPort" with
  | None => AErr []
  | Some v2 =>
  ado dp <- get_u16 v2;
  match get r "protocolIdentifier" with
  | None => AErr []
  | Some v3 =>
  ado pr <- get_u8 v3;
  ado s4 <- match get r "sourceIPv4Address" with
            | None => AOk None
            | Some v => ado b <- get_ip v; AOk (Some (ip_canon b))
            end;
  ado d4 <- match get r "destinationIPv4Address" with
            | None => AOk None
            | Some v => ado b <- get_ip v; AOk (Some (ip_canon b))
            end;
  ado s <- match s4 with
           | Some a => AOk a
           | None => match get r "sourceIPv6Address" with
                     | None => AErr []
                     | Some v => ado b <- get_ip v; AOk (ip_canon b)
                     end
           end;
  ado d <- match d4 with
           | Some a => AOk a
           | None => match get r "destinationIPv6Address" with
                     | None => AErr []
                     | Some v => ado b <- get_ip v; AOk (ip_canon b)
                     end
           end;
  AOk ((s, d, pr, sp, dp),
       match s4, d4 with Some _, Some _ => true | _, _ => false end)
  end end end.

(* ---------------------------------------------------------------- node classification *)
Definition is_record_from_src (r : record) : ares bool :=
  match get r "sourcePodName" with
  | None => AOk false
  | Some v =>
      ado s <- get_str v;
      if String.eqb s "" then AOk false
      else match get r "destinationPodName" with
           | None => AOk true
           | Some w => ado d <- get_str w; AOk (String.eqb d "")
           end
  end.
Definition is_record_from_dst (r : record) : ares bool :=
  match get r "destinationPodName" with
  | None => AOk false
  | Some v =>
      ado s <- get_str v;
      if String.eqb s "" then AOk false
      else match get r "sourcePodName" with
           | None => AOk true
           | Some w => ado d <- get_str w; AOk (String.eqb d "")
           end
  end.
Definition are_records_from_same_node (r1 r2 : record) : ares bool :=
  ado a1 <- is_record_from_src r1;
  ado both_src <- (if a1 then is_record_from_src r2 else AOk false);
  if both_src then AOk true
  else
    ado b1 <- is_record_from_dst r1;
    if b1 then is_record_from_dst r2 else AOk false.

Definition is_correlation_required (flow_type : N) (r : record) : ares bool :=
  if N.eqb flow_type flow_type_inter_node then
    ado deny <- match get r "egressNetworkPolicyRuleAction" with
                | None => AOk false
                | Some v => ado a <- get_u8 v;
                            AOk (N.eqb a rule_action_drop || N.eqb a rule_action_reject)
                end;
    if deny then AOk false
    else match get r "ingressNetworkPolicyRuleAction" with
         | None => AOk true
         | Some v => ado a <- get_u8 v; AOk (negb (N.eqb a rule_action_reject))
         end
  else AOk false.

(* ---------------------------------------------------------------- correlateRecords *)
Definition all_zero (b : list byte) : bool := forallb (fun x => Byte.eqb x x00) b.
(* val.To4().String() != "0.0.0.0" *)
Definition ip4_nonzero (b : list byte) : bool :=
  if Nat.eqb (List.length b) 4 then negb (all_zero b)
  else if Nat.eqb (List.length b) 16 && bytes_eqb (firstn 12 b) v4_mapped_prefix
       then negb (all_zero (skipn 12 b))
       else true.
(* val.To16().String() != "::" *)
Definition ip6_nonzero (b : list byte) : bool :=
  if Nat.eqb (List.length b) 16 then negb (all_zero b) else true.

Definition correlate_field (inc : record) (ex : record) (field : string) : ares record :=
  match get inc field with
  | None => AOk ex
  | Some v =>
      match v with
      | AStr s => if String.eqb s "" then AOk ex else set_str ex field s
      | AU8 n => if N.eqb n 0 then AOk ex else set_u8 ex field n
      | AU16 n => if N.eqb n 0 then AOk ex else set_u16 ex field n
      | AI32 z => if Z.eqb z 0 then AOk ex else set_i32 ex field z
      | AIP4 b => if ip4_nonzero b then set_ip ex field b else AOk ex
      | AIP6 b => if ip6_nonzero b then set_ip ex field b else AOk ex
      | _ => AOk ex            (* unsupported data type: logged *)
      end
  end.
Fixpoint correlate_loop (inc ex : record) (fields : list string) : ares record :=
  match fields with
  | [] => AOk ex
  | f :: t => ado ex' <- correlate_field inc ex f; correlate_loop inc ex' t
  end.
Definition correlate_records (c : agg_config) (inc ex : record) : ares record :=
  correlate_loop inc ex (c_correlate c).

(* ---------------------------------------------------------------- aggregateRecords *)
(* updateFlowEndSecondsFromNodes: returns the updated record and the previous value *)
Definition update_flow_end_seconds_from_nodes (inc ex : record) (is_src : bool) (incoming : N)
  : ares (record * N) :=
  let name := if is_src then "flowEndSecondsFromSourceNode" else "flowEndSecondsFromDestinationNode" in
  ado existing <- rd_u32 ex name;
  ado prev <- (if N.eqb existing 0 then rd_u32 inc "flowStartSeconds" else AOk existing);
  ado ex' <- set_u32 ex name incoming;
  AOk (ex', prev).

(* one iteration of the loop over NonStatsElements *)
Definition nonstat_step (inc : record) (is_latest : bool) (ex : record) (element : string)
  : ares record :=
  match get inc element with
  | None => AErr ex
  | Some vi =>
      if String.eqb element "flowEndSeconds" then AOk ex
      else if String.eqb element "flowEndReason" then
        ado ev <- match get ex element with Some w => get_u8 w | None => APanic end;
        ado iv <- get_u8 vi;
        if N.eqb ev end_of_flow_reason then AOk ex else set_u8 ex element iv
      else if String.eqb element "tcpState" then
        if is_latest then ado s <- get_str vi; set_str ex element s else AOk ex
      else if String.eqb element "httpVals" then AUnmodelled
      else AOk ex              (* not supported: logged *)
  end.
Fixpoint nonstat_loop (inc : record) (is_latest : bool) (ex : record) (l : list string)
  : ares record :=
  match l with
  | [] => AOk ex
  | e :: t => ado ex' <- nonstat_step inc is_latest ex e; nonstat_loop inc is_latest ex' t
  end.

(* the per-node half of one iteration of the loop over StatsElements *)
Definition node_stat_update (ex : record) (node_name : string) (is_delta : bool) (iv : N)
  (oct_name roct_name : string) (acc : N * N) : ares (record * (N * N)) :=
  match get ex node_name with
  | None => AErr ex
  | Some va =>
      ado ov <- get_u64 va;
      if negb is_delta then
        let ex' := set ex node_name (AU64 iv) in
        if String.eqb node_name oct_name then AOk (ex', (sub64 iv ov, snd acc))
        else if String.eqb node_name roct_name then AOk (ex', (fst acc, sub64 iv ov))
        else AOk (ex', acc)
      else AOk (set ex node_name (AU64 (add64 iv ov)), acc)
  end.

Definition stat_step (inc : record) (fs fd is_latest : bool)
  (st : record * (N * N)) (e : string * string * string) : ares (record * (N * N)) :=
  let '(ex, acc) := st in
  let '(element, src_name, dst_name) := e in
  let is_delta := contains "Delta" element in
  match get inc element with
  | None => AErr ex
  | Some vi =>
      ado iv <- get_u64 vi;
      ado st1 <- (if fs then node_stat_update ex src_name is_delta iv
                                "octetTotalCountFromSourceNode" "reverseOctetTotalCountFromSourceNode" acc
                  else AOk (ex, acc));
      ado st2 <- (if fd then node_stat_update (fst st1) dst_name is_delta iv
                                "octetTotalCountFromDestinationNode" "reverseOctetTotalCountFromDestinationNode" (snd st1)
                  else AOk st1);
      let '(ex2, acc2) := st2 in
      if is_latest then
        if negb is_delta then
          ado cv <- rd_u64 ex2 element;
          if N.ltb cv iv then ado ex3 <- set_u64 ex2 element iv; AOk (ex3, acc2)
          else AOk (ex2, acc2)
        else
          ado ex3 <- (if fs then ado sv <- rd_u64 ex2 src_name; set_u64 ex2 element sv else AOk ex2);
          ado ex4 <- (if fd then ado dv <- rd_u64 ex3 dst_name; set_u64 ex3 element dv else AOk ex3);
          AOk (ex4, acc2)
      else AOk (ex2, acc2)
  end.
Fixpoint stat_loop (inc : record) (fs fd is_latest : bool) (st : record * (N * N))
  (l : list (string * string * string)) : ares (record * (N * N)) :=
  match l with
  | [] => AOk st
  | e :: t => ado st' <- stat_step inc fs fd is_latest st e; stat_loop inc fs fd is_latest st' t
  end.

(* the loop over ThroughputElements; vals = throughputVals[i:] (index out of range: panic) *)
Fixpoint tp_loop (fs fd is_latest : bool) (ex : record) (vals : list N)
  (l : list (string * string * string)) {struct l} : ares record :=
  match l with
  | [] => AOk ex
  | (element, src_name, dst_name) :: t =>
      match vals with
      | [] => APanic
      | v :: vals' =>
          ado ex1 <- (if fs then set_u64 ex src_name v else AOk ex);
          ado ex2 <- (if fd then set_u64 ex1 dst_name v else AOk ex1);
          ado ex3 <- (if is_latest then set_u64 ex2 element v else AOk ex2);
          tp_loop fs fd is_latest ex3 vals' t
      end
  end.

(* the flowEndSeconds part of aggregateRecords: the updated record and either None (early
   return: the record is not newer than the previous one of its node) or
   Some (isLatest, flowEndSecondsDiff) *)
Definition agg_phase1 (inc ex : record) (fs fd : bool) : ares (record * option (bool * N)) :=
  match get inc "flowEndSeconds", get ex "flowEndSeconds" with
  | Some vi, Some ve =>
      ado iv <- get_u32 vi;
      ado ev <- get_u32 ve;
      let is_latest := N.leb ev iv in
      let ex1 := if is_latest then set ex "flowEndSeconds" (AU32 iv) else ex in
      ado p2 <- (if fs then update_flow_end_seconds_from_nodes inc ex1 true iv else AOk (ex1, 0));
      ado p3 <- (if fd then update_flow_end_seconds_from_nodes inc (fst p2) false iv else AOk p2);
      if N.leb iv (snd p3) then AOk (fst p3, None)
      else AOk (fst p3, Some (is_latest, iv - snd p3))
  | _, _ => AOk (ex, Some (false, 0))
  end.

Definition aggregate_records (c : agg_config) (inc ex : record) (fs fd : bool) : ares record :=
  if c_nil c then AOk ex else
  ado ph1 <- agg_phase1 inc ex fs fd;
  match snd ph1 with
  | None => AOk (fst ph1)
  | Some (is_latest, diff) =>
      ado ex4 <- nonstat_loop inc is_latest (fst ph1) (c_nonstats c);
      ado st5 <- stat_loop inc fs fd is_latest (ex4, (0, 0)) (stat_triples c);
      if N.eqb diff 0 then APanic          (* integer divide by zero *)
      else
        let throughput := mul8 (fst (snd st5)) / diff in
        let reverse_throughput := mul8 (snd (snd st5)) / diff in
        tp_loop fs fd is_latest (fst st5) [throughput; reverse_throughput] (tp_triples c)
  end.

(* ---------------------------------------------------------------- ResetStatAndThroughputElementsInRecord *)
Fixpoint reset_names (r : record) (names : list string) : ares record :=
  match names with
  | [] => AOk r
  | n :: t => match get r n with
              | Some v => reset_names (set r n (reset_val v)) t
              | None => AErr r
              end
  end.
Fixpoint reset_stat_loop (r : record) (l : list (string * string * string)) : ares record :=
  match l with
  | [] => AOk r
  | (element, src_name, dst_name) :: t =>
      if contains "Delta" element then
        ado r' <- reset_names r [element; src_name; dst_name]; reset_stat_loop r' t
      else reset_stat_loop r t
  end.
Fixpoint reset_tp_loop (r : record) (l : list (string * string * string)) : ares record :=
  match l with
  | [] => AOk r
  | (element, src_name, dst_name) :: t =>
      ado r' <- reset_names r [element; src_name; dst_name]; reset_tp_loop r' t
  end.
Definition reset_stats (c : agg_config) (r : record) : ares record :=
  if c_nil c then APanic          (* a.aggregateElements.StatsElements on a nil pointer *)
  else ado r1 <- reset_stat_loop r (stat_triples c); reset_tp_loop r1 (tp_triples c).

(* ---------------------------------------------------------------- fields added to a new flow record *)
(* an error return here discards the incoming record: AErr carries nothing of interest *)
Fixpoint add_stats_loop (c : agg_config) (fs fd : bool) (r : record)
  (l : list (string * string * string)) : ares record :=
  match l with
  | [] => AOk r
  | (element, src_name, dst_name) :: t =>
      match get r element with
      | None => add_stats_loop c fs fd r t
      | Some v =>
          if negb (c_reg c src_name) then AErr [] else
          ado sv <- (if fs then get_u64 v else AOk 0);
          let r1 := r ++ [(src_name, AU64 sv)] in
          if negb (c_reg c dst_name) then AErr [] else
          ado dv <- (if fd then get_u64 v else AOk 0);
          add_stats_loop c fs fd (r1 ++ [(dst_name, AU64 dv)]) t
      end
  end.
Definition add_fields_for_stats (c : agg_config) (r : record) (fs fd : bool) : ares record :=
  if c_nil c then AOk r else add_stats_loop c fs fd r (stat_triples c).

Definition rd_field {A} (r : record) (n : string) (g : aval -> ares A) : ares A :=
  match get r n with Some v => g v | None => AErr [] end.

Fixpoint add_end_loop (c : agg_config) (fs fd : bool) (time_end : N) (r : record)
  (l : list string) : ares record :=
  match l with
  | [] => AOk r
  | n :: t =>
      if negb (c_reg c n) then AErr [] else
      let value := if (fs && contains "Source" n) || (fd && contains "Destination" n)
                   then time_end else 0 in
      add_end_loop c fs fd time_end (r ++ [(n, AU32 value)]) t
  end.
Fixpoint add_tp_loop (c : agg_config) (fs fd : bool) (r : record) (vals : list N)
  (l : list (string * string * string)) {struct l} : ares record :=
  match l with
  | [] => AOk r
  | (element, src_name, dst_name) :: t =>
      match vals with
      | [] => APanic
      | v :: vals' =>
          if negb (c_reg c element) then AErr [] else
          let r1 := r ++ [(element, AU64 v)] in
          if negb (c_reg c src_name) then AErr [] else
          let r2 := r1 ++ [(src_name, AU64 (if fs then v else 0))] in
          if negb (c_reg c dst_name) then AErr [] else
          let r3 := r2 ++ [(dst_name, AU64 (if fd then v else 0))] in
          add_tp_loop c fs fd r3 vals' t
      end
  end.
Definition add_fields_for_throughput (c : agg_config) (r : record) (fs fd : bool) : ares record :=
  if c_nil c then AOk r else
  ado time_start <- rd_field r "flowStartSeconds" get_u32;
  ado time_end <- rd_field r "flowEndSeconds" get_u32;
  ado byte_count <- rd_field r "octetTotalCount" get_u64;
  ado reverse_byte_count <- rd_field r "reverseOctetTotalCount" get_u64;
  ado r1 <- add_end_loop c fs fd time_end r (c_flow_end c);
  let iv := if N.ltb time_start time_end then mul8 byte_count / (time_end - time_start) else 0 in
  let riv := if N.ltb time_start time_end then mul8 reverse_byte_count / (time_end - time_start) else 0 in
  add_tp_loop c fs fd r1 [iv; riv] (tp_triples c).

(* ---------------------------------------------------------------- the flow map *)
Record flow := { fl_rec : record; fl_ready : bool; fl_retries : nat; fl_filled : bool; fl_v4 : bool }.
Definition flows := list (key * flow).     (* in order of creation *)

Fixpoint lookup (m : flows) (k : key) : option flow :=
  match m with
  | [] => None
  | (k', f) :: t => if key_eqb k' k then Some f else lookup t k
  end.
Fixpoint update (m : flows) (k : key) (f : flow) : flows :=
  match m with
  | [] => [(k, f)]
  | (k', f') :: t => if key_eqb k' k then (k', f) :: t else (k', f') :: update t k f
  end.

Inductive status := SOk | SErr | SPanic | SUnmodelled.

Definition with_rec (fl : flow) (r : record) : flow :=
  {| fl_rec := r; fl_ready := fl_ready fl; fl_retries := fl_retries fl;
     fl_filled := fl_filled fl; fl_v4 := fl_v4 fl |}.

(* a step that fails before the existing record is touched leaves the map as it is *)
Definition lift_status {A} (m : flows) (o : ares A) (k : A -> flows * status) : flows * status :=
  match o with
  | AOk a => k a
  | AErr _ => (m, SErr)
  | APanic => (m, SPanic)
  | AUnmodelled => (m, SUnmodelled)
  end.

(* aggregateRecords on the stored record: an error return leaves it partially updated *)
Definition agg_into (c : agg_config) (m : flows) (k : key) (fl : flow) (r : record)
  (fs fd : bool) : flows * status :=
  match aggregate_records c r (fl_rec fl) fs fd with
  | AOk ex' => (update m k (with_rec fl ex'), SOk)
  | AErr ex' => (update m k (with_rec fl ex'), SErr)
  | APanic => (m, SPanic)
  | AUnmodelled => (m, SUnmodelled)
  end.

(* addOrUpdateRecordInMap *)
Definition add_or_update (c : agg_config) (m : flows) (k : key) (r : record) (is_v4 : bool)
  : flows * status :=
  lift_status m (match get r "flowType" with Some v => get_u8 v | None => AOk 0 end) (fun flow_type =>
  lift_status m (is_correlation_required flow_type r) (fun corr =>
  match lookup m k with
  | Some fl =>
      if corr then
        lift_status m (if fl_ready fl then AOk false
                       else ado same <- are_records_from_same_node r (fl_rec fl); AOk (negb same)) (fun need =>
        lift_status m (if need then
                         ado ex' <- correlate_records c r (fl_rec fl);
                         AOk {| fl_rec := ex'; fl_ready := true; fl_retries := fl_retries fl;
                                fl_filled := true; fl_v4 := fl_v4 fl |}
                       else AOk fl) (fun fl1 =>
        lift_status m (is_record_from_src r) (fun src =>
        agg_into c m k fl1 r src (negb src))))
      else agg_into c m k fl r true true
  | None =>
      lift_status m (if corr then is_record_from_src r else AOk true) (fun src =>
      let fs := if corr then src else true in
      let fd := if corr then negb src else true in
      lift_status m (ado r1 <- add_fields_for_stats c r fs fd; add_fields_for_throughput c r1 fs fd) (fun r2 =>
      (update m k {| fl_rec := r2; fl_ready := negb corr; fl_retries := 0;
                     fl_filled := if corr then false
                                  else negb (N.eqb flow_type flow_type_inter_node);
                     fl_v4 := is_v4 |}, SOk)))
  end)).

(* ---------------------------------------------------------------- histories *)
(* OpRec: AggregateMsgByFlowKey on a message with one data record;
   OpReset k: ForAllRecordsDo with a callback that applies
   ResetStatAndThroughputElementsInRecord to the flow with key k *)
Inductive op := OpRec (r : record) | OpReset (k : key).

Definition reset_flow (c : agg_config) (m : flows) (k : key) : flows * status :=
  match lookup m k with
  | None => (m, SOk)
  | Some fl =>
      match reset_stats c (fl_rec fl) with
      | AOk r' => (update m k (with_rec fl r'), SOk)
      | AErr r' => (update m k (with_rec fl r'), SErr)
      | APanic => (m, SPanic)
      | AUnmodelled => (m, SUnmodelled)
      end
  end.

Definition step (c : agg_config) (m : flows) (o : op) : flows * status :=
  match o with
  | OpRec r => lift_status m (flow_key_of r) (fun kv => add_or_update c m (fst kv) r (snd kv))
  | OpReset k => reset_flow c m k
  end.

Definition run (c : agg_config) (ops : list op) : flows :=
  fold_left (fun m o => fst (step c m o)) ops [].
