(* Association lists keyed by N (flow-key ids), used both for the aggregation map
   (flowKeyRecordMap) and for the abstract expiry queue. First-match lookup; no functional
   extensionality: all statements are about [km_find]. *)
From Coq Require Import List Bool NArith.
Import ListNotations.

Section KMap.
  Context {V : Type}.
  Definition kmap := list (N * V).

  Fixpoint km_find (k : N) (m : kmap) : option V :=
    match m with
    | [] => None
    | (k', v) :: r => if N.eqb k' k then Some v else km_find k r
    end.

  (* delete(m, k) / removal of a popped item: first occurrence *)
  Fixpoint km_remove (k : N) (m : kmap) : kmap :=
    match m with
    | [] => []
    | (k', v) :: r => if N.eqb k' k then r else (k', v) :: km_remove k r
    end.

  (* append a new entry (heap.Push; insertion of a new map key) *)
  Definition km_push (k : N) (v : V) (m : kmap) : kmap := m ++ [(k, v)].

  (* overwrite the first entry of key k in place; nothing happens when k is absent *)
  Fixpoint km_set (k : N) (v : V) (m : kmap) : kmap :=
    match m with
    | [] => []
    | (k', v') :: r => if N.eqb k' k then (k', v) :: r else (k', v') :: km_set k v r
    end.

  (* m[k] = v *)
  Definition km_put (k : N) (v : V) (m : kmap) : kmap :=
    match km_find k m with Some _ => km_set k v m | None => km_push k v m end.

  Definition km_keys (m : kmap) : list N := map fst m.
  Definition km_mem (k : N) (m : kmap) : bool :=
    match km_find k m with Some _ => true | None => false end.
End KMap.
Arguments kmap V : clear implicits.

Fixpoint n_mem (k : N) (l : list N) : bool :=
  match l with [] => false | x :: r => N.eqb x k || n_mem k r end.
Fixpoint n_nodup (l : list N) : bool :=
  match l with [] => true | x :: r => negb (n_mem x r) && n_nodup r end.
