(* Unknown information elements (C17): definitions shared by the proofs and the driver. *)
From Coq Require Import List Bool Arith NArith ZArith String.
From Coq.Strings Require Import Byte.
From Verif.Base Require Import Bytes Outcome.
From Verif.Model Require Import IE Codec Decode.
Import ListNotations.
Local Open Scope N_scope.

Definition all_fields (_ : ie) : bool := true.
(* known = carries a name (the collector's own test in LenientDropUnknown) *)
Definition named (e : ie) : bool := negb (String.eqb (ie_name e) "").
Definition named_f {A} (ev : ie * A) : bool := named (fst ev).

(* some field specifier of the template record on the wire is not in the registry *)
Definition has_unknown (reg : list ie) (bytes : list byte) : bool :=
  match wire_fields (N.to_nat (wire_count bytes)) (skipn 24 bytes) with
  | Some wf => negb (forallb (spec_known reg) wf)
  | None => false
  end.

(* the view of a keep-mode message that drop mode delivers *)
Definition drop_view (mg : msg) : msg :=
  match mg with
  | TemplateMsg h tid es => TemplateMsg h tid es
  | DataMsg h tid rs => DataMsg h tid (map (filter named_f) rs)
  end.

Definition known_x (x : ie * (list byte * list byte)) : bool := named (fst x).

Definition field_bytes_ok (x : ie * (list byte * list byte)) (ev : ie * value) : Prop :=
  fst ev = fst x /\
  (ie_dt (fst x) = OctetArray -> exists o, snd ev = VOct o /\ obytes o = snd (snd x)).

