(* The set builder of the exporting side (pkg/entities/set.go, isDecoding = false):
   NewSet / PrepareSet / AddRecord / AddRecordWithExtraElements / AddRecordV2 /
   UpdateLenInHeader / ResetSet. The set header id (PrepareSet) and the records' template ids
   (the AddRecord calls) are separate pieces of state, as in the code. Records are kept newest-first
   ([s_rrecs]) so that appending is O(1); [s_recs] is the Go order. *)
From Coq Require Import List Bool Arith NArith ZArith Lia String.
From Coq.Strings Require Import Byte.
From Verif.Base Require Import Bytes Outcome.
From Verif.Gen Require Import Consts.
From Verif.Model Require Import IE Codec Record.
Import ListNotations.
Local Open Scope N_scope.
Local Notation length := List.length.

Inductive stype := STemplate | SData | SUndefined.
Definition stype_code (t : stype) : N :=
  match t with STemplate => 0 | SData => 1 | SUndefined => 255 end.
Example stype_codes_match_source :
  map stype_code [STemplate; SData; SUndefined] = [c_entities_Template; c_entities_Data; c_entities_Undefined].
Proof. reflexivity. Qed.
Definition stype_eqb (a b : stype) : bool := N.eqb (stype_code a) (stype_code b).

Definition set_header_len : N := 4.
Definition template_set_id : N := 2.
Example set_consts_match_source :
  set_header_len = c_entities_SetHeaderLen /\ template_set_id = c_entities_TemplateSetID.
Proof. split; reflexivity. Qed.

Record setb := mkSet { s_hdr : list byte; s_type : stype; s_rrecs : list rec; s_len : N }.
Definition s_recs (s : setb) : list rec := rev_append (s_rrecs s) [].   (* = rev, linear time *)

(* NewSet(false): the zero value of setType is Template *)
Definition new_set : setb := mkSet (zeros (N.to_nat set_header_len)) STemplate [] set_header_len.

(* the three ways of adding a record *)
Inductive addform := FV1 | FExtra (k : Z) | FV2.

Inductive op :=
| OPrepare (t : stype) (id : N)
| OAdd (f : addform) (els : list (ie * value)) (id : N)
| OUpdLen
| OReset.

(* createHeader *)
Definition create_header (hdr : list byte) (t : stype) (id : N) : outcome (list byte) :=
  match t with
  | STemplate => put_at hdr 0 (be 2 template_set_id)
  | SData => put_at hdr 0 (be 2 id)
  | SUndefined => Ok hdr
  end.

(* the record an add builds, by set type and add form *)
Definition build_record (t : stype) (f : addform) (els : list (ie * value)) (id : N) : outcome rec :=
  match t, f with
  | SData, FV1 => data_record_v1 els 0 id
  | SData, FExtra k => data_record_v1 els k id
  | SData, FV2 => data_record_v2 els id
  | STemplate, FV1 | STemplate, FExtra _ => tpl_record_v1 els id
  | STemplate, FV2 => tpl_record_v2 els id
  | SUndefined, _ => Err ErrSetType
  end.

(* one operation: new state and what the call returned (a panicking or failing call leaves
   the set as it was: every mutation in set.go follows the last failure point) *)
Definition step (s : setb) (o : op) : setb * outcome unit :=
  match o with
  | OPrepare t id =>
      match t with
      | SUndefined => (s, Err ErrSetType)
      | _ => match create_header (s_hdr s) t id with
             | Ok h => (mkSet h t (s_rrecs s) (s_len s), Ok tt)
             | Err k => (s, Err k) | Panic => (s, Panic) | OutOfFuel => (s, OutOfFuel)
             end
      end
  | OAdd f els id =>
      match build_record (s_type s) f els id with
      | Ok r => (mkSet (s_hdr s) (s_type s) (r :: s_rrecs s) (s_len s + rec_len r), Ok tt)
      | Err k => (s, Err k) | Panic => (s, Panic) | OutOfFuel => (s, OutOfFuel)
      end
  | OUpdLen =>
      match put_at (s_hdr s) 2 (be 2 (s_len s)) with
      | Ok h => (mkSet h (s_type s) (s_rrecs s) (s_len s), Ok tt)
      | Err k => (s, Err k) | Panic => (s, Panic) | OutOfFuel => (s, OutOfFuel)
      end
  | OReset => (mkSet (zeros (N.to_nat set_header_len)) SUndefined [] set_header_len, Ok tt)
  end.

Definition run (s : setb) (ops : list op) : setb := fold_left (fun s o => fst (step s o)) ops s.

(* the set header's id field: what the wire will say *)
Definition hdr_id (s : setb) : N := bed (firstn 2 (s_hdr s)).

(* bytes a serializer emits for the set: header, then every record's buffer in order *)
Fixpoint concat_bufs (rs : list rec) : outcome (list byte) :=
  match rs with
  | [] => Ok []
  | r :: rest => do b <- rec_buffer r; do t <- concat_bufs rest; Ok (b ++ t)
  end.
Definition serialize (s : setb) : outcome (list byte) :=
  do body <- concat_bufs (s_recs s); Ok (s_hdr s ++ body).

Definition sum_rec_len (rs : list rec) : N := fold_right (fun r a => rec_len r + a) 0 rs.

(* well-formed order: every add since NewSet / the last ResetSet is preceded by a successful
   PrepareSet. [prepared] is the state of that discipline. *)
Fixpoint wf_order (prepared : bool) (ops : list op) : bool :=
  match ops with
  | [] => true
  | OPrepare SUndefined _ :: r => wf_order prepared r
  | OPrepare _ _ :: r => wf_order true r
  | OAdd _ _ _ :: r => prepared && wf_order prepared r
  | OUpdLen :: r => wf_order prepared r
  | OReset :: r => wf_order false r
  end.

(* has a PrepareSet succeeded since the last reset (the discipline wf_order tracks) *)
Fixpoint prep_state (p : bool) (ops : list op) : bool :=
  match ops with
  | [] => p
  | OPrepare SUndefined _ :: r => prep_state p r
  | OPrepare _ _ :: r => prep_state true r
  | OReset :: r => prep_state false r
  | _ :: r => prep_state p r
  end.

(* the same operations with the add forms replaced by those of [g], in order *)
Definition form_ok (f : addform) : bool := match f with FExtra k => (0 <=? k)%Z | _ => true end.
Fixpoint reform (g : list addform) (ops : list op) : list op :=
  match ops with
  | [] => []
  | OAdd f els id :: r =>
      match g with
      | f' :: g' => OAdd f' els id :: reform g' r
      | [] => OAdd f els id :: reform [] r
      end
  | o :: r => o :: reform g r
  end.
(* hypothesis of the add-form equivalence: extra capacities are legal (k >= 0) and records
   added to a template set carry empty values (the only case in which AddRecord accepts).
   [t] is the set type at that point of the sequence. *)
Fixpoint forms_hyp (t : stype) (ops : list op) : bool :=
  match ops with
  | [] => true
  | OPrepare SUndefined _ :: r => forms_hyp t r
  | OPrepare t' _ :: r => forms_hyp t' r
  | OAdd f els _ :: r =>
      form_ok f &&
      (match t with STemplate => forallb (fun ev => is_empty (snd ev)) els | _ => true end) &&
      forms_hyp t r
  | OUpdLen :: r => forms_hyp t r
  | OReset :: r => forms_hyp SUndefined r
  end.
