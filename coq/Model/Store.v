(* Model of the standalone collector's record store (cmd/collector/collector.go):
   addIPFIXMessage (render + append, evicting the oldest entry at the cap), flowRecordHandler
   (GET /records?count=&format=), resetRecordHandler (POST /reset).
   The `%v` rendering of a single value (and of time.Unix) is NOT modelled: the harness supplies
   the formatted strings, the model assembles header, record and field lines around them. *)
From Coq Require Import List Bool Arith NArith ZArith String Ascii.
From Coq.Strings Require Import Byte.
From Verif.Base Require Import Bytes Outcome Str.
From Verif.Gen Require Import Consts.
From Verif.Model Require Import IE.
Import ListNotations.
Local Open Scope string_scope.
Local Notation length := List.length.

(* ---------------------------------------------------------------- messages as the store sees them *)
Record tfield := mkTF { tf_name : string; tf_len : N; tf_ent : N }.
(* df_fmt: what fmt's %v prints for the value the getter returns (trusted residue) *)
Record dfield := mkDF { df_name : string; df_dt : dtype; df_val : value; df_fmt : string }.
Inductive recset :=
| TemplateSet (rs : list (list tfield))
| DataSet (rs : list (list dfield)).
Record msg := mkMsg {
  m_version : N; m_len : N; m_time : N;
  m_timestr : string;           (* %v of time.Unix(int64(export time), 0) — trusted residue *)
  m_seq : N; m_dom : N; m_set : recset }.

Definition nl : string := String (ascii_of_N 10) "".

(* ---------------------------------------------------------------- rendering (addIPFIXMessage) *)
Definition header (m : msg) : string :=
  nl ++ "IPFIX-HDR:" ++ nl ++
  "  version: " ++ show_N (m_version m) ++ ",  Message Length: " ++ show_N (m_len m) ++ nl ++
  "  Exported Time: " ++ show_N (m_time m) ++ " (" ++ m_timestr m ++ ")" ++ nl ++
  "  Sequence No.: " ++ show_N (m_seq m) ++ ",  Observation Domain ID: " ++ show_N (m_dom m) ++ nl.

Definition tline (f : tfield) : string :=
  "    " ++ tf_name f ++ ": len=" ++ show_N (tf_len f) ++ " (enterprise ID = " ++ show_N (tf_ent f) ++ ") " ++ nl.

Definition dline (name text : string) : string := "    " ++ name ++ ": " ++ text ++ " " ++ nl.

Definition micro_nano_text : string := "API does not support micro and nano seconds types yet".
Definition unsupported_text : string :=
  "API supports only valid information elements with datatypes given in RFC7011".

(* the switch on elem.DataType: which getter is called (a getter of the wrong concrete kind
   panics), and what is printed *)
Definition used {A} (o : outcome A) (s : string) : outcome string := omap (fun _ => s) o.
Definition field_text (f : dfield) : outcome string :=
  let v := df_val f in let s := df_fmt f in
  match df_dt f with
  | OctetArray => used (get_oct v) s
  | Unsigned8 => used (get_u8 v) s
  | Unsigned16 => used (get_u16 v) s
  | Unsigned32 => used (get_u32 v) s
  | Unsigned64 => used (get_u64 v) s
  | Signed8 => used (get_i8 v) s
  | Signed16 => used (get_i16 v) s
  | Signed32 => used (get_i32 v) s
  | Signed64 => used (get_i64 v) s
  | Float32 => used (get_f32 v) s
  | Float64 => used (get_f64 v) s
  | Boolean => used (get_bool v) s
  | DateTimeSeconds => used (get_u32 v) s
  | DateTimeMilliseconds => used (get_u64 v) s
  | DateTimeMicroseconds | DateTimeNanoseconds => Ok micro_nano_text
  | MacAddress => used (get_mac v) s
  | Ipv4Address | Ipv6Address => used (get_ip v) s
  | String_ => used (get_str v) s
  | _ => Ok unsupported_text
  end.

(* the data types whose value is printed (all others print a fixed notice instead) *)
Definition printed_dt (d : dtype) : bool :=
  match d with
  | OctetArray | Unsigned8 | Unsigned16 | Unsigned32 | Unsigned64 | Signed8 | Signed16 | Signed32 | Signed64
  | Float32 | Float64 | Boolean | DateTimeSeconds | DateTimeMilliseconds | MacAddress
  | Ipv4Address | Ipv6Address | String_ => true
  | _ => false
  end.

Definition dfield_line (f : dfield) : outcome string :=
  omap (dline (df_name f)) (field_text f).

Fixpoint dfields (fs : list dfield) : outcome string :=
  match fs with
  | [] => Ok ""
  | f :: r => do l <- dfield_line f; do rest <- dfields r; Ok (l ++ rest)
  end.

Fixpoint drecords (i : N) (rs : list (list dfield)) : outcome string :=
  match rs with
  | [] => Ok ""
  | r :: rest =>
      do body <- dfields r; do more <- drecords (i + 1) rest;
      Ok ("  DATA RECORD-" ++ show_N i ++ ":" ++ nl ++ body ++ more)
  end.

Definition tfields (fs : list tfield) : string := String.concat "" (map tline fs).
Fixpoint trecords (i : N) (rs : list (list tfield)) : string :=
  match rs with
  | [] => ""
  | r :: rest => "  TEMPLATE RECORD-" ++ show_N i ++ ":" ++ nl ++ tfields r ++ trecords (i + 1) rest
  end.

Definition render (m : msg) : outcome string :=
  match m_set m with
  | TemplateSet rs => Ok (header m ++ "TEMPLATE SET:" ++ nl ++ trecords 0 rs)
  | DataSet rs => do b <- drecords 0 rs; Ok (header m ++ "DATA SET:" ++ nl ++ b)
  end.

Definition renders (m : msg) : bool := match render m with Ok _ => true | _ => false end.
Definition entry_list (m : msg) : list string := match render m with Ok e => [e] | _ => [] end.

(* ---------------------------------------------------------------- the store *)
Definition store := list string.

(* if len(flowRecords) >= maxFlowRecords { flowRecords[0] = ""; flowRecords = flowRecords[1:] }
   flowRecords = append(flowRecords, entry) *)
Definition add (cap : nat) (s : store) (e : string) : outcome store :=
  if Nat.leb cap (length s)
  then match s with [] => Panic | _ :: t => Ok (t ++ [e])%list end
  else Ok (s ++ [e])%list.

(* a message arrival; a panic while rendering happens before the store is touched *)
Definition arrive (cap : nat) (s : store) (m : msg) : store * bool :=
  match render m with
  | Ok e => match add cap s e with Ok s' => (s', true) | _ => (s, false) end
  | _ => (s, false)
  end.

(* strconv.Atoi: optional sign, one or more decimal digits, value within int64 *)
Definition digit_of (c : ascii) : option N :=
  let n := N_of_ascii c in if (48 <=? n)%N && (n <=? 57)%N then Some (n - 48)%N else None.
Fixpoint digits_val (s : string) (acc : N) : option N :=
  match s with
  | EmptyString => Some acc
  | String c r => match digit_of c with Some d => digits_val r (acc * 10 + d)%N | None => None end
  end.
Definition atoi (s : string) : option Z :=
  let '(neg, body) :=
    match s with
    | String "-"%char r => (true, r)
    | String "+"%char r => (false, r)
    | _ => (false, s)
    end in
  match body with
  | EmptyString => None
  | _ => match digits_val body 0 with
         | Some n => if neg then (if (n <=? 9223372036854775808)%N then Some (- Z.of_N n)%Z else None)
                     else (if (n <=? 9223372036854775807)%N then Some (Z.of_N n) else None)
         | None => None
         end
  end.

Inductive resp :=
| R405                                        (* invalid request method *)
| R400                                        (* invalid count / format *)
| R200 (json : bool) (entries : list string). (* json=false: text/plain *)

(* flowRecordHandler; an absent query parameter and an empty one are both "" (url.Values.Get) *)
Definition query (s : store) (meth countP format : string) : resp :=
  if String.eqb meth "GET" then
    let count :=
      if String.eqb countP "" then Some (-1)%Z
      else match atoi countP with
           | Some c => if (c <? 0)%Z then None else Some c
           | None => None
           end in
    match count with
    | None => R400
    | Some count =>
        let format := if String.eqb format "" then "json" else format in
        if negb (String.eqb format "text") && negb (String.eqb format "json") then R400
        else
          let n := if (count <? 0)%Z || (Z.of_nat (length s) <? count)%Z
                   then length s else Z.to_nat count in
          R200 (String.eqb format "json") (skipn (length s - n) s)
    end
  else R405.

(* resetRecordHandler *)
Definition reset (s : store) (meth : string) : store * N :=
  if String.eqb meth "POST" then ([], 200%N) else (s, 405%N).

(* the cap is the regenerated constant of cmd/collector *)
Definition store_cap : nat := N.to_nat c_cmd_collector_maxFlowRecords.

(* ---------------------------------------------------------------- histories *)
Inductive event :=
| EArrive (m : msg)
| EQuery (meth countP format : string)
| EReset (meth : string).

Definition step (cap : nat) (s : store) (e : event) : store :=
  match e with
  | EArrive m => fst (arrive cap s m)
  | EQuery _ _ _ => s
  | EReset meth => fst (reset s meth)
  end.
Definition run (cap : nat) (evs : list event) (s : store) : store := fold_left (step cap) evs s.

(* ---------------------------------------------------------------- specification level *)
Definition lastn {A} (n : nat) (l : list A) : list A := skipn (length l - n) l.

(* entries rendered by the arrivals since the last successful reset *)
Definition arrivals_step (acc : list string) (e : event) : list string :=
  match e with
  | EArrive m => match render m with Ok x => (acc ++ [x])%list | _ => acc end
  | EQuery _ _ _ => acc
  | EReset meth => if String.eqb meth "POST" then [] else acc
  end.
Definition arrivals (evs : list event) (acc : list string) : list string :=
  fold_left arrivals_step evs acc.

(* what a query must answer, given the count parameter's meaning *)
Inductive count_req := CountAll | CountN (n : N) | CountBad.
Definition count_meaning (countP : string) : count_req :=
  if String.eqb countP "" then CountAll
  else match atoi countP with
       | Some c => if (c <? 0)%Z then CountBad else CountN (Z.to_N c)
       | None => CountBad
       end.
Definition format_ok (f : string) : bool := String.eqb f "" || String.eqb f "json" || String.eqb f "text".
Definition spec_query (s : store) (meth countP format : string) : resp :=
  if negb (String.eqb meth "GET") then R405
  else match count_meaning countP with
       | CountBad => R400
       | CountAll => if format_ok format then R200 (negb (String.eqb format "text")) s else R400
       | CountN n => if format_ok format
                     then R200 (negb (String.eqb format "text")) (lastn (N.to_nat (N.min n (N.of_nat (length s)))) s)
                     else R400
       end.
