(* ConcExporter: interleaving model of the exporting process (pkg/exporter/process.go, with the
   send mutex of the F8 repair) for C14.

   Threads
     0       the application: a program of SendSet / CloseConnToCollector calls (ONE goroutine)
     1       the UDP template refresher   (absent over TCP: starts in RDone)
     2       the TCP connection checker   (absent over UDP: starts in KDone)
     >= 3    closers: any number of goroutines, each calling CloseConnToCollector any number of times
   Environment actions: a refresh tick, a check tick (time.Ticker: a pending flag, capacity 1), the
   peer closing its side. A schedule is an arbitrary list of actions; a step of a blocked or
   finished thread is a no-op. `select` with both the stop channel and a tick ready takes either
   branch: the choice is part of the action.

   Connection: a write puts one WHOLE message on the wire atomically and fails (nothing written)
   once our side is closed. SendSet = [updateTemplate | sanity check] (under templateMutex, one
   step) ; Lock sendMutex (blocking) ; sequence number update ; message built with that header ;
   write ; Unlock - the steps under the send mutex are separate micro-steps.
   closeConnToCollector = isClosed.Swap(true) ; close(stopCh) ; conn.Close - separate micro-steps.
   CloseConnToCollector = closeConnToCollector ; wg.Wait (blocks while wg > 0).

   Ghost state (not in the code): the application's log, the refresh rounds, the winner of the
   Swap, counters of close(stopCh)/conn.Close executions, `noticed` (the checker saw EOF). *)
From Coq Require Import List Bool Arith NArith Lia.
Import ListNotations.

Inductive setk := STemplate (tid : N) | SData (tid : N) (nrec : N).
Record msg := MkMsg { m_from : nat; m_set : setk; m_seq : N }.

Definition two32 : N := 4294967296%N.
Definition recs (s : setk) : N := match s with SData _ n => n | STemplate _ => 0%N end.
Definition add32 (a b : N) : N := ((a + b) mod two32)%N.

Inductive res := ROk | RErrCheck | RErrWrite.

(* SendSet in progress *)
Inductive sphase :=
| PCheck (s : setk) | PLock (s : setk) | PInc (s : setk) | PWrite (s : setk) (hdr : N) | PUnlock (s : setk) (ok : bool).
(* closeConnToCollector in progress; CWait = wg.Wait of CloseConnToCollector *)
Inductive cphase := CSwap | CStop | CConn | CWait.

Inductive aop := ASend (s : setk) | AClose.
Inductive aphase := AIdle | ASending (p : sphase) | AClosing (c : cphase).
Inductive rstate := RSelect | RSnap | RSend (todo : list N) (p : option sphase) | RClose (c : cphase) | RDone.
Inductive kstate := KSelect | KCheck | KClose (c : cphase) | KDone.

Record round := MkRound { r_snap : list N; r_sent : list N (* newest first *); r_complete : bool }.

Record shared := MkShared {
  wire : list msg;                 (* newest first *)
  closed : bool;                   (* conn.Close executed *)
  is_closed : bool;                (* the atomic flag *)
  stop_closed : bool;              (* close(stopCh) executed *)
  peer_closed : bool;
  templates : list N;              (* registered template ids, oldest first *)
  seq : N;
  send_lock : option nat;
  wg : nat;
  tick_r : bool; tick_k : bool;
  (* ghost *)
  app_log : list (setk * res);     (* newest first *)
  rounds : list round;             (* newest first *)
  winner : option nat; n_stop : nat; n_conn : nat; panicked : bool; noticed : bool }.

Record xstate := MkX {
  sh : shared;
  a_todo : list aop; a_ph : aphase;
  refr : rstate;
  chk : kstate;
  closers : nat -> nat * option cphase }.   (* remaining calls, phase of the call in progress *)

Inductive action := AStep (t : nat) (choice : bool) | ATickR | ATickK | APeerClose.

(* ---- shared-state updates ---- *)
Definition upd_wire (h : shared) v := MkShared v (closed h) (is_closed h) (stop_closed h) (peer_closed h) (templates h) (seq h) (send_lock h) (wg h) (tick_r h) (tick_k h) (app_log h) (rounds h) (winner h) (n_stop h) (n_conn h) (panicked h) (noticed h).
Definition upd_closed (h : shared) v := MkShared (wire h) v (is_closed h) (stop_closed h) (peer_closed h) (templates h) (seq h) (send_lock h) (wg h) (tick_r h) (tick_k h) (app_log h) (rounds h) (winner h) (n_stop h) (S (n_conn h)) (panicked h) (noticed h).
Definition upd_swap (h : shared) (me : nat) := MkShared (wire h) (closed h) true (stop_closed h) (peer_closed h) (templates h) (seq h) (send_lock h) (wg h) (tick_r h) (tick_k h) (app_log h) (rounds h) (Some me) (n_stop h) (n_conn h) (panicked h) (noticed h).
Definition upd_stop (h : shared) := MkShared (wire h) (closed h) (is_closed h) true (peer_closed h) (templates h) (seq h) (send_lock h) (wg h) (tick_r h) (tick_k h) (app_log h) (rounds h) (winner h) (S (n_stop h)) (n_conn h) (panicked h || stop_closed h) (noticed h).
Definition upd_peer (h : shared) := MkShared (wire h) (closed h) (is_closed h) (stop_closed h) true (templates h) (seq h) (send_lock h) (wg h) (tick_r h) (tick_k h) (app_log h) (rounds h) (winner h) (n_stop h) (n_conn h) (panicked h) (noticed h).
Definition upd_templates (h : shared) v := MkShared (wire h) (closed h) (is_closed h) (stop_closed h) (peer_closed h) v (seq h) (send_lock h) (wg h) (tick_r h) (tick_k h) (app_log h) (rounds h) (winner h) (n_stop h) (n_conn h) (panicked h) (noticed h).
Definition upd_seq (h : shared) v := MkShared (wire h) (closed h) (is_closed h) (stop_closed h) (peer_closed h) (templates h) v (send_lock h) (wg h) (tick_r h) (tick_k h) (app_log h) (rounds h) (winner h) (n_stop h) (n_conn h) (panicked h) (noticed h).
Definition upd_lock (h : shared) v := MkShared (wire h) (closed h) (is_closed h) (stop_closed h) (peer_closed h) (templates h) (seq h) v (wg h) (tick_r h) (tick_k h) (app_log h) (rounds h) (winner h) (n_stop h) (n_conn h) (panicked h) (noticed h).
Definition upd_wg (h : shared) v := MkShared (wire h) (closed h) (is_closed h) (stop_closed h) (peer_closed h) (templates h) (seq h) (send_lock h) v (tick_r h) (tick_k h) (app_log h) (rounds h) (winner h) (n_stop h) (n_conn h) (panicked h) (noticed h).
Definition upd_tick_r (h : shared) v := MkShared (wire h) (closed h) (is_closed h) (stop_closed h) (peer_closed h) (templates h) (seq h) (send_lock h) (wg h) v (tick_k h) (app_log h) (rounds h) (winner h) (n_stop h) (n_conn h) (panicked h) (noticed h).
Definition upd_tick_k (h : shared) v := MkShared (wire h) (closed h) (is_closed h) (stop_closed h) (peer_closed h) (templates h) (seq h) (send_lock h) (wg h) (tick_r h) v (app_log h) (rounds h) (winner h) (n_stop h) (n_conn h) (panicked h) (noticed h).
Definition upd_log (h : shared) v := MkShared (wire h) (closed h) (is_closed h) (stop_closed h) (peer_closed h) (templates h) (seq h) (send_lock h) (wg h) (tick_r h) (tick_k h) v (rounds h) (winner h) (n_stop h) (n_conn h) (panicked h) (noticed h).
Definition upd_rounds (h : shared) v := MkShared (wire h) (closed h) (is_closed h) (stop_closed h) (peer_closed h) (templates h) (seq h) (send_lock h) (wg h) (tick_r h) (tick_k h) (app_log h) v (winner h) (n_stop h) (n_conn h) (panicked h) (noticed h).
Definition upd_noticed (h : shared) := MkShared (wire h) (closed h) (is_closed h) (stop_closed h) (peer_closed h) (templates h) (seq h) (send_lock h) (wg h) (tick_r h) (tick_k h) (app_log h) (rounds h) (winner h) (n_stop h) (n_conn h) (panicked h) true.

Fixpoint memN (x : N) (l : list N) : bool :=
  match l with [] => false | y :: r => N.eqb y x || memN x r end.

(* ghost bookkeeping of one outcome of a SendSet of thread `me` *)
Definition log_result (me : nat) (h : shared) (s : setk) (r : res) : shared :=
  match me with
  | 0 => upd_log h ((s, r) :: app_log h)
  | _ => match r, s, rounds h with
         | ROk, STemplate t, rd :: rest => upd_rounds h (MkRound (r_snap rd) (t :: r_sent rd) (r_complete rd) :: rest)
         | _, _, _ => h
         end
  end.

Inductive sres := SCont (p : sphase) | SDone (ok : bool) | SBlocked.

(* one micro-step of SendSet by thread `me` *)
Definition send_step (me : nat) (h : shared) (p : sphase) : shared * sres :=
  match p with
  | PCheck (STemplate t) =>
      ((if memN t (templates h) then h else upd_templates h (templates h ++ [t])), SCont (PLock (STemplate t)))
  | PCheck (SData t n) =>
      if memN t (templates h) then (h, SCont (PLock (SData t n)))
      else (log_result me h (SData t n) RErrCheck, SDone false)
  | PLock s =>
      match send_lock h with
      | None => (upd_lock h (Some me), SCont (PInc s))
      | Some _ => (h, SBlocked)
      end
  | PInc s => let q := add32 (seq h) (recs s) in (upd_seq h q, SCont (PWrite s q))
  | PWrite s hdr =>
      if closed h then (log_result me h s RErrWrite, SCont (PUnlock s false))
      else (log_result me (upd_wire h (MkMsg me s hdr :: wire h)) s ROk, SCont (PUnlock s true))
  | PUnlock s ok => (upd_lock h None, SDone ok)
  end.

Inductive cres := CCont (c : cphase) | CReturned | CBlocked.

(* one micro-step of closeConnToCollector (wait = false) / CloseConnToCollector (wait = true) *)
Definition close_step (me : nat) (wait : bool) (h : shared) (c : cphase) : shared * cres :=
  let fin := if wait then CCont CWait else CReturned in
  match c with
  | CSwap => if is_closed h then (h, fin) else (upd_swap h me, CCont CStop)
  | CStop => (upd_stop h, CCont CConn)
  | CConn => (upd_closed h true, fin)
  | CWait => match wg h with O => (h, CReturned) | S _ => (h, CBlocked) end
  end.

Definition upd_closer (f : nat -> nat * option cphase) (t : nat) (x : nat * option cphase) :=
  fun u => if Nat.eqb u t then x else f u.

Definition wg_done (h : shared) : shared := upd_wg h (pred (wg h)).

Definition step_app (x : xstate) : xstate :=
  match a_ph x with
  | AIdle =>
      match a_todo x with
      | [] => x
      | ASend s :: r => MkX (sh x) r (ASending (PCheck s)) (refr x) (chk x) (closers x)
      | AClose :: r => MkX (sh x) r (AClosing CSwap) (refr x) (chk x) (closers x)
      end
  | ASending p =>
      match send_step 0 (sh x) p with
      | (h, SCont p') => MkX h (a_todo x) (ASending p') (refr x) (chk x) (closers x)
      | (h, SDone _) => MkX h (a_todo x) AIdle (refr x) (chk x) (closers x)
      | (_, SBlocked) => x
      end
  | AClosing c =>
      match close_step 0 true (sh x) c with
      | (h, CCont c') => MkX h (a_todo x) (AClosing c') (refr x) (chk x) (closers x)
      | (h, CReturned) => MkX h (a_todo x) AIdle (refr x) (chk x) (closers x)
      | (_, CBlocked) => x
      end
  end.

Definition step_refr (x : xstate) (choice : bool) : xstate :=
  let h := sh x in
  let put h' r := MkX h' (a_todo x) (a_ph x) r (chk x) (closers x) in
  match refr x with
  | RSelect =>
      match stop_closed h, tick_r h with
      | false, false => x
      | true, false => put (wg_done h) RDone
      | false, true => put (upd_tick_r h false) RSnap
      | true, true => if choice then put (wg_done h) RDone else put (upd_tick_r h false) RSnap
      end
  | RSnap => put (upd_rounds h (MkRound (templates h) [] false :: rounds h)) (RSend (templates h) None)
  | RSend [] None =>
      put (match rounds h with rd :: rest => upd_rounds h (MkRound (r_snap rd) (r_sent rd) true :: rest) | [] => h end) RSelect
  | RSend (t :: todo) None => put h (RSend todo (Some (PCheck (STemplate t))))
  | RSend todo (Some p) =>
      match send_step 1 h p with
      | (h', SCont p') => put h' (RSend todo (Some p'))
      | (h', SDone true) => put h' (RSend todo None)
      | (h', SDone false) => put h' (RClose CSwap)
      | (_, SBlocked) => x
      end
  | RClose c =>
      match close_step 1 false h c with
      | (h', CCont c') => put h' (RClose c')
      | (h', CReturned) => put (wg_done h') RDone
      | (_, CBlocked) => x
      end
  | RDone => x
  end.

Definition step_chk (x : xstate) (choice : bool) : xstate :=
  let h := sh x in
  let put h' k := MkX h' (a_todo x) (a_ph x) (refr x) k (closers x) in
  match chk x with
  | KSelect =>
      match stop_closed h, tick_k h with
      | false, false => x
      | true, false => put (wg_done h) KDone
      | false, true => put (upd_tick_k h false) KCheck
      | true, true => if choice then put (wg_done h) KDone else put (upd_tick_k h false) KCheck
      end
  | KCheck => if peer_closed h then put (upd_noticed h) (KClose CSwap) else put h KSelect
  | KClose c =>
      match close_step 2 false h c with
      | (h', CCont c') => put h' (KClose c')
      | (h', CReturned) => put (wg_done h') KDone
      | (_, CBlocked) => x
      end
  | KDone => x
  end.

Definition step_closer (x : xstate) (t : nat) : xstate :=
  let put h' v := MkX h' (a_todo x) (a_ph x) (refr x) (chk x) (upd_closer (closers x) t v) in
  match closers x t with
  | (O, None) => x
  | (S n, None) => put (sh x) (n, Some CSwap)
  | (n, Some c) =>
      match close_step t true (sh x) c with
      | (h', CCont c') => put h' (n, Some c')
      | (h', CReturned) => put h' (n, None)
      | (_, CBlocked) => x
      end
  end.

Definition with_sh (x : xstate) (h : shared) : xstate := MkX h (a_todo x) (a_ph x) (refr x) (chk x) (closers x).

Definition xstep (x : xstate) (a : action) : xstate :=
  match a with
  | AStep 0 _ => step_app x
  | AStep 1 c => step_refr x c
  | AStep 2 c => step_chk x c
  | AStep t _ => step_closer x t
  | ATickR => with_sh x (upd_tick_r (sh x) true)
  | ATickK => with_sh x (upd_tick_k (sh x) true)
  | APeerClose => with_sh x (upd_peer (sh x))
  end.

Definition xrun (x : xstate) (sched : list action) : xstate := fold_left xstep sched x.

Definition sh0 (nbg : nat) : shared :=
  MkShared [] false false false false [] 0%N None nbg false false [] [] None 0 0 false false.

(* udp = true: the refresher exists; udp = false: the checker exists *)
Definition xinit (udp : bool) (prog : list aop) (ncalls : nat -> nat) : xstate :=
  MkX (sh0 1) prog AIdle (if udp then RSelect else RDone) (if udp then KDone else KSelect)
      (fun t => (ncalls t, None)).

(* ---- trace-level predicates: the statements of C14, also applied to real traces ---- *)
Fixpoint wsum (w : list msg) : N :=
  match w with [] => 0%N | m :: r => add32 (wsum r) (recs (m_set m)) end.
(* header order = wire order: every message carries the running record count *)
Fixpoint wire_seq_ok (w : list msg) : Prop :=
  match w with [] => True | m :: r => m_seq m = wsum (m :: r) /\ wire_seq_ok r end.

Definition is_ok (e : setk * res) : bool := match snd e with ROk => true | _ => false end.
Definition is_errwrite (e : setk * res) : bool := match snd e with RErrWrite => true | _ => false end.
Definition from (t : nat) (m : msg) : bool := Nat.eqb (m_from m) t.

(* once a send has failed at the connection, no later send succeeds (log newest first) *)
Fixpoint mono (l : list (setk * res)) : Prop :=
  match l with
  | [] => True
  | e :: r => (is_ok e = true -> forallb (fun x => negb (is_errwrite x)) r = true) /\ mono r
  end.

Definition sends (p : list aop) : list setk :=
  flat_map (fun o => match o with ASend s => [s] | AClose => [] end) p.
Definition pending (p : aphase) : list setk :=
  match p with
  | ASending (PCheck s) | ASending (PLock s) | ASending (PInc s) | ASending (PWrite s _) => [s]
  | _ => []
  end.

(* ---- thread classes for the lockset discipline on the regenerated table (Gen/Locks.v) ----
   the application calls the API from ONE goroutine (class 0), except CloseConnToCollector, which
   any number of goroutines may call (class 3, multi); every `go` statement of the package is a
   single goroutine of its own class. *)
From Coq Require Import String.
From Verif.Model Require Import LockTab.
Definition exp_thr (r : root) : nat :=
  match r with
  | RApi name => if String.eqb name "CloseConnToCollector" then 3 else 0
  | RFunc _ => 0
  | RGo n _ => 10 + n
  | RTimer n _ => 100 + n
  | RCallback n _ => 200 + n
  end.
Definition exp_multi (c : nat) : bool := Nat.eqb c 3.
