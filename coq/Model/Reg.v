(* The registry as the running code builds it (regenerated table Gen/Registry.v, translator T1),
   its lookup functions and the finite facts the end-to-end theorems rely on. *)
From Coq Require Import List Bool Arith NArith String.
From Verif.Model Require Import IE.
From Verif.Gen Require Import Registry Consts.
Import ListNotations.
Local Open Scope N_scope.

Definition ie_of_row (r : string * N * N * N * N) : ie :=
  let '(name, id, dt, ent, len) := r in mkIE name id (dtype_of_code dt) ent len.

Definition registry : list ie := map ie_of_row registry_rows.

(* registry.GetInfoElementFromID(elementID, enterpriseID) *)
Definition reg_lookup_id (ent id : N) : option ie :=
  find (fun e => N.eqb (ie_ent e) ent && N.eqb (ie_id e) id) registry.
(* registry.GetInfoElement(name, enterpriseID) *)
Definition reg_lookup_name (ent : N) (name : string) : option ie :=
  find (fun e => N.eqb (ie_ent e) ent && String.eqb (ie_name e) name) registry.

Definition known_enterprise (ent : N) : bool :=
  N.eqb ent c_registry_IANAEnterpriseID || N.eqb ent c_registry_IANAReversedEnterpriseID ||
  N.eqb ent c_registry_AntreaEnterpriseID.

(* data types for which the codec is defined (Codec.wf_value can hold) *)
Definition supported (d : dtype) : bool :=
  match d with
  | OctetArray | Unsigned8 | Unsigned16 | Unsigned32 | Unsigned64 | Signed8 | Signed16
  | Signed32 | Signed64 | Float32 | Float64 | Boolean | MacAddress | String_
  | DateTimeSeconds | DateTimeMilliseconds | Ipv4Address | Ipv6Address => true
  | _ => false
  end.

(* finite obligations over the regenerated table *)
Definition ie_key_eqb (a b : ie) : bool := N.eqb (ie_ent a) (ie_ent b) && N.eqb (ie_id a) (ie_id b).
Fixpoint nodup_keys (l : list ie) : bool :=
  match l with
  | [] => true
  | e :: r => negb (existsb (ie_key_eqb e) r) && nodup_keys r
  end.
Definition row_wf (e : ie) : bool :=
  (ie_id e <? 32768) && N.eqb (ie_len e) (type_len (ie_dt e)) && known_enterprise (ie_ent e).
