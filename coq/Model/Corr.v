(* Record-level part of inter-node correlation (pkg/intermediate/aggregate.go):
   isCorrelationRequired, isRecordFromSrc/Dst, areRecordsFromSameNode, correlateRecords.
   A record is the ordered list of its (name, data type, value) elements with first-match
   lookup, exactly like baseRecord.GetInfoElementWithValue. The five-tuple elements are not
   part of the modelled record: the functions below never look them up (all names they use
   are listed in [field_table] or are the configured correlate fields). *)
From Coq Require Import List Bool NArith ZArith String.
From Coq.Strings Require Import Byte.
From Verif.Base Require Import Bytes Outcome.
From Verif.Gen Require Import Consts Registry.
From Verif.Model Require Import IE.
Import ListNotations.
Local Open Scope string_scope.

Record field := mkField { fd_name : string; fd_dt : dtype; fd_val : value }.
Definition record := list field.

(* GetInfoElementWithValue(name): first element of that name *)
Fixpoint get (n : string) (r : record) : option field :=
  match r with
  | [] => None
  | f :: r' => if String.eqb (fd_name f) n then Some f else get n r'
  end.

(* element.SetXxxValue(v) on the first element of that name (the element is shared by pointer) *)
Fixpoint set_val (n : string) (v : value) (r : record) : record :=
  match r with
  | [] => []
  | f :: r' => if String.eqb (fd_name f) n then mkField (fd_name f) (fd_dt f) v :: r'
               else f :: set_val n v r'
  end.

Definition bytes_nil (l : list byte) : bool := match l with [] => true | _ => false end.

Definition flow_type_inter_node : N := 2.
Definition action_drop : N := 2.
Definition action_reject : N := 3.
Example corr_consts_match_source :
  flow_type_inter_node = c_registry_FlowTypeInterNode /\
  action_drop = c_registry_NetworkPolicyRuleActionDrop /\
  action_reject = c_registry_NetworkPolicyRuleActionReject.
Proof. repeat split. Qed.

(* the flowType read at the top of addOrUpdateRecordInMap: 0 when the element is absent *)
Definition flow_type_of (r : record) : outcome N :=
  match get "flowType" r with
  | Some f => get_u8 (fd_val f)
  | None => Ok 0%N
  end.

(* isCorrelationRequired(flowType, record) *)
Definition is_correlation_required (ft : N) (r : record) : outcome bool :=
  if N.eqb ft flow_type_inter_node then
    do egress_stop <- match get "egressNetworkPolicyRuleAction" r with
                      | Some f => do a <- get_u8 (fd_val f); Ok (N.eqb a action_drop || N.eqb a action_reject)
                      | None => Ok false
                      end;
    if (egress_stop : bool) then Ok false else
    do ingress_stop <- match get "ingressNetworkPolicyRuleAction" r with
                       | Some f => do a <- get_u8 (fd_val f); Ok (N.eqb a action_reject)
                       | None => Ok false
                       end;
    if (ingress_stop : bool) then Ok false else Ok true
  else Ok false.

(* isRecordFromSrc: sourcePodName present and non-empty, destinationPodName absent or empty *)
Definition is_from_src (r : record) : outcome bool :=
  match get "sourcePodName" r with
  | Some f =>
      do s <- get_str (fd_val f);
      if bytes_nil s then Ok false else
      match get "destinationPodName" r with
      | Some g => do d <- get_str (fd_val g); Ok (bytes_nil d)
      | None => Ok true
      end
  | None => Ok false
  end.

(* isRecordFromDst *)
Definition is_from_dst (r : record) : outcome bool :=
  match get "destinationPodName" r with
  | Some f =>
      do d <- get_str (fd_val f);
      if bytes_nil d then Ok false else
      match get "sourcePodName" r with
      | Some g => do s <- get_str (fd_val g); Ok (bytes_nil s)
      | None => Ok true
      end
  | None => Ok false
  end.

(* areRecordsFromSameNode(record1, record2), with Go's short-circuit evaluation order *)
Definition same_node (r1 r2 : record) : outcome bool :=
  do s1 <- is_from_src r1;
  do both_src <- (if (s1 : bool) then is_from_src r2 else Ok false);
  if (both_src : bool) then Ok true else
  do d1 <- is_from_dst r1;
  if (d1 : bool) then is_from_dst r2 else Ok false.

(* the "non-empty" test of correlateRecords, per data type; None = the default branch (type not
   supported in correlation fields: logged, nothing merged); Panic = getter of the wrong kind *)
Definition zero4 : list byte := [x00; x00; x00; x00].
Definition zero16 : list byte := zeros 16.
Definition corr_nonempty (dt : dtype) (v : value) : outcome (option bool) :=
  match dt with
  | String_ => do s <- get_str v; Ok (Some (negb (bytes_nil s)))
  | Unsigned8 => do n <- get_u8 v; Ok (Some (negb (N.eqb n 0)))
  | Unsigned16 => do n <- get_u16 v; Ok (Some (negb (N.eqb n 0)))
  | Signed32 => do z <- get_i32 v; Ok (Some (negb (Z.eqb z 0)))
  | Ipv4Address =>
      (* val.To4().String() != "0.0.0.0"; a nil To4() prints "<nil>" *)
      do b <- get_ip v;
      Ok (Some (match to4 b with Some a => negb (bytes_eqb a zero4) | None => true end))
  | Ipv6Address =>
      (* val.To16().String() != "::"; only the 16-byte all-zero address prints "::" *)
      do b <- get_ip v;
      Ok (Some (negb (Nat.eqb (List.length b) 16 && bytes_eqb b zero16)))
  | _ => Ok None
  end.

(* the setter correlateRecords calls on the existing element: base implementation panics
   unless the element is of the concrete kind that owns that setter *)
Definition kind_accepts (dt : dtype) (v : value) : bool :=
  match dt, v with
  | String_, VStr _ | Unsigned8, VU8 _ | Unsigned16, VU16 _ | Signed32, VI32 _
  | Ipv4Address, VIP _ | Ipv6Address, VIP _ => true
  | _, _ => false
  end.

(* correlateRecords(incoming, existing) over the configured correlate fields *)
Fixpoint correlate (cf : list string) (inc ex : record) : outcome record :=
  match cf with
  | [] => Ok ex
  | n :: rest =>
      match get n inc with
      | None => correlate rest inc ex
      | Some f =>
          do ne <- corr_nonempty (fd_dt f) (fd_val f);
          match ne with
          | Some true =>
              match get n ex with
              | None => Panic                          (* nil element: method call on nil *)
              | Some g => if kind_accepts (fd_dt f) (fd_val g)
                          then correlate rest inc (set_val n (fd_val f) ex)
                          else Panic
              end
          | _ => correlate rest inc ex
          end
      end
  end.

(* ---- the element table of the harness (names and types checked against the registry) ---- *)
Definition field_table : list (string * dtype) :=
  [("flowType", Unsigned8); ("sourcePodName", String_); ("destinationPodName", String_);
   ("ingressNetworkPolicyRuleAction", Unsigned8); ("egressNetworkPolicyRuleAction", Unsigned8);
   ("sourcePodNamespace", String_); ("sourceNodeName", String_);
   ("destinationPodNamespace", String_); ("destinationNodeName", String_);
   ("destinationClusterIPv4", Ipv4Address); ("destinationClusterIPv6", Ipv6Address);
   ("destinationServicePort", Unsigned16); ("ingressNetworkPolicyRulePriority", Signed32);
   ("octetDeltaCount", Unsigned64); ("tcpState", String_);
   (* the end time of the flow as that node saw it: read by nothing in the correlation logic,
      the two nodes of a flow disagree on it *)
   ("flowEndSeconds", DateTimeSeconds)].

Definition registry_has (nd : string * dtype) : bool :=
  existsb (fun row => match row with (n, _, d, _, _) =>
             String.eqb n (fst nd) && N.eqb d (dtype_code (snd nd)) end) registry_rows.
Example field_table_matches_registry : forallb registry_has field_table = true.
Proof. vm_compute. reflexivity. Qed.
