(* Model of the expiry machinery of pkg/intermediate/aggregate.go:
   addOrUpdateRecordInMap (map + queue part, correlation flags), ForAllExpiredFlowRecordsDo,
   GetExpiryFromExpirePriorityQueue, with AggregateElements = nil (counters and throughput are
   property C05). Virtual time: [now] is what time.Now() returns (overlay 1).
   MaxRetries and MinExpiryTime are package variables of the code: parameters here.
   Two variants of the scan are modelled: [Orig] is the code as found (defects F4 and F5 of
   DESIGN.md section 7), [Fixed] the repaired code of the repository's "fix:" commit. *)
From Coq Require Import List Bool NArith ZArith String.
From Verif.Base Require Import Outcome.
From Verif.Model Require Import IE KMap Pq Corr.
Import ListNotations.
Local Open Scope Z_scope.

Record params := mkParams {
  pA : Z;               (* activeExpiryTimeout, ns *)
  pI : Z;               (* inactiveExpiryTimeout, ns *)
  pMR : Z;              (* MaxRetries *)
  pME : Z;              (* MinExpiryTime, ns *)
  pCF : list string     (* correlateFields *)
}.

Inductive variant := Orig | Fixed.

Record flow := mkFlow {
  f_ready : bool;       (* ReadyToSend *)
  f_retries : Z;        (* waitForReadyToSendRetries *)
  f_filled : bool;      (* areCorrelatedFieldsFilled *)
  f_v4 : bool;          (* isIPv4 *)
  f_rec : record        (* Record *)
}.

Record st := mkSt { flows : kmap flow; queue : pq }.
Definition init : st := mkSt [] [].

(* isIPv4 as returned by getFlowKeyFromRecord for the harness's key pool: even ids are IPv4 *)
Definition key_is_v4 (k : key) : bool := N.even k.

(* addOrUpdateRecordInMap(flowKey, record, isIPv4) at time now *)
Definition add_or_update (P : params) (now : Z) (k : key) (r : record) (s : st) : outcome st :=
  do ft <- flow_type_of r;
  do cr <- is_correlation_required ft r;
  match km_find k (flows s) with
  | Some f =>
      do f' <-
        (if (cr : bool) then
           do f1 <-
             (if negb (f_ready f) then
                do same <- same_node r (f_rec f);
                if (same : bool) then Ok f
                else do rec' <- correlate (pCF P) r (f_rec f);
                     Ok (mkFlow true (f_retries f) true (f_v4 f) rec')
              else Ok f);
           do _ <- is_from_src r;          (* selects the aggregateRecords call; no-op here *)
           Ok f1
         else Ok f);
      Ok (mkSt (km_put k f' (flows s)) (pq_set_inactive k (now + pI P) (queue s)))
  | None =>
      do _ <- (if (cr : bool) then is_from_src r else Ok false);
      let f := mkFlow (negb cr) 0
                 (if cr then false else negb (N.eqb ft flow_type_inter_node))
                 (key_is_v4 k) r in
      Ok (mkSt (km_put k f (flows s)) (pq_push k (now + pA P, now + pI P) (queue s)))
  end.

(* t.Before(now) in the code as found; !t.After(now) in the repaired code *)
Definition passed (v : variant) (t now : Z) : bool :=
  match v with Orig => t <? now | Fixed => t <=? now end.

(* ForAllExpiredFlowRecordsDo(callback) at time now. [fails]: keys on which the callback
   returns an error. [picks]: the items the implementation's heap handed out, in order.
   Result None: the pick sequence is not a behaviour of the abstract queue (a pick that is not
   a minimal item, a pop although the top is not due, a stop although the top is due).
   Otherwise (state, callback keys in call order, error returned?). *)
Fixpoint scan_loop (v : variant) (P : params) (now : Z) (fails : list key)
         (picks : list key) (s : st) (cbs : list key) : option (st * list key * bool) :=
  match picks with
  | [] =>
      (* the loop ended here: queue empty, or Peek() is not due *)
      match min_deadline (queue s) with
      | None => Some (s, rev cbs, false)
      | Some m => if now <? m then Some (s, rev cbs, false) else None
      end
  | p :: rest =>
      match pop_pick p (queue s) with
      | None => None
      | Some (d, q') =>
          (* topItem.activeExpireTime.After(currTime) && topItem.inactiveExpireTime.After(currTime): break *)
          if (now <? fst d) && (now <? snd d) then None
          else
            (* pqItem.flowRecord: the item points to the record stored in the map under its key *)
            match km_find p (flows s) with
            | None => None
            | Some f =>
                if negb (f_ready f) then
                  let n := f_retries f + 1 in
                  if pMR P <? n then
                    scan_loop v P now fails rest (mkSt (km_remove p (flows s)) q') cbs
                  else
                    scan_loop v P now fails rest
                      (mkSt (km_put p (mkFlow (f_ready f) n (f_filled f) (f_v4 f) (f_rec f)) (flows s))
                            (pq_push p (now + pA P, now + pI P) q')) cbs
                else if n_mem p fails then
                  (* callback error: return (nothing is popped after it) *)
                  match rest, v with
                  | _ :: _, _ => None
                  | [], Orig => Some (mkSt (flows s) q', rev (p :: cbs), true)
                  | [], Fixed => Some (mkSt (flows s) (pq_push p d q'), rev (p :: cbs), true)
                  end
                else if passed v (snd d) now then
                  scan_loop v P now fails rest (mkSt (km_remove p (flows s)) q') (p :: cbs)
                else if passed v (fst d) now then
                  scan_loop v P now fails rest (mkSt (flows s) (pq_push p (now + pA P, snd d) q')) (p :: cbs)
                else
                  scan_loop v P now fails rest (mkSt (flows s) q') (p :: cbs)
            end
      end
  end.

Definition scan (v : variant) (P : params) (now : Z) (fails picks : list key) (s : st)
  : option (st * list key * bool) := scan_loop v P now fails picks s [].

(* GetExpiryFromExpirePriorityQueue() at time now *)
Definition get_expiry (P : params) (now : Z) (s : st) : Z :=
  match min_deadline (queue s) with
  | Some m => let d := pME P + (m - now) in if d <? 0 then pME P else d
  | None => if pA P <? pI P then pA P else pI P
  end.

(* ---- histories ---- *)
Inductive op :=
| ORec (k : key) (r : record)
| OAdv (d : Z)
| OScan (fails picks : list key)
| OExp.

Inductive res :=
| RRec
| RAdv
| RScan (err : bool) (cbs picks : list key)
| RExp (d : Z).

Inductive stepr := Done (now : Z) (r : res) (s : st) | Panicked | Rejected.

Definition step (v : variant) (P : params) (now : Z) (o : op) (s : st) : stepr :=
  match o with
  | ORec k r => match add_or_update P now k r s with
                | Ok s' => Done now RRec s'
                | _ => Panicked
                end
  | OAdv d => Done (now + d) RAdv s
  | OScan fails picks => match scan v P now fails picks s with
                         | Some (s', cbs, err) => Done now (RScan err cbs picks) s'
                         | None => Rejected
                         end
  | OExp => Done now (RExp (get_expiry P now s)) s
  end.

Inductive ending := EndOk | EndPanic | EndReject.

(* the trace of a history: per executed op its result and the state after it *)
Fixpoint run (v : variant) (P : params) (ops : list op) (now : Z) (s : st) : list (res * st) * ending :=
  match ops with
  | [] => ([], EndOk)
  | o :: rest =>
      match step v P now o s with
      | Done now' r s' => let '(tr, e) := run v P rest now' s' in ((r, s') :: tr, e)
      | Panicked => ([], EndPanic)
      | Rejected => ([], EndReject)
      end
  end.
